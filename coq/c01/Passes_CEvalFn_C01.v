(* C01 (passes) — soundness of the modelled constant evaluator, part 2: every visit of [cvisit] (all guards on, as in
   the source) is an instance of the relation [CE.ce]; hence the theorems about [cvisit], [crun], [ceval]. *)
From Coq Require Import ZArith List Bool String Lia Relations.
From SV Require Import c01.Passes_Model_C01 c01.Passes_Basics_C01 c01.Passes_Compat_C01 c01.Passes_Proofs_C01 c01.Passes_CEval_C01.
Import ListNotations.
Open Scope string_scope.
Import CE.

(* the constructs the theorem excludes, decidably: a %plain-let whose binder and right-hand side counts differ and a
   rest lambda without parameter.  Neither can be written in the surface syntax (a let binding is a pair, the rest
   parameter is the identifier after the dot) and no modelled pass produces them. *)
Fixpoint nodupb (l : list string) : bool :=
  match l with [] => true | x :: r => negb (mem x r) && nodupb r end.

Fixpoint cwf (e : exp) : bool :=
  match e with
  | Num _ | Bool_ _ | Quote _ | Loc _ | Glob _ => true
  | Lam ps r b => (negb r || negb (Nat.eqb (List.length ps) 0)) && cwf b
  | Call f a => cwf f && cwfs a
  | If c t e' => cwf c && cwf t && cwf e'
  | Let xs r b => Nat.eqb (List.length xs) (elen r) && cwfs r && cwf b
  | Begin es => cwfs es
  | Prim _ a => cwfs a
  | SetG _ e' => cwf e'
  end
with cwfs (l : exps) : bool :=
  match l with ENil => true | ECons e r => cwf e && cwfs r end.

Definition has_markers (l : exps) : bool := mem "#%arity-mismatch" (gvss l).

Lemma mem_app x a b : mem x (a ++ b) = mem x a || mem x b.
Proof. unfold mem. apply existsb_app. Qed.

Lemma nodupb_NoDup l : nodupb l = true -> NoDup l.
Proof.
  induction l as [|x l IH]; cbn [nodupb]; intros H; constructor.
  - apply andb_prop in H. destruct H as [H _]. apply negb_true_iff in H. apply mem_false. exact H.
  - apply IH. apply andb_prop in H. tauto.
Qed.

(* ------------------------------------------------------------------ unfolding equations of cvisit (all guards on) *)
Definition lam_post (c c' : cenv) (ps : list string) (r : bool) (al : list exp) (a' : exps) (b' : exp)
           (u1 u2 : list string) (c1 c2 : bool) : exp * list string * bool :=
  let utc := flat_map (fun e0 => snd (to_const c e0)) al in
  let pairs := combine ps al in
  let any_used := existsb (fun xe => mem (fst xe) u2) pairs in
  let any_nonconst := existsb (fun xe => negb (mem (fst xe) u2) && isncb c (snd xe)) pairs
                      || (true && r && existsb (isncb c) (skipn (List.length ps) al)) in
  let rest_is_used := true && r && match rev ps with rp :: _ => mem rp u2 | [] => false end in
  let uout := (u1 ++ utc ++ notin ps u2)%list in
  if negb any_used && negb any_nonconst && negb rest_is_used
  then (b', uout, true)
  else match fst (to_const c' b') with
       | Some v =>
           match filter (isncb c) al with
           | [] => (Quote v, uout, true)
           | _ => (Begin (of_list (filter (isncb c) al ++ [Quote v])%list), uout, true)
           end
       | None => (Call (Lam ps r b') a', uout, c1 || c2)
       end.

Lemma cvisit_CallLam c ps r body a0 ar :
  cvisit all_on c (Call (Lam ps r body) (ECons a0 ar)) =
  if (if r then Nat.ltb (elen (ECons a0 ar)) (Nat.pred (List.length ps)) else negb (Nat.eqb (List.length ps) (elen (ECons a0 ar))))
  then (arity_marker, [], false) else
  let '(a', u1, c1) := cvisits all_on c (ECons a0 ar) in
  let c' := (rev (cbinds c ps r (elist a')) ++ c)%list in
  let '(b', u2, c2) := cvisit all_on c' body in
  lam_post c c' ps r (elist a') a' b' u1 u2 c1 c2.
Proof. reflexivity. Qed.

Lemma cvisit_Call0 c f :
  cvisit all_on c (Call f ENil) =
  let '(f', u, ch) := cvisit all_on c f in
  match f' with
  | Lam [] false b' => if is_constant c b' then (b', (u ++ read_names c b')%list, ch) else (Call f' ENil, u, ch)
  | Lam (_ :: _) false _ => (arity_marker, u, ch)
  | _ => (Call f' ENil, u, ch)
  end.
Proof. destruct f; reflexivity. Qed.

Definition is_lam (f : exp) : bool := match f with Lam _ _ _ => true | _ => false end.
Lemma cvisit_CallG c f a0 ar : is_lam f = false ->
  cvisit all_on c (Call f (ECons a0 ar)) =
  let '(a', u1, c1) := cvisits all_on c (ECons a0 ar) in
  let '(f', u2, c2) := cvisit all_on c f in
  (Call f' a', (u1 ++ u2)%list, c1 || c2).
Proof. destruct f; try discriminate; reflexivity. Qed.

Definition let_keep (c : cenv) (u2 : list string) (xs : list string) (rl : list exp) : list bool :=
  map (fun xe => mem (fst xe) u2 || isncb c (snd xe)) (combine xs rl).

Lemma cvisit_Let c xs rhs b :
  cvisit all_on c (Let xs rhs b) =
  let '(rhs', u1, c1) := cvisits all_on c rhs in
  let rl := elist rhs' in
  let c' := (rev (zipb c xs rl) ++ c)%list in
  let '(b', u2, c2) := cvisit all_on c' b in
  let keep := let_keep c u2 xs rl in
  let uout := (u1 ++ flat_map (fun e0 => snd (to_const c e0)) rl ++ notin xs u2)%list in
  if existsb (fun k => k) keep
  then (Let (select keep xs) (of_list (select keep rl)) b', uout, c1 || c2)
  else (b', uout, true).
Proof. reflexivity. Qed.

Lemma cvisit_If c t a b :
  cvisit all_on c (If t a b) =
  let '(t', u1, c1) := cvisit all_on c t in
  if is_constant c t' then
    let '(x', u2, c2) := cvisit all_on c (if truthy_constant c t' then a else b) in
    (x', (u1 ++ read_names c t' ++ u2)%list, c1 || c2)
  else
    let '(a', u2, c2) := cvisit all_on c a in
    let '(b', u3, c3) := cvisit all_on c b in
    (If t' a' b', (u1 ++ read_names c t' ++ u2 ++ u3)%list, c1 || c2 || c3).
Proof. reflexivity. Qed.

Lemma cvisit_Lam c ps r b :
  cvisit all_on c (Lam ps r b) = let '(b', u, ch) := cvisit all_on (cnon ps ++ c)%list b in (Lam ps r b', notin ps u, ch).
Proof. reflexivity. Qed.
Lemma cvisit_Loc c x :
  cvisit all_on c (Loc x) = match cget c x with
      | Some (DNum z) => (Num z, [x], false)
      | Some (DBool b) => (Bool_ b, [x], false)
      | Some _ => (Loc x, [x], false)
      | None => (Loc x, [], false)
      end.
Proof. reflexivity. Qed.
Lemma cvisit_Begin c es : cvisit all_on c (Begin es) = let '(es', u, ch) := cvisits all_on c es in (Begin es', u, ch).
Proof. reflexivity. Qed.
Lemma cvisit_Prim c op a : cvisit all_on c (Prim op a) =
  let '(a', u, ch) := cvisits all_on c a in
  match fold_prim c op (elist a') with Some e1 => (e1, u, true) | None => (Prim op a', u, ch) end.
Proof. reflexivity. Qed.
Lemma cvisit_SetG c x e : cvisit all_on c (SetG x e) = let '(e', u, ch) := cvisit all_on c e in (SetG x e', (cmark c x ++ u)%list, ch).
Proof. reflexivity. Qed.
Lemma cvisits_Cons c e r : cvisits all_on c (ECons e r) =
  let '(e', u1, c1) := cvisit all_on c e in let '(r', u2, c2) := cvisits all_on c r in (ECons e' r', (u1 ++ u2)%list, c1 || c2).
Proof. reflexivity. Qed.

(* ------------------------------------------------------------------ markers / constants *)
Definition nm (e : exp) : Prop := has_marker e = false.
Definition nms (l : exps) : Prop := has_markers l = false.

Fixpoint gvl (l : list exp) : list string := match l with [] => [] | e :: r => (gvs e ++ gvl r)%list end.
Lemma gvss_gvl l : gvss l = gvl (elist l).
Proof. induction l; cbn [gvss gvl elist]; congruence. Qed.
Lemma gvl_app a b : gvl (a ++ b) = (gvl a ++ gvl b)%list.
Proof. induction a; cbn [gvl app]; [reflexivity|]. rewrite IHa, app_assoc. reflexivity. Qed.

Lemma const_gvs c e : isncb c e = false -> gvs e = [].
Proof. unfold isncb. destruct e; cbn [to_const fst gvs]; try discriminate; reflexivity. Qed.
Lemma const_gvs' c e v : fst (to_const c e) = Some v -> gvs e = [].
Proof. intros H. apply (const_gvs c). unfold isncb. rewrite H. reflexivity. Qed.
Lemma is_constant_gvs c t : is_constant c t = true -> gvs t = [].
Proof. destruct t; cbn [is_constant gvs]; try discriminate; reflexivity. Qed.

Lemma mem_app_false x a b : mem x (a ++ b) = false <-> mem x a = false /\ mem x b = false.
Proof. rewrite mem_app. apply orb_false_iff. Qed.

Lemma gvl_select m c keep rl :
  Forall2 (fun (k : bool) e => k = false -> isncb c e = false) keep rl ->
  mem m (gvl (select keep rl)) = mem m (gvl rl).
Proof.
  induction 1 as [|k e keep rl Hk HF IH]; [reflexivity|]. destruct k; cbn [select gvl]; rewrite !mem_app.
  - rewrite IH. reflexivity.
  - rewrite (const_gvs c e (Hk eq_refl)). cbn. exact IH.
Qed.

Definition used (c : cenv) (e' : exp) (u : list string) : Prop := forall x, In x (fv e') -> cget c x <> None -> In x u.
Definition useds (c : cenv) (l' : exps) (u : list string) : Prop := forall x, In x (fvs l') -> cget c x <> None -> In x u.

Lemma in_notin ps u x : In x u -> ~ In x ps -> In x (notin ps u).
Proof. intros. unfold notin. apply in_filter_notin; assumption. Qed.

(* ------------------------------------------------------------------ lookups in the environment of a scope *)
Lemma zipb_cons c x xs e es : zipb c (x :: xs) (e :: es) = bind_of c x e :: zipb c xs es.
Proof. reflexivity. Qed.

Lemma cget_zipb_skip c : forall xs rl c0 x, ~ In x (map fst (combine xs rl)) ->
  cget (rev (zipb c xs rl) ++ c0)%list x = cget c0 x.
Proof.
  induction xs as [|y xs IH]; intros [|e rl] c0 x Hn; try reflexivity.
  cbn [zipb rev]. rewrite <- app_assoc. cbn [app]. cbn [combine map fst] in Hn.
  rewrite IH by (intros Hi; apply Hn; right; exact Hi).
  unfold bind_of. rewrite cget_cons. destruct (String.eqb x y) eqn:E; [|reflexivity].
  apply String.eqb_eq in E. subst. exfalso. apply Hn. left; reflexivity.
Qed.

Lemma my_in_firstn {A} (k : nat) (l : list A) (x : A) : In x (firstn k l) -> In x l.
Proof. revert l; induction k as [|k IH]; intros [|a l]; cbn; try tauto. intros [->|H]; [left; reflexivity|right; apply IH; exact H]. Qed.
Lemma my_in_skipn {A} (k : nat) (l : list A) (x : A) : In x (skipn k l) -> In x l.
Proof. revert l; induction k as [|k IH]; intros [|a l]; cbn; try tauto. intros H; right; apply IH; exact H. Qed.

Lemma in_combine_fst {A B} (xs : list A) (l : list B) (x : A) : In x (map fst (combine xs l)) -> In x xs.
Proof. revert l; induction xs as [|y xs IH]; intros [|b l]; cbn; try tauto. intros [->|H]; [left; reflexivity|right; eapply IH; exact H]. Qed.

Lemma cget_zipb_nodup c : forall xs rl c0 x e0, NoDup xs -> In (x, e0) (combine xs rl) ->
  cget (rev (zipb c xs rl) ++ c0)%list x = fst (to_const c e0).
Proof.
  induction xs as [|y xs IH]; intros [|e rl] c0 x e0 ND Hin; cbn [combine] in Hin; try contradiction.
  cbn [zipb rev]. rewrite <- app_assoc. cbn [app]. inversion ND; subst.
  destruct Hin as [Heq|Hin].
  - inversion Heq; subst. rewrite cget_zipb_skip by (intros Hi; apply in_combine_fst in Hi; contradiction).
    unfold bind_of. rewrite cget_cons, String.eqb_refl. destruct (fst (to_const c e0)); reflexivity.
  - apply IH; assumption.
Qed.

Lemma cget_zipb_const c : forall xs rl c0 x,
  (forall e0, In e0 (map snd (combine xs rl)) -> isncb c e0 = false) ->
  In x (map fst (combine xs rl)) -> cget (rev (zipb c xs rl) ++ c0)%list x <> None.
Proof.
  induction xs as [|y xs IH]; intros [|e rl] c0 x Hall Hin; cbn [combine map] in Hin; try contradiction.
  cbn [zipb rev]. rewrite <- app_assoc. cbn [app].
  destruct (in_dec string_dec x (map fst (combine xs rl))) as [Hi|Hi].
  - apply IH; [|exact Hi]. intros e0 He0. apply Hall. cbn [combine map]. right; exact He0.
  - rewrite cget_zipb_skip by exact Hi. destruct Hin as [Heq|Hin]; [|contradiction]. cbn [fst] in Heq. subst y.
    unfold bind_of. rewrite cget_cons, String.eqb_refl.
    specialize (Hall e (or_introl eq_refl)). unfold isncb in Hall. destruct (fst (to_const c e)); [discriminate|discriminate].
Qed.

Lemma rest_in_ps (ps : list string) rp lp : rev ps = rp :: lp -> In rp ps.
Proof. intros Er. apply in_rev. rewrite Er. left; reflexivity. Qed.

Lemma cget_binds_skip c ps r al c0 x : ~ In x ps -> cget (rev (cbinds c ps r al) ++ c0)%list x = cget c0 x.
Proof.
  intros Hn. unfold cbinds. destruct r.
  - rewrite rev_app_distr, <- app_assoc.
    destruct (rev ps) as [|rp lp] eqn:Er; cbn [rev app].
    + apply cget_zipb_skip. intros Hi. apply in_combine_fst in Hi. apply Hn. eapply my_in_firstn. exact Hi.
    + rewrite cget_cons. destruct (String.eqb x rp) eqn:E.
      * apply String.eqb_eq in E. subst. exfalso. apply Hn. eapply rest_in_ps; eassumption.
      * apply cget_zipb_skip. intros Hi. apply in_combine_fst in Hi. apply Hn. eapply my_in_firstn. exact Hi.
  - apply cget_zipb_skip. intros Hi. apply in_combine_fst in Hi. contradiction.
Qed.

Lemma all_some_const c l : (forall e0, In e0 l -> isncb c e0 = false) ->
  all_some (map (fun e0 => fst (to_const c e0)) l) <> None.
Proof.
  induction l as [|e l IH]; intros H; cbn [map all_some]; [discriminate|].
  pose proof (H e (or_introl eq_refl)) as He. unfold isncb in He. destruct (fst (to_const c e)); [|discriminate].
  destruct (all_some (map (fun e0 => fst (to_const c e0)) l)) eqn:A; [discriminate|].
  exfalso. apply IH; [|reflexivity]. intros e0 H0. apply H. right; exact H0.
Qed.

Lemma combine_firstn_fst {A B} (k : nat) (xs : list A) (l : list B) (x : A) :
  In x (map fst (combine (firstn k xs) (firstn k l))) -> In x (map fst (combine xs l)).
Proof.
  revert xs l; induction k as [|k IH]; intros [|y xs] [|b l]; cbn; try tauto.
  intros [->|H]; [left; reflexivity|right; apply IH; exact H].
Qed.
Lemma combine_firstn_snd {A B} (k : nat) (xs : list A) (l : list B) (e : B) :
  In e (map snd (combine (firstn k xs) (firstn k l))) -> In e l.
Proof.
  revert xs l; induction k as [|k IH]; intros [|y xs] [|b l]; cbn; try tauto.
  intros [->|H]; [left; reflexivity|right; eapply IH; exact H].
Qed.
Lemma combine_full_fst {A B} (xs : list A) (l : list B) (x : A) : List.length xs <= List.length l -> In x xs -> In x (map fst (combine xs l)).
Proof.
  revert l; induction xs as [|y xs IH]; intros [|b l] L; cbn [List.length] in L; cbn; try tauto; try lia.
  intros [->|H]; [left; reflexivity|right; apply IH; [lia|exact H]].
Qed.
Lemma combine_snd_in {A B} (xs : list A) (l : list B) (e : B) : In e (map snd (combine xs l)) -> In e l.
Proof. revert l; induction xs as [|y xs IH]; intros [|b l]; cbn; try tauto. intros [->|H]; [left; reflexivity|right; eapply IH; exact H]. Qed.

(* every parameter of an applied lambda whose operands are all constants is bound to a constant *)
Lemma cget_binds_const c ps r al c0 x :
  arity_okb ps r (List.length al) = true -> (forall e0, In e0 al -> isncb c e0 = false) -> In x ps ->
  cget (rev (cbinds c ps r al) ++ c0)%list x <> None.
Proof.
  intros Har Hall Hx. unfold cbinds, arity_okb in *. destruct r.
  - apply andb_prop in Har. destruct Har as [H1 H2]. apply negb_true_iff in H1. apply Nat.ltb_ge in H1.
    destruct (rev ps) as [|rp lp] eqn:Er.
    { assert (ps = []) by (rewrite <- (rev_involutive ps), Er; reflexivity). subst. contradiction. }
    rewrite rev_app_distr, <- app_assoc. cbn [rev app]. rewrite cget_cons.
    destruct (String.eqb x rp) eqn:E.
    + destruct (all_some (map (fun e0 => fst (to_const c e0)) (skipn (Nat.pred (List.length ps)) al))) eqn:A; [discriminate|].
      exfalso. eapply all_some_const; [|exact A]. intros e0 H0. apply Hall. eapply my_in_skipn; exact H0.
    + apply cget_zipb_const.
      * intros e0 H0. apply Hall. eapply combine_firstn_snd. exact H0.
      * rewrite (rev_split_last _ _ _ Er) in Hx. apply in_app_or in Hx. destruct Hx as [Hx|[Hx|[]]].
        -- apply combine_full_fst; [|exact Hx]. rewrite !firstn_length. lia.
        -- subst. rewrite String.eqb_refl in E. discriminate.
  - apply Nat.eqb_eq in Har. apply cget_zipb_const.
    + intros e0 H0. apply Hall. eapply combine_snd_in. exact H0.
    + apply combine_full_fst; [lia|exact Hx].
Qed.

Lemma existsb_false {A} (f : A -> bool) l : existsb f l = false -> forall x, In x l -> f x = false.
Proof.
  intros H x Hx. destruct (f x) eqn:E; [|reflexivity].
  assert (existsb f l = true) by (apply existsb_exists; exists x; split; assumption). congruence.
Qed.

Lemma operands_all (ps : list string) (P : exp -> Prop) : forall (al : list exp),
  (forall xe, In xe (combine ps al) -> P (snd xe)) -> (forall e0, In e0 (skipn (List.length ps) al) -> P e0) ->
  forall e0, In e0 al -> P e0.
Proof.
  induction ps as [|p ps IH]; intros al H1 H2 e0 He; [apply H2; exact He|].
  destruct al as [|e al]; [destruct He|]. cbn [combine List.length skipn] in *.
  destruct He as [->|He]; [apply (H1 (p, e0)); left; reflexivity|].
  apply (IH al); [intros xe Hxe; apply H1; right; exact Hxe|exact H2|exact He].
Qed.

Lemma in_combine_pair {A B} (xs : list A) (l : list B) (x : A) : In x (map fst (combine xs l)) -> exists e, In (x, e) (combine xs l).
Proof. intros H. apply in_map_iff in H. destruct H as ([x' e] & E & H). cbn in E. subst. exists e. exact H. Qed.

Lemma nms_of_consts c keep a' :
  Forall2 (fun (k : bool) e => k = false -> isncb c e = false) keep (elist a') ->
  mem "#%arity-mismatch" (gvl (select keep (elist a'))) = false -> nms a'.
Proof. intros HF H. unfold nms, has_markers. rewrite gvss_gvl, <- (gvl_select _ c keep _ HF). exact H. Qed.

Lemma gvs_begin_of nc q : gvs q = [] -> gvs (begin_of nc q) = gvl nc.
Proof.
  intros Hq. destruct nc as [|e nc]; cbn [begin_of]; [rewrite Hq; reflexivity|].
  cbn [gvs]. rewrite gvss_gvl, elist_of_list, gvl_app. cbn [gvl]. rewrite Hq, !app_nil_r. reflexivity.
Qed.

Lemma begin_of_eq nc q : begin_of nc q = match nc with [] => q | _ => Begin (of_list (nc ++ [q])%list) end.
Proof. reflexivity. Qed.

Lemma lam_post_ce c ps r body a a' b' u1 u2 c1 c2 e' u ch :
  arity_okb ps r (elen a') = true ->
  (nms a' -> ces c a a' /\ useds c a' u1) ->
  (nm b' -> ce (rev (cbinds c ps r (elist a')) ++ c)%list body b' /\ used (rev (cbinds c ps r (elist a')) ++ c)%list b' u2) ->
  lam_post c (rev (cbinds c ps r (elist a')) ++ c)%list ps r (elist a') a' b' u1 u2 c1 c2 = (e', u, ch) ->
  nm e' -> ce c (Call (Lam ps r body) a) e' /\ used c e' u.
Proof.
  set (c' := (rev (cbinds c ps r (elist a')) ++ c)%list). set (al := elist a').
  intros Har Hops Hbody HP Hnm. unfold lam_post in HP.
  destruct (negb (existsb (fun xe => mem (fst xe) u2) (combine ps al)) &&
            negb (existsb (fun xe => negb (mem (fst xe) u2) && isncb c (snd xe)) (combine ps al)
                  || true && r && existsb (isncb c) (skipn (List.length ps) al)) &&
            negb (true && r && match rev ps with rp :: _ => mem rp u2 | [] => false end)) eqn:D.
  - (* the scope is dropped *)
    inversion HP; subst e' u ch; clear HP.
    apply andb_prop in D. destruct D as [D D3]. apply andb_prop in D. destruct D as [D1 D2].
    apply negb_true_iff in D1, D2, D3. apply orb_false_iff in D2. destruct D2 as [D2 D4]. cbn [andb] in D3, D4.
    assert (Hall : forall e0, In e0 al -> isncb c e0 = false).
    { apply (operands_all ps (fun e0 => isncb c e0 = false)).
      - intros xe Hxe. pose proof (existsb_false _ _ D1 xe Hxe) as U. pose proof (existsb_false _ _ D2 xe Hxe) as N.
        cbv beta in U, N. rewrite U in N. cbn [negb andb] in N. exact N.
      - intros e0 He0. unfold arity_okb in Har. destruct r.
        + cbn [andb] in D4. exact (existsb_false _ _ D4 e0 He0).
        + apply Nat.eqb_eq in Har. unfold al in He0. rewrite Har, elen_length, skipn_all in He0. destruct He0. }
    assert (Hna : nms a').
    { unfold nms, has_markers. rewrite gvss_gvl. fold al. clear - Hall. induction al as [|e l IH]; [reflexivity|].
      cbn [gvl]. rewrite (const_gvs c e) by (apply Hall; left; reflexivity). cbn [app]. apply IH. intros; apply Hall; right; assumption. }
    destruct (Hops Hna) as [Ha Hua]. destruct (Hbody Hnm) as [Hb Hub].
    assert (Hfree : forall x, In x ps -> ~ In x (fv b')).
    { intros x Hx Hfv.
      assert (Hu : In x u2).
      { apply Hub; [exact Hfv|]. apply cget_binds_const; [rewrite <- elen_length; exact Har|exact Hall|exact Hx]. }
      apply mem_In in Hu.
      (* x is the rest parameter, or it is paired with an operand *)
      unfold arity_okb in Har. destruct r.
      - apply andb_prop in Har. destruct Har as [H1 H2]. apply negb_true_iff in H1. apply Nat.ltb_ge in H1.
        destruct (rev ps) as [|rp lp] eqn:Er.
        { assert (ps = []) by (rewrite <- (rev_involutive ps), Er; reflexivity). subst. contradiction. }
        rewrite (rev_split_last _ _ _ Er) in Hx. apply in_app_or in Hx. destruct Hx as [Hx|[Hx|[]]].
        + assert (Hp : In x (map fst (combine ps al))).
          { apply (combine_firstn_fst (Nat.pred (List.length ps))). apply combine_full_fst; [|exact Hx].
            rewrite !firstn_length. unfold al. rewrite <- elen_length. lia. }
          apply in_combine_pair in Hp. destruct Hp as (e0 & Hp). pose proof (existsb_false _ _ D1 _ Hp) as U. cbn [fst] in U. congruence.
        + subst x. cbn [andb] in D3. congruence.
      - apply Nat.eqb_eq in Har.
        assert (Hp : In x (map fst (combine ps al))) by (apply combine_full_fst; [unfold al; rewrite <- elen_length; lia|exact Hx]).
        apply in_combine_pair in Hp. destruct Hp as (e0 & Hp). pose proof (existsb_false _ _ D1 _ Hp) as U. cbn [fst] in U. congruence. }
    split.
    + eapply CE_Drop; try eassumption. apply forallb_forall. intros e0 He0. rewrite (Hall e0 He0). reflexivity.
    + intros x Hx Hg. apply in_or_app. right. apply in_or_app. right. apply in_notin; [|intros Hi; exact (Hfree x Hi Hx)].
      apply Hub; [exact Hx|]. unfold c'. rewrite cget_binds_skip by (intros Hi; exact (Hfree x Hi Hx)). exact Hg.
  - clear D. destruct (fst (to_const c' b')) as [v|] eqn:Hv.
    + (* the value is emitted *)
      assert (He' : e' = begin_of (filter (isncb c) al) (Quote v) /\ u = (u1 ++ flat_map (fun e0 => snd (to_const c e0)) al ++ notin ps u2)%list).
      { rewrite begin_of_eq. destruct (filter (isncb c) al); inversion HP; subst; split; reflexivity. }
      destruct He' as [-> ->]. clear HP.
      assert (Hna : nms a').
      { apply (nms_of_consts c (map (isncb c) al)); [apply F2_map_isncb|].
        fold al. rewrite <- select_filter. unfold nm, has_marker in Hnm. rewrite gvs_begin_of in Hnm by reflexivity. exact Hnm. }
      assert (Hnb : nm b') by (unfold nm, has_marker; rewrite (const_gvs' c' b' v Hv); reflexivity).
      destruct (Hops Hna) as [Ha Hua]. destruct (Hbody Hnb) as [Hb Hub].
      split; [eapply CE_Emit; eassumption|].
      intros x Hx Hg. apply in_or_app. left. apply Hua; [|exact Hg].
      rewrite fvs_fvl. fold al. eapply fvl_filter_incl. eapply fv_begin_of; [|exact Hx]. reflexivity.
    + (* the application stays *)
      inversion HP; subst e' u ch; clear HP.
      unfold nm, has_marker in Hnm. cbn [gvs] in Hnm. apply mem_app_false in Hnm. destruct Hnm as [Hna Hnb].
      destruct (Hops Hna) as [Ha Hua]. destruct (Hbody Hnb) as [Hb Hub].
      split; [eapply CE_CallLam; eassumption|].
      intros x Hx Hg. cbn [fv] in Hx. apply in_app_or in Hx. destruct Hx as [Hx|Hx].
      * apply in_or_app. left. apply Hua; assumption.
      * apply in_filter_inv in Hx. destruct Hx as [Hx Hn]. apply in_or_app. right. apply in_or_app. right.
        apply in_notin; [|exact Hn]. apply Hub; [exact Hx|]. unfold c'. rewrite cget_binds_skip by exact Hn. exact Hg.
Qed.

(* a dropped binding: its right-hand side is a constant and the body visit never read its variable; then the variable
   is not free in the visited body, unless a later binder of the same let has its name *)
Lemma keep_ok_intro c fb u2 : forall xs rl c0, List.length xs = List.length rl ->
  (forall x, In x fb -> cget (rev (zipb c xs rl) ++ c0)%list x <> None -> In x u2) ->
  keep_ok c fb (let_keep c u2 xs rl) xs rl.
Proof.
  unfold let_keep. induction xs as [|x xs IH]; intros [|e rl] c0 L H; cbn [List.length] in L; try discriminate;
    cbn [combine map keep_ok]; [exact I|].
  cbn [zipb rev] in H. rewrite <- app_assoc in H. cbn [app] in H.
  split; [|eapply (IH rl (bind_of c x e :: c0)); [lia|exact H]].
  cbn [fst snd]. intros Hf. apply orb_false_iff in Hf. destruct Hf as [Hm Hc]. split; [exact Hc|].
  destruct (in_dec string_dec x xs) as [Hi|Hi]; [right; exact Hi|left]. intros Hfb.
  assert (Hu : In x u2).
  { apply H; [exact Hfb|]. rewrite cget_zipb_skip by (intros Hq; apply in_combine_fst in Hq; contradiction).
    unfold bind_of. rewrite cget_cons, String.eqb_refl. unfold isncb in Hc. destruct (fst (to_const c e)); [discriminate|discriminate]. }
  apply mem_In in Hu. congruence.
Qed.

Lemma let_keep_F2 c u2 : forall xs rl, List.length xs = List.length rl ->
  Forall2 (fun (k : bool) e => k = false -> isncb c e = false) (let_keep c u2 xs rl) rl.
Proof.
  unfold let_keep. induction xs as [|x xs IH]; intros [|e rl] L; cbn [List.length] in L; try discriminate;
    cbn [combine map]; [constructor|]. constructor; [|apply IH; lia].
  cbn [fst snd]. intros H. apply orb_false_iff in H. tauto.
Qed.

Lemma let_post_ce c xs rhs rhs' b b' u1 u2 :
  List.length xs = elen rhs' ->
  (nms rhs' -> ces c rhs rhs' /\ useds c rhs' u1) ->
  (nm b' -> ce (rev (zipb c xs (elist rhs')) ++ c)%list b b' /\ used (rev (zipb c xs (elist rhs')) ++ c)%list b' u2) ->
  forall e', e' = (if existsb (fun k => k) (let_keep c u2 xs (elist rhs'))
                   then Let (select (let_keep c u2 xs (elist rhs')) xs) (of_list (select (let_keep c u2 xs (elist rhs')) (elist rhs'))) b'
                   else b') ->
  nm e' ->
  ce c (Let xs rhs b) e' /\
  used c e' (u1 ++ flat_map (fun e0 => snd (to_const c e0)) (elist rhs') ++ notin xs u2)%list.
Proof.
  set (rl := elist rhs'). set (c' := (rev (zipb c xs rl) ++ c)%list). set (keep := let_keep c u2 xs rl).
  intros L Hops Hbody e' -> Hnm. rewrite elen_length in L. fold rl in L.
  assert (K1 : Forall2 (fun (k : bool) e => k = false -> isncb c e = false) keep rl).
  { apply let_keep_F2. exact L. }
  assert (Hboth : nms rhs' /\ nm b').
  { destruct (existsb (fun k => k) keep) eqn:Ex.
    - unfold nm, has_marker in Hnm. cbn [gvs] in Hnm. apply mem_app_false in Hnm. destruct Hnm as [H1 H2]. split; [|exact H2].
      apply (nms_of_consts c keep); [exact K1|]. rewrite gvss_gvl, elist_of_list in H1. exact H1.
    - split; [|exact Hnm]. apply (nms_of_consts c keep); [exact K1|]. fold rl. rewrite (select_none _ _ Ex). reflexivity. }
  destruct Hboth as [Hna Hnb]. destruct (Hops Hna) as [Ha Hua]. destruct (Hbody Hnb) as [Hb Hub].
  assert (HK : keep_ok c (fv b') keep xs rl).
  { unfold keep. apply (keep_ok_intro c (fv b') u2 xs rl c L). intros x Hx Hg. apply Hub; assumption. }
  assert (Hskip : forall x, In x (fv b') -> ~ In x xs -> cget c x <> None -> In x (notin xs u2)).
  { intros x Hx Hn Hg. apply in_notin; [|exact Hn]. apply Hub; [exact Hx|]. unfold c'.
    rewrite cget_zipb_skip by (intros Hi; apply in_combine_fst in Hi; contradiction). exact Hg. }
  destruct (existsb (fun k => k) keep) eqn:Ex.
  - split; [eapply CE_Let; eassumption|].
    intros x Hx Hg. cbn [fv] in Hx. apply in_app_or in Hx. destruct Hx as [Hx|Hx].
    + apply in_or_app. left. apply Hua; [|exact Hg]. rewrite fvs_fvl, elist_of_list in Hx. rewrite fvs_fvl. eapply fvl_select_incl. exact Hx.
    + apply in_filter_inv in Hx. destruct Hx as [Hx Hn]. apply in_or_app. right. apply in_or_app. right.
      apply Hskip; [exact Hx| |exact Hg]. intros Hi. exact (keep_ok_dropped _ _ _ _ _ _ HK Hi Hn Hx).
  - split; [eapply CE_LetDrop; eassumption|].
    intros x Hx Hg. apply in_or_app. right. apply in_or_app. right.
    apply Hskip; [exact Hx| |exact Hg]. intros Hi. refine (keep_ok_dropped _ _ _ _ _ _ HK Hi _ Hx).
    rewrite (select_none _ _ Ex). intros [].
Qed.

Definition Pst (e : exp) : Prop := forall c e' u ch, cwf e = true -> cvisit all_on c e = (e', u, ch) -> nm e' -> ce c e e' /\ used c e' u.
Definition Psts (l : exps) : Prop := forall c l' u ch, cwfs l = true -> cvisits all_on c l = (l', u, ch) -> nms l' -> ces c l l' /\ useds c l' u.
Definition Pst' (e : exp) : Prop := Pst e /\ (forall ps r b, e = Lam ps r b -> Pst b).

Ltac andb_split := repeat match goal with H : (_ && _)%bool = true |- _ => apply andb_prop in H; destruct H end.

Lemma cvisit_ce_both : (forall e, Pst' e) /\ (forall l, Psts l).
Proof.
  apply exp_exps_ind.
  - (* Num *) intros z. split; [|discriminate]. intros c e' u ch _ V _. inversion V; subst. split; [constructor|intros x []].
  - intros b. split; [|discriminate]. intros c e' u ch _ V _. inversion V; subst. split; [constructor|intros x []].
  - intros d. split; [|discriminate]. intros c e' u ch _ V _. inversion V; subst. split; [constructor|intros x []].
  - (* Loc *) intros x. split; [|discriminate]. intros c e' u ch _ V _. rewrite cvisit_Loc in V.
    destruct (cget c x) as [[z|b| |a d]|] eqn:G; inversion V; subst.
    + split; [eapply CE_Prop; [exact G|reflexivity]|intros y []].
    + split; [eapply CE_Prop; [exact G|reflexivity]|intros y []].
    + split; [constructor|]. intros y [<-|[]] _. left; reflexivity.
    + split; [constructor|]. intros y [<-|[]] _. left; reflexivity.
    + split; [constructor|]. intros y [<-|[]] Hg. congruence.
  - (* Glob *) intros g. split; [|discriminate]. intros c e' u ch _ V _. inversion V; subst. split; [constructor|intros x []].
  - (* Lam *) intros ps r b [IHb _]. split; [|intros ps0 r0 b0 E; inversion E; subst; exact IHb].
    intros c e' u ch W V Hnm. rewrite cvisit_Lam in V. cbn [cwf] in W. andb_split.
    destruct (cvisit all_on (cnon ps ++ c)%list b) as [[b' ub] cb] eqn:Vb. inversion V; subst.
    destruct (IHb _ _ _ _ ltac:(assumption) Vb Hnm) as [Hb Hub].
    split; [constructor; exact Hb|]. intros x Hx Hg. cbn [fv] in Hx. apply in_filter_inv in Hx. destruct Hx as [Hx Hn].
    apply in_notin; [|exact Hn]. apply Hub; [exact Hx|]. rewrite cget_cnon. apply mem_false in Hn. rewrite Hn. exact Hg.
  - (* Call *) intros f [IHf IHfb] args IHa. split; [|discriminate].
    intros c e' u ch W V Hnm. cbn [cwf] in W. andb_split.
    destruct args as [|a0 ar].
    + rewrite cvisit_Call0 in V. destruct (cvisit all_on c f) as [[f' uf] cf] eqn:Vf.
      assert (Generic : e' = Call f' ENil -> u = uf -> ce c (Call f ENil) e' /\ used c e' u).
      { intros -> ->. unfold nm, has_marker in Hnm. cbn [gvs gvss app] in Hnm.
        destruct (IHf _ _ _ _ ltac:(assumption) Vf Hnm) as [Hf Huf].
        split; [constructor; [exact Hf|constructor]|]. intros x Hx Hg. cbn [fv fvs app] in Hx. apply Huf; assumption. }
      destruct f' as [| | | | |ps' r' b'| | | | | |]; try (inversion V; subst; apply Generic; reflexivity).
      destruct ps' as [|p ps']; destruct r'; try (inversion V; subst; apply Generic; reflexivity).
      * destruct (is_constant c b') eqn:Hk; [|inversion V; subst; apply Generic; reflexivity].
        inversion V; subst. clear Generic.
        destruct (IHf _ _ _ _ ltac:(assumption) Vf) as [Hf Huf]; [exact Hnm|].
        split; [eapply CE_Thunk; eassumption|]. intros x Hx Hg. apply in_or_app. left. apply Huf; [|exact Hg].
        cbn [fv]. rewrite filter_nil_ps. exact Hx.
      * inversion V; subst. discriminate Hnm.
    + destruct (is_lam f) eqn:Hl.
      * destruct f as [| | | | |ps r body| | | | | |]; try discriminate. rewrite cvisit_CallLam in V.
        match type of V with (if ?t then _ else _) = _ => destruct t eqn:Har end; [inversion V; subst; discriminate Hnm|].
        destruct (cvisits all_on c (ECons a0 ar)) as [[a' u1] c1] eqn:Va. cbv beta iota zeta in V.
        destruct (cvisit all_on (rev (cbinds c ps r (elist a')) ++ c)%list body) as [[b' u2] c2] eqn:Vb. cbv beta iota zeta in V.
        match goal with W : cwf (Lam _ _ _) = true |- _ => cbn [cwf] in W end. andb_split.
        assert (Hlen : elen a' = elen (ECons a0 ar)).
        { clear - Va. revert a' u1 c1 Va. generalize (ECons a0 ar) as l. induction l as [|e l IH]; intros a' u1 c1 Va.
          - inversion Va; reflexivity.
          - rewrite cvisits_Cons in Va. destruct (cvisit all_on c e) as [[e1 ue] ce1].
            destruct (cvisits all_on c l) as [[l1 ul] cl1] eqn:Vl. inversion Va; subst. cbn [elen]. f_equal. eapply IH. reflexivity. }
        eapply lam_post_ce; try eassumption.
        -- unfold arity_okb. rewrite Hlen. destruct r.
           ++ rewrite Har. cbn [negb andb]. match goal with H : (negb true || _)%bool = true |- _ => exact H end.
           ++ apply negb_false_iff in Har. exact Har.
        -- intros Hna. eapply IHa; eassumption.
        -- intros Hnb. eapply (IHfb ps r body eq_refl); eassumption.
      * rewrite (cvisit_CallG _ _ _ _ Hl) in V.
        destruct (cvisits all_on c (ECons a0 ar)) as [[a' u1] c1] eqn:Va.
        destruct (cvisit all_on c f) as [[f' u2] c2] eqn:Vf. inversion V; subst.
        unfold nm, has_marker in Hnm. cbn [gvs] in Hnm. apply mem_app_false in Hnm. destruct Hnm as [Hna Hnf].
        destruct (IHa _ _ _ _ ltac:(assumption) Va Hna) as [Ha Hua]. destruct (IHf _ _ _ _ ltac:(assumption) Vf Hnf) as [Hf Huf].
        split; [constructor; assumption|]. intros x Hx Hg. cbn [fv] in Hx. apply in_app_or in Hx. apply in_or_app.
        destruct Hx as [Hx|Hx]; [left; apply Hua|right; apply Huf]; assumption.
  - (* If *) intros t [IHt _] a [IHa _] b [IHb _]. split; [|discriminate].
    intros c e' u ch W V Hnm. cbn [cwf] in W. andb_split. rewrite cvisit_If in V.
    destruct (cvisit all_on c t) as [[t' u1] c1] eqn:Vt.
    destruct (is_constant c t') eqn:Hk.
    + assert (Hnt : nm t') by (unfold nm, has_marker; rewrite (is_constant_gvs _ _ Hk); reflexivity).
      destruct (IHt _ _ _ _ ltac:(assumption) Vt Hnt) as [Ht _].
      destruct (truthy_constant c t') eqn:Htr.
      * destruct (cvisit all_on c a) as [[x' u2] c2] eqn:Vx. inversion V; subst.
        destruct (IHa _ _ _ _ ltac:(assumption) Vx Hnm) as [Hx Hux].
        split; [eapply CE_IfT; eassumption|]. intros y Hy Hg. apply in_or_app. right. apply in_or_app. right. apply Hux; assumption.
      * destruct (cvisit all_on c b) as [[x' u2] c2] eqn:Vx. inversion V; subst.
        destruct (IHb _ _ _ _ ltac:(assumption) Vx Hnm) as [Hx Hux].
        split; [eapply CE_IfF; eassumption|]. intros y Hy Hg. apply in_or_app. right. apply in_or_app. right. apply Hux; assumption.
    + destruct (cvisit all_on c a) as [[a' u2] c2] eqn:Va. destruct (cvisit all_on c b) as [[b' u3] c3] eqn:Vb. inversion V; subst.
      unfold nm, has_marker in Hnm. cbn [gvs] in Hnm. apply mem_app_false in Hnm. destruct Hnm as [Hnt Hnm].
      apply mem_app_false in Hnm. destruct Hnm as [Hna Hnb].
      destruct (IHt _ _ _ _ ltac:(assumption) Vt Hnt) as [Ht Hut]. destruct (IHa _ _ _ _ ltac:(assumption) Va Hna) as [Ha Hua].
      destruct (IHb _ _ _ _ ltac:(assumption) Vb Hnb) as [Hb Hub].
      split; [constructor; assumption|]. intros y Hy Hg. cbn [fv] in Hy. apply in_app_or in Hy. destruct Hy as [Hy|Hy].
      * apply in_or_app. left. apply Hut; assumption.
      * apply in_or_app. right. apply in_or_app. right. apply in_app_or in Hy. apply in_or_app.
        destruct Hy as [Hy|Hy]; [left; apply Hua|right; apply Hub]; assumption.
  - (* Let *) intros xs rhs IHr b [IHb _]. split; [|discriminate].
    intros c e' u ch W V Hnm. cbn [cwf] in W. andb_split. rewrite cvisit_Let in V.
    destruct (cvisits all_on c rhs) as [[rhs' u1] c1] eqn:Vr. cbv beta iota zeta in V.
    destruct (cvisit all_on (rev (zipb c xs (elist rhs')) ++ c)%list b) as [[b' u2] c2] eqn:Vb. cbv beta iota zeta in V.
    assert (Hlen : elen rhs' = elen rhs).
    { clear - Vr. revert rhs' u1 c1 Vr. induction rhs as [|e l IH]; intros a' u1 c1 Va.
      - inversion Va; reflexivity.
      - rewrite cvisits_Cons in Va. destruct (cvisit all_on c e) as [[e1 ue] ce1].
        destruct (cvisits all_on c l) as [[l1 ul] cl1] eqn:Vl. inversion Va; subst. cbn [elen]. f_equal. eapply IH. reflexivity. }
    assert (He' : e' = (if existsb (fun k => k) (let_keep c u2 xs (elist rhs'))
                   then Let (select (let_keep c u2 xs (elist rhs')) xs) (of_list (select (let_keep c u2 xs (elist rhs')) (elist rhs'))) b'
                   else b') /\ u = (u1 ++ flat_map (fun e0 => snd (to_const c e0)) (elist rhs') ++ notin xs u2)%list).
    { cbv zeta in V. destruct (existsb (fun k => k) (let_keep c u2 xs (elist rhs'))); inversion V; subst; split; reflexivity. }
    destruct He' as [He' ->].
    eapply let_post_ce; try eassumption.
    + rewrite Hlen. apply Nat.eqb_eq. assumption.
    + intros Hna. eapply IHr; eassumption.
    + intros Hnb. eapply IHb; eassumption.
  - (* Begin *) intros es IH. split; [|discriminate]. intros c e' u ch W V Hnm. rewrite cvisit_Begin in V. cbn [cwf] in W.
    destruct (cvisits all_on c es) as [[es' u1] c1] eqn:Ve. inversion V; subst.
    destruct (IH _ _ _ _ W Ve Hnm) as [H1 H2]. split; [constructor; exact H1|exact H2].
  - (* Prim *) intros op a IH. split; [|discriminate]. intros c e' u ch W V Hnm. rewrite cvisit_Prim in V. cbn [cwf] in W.
    destruct (cvisits all_on c a) as [[es' u1] c1] eqn:Ve.
    destruct (fold_prim c op (elist es')) as [e1|] eqn:Hf; inversion V; subst.
    + (* folded: the operands are constants *)
      destruct (fold_prim_spec _ _ _ _ Hf) as (e1' & e2' & x & y & -> & Hal & H1 & H2 & ->).
      assert (Hna : nms es').
      { unfold nms, has_markers. rewrite gvss_gvl, Hal. cbn [gvl].
        rewrite (const_gvs' c e1' _ H1), (const_gvs' c e2' _ H2). reflexivity. }
      destruct (IH _ _ _ _ W Ve Hna) as [Ha _].
      split; [eapply CE_Fold; eassumption|intros z []].
    + destruct (IH _ _ _ _ W Ve Hnm) as [H1 H2]. split; [constructor; exact H1|exact H2].
  - (* SetG *) intros g e [IH _]. split; [|discriminate]. intros c e' u ch W V Hnm. rewrite cvisit_SetG in V. cbn [cwf] in W.
    destruct (cvisit all_on c e) as [[e1 u1] c1] eqn:Ve. inversion V; subst.
    assert (Hn1 : nm e1).
    { unfold nm, has_marker in *. cbn [gvs] in Hnm. unfold mem in Hnm. cbn [existsb] in Hnm. apply orb_false_iff in Hnm. apply Hnm. }
    destruct (IH _ _ _ _ W Ve Hn1) as [H1 H2]. split; [constructor; exact H1|].
    intros x Hx Hg. apply in_or_app. right. apply H2; assumption.
  - (* ENil *) intros c l' u ch _ V _. inversion V; subst. split; [constructor|intros x []].
  - (* ECons *) intros e [IHe _] r IHr c l' u ch W V Hnm. cbn [cwfs] in W. andb_split. rewrite cvisits_Cons in V.
    destruct (cvisit all_on c e) as [[e1 u1] c1] eqn:Ve. destruct (cvisits all_on c r) as [[r1 u2] c2] eqn:Vr. inversion V; subst.
    unfold nms, has_markers in Hnm. cbn [gvss] in Hnm. apply mem_app_false in Hnm. destruct Hnm as [Hn1 Hn2].
    destruct (IHe _ _ _ _ ltac:(assumption) Ve Hn1) as [H1 H2]. destruct (IHr _ _ _ _ ltac:(assumption) Vr Hn2) as [H3 H4].
    split; [constructor; assumption|]. intros x Hx Hg. cbn [fvs] in Hx. apply in_app_or in Hx. apply in_or_app.
    destruct Hx as [Hx|Hx]; [left; apply H2|right; apply H4]; assumption.
Qed.

Definition cvisit_ce := proj1 cvisit_ce_both.

(* ------------------------------------------------------------------ the visit keeps the well-formedness *)
Fixpoint cwfl (l : list exp) : bool := match l with [] => true | e :: r => cwf e && cwfl r end.
Lemma cwfs_cwfl l : cwfs l = cwfl (elist l).
Proof. induction l; cbn [cwfs cwfl elist]; congruence. Qed.
Lemma cwfl_app a b : cwfl (a ++ b) = cwfl a && cwfl b.
Proof. induction a; cbn [cwfl app]; [reflexivity|]. rewrite IHa, andb_assoc. reflexivity. Qed.
Lemma cwfl_filter (p : exp -> bool) l : cwfl l = true -> cwfl (filter p l) = true.
Proof. induction l as [|e l IH]; cbn [cwfl filter]; [auto|]. intros H. apply andb_prop in H. destruct H. destruct (p e); cbn [cwfl]; rewrite ?IH; auto. rewrite H. reflexivity. Qed.
Lemma cwfl_select keep l : cwfl l = true -> cwfl (select keep l) = true.
Proof.
  revert l; induction keep as [|k keep IH]; intros l H; [reflexivity|].
  destruct l as [|e l]; [destruct k; reflexivity|]. cbn [cwfl] in H. apply andb_prop in H. destruct H as [H1 H2].
  destruct k; cbn [select cwfl]; [rewrite H1, IH by exact H2; reflexivity|apply IH; exact H2].
Qed.
Lemma select_len {A B} keep (xs : list A) (l : list B) : List.length xs = List.length l -> List.length (select keep xs) = List.length (select keep l).
Proof.
  revert xs l; induction keep as [|k keep IH]; intros xs l L; [reflexivity|].
  destruct xs as [|x xs]; destruct l as [|b l]; cbn [List.length] in L; try discriminate; [destruct k; reflexivity|].
  destruct k; cbn [select List.length]; [f_equal|]; apply IH; lia.
Qed.
Lemma select_in {A} keep (xs : list A) (x : A) : In x (select keep xs) -> In x xs.
Proof.
  revert xs; induction keep as [|k keep IH]; intros xs H; [destruct H|].
  destruct xs as [|y xs]; [destruct k; destruct H|]. destruct k; cbn [select] in H.
  - destruct H as [->|H]; [left; reflexivity|right; apply IH; exact H].
  - right; apply IH; exact H.
Qed.
Lemma nodupb_select keep xs : nodupb xs = true -> nodupb (select keep xs) = true.
Proof.
  revert xs; induction keep as [|k keep IH]; intros xs H; [reflexivity|].
  destruct xs as [|y xs]; [destruct k; reflexivity|]. cbn [nodupb] in H. apply andb_prop in H. destruct H as [H1 H2].
  destruct k; cbn [select nodupb]; [|apply IH; exact H2].
  rewrite IH by exact H2. rewrite andb_true_r. apply negb_true_iff. apply negb_true_iff in H1.
  apply mem_false. apply mem_false in H1. intros Hi. apply H1. eapply select_in. exact Hi.
Qed.

Definition Wst (e : exp) : Prop := forall c, cwf e = true -> cwf (fst (fst (cvisit all_on c e))) = true.
Definition Wsts (l : exps) : Prop := forall c, cwfs l = true -> cwfs (fst (fst (cvisits all_on c l))) = true /\ elen (fst (fst (cvisits all_on c l))) = elen l.
Definition Wst' (e : exp) : Prop := Wst e /\ (forall ps r b, e = Lam ps r b -> Wst b).

Lemma cvisit_cwf_both : (forall e, Wst' e) /\ (forall l, Wsts l).
Proof.
  apply exp_exps_ind.
  - intros z. split; [|discriminate]. intros c _. reflexivity.
  - intros z. split; [|discriminate]. intros c _. reflexivity.
  - intros z. split; [|discriminate]. intros c _. reflexivity.
  - intros x. split; [|discriminate]. intros c _. rewrite cvisit_Loc. destruct (cget c x) as [[| | |]|]; reflexivity.
  - intros z. split; [|discriminate]. intros c _. reflexivity.
  - intros ps r b [IHb _]. split; [|intros ps0 r0 b0 E; inversion E; subst; exact IHb].
    intros c W. rewrite cvisit_Lam. cbn [cwf] in W. andb_split. specialize (IHb (cnon ps ++ c)%list ltac:(assumption)).
    destruct (cvisit all_on (cnon ps ++ c)%list b) as [[b' ub] cb]. cbn [fst cwf] in *. rewrite IHb. rewrite andb_true_r. assumption.
  - intros f [IHf IHfb] args IHa. split; [|discriminate]. intros c W. cbn [cwf] in W. andb_split.
    destruct args as [|a0 ar].
    + rewrite cvisit_Call0. specialize (IHf c ltac:(assumption)). destruct (cvisit all_on c f) as [[f' uf] cf]. cbn [fst] in IHf.
      assert (G : cwf (Call f' ENil) = true) by (cbn [cwf cwfs]; rewrite IHf; reflexivity).
      destruct f' as [| | | | |ps' r' b'| | | | | |]; try exact G.
      destruct ps' as [|p ps']; destruct r'; try exact G; [|reflexivity].
      destruct (is_constant c b'); [|exact G]. cbn [fst]. cbn [cwf] in IHf. apply andb_prop in IHf. tauto.
    + destruct (is_lam f) eqn:Hl.
      * destruct f as [| | | | |ps r body| | | | | |]; try discriminate. rewrite cvisit_CallLam.
        match goal with |- context [if ?t then _ else _] => destruct t end; [reflexivity|].
        destruct (IHa c ltac:(assumption)) as [Wa _].
        destruct (cvisits all_on c (ECons a0 ar)) as [[a' u1] c1]. cbv beta iota zeta. cbn [fst] in Wa.
        match goal with W : cwf (Lam _ _ _) = true |- _ => cbn [cwf] in W end. andb_split.
        pose proof (IHfb ps r body eq_refl (rev (cbinds c ps r (elist a')) ++ c)%list ltac:(assumption)) as Wb.
        destruct (cvisit all_on (rev (cbinds c ps r (elist a')) ++ c)%list body) as [[b' u2] c2]. cbv beta iota zeta. cbn [fst] in Wb.
        unfold lam_post. match goal with |- context [if ?t then _ else _] => destruct t end; [exact Wb|].
        destruct (fst (to_const (rev (cbinds c ps r (elist a')) ++ c)%list b')).
        -- destruct (filter (isncb c) (elist a')) eqn:F; [reflexivity|]. cbn [fst cwf]. rewrite <- F.
           rewrite cwfs_cwfl, elist_of_list, cwfl_app. rewrite cwfl_filter by (rewrite <- cwfs_cwfl; exact Wa). reflexivity.
        -- cbn [fst cwf]. rewrite Wa, Wb. rewrite !andb_true_r. assumption.
      * rewrite (cvisit_CallG _ _ _ _ Hl). destruct (IHa c ltac:(assumption)) as [Wa _]. specialize (IHf c ltac:(assumption)).
        destruct (cvisits all_on c (ECons a0 ar)) as [[a' u1] c1]. destruct (cvisit all_on c f) as [[f' u2] c2].
        cbn [fst cwf] in *. rewrite Wa, IHf. reflexivity.
  - intros t [IHt _] a [IHa _] b [IHb _]. split; [|discriminate]. intros c W. cbn [cwf] in W. andb_split. rewrite cvisit_If.
    specialize (IHt c ltac:(assumption)). specialize (IHa c ltac:(assumption)). specialize (IHb c ltac:(assumption)).
    destruct (cvisit all_on c t) as [[t' u1] c1]. destruct (is_constant c t').
    + destruct (truthy_constant c t').
      * destruct (cvisit all_on c a) as [[x' u2] c2]. exact IHa.
      * destruct (cvisit all_on c b) as [[x' u2] c2]. exact IHb.
    + destruct (cvisit all_on c a) as [[a' u2] c2]. destruct (cvisit all_on c b) as [[b' u3] c3]. cbn [fst cwf] in *.
      rewrite IHt, IHa, IHb. reflexivity.
  - intros xs rhs IHr b [IHb _]. split; [|discriminate]. intros c W. cbn [cwf] in W. andb_split. rewrite cvisit_Let.
    destruct (IHr c ltac:(assumption)) as [Wr Lr].
    destruct (cvisits all_on c rhs) as [[rhs' u1] c1]. cbv beta iota zeta. cbn [fst] in Wr, Lr.
    specialize (IHb (rev (zipb c xs (elist rhs')) ++ c)%list ltac:(assumption)).
    destruct (cvisit all_on (rev (zipb c xs (elist rhs')) ++ c)%list b) as [[b' u2] c2]. cbv beta iota zeta. cbn [fst] in IHb.
    destruct (existsb (fun k => k) (let_keep c u2 xs (elist rhs'))); [|exact IHb].
    cbn [fst cwf]. rewrite IHb, andb_true_r.
    match goal with H : Nat.eqb _ _ = true |- _ => apply Nat.eqb_eq in H; rename H into L end.
    rewrite cwfs_cwfl, elist_of_list, cwfl_select by (rewrite <- cwfs_cwfl; exact Wr).
    rewrite !andb_true_r. apply Nat.eqb_eq.
    rewrite elen_length, elist_of_list. apply select_len. rewrite <- elen_length. congruence.
  - intros es IH. split; [|discriminate]. intros c W. rewrite cvisit_Begin. cbn [cwf] in W. destruct (IH c W) as [H _].
    destruct (cvisits all_on c es) as [[es' u1] c1]. exact H.
  - intros op a IH. split; [|discriminate]. intros c W. rewrite cvisit_Prim. cbn [cwf] in W. destruct (IH c W) as [H _].
    destruct (cvisits all_on c a) as [[es' u1] c1]. cbn [fst] in H.
    destruct (fold_prim c op (elist es')) as [e1|] eqn:Hf; [|exact H].
    destruct (fold_prim_spec _ _ _ _ Hf) as (? & ? & ? & ? & _ & _ & _ & _ & ->). reflexivity.
  - intros g e [IH _]. split; [|discriminate]. intros c W. rewrite cvisit_SetG. cbn [cwf] in W. specialize (IH c W).
    destruct (cvisit all_on c e) as [[e1 u1] c1]. exact IH.
  - intros c _. split; reflexivity.
  - intros e [IHe _] r IHr c W. cbn [cwfs] in W. andb_split. rewrite cvisits_Cons.
    specialize (IHe c ltac:(assumption)). destruct (IHr c ltac:(assumption)) as [H1 H2].
    destruct (cvisit all_on c e) as [[e1 u1] c1]. destruct (cvisits all_on c r) as [[r1 u2] c2]. cbn [fst cwfs elen] in *.
    rewrite IHe, H1, H2. split; reflexivity.
Qed.
Lemma cvisit_cwf e c : cwf e = true -> cwf (fst (fst (cvisit all_on c e))) = true.
Proof. apply (proj1 (proj1 cvisit_cwf_both e)). Qed.

(* ------------------------------------------------------------------ one visit *)
Theorem cvisit_preserves : forall c e e' u ch,
  cwf e = true -> cvisit all_on c e = (e', u, ch) -> has_marker e' = false ->
  forall n s s' ρ ρ' r s1,
    srel s s' -> envrel (fv e') ρ ρ' -> cok c ρ (fv e) ->
    eval n s ρ e = Some (r, s1) ->
    exists r' s1', eval n s' ρ' e' = Some (r', s1') /\ rrel r r' /\ srel s1 s1'.
Proof.
  intros c e e' u ch W V Hnm n. intros. eapply (ce_sim n); try eassumption.
  destruct (proj1 (cvisit_ce e) c e' u ch W V Hnm) as [Hce _]. exact Hce.
Qed.

(* ------------------------------------------------------------------ the loops: ConstantEvaluatorManager::run, three times *)
(* "the compilation is not stopped by an ArityMismatch in any of the visits" (const_evaluation.rs L711-713, L805-824) *)
Fixpoint cloop_ok (k : nat) (e : exp) : bool :=
  match k with
  | O => true
  | S k' => let '(e', _, ch) := cvisit all_on [] e in negb (has_marker e') && (if ch then cloop_ok k' e' else true)
  end.
Definition crun_ok (e : exp) : bool := let '(e', _, _) := cvisit all_on [] e in negb (has_marker e') && cloop_ok 10 e'.
Definition ceval_ok (e : exp) : bool :=
  crun_ok e && crun_ok (crun all_on e) && crun_ok (crun all_on (crun all_on e)).

Inductive steps : exp -> exp -> Prop :=
| st_refl e : steps e e
| st_step e e1 e2 : ce [] e e1 -> steps e1 e2 -> steps e e2.

Lemma steps_trans a b c : steps a b -> steps b c -> steps a c.
Proof. induction 1; [auto|]. intros. econstructor; eauto. Qed.

Lemma visit_step e : cwf e = true -> has_marker (fst (fst (cvisit all_on [] e))) = false ->
  ce [] e (fst (fst (cvisit all_on [] e))) /\ cwf (fst (fst (cvisit all_on [] e))) = true.
Proof.
  intros W Hnm. split; [|apply cvisit_cwf; exact W].
  destruct (cvisit all_on [] e) as [[e' u] ch] eqn:V. cbn [fst] in *.
  destruct (proj1 (cvisit_ce e) [] e' u ch W V Hnm) as [H _]. exact H.
Qed.

Lemma cloop_steps : forall k e, cwf e = true -> cloop_ok k e = true ->
  steps e (cloop all_on k e) /\ cwf (cloop all_on k e) = true.
Proof.
  induction k as [|k IH]; intros e W H; cbn [cloop cloop_ok] in *; [split; [constructor|exact W]|].
  destruct (cvisit all_on [] e) as [[e' u] ch] eqn:V.
  apply andb_prop in H. destruct H as [Hnm Hk]. apply negb_true_iff in Hnm.
  destruct (visit_step e W) as [Hs W']; [rewrite V; exact Hnm|]. rewrite V in Hs, W'. cbn [fst] in Hs, W'.
  destruct ch.
  - destruct (IH e' W' Hk) as [S1 W1]. split; [econstructor; eassumption|exact W1].
  - split; [econstructor; [exact Hs|constructor]|exact W'].
Qed.

Lemma crun_steps e : cwf e = true -> crun_ok e = true -> steps e (crun all_on e) /\ cwf (crun all_on e) = true.
Proof.
  intros W H. unfold crun, crun_ok in *. destruct (cvisit all_on [] e) as [[e' u] ch] eqn:V.
  apply andb_prop in H. destruct H as [Hnm Hk]. apply negb_true_iff in Hnm.
  destruct (visit_step e W) as [Hs W']; [rewrite V; exact Hnm|]. rewrite V in Hs, W'. cbn [fst] in Hs, W'.
  destruct (cloop_steps 10 e' W' Hk) as [S1 W1]. split; [econstructor; eassumption|exact W1].
Qed.

Lemma ceval_steps e : cwf e = true -> ceval_ok e = true -> steps e (ceval all_on e) /\ cwf (ceval all_on e) = true.
Proof.
  intros W H. unfold ceval, ceval_ok in *. apply andb_prop in H. destruct H as [H H3]. apply andb_prop in H. destruct H as [H1 H2].
  destruct (crun_steps _ W H1) as [S1 W1]. destruct (crun_steps _ W1 H2) as [S2 W2]. destruct (crun_steps _ W2 H3) as [S3 W3].
  split; [eapply steps_trans; [exact S1|eapply steps_trans; [exact S2|exact S3]]|exact W3].
Qed.

(* results after several visits: a chain of related results (closures differ by their rewritten bodies) *)
Definition orel1 (a b : res * state) : Prop := rrel (fst a) (fst b) /\ srel (snd a) (snd b).
Definition ostar : res * state -> res * state -> Prop := clos_refl_trans _ orel1.

Lemma steps_sim e e2 : steps e e2 -> forall n s ρ r s1, eval n s ρ e = Some (r, s1) ->
  exists r' s1', eval n s ρ e2 = Some (r', s1') /\ ostar (r, s1) (r', s1').
Proof.
  induction 1 as [e|e e1 e2 H1 H2 IH]; intros n s ρ r s1 E.
  - exists r, s1. split; [exact E|apply rt_refl].
  - destruct (ce_sim n _ _ _ H1 s s ρ ρ r s1 (srel_refl s) (envrel_refl _ ρ) (cok_nil ρ _) E) as (r1 & s11 & E1 & Hr & Hs).
    destruct (IH n s ρ r1 s11 E1) as (r' & s1' & E' & Ho). exists r', s1'. split; [exact E'|].
    apply rt_trans with (y := (r1, s11)); [apply rt_step; split; [exact Hr|exact Hs]|exact Ho].
Qed.

Theorem consteval_preserves : forall e, cwf e = true -> ceval_ok e = true ->
  forall n s s' ρ ρ' r s1,
    srel s s' -> envrel (fv (ceval all_on e)) ρ ρ' ->
    eval n s ρ e = Some (r, s1) ->
    exists r' s1', eval n s' ρ' (ceval all_on e) = Some (r', s1') /\ ostar (r, s1) (r', s1').
Proof.
  intros e W H n s s' ρ ρ' r s1 Hs Hρ E.
  destruct (ceval_steps e W H) as [S _].
  destruct (steps_sim _ _ S n s ρ r s1 E) as (r1 & s11 & E1 & Ho).
  destruct (ce_sim n _ _ _ (ce_refl (ceval all_on e) []) s s' ρ ρ' r1 s11 Hs Hρ (cok_nil ρ _) E1) as (r' & s1' & E' & Hr & Hs').
  exists r', s1'. split; [exact E'|]. apply rt_trans with (y := (r1, s11)); [exact Ho|apply rt_step; split; assumption].
Qed.

Lemma vrel_val_str : forall v v', vrel v v' -> val_str v = val_str v'.
Proof.
  induction v; intros v' H; inversion H; subst; cbn [val_str]; try reflexivity.
  rewrite (IHv1 _ H2), (IHv2 _ H4). reflexivity.
Qed.

Lemma orel1_render a b : orel1 a b -> render_res (Some a) = render_res (Some b).
Proof.
  destruct a as [r s1], b as [r' s1']. intros [Hr [_ HO]]. cbn [fst snd] in *.
  assert (Ho : map val_str (rev (snd s1)) = map val_str (rev (snd s1'))).
  { rewrite !map_rev. f_equal. induction HO; cbn [map]; [reflexivity|]. f_equal; [apply vrel_val_str; assumption|assumption]. }
  destruct Hr; cbn [render_res]; rewrite Ho; [erewrite vrel_val_str by eassumption|]; reflexivity.
Qed.

Lemma ostar_render a b : ostar a b -> render_res (Some a) = render_res (Some b).
Proof. induction 1; [apply orel1_render; assumption|reflexivity|congruence]. Qed.

Theorem consteval_observable : forall e n r, cwf e = true -> ceval_ok e = true ->
  eval n (ENone, []) ENone e = Some r ->
  exists r', eval n (ENone, []) ENone (ceval all_on e) = Some r' /\ render_res (Some r) = render_res (Some r').
Proof.
  intros e n [r s1] W H E.
  destruct (consteval_preserves e W H n (ENone, []) (ENone, []) ENone ENone r s1 (srel_refl _) (envrel_refl _ _) E) as (r' & s1' & E' & Ho).
  exists (r', s1'). split; [exact E'|]. apply ostar_render. exact Ho.
Qed.

(* ------------------------------------------------------------------ the operand-scope guard is necessary (defect e50bef37) *)
Definition off_operand_scope := {| flatten_checks_outer_rest := true; flatten_checks_inner_rest := true; flatten_checks_operand_ids := true;
     plain_let_skips_short_calls := true; plain_let_builds_const_list := true; prune_if_quote_false_is_false := true;
     consteval_checks_rest_is_used := true; consteval_checks_surplus_operands := true; consteval_emits_value := true;
     consteval_checks_set_idents := true; consteval_static_arity := true;
     consteval_operands_outer_scope := false |}.
(* ((lambda (x) ((lambda (x y) y) 5 x)) (begin (display 1) 7)) *)
Definition w_scope : exp :=
  Call (Lam ["x"] false (Call (Lam ["x"; "y"] false (Loc "y")) (two (Num 5) (Loc "x"))))
       (one (Begin (two (Prim PDisplay (one (Num 1))) (Num 7)))).

Lemma ceval_unsound_if_operands_judged_inside :
  run w_scope = "OK 7 OUT 1" /\ run (ceval off_operand_scope w_scope) = "ERR OUT 1" /\ run (ceval all_on w_scope) = "OK 7 OUT 1" /\
  cwf w_scope = true /\ ceval_ok w_scope = true.
Proof. vm_compute. repeat split; reflexivity. Qed.

(* non-vacuity: programs the constant evaluator rewrites, within the hypotheses of the theorem *)
Definition nv_ce1 : exp :=  (* ((lambda (a b . r) (if a (begin (display b) r) 0)) '(1) (begin (display 2) 3) 4 5) *)
  Call (Lam ["a"; "b"; "r"] true (If (Loc "a") (Begin (two (Prim PDisplay (one (Loc "b"))) (Loc "r"))) (Num 0)))
       (ECons (Quote (DCons (DNum 1) DNil)) (ECons (Begin (two (Prim PDisplay (one (Num 2))) (Num 3))) (two (Num 4) (Num 5)))).
Definition nv_ce2 : exp :=  (* ((lambda (a b) a) '(1 2) (display 1)) *)
  w_f27.
Definition nv_ce3 : exp :=  (* ((lambda (a) (display (#%prim.+ a ((lambda (b) b) 2)))) 40) *)
  Call (Lam ["a"] false (Prim PDisplay (one (Prim PAddC (two (Loc "a") (Call (Lam ["b"] false (Loc "b")) (one (Num 2))))))))
       (one (Num 40)).
Lemma consteval_nonvacuous :
  cwf nv_ce1 = true /\ ceval_ok nv_ce1 = true /\ ceval all_on nv_ce1 <> nv_ce1 /\
  run nv_ce1 = "OK (4 . (5 . ())) OUT 2 3" /\ run (ceval all_on nv_ce1) = "OK (4 . (5 . ())) OUT 2 3" /\
  cwf nv_ce2 = true /\ ceval_ok nv_ce2 = true /\ ceval all_on nv_ce2 <> nv_ce2 /\
  run (ceval all_on nv_ce2) = "OK (1 . (2 . ())) OUT 1" /\
  cwf nv_ce3 = true /\ ceval_ok nv_ce3 = true /\ ceval all_on nv_ce3 = Prim PDisplay (one (Num 42)) /\
  run nv_ce3 = "OK #<void> OUT 42".
Proof. vm_compute. repeat split; try reflexivity; discriminate. Qed.

