(* Compiled on every run of the C01 check: pins each statement and prints its assumptions. *)
From Coq Require Import String.
From Coq Require Import ZArith NArith List Bool Lia Arith.
From SV Require Import lib.Core lib.CoreS lib.CoreL lib.Bytecode lib.BytecodeS lib.BytecodeL c01.Proofs_C01 c01.Properties_C01.
From SV Require c01.Proofs_C01_set c01.Proofs_C01_setl c01.Proofs_C01_conv.
Import ListNotations.
Open Scope list_scope.

Check (C01_simulation_L0 :
  forall limit MG G, Grel false G MG ->
  forall n r e res, ceval G n r e = Some res ->
  forall ce C pc below slots caps fs,
    code_at C pc (compile false ce (length slots) false e) ->
    length below = cur_sp fs -> frame_caps fs caps ->
    R1 false r ce slots caps -> R2 e r ce -> length fs + n <= limit ->
    match res with
    | Val v => exists mv, vrel false v mv /\
        star limit (mkVM C pc (below ++ slots) fs MG)
             (mkVM C (pc + length (compile false ce (length slots) false e)) (below ++ slots ++ [mv]) fs MG)
    | Err k => exists s', star limit (mkVM C pc (below ++ slots) fs MG) s' /\ vm_step limit s' = SErr k
    end).

Check (C01_simulation_tail :
  forall limit MG G, Grel true G MG ->
  forall n r e res, ceval G n r e = Some res ->
  forall ce tail C pc below slots caps fs,
    code_at C pc (compile true ce (length slots) tail e) ->
    length below = cur_sp fs -> frame_caps fs caps ->
    R1 true r ce slots caps -> R2 e r ce -> length fs + n <= limit ->
    tail_ok tail C (pc + length (compile true ce (length slots) tail e)) (length slots) fs ->
    match res with
    | Val v => exists mv, vrel true v mv /\
        outcome limit MG tail (mkVM C pc (below ++ slots) fs MG) C
                (pc + length (compile true ce (length slots) tail e)) below slots fs mv
    | Err k => exists s', star limit (mkVM C pc (below ++ slots) fs MG) s' /\ vm_step limit s' = SErr k
    end).

Check (C01_program_simulation :
  forall limit tco n ds main res,
  run_program n ds main = Some res -> n <= limit ->
  match res with
  | Val v => exists k mv s', vrel tco v mv /\ vm_program limit tco false k ds main = RDone mv s'
  | Err ek => exists k, vm_program limit tco false k ds main = RErr ek
  end).

Check (C01_program_render :
  forall limit tco n ds main res,
  run_program n ds main = Some res -> n <= limit ->
  exists k, render_run (vm_program limit tco false k ds main) = render_result (Some res)).

Check (C01_var_latest :
  (forall G n r x v, ceval G (S n) ((x, v) :: r) (EVar x) = Some (Val v)) /\
  (forall G n r x e1 v, ceval G n r e1 = Some (Val v) ->
     ceval G (S n) r (ELet [(x, e1)] (EVar x)) = Some (Val v))).

Check (C01_dead_code_silent :
  forall G n r c t e1 e2 v,
  ceval G n r c = Some (Val v) ->
  (truthy v = true -> ceval G (S n) r (EIf c t e1) = ceval G (S n) r (EIf c t e2)) /\
  (truthy v = false -> ceval G (S n) r (EIf c e1 t) = ceval G (S n) r (EIf c e2 t)) /\
  (forall ps rest body, ceval G (S n) r (ELam ps rest body) = Some (Val (VClo ps rest body r)))).

Check (C01_call_args_exact :
  forall G n r f args ps rest body r' vs,
  evals (ceval G n r) args = Some (inl vs) ->
  ceval G n r f = Some (Val (VClo ps rest body r')) ->
  ceval G (S n) r (EApp f args) =
    match call_args ps rest vs with
    | Some (xs, ws) => ceval G n (bind xs ws r') body
    | None => Some (Err EArity)
    end /\
  (rest = None -> length ps = length vs -> call_args ps rest vs = Some (ps, vs)) /\
  (rest = None -> length ps <> length vs -> call_args ps rest vs = None) /\
  (forall r0, rest = Some r0 -> length ps <= length vs ->
     call_args ps rest vs = Some (ps ++ [r0], firstn (length ps) vs ++ [VList (skipn (length ps) vs)])) /\
  (forall xs ws, call_args ps rest vs = Some (xs, ws) -> NoDup xs ->
     forall i x v, nth_error xs i = Some x -> nth_error ws i = Some v -> Core.lookup x (bind xs ws r') = Some v) /\
  length vs = length args).

Check (C01_simulation_rest :
  forall limit tco MG ps r body r' clo vs mvs xs ws C pcC st0 fs,
  vrel tco (VClo ps (Some r) body r') clo ->
  call_args ps (Some r) vs = Some (xs, ws) -> Forall2 (vrel tco) vs mvs ->
  nth_error C pcC = Some (FUNC (length mvs)) -> S (length fs) < limit ->
  exists mws code caps fvs,
    clo = MClo (length ps + 1) true code caps /\
    xs = ps ++ [r] /\ ws = firstn (length ps) vs ++ [VList (skipn (length ps) vs)] /\
    mws = firstn (length ps) mvs ++ [MList (skipn (length ps) mvs)] /\
    vm_step limit (mkVM C pcC ((st0 ++ mvs) ++ [clo]) fs MG) =
      SNext (mkVM code 0 (st0 ++ mws) (mkFrame (length st0) clo (S pcC) C :: fs) MG) /\
    Forall2 (vrel tco) ws mws /\
    R1 tco (bind xs ws r') (body_cenv xs fvs) mws caps).

Check (C01_callglobal_fusion :
  forall limit C C' pc g n st fs MG,
  nth_error C pc = Some (PUSH g) -> nth_error C (S pc) = Some (FUNC n) ->
  nth_error C' pc = Some (CALLGLOBAL g) -> nth_error C' (S pc) = Some (FUNC n) ->
  match vm_step limit (mkVM C pc st fs MG) with
  | SErr k => vm_step limit (mkVM C' pc st fs MG) = SErr k
  | SNext s1 =>
      match vm_step limit s1, vm_step limit (mkVM C' pc st fs MG) with
      | SErr k, r => r = SErr k
      | SStuck, r => r = SStuck
      | SNext a, SNext b =>
          (code a = C /\ b = with_code C' a) \/
          (exists fr, frames a = fr :: fs /\ f_ret_code fr = C /\
                      b = mkVM (code a) (ip a) (stack a) (mkFrame (f_sp fr) (f_fn fr) (f_ret_ip fr) C' :: fs) (globals a))
      | _, _ => False
      end
  | _ => False
  end).

Check (C01_callglobaltail_fusion :
  forall limit C C' pc g n st fs MG arity rest body caps,
  nth_error C pc = Some (PUSH g) -> nth_error C (S pc) = Some (TAILCALL n) ->
  nth_error C' pc = Some (CALLGLOBALTAIL g) -> nth_error C' (S pc) = Some (TAILCALL n) ->
  Core.lookup g MG = Some (MClo arity rest body caps) ->
  exists s1, vm_step limit (mkVM C pc st fs MG) = SNext s1 /\
             vm_step limit s1 = vm_step limit (mkVM C' pc st fs MG)).

Check (C01_simulation_set :
  forall limit tco n r e st res, beval n r e st = Some res ->
  forall ce tail C pc below slots caps fs MG H,
    code_at C pc (S.compile tco ce (length slots) tail e) ->
    length below = S.cur_sp fs -> Proofs_C01_set.frame_caps fs caps ->
    Proofs_C01_set.R1 tco r ce slots caps -> Proofs_C01_set.R2 e r ce ->
    Proofs_C01_set.Srel tco (b_store st) H -> Proofs_C01_set.Grel tco (b_glob st) MG ->
    length fs + n <= limit ->
    Proofs_C01_set.tail_ok tail C (pc + length (S.compile tco ce (length slots) tail e)) (length slots) fs ->
    match res with
    | BVal v st' => exists mv MG' H', Proofs_C01_set.vrel tco v mv /\ Proofs_C01_set.Srel tco (b_store st') H' /\
        Proofs_C01_set.Grel tco (b_glob st') MG' /\
        Proofs_C01_set.outcome limit tail (S.mkVM C pc (below ++ slots) fs MG H) C
          (pc + length (S.compile tco ce (length slots) tail e)) below slots fs mv MG' H'
    | BErr k => exists s', S.star limit (S.mkVM C pc (below ++ slots) fs MG H) s' /\ S.vm_step limit s' = S.SErr k
    end).

Check (C01_program_simulation_set :
  forall limit tco n ds main res,
  brun_program n ds main = Some res -> n <= limit ->
  match res with
  | BVal v _ => exists k mv s', Proofs_C01_set.vrel tco v mv /\ S.vm_program limit tco false k ds main = S.RDone mv s'
  | BErr ek => exists k, S.vm_program limit tco false k ds main = S.RErr ek
  end).

Check (C01_program_render_set :
  forall limit tco n ds main res,
  brun_program n ds main = Some res -> n <= limit ->
  exists k, S.render_run (S.vm_program limit tco false k ds main) = render_bresult (Some res)).

Check (C01_set_returns_old :
  forall n r g e st v st1 old,
  beval n r e st = Some (BVal v st1) -> Core.lookup g (b_glob st1) = Some old ->
  beval (S n) r (BSetG g e) st = Some (BVal old (mkB (b_store st1) ((g, v) :: b_glob st1))) /\
  Core.lookup g ((g, v) :: b_glob st1) = Some v).

Check (C01_simulation_setlocal :
  forall limit tco n r e st res, leval n r e st = Some res ->
  forall ce tail C pc below slots caps fs MG H,
    code_at C pc (L.compile tco ce (length slots) tail e) ->
    length below = S.cur_sp fs -> Proofs_C01_setl.frame_caps fs caps ->
    Proofs_C01_setl.R1 tco r ce slots caps -> Proofs_C01_setl.R2 e r ce ->
    L.wf ce (length slots) e = true -> Proofs_C01_setl.ce_lt ce (length slots) -> Proofs_C01_setl.slots_inj ce ->
    Proofs_C01_setl.Srel tco (l_store st) H -> Proofs_C01_setl.Grel tco (l_glob st) MG ->
    length fs + n <= limit ->
    Proofs_C01_setl.tail_ok tail C (pc + length (L.compile tco ce (length slots) tail e)) (length slots) fs ->
    match res with
    | LVal v r' st' => exists mv MG' H', Proofs_C01_setl.vrel tco v mv /\ Proofs_C01_setl.Srel tco (l_store st') H' /\
        Proofs_C01_setl.Grel tco (l_glob st') MG' /\
        Proofs_C01_setl.post limit tco tail r' ce caps (S.mkVM C pc (below ++ slots) fs MG H) C
          (pc + length (L.compile tco ce (length slots) tail e)) below slots fs mv MG' H'
    | LErr k => exists s', S.star limit (S.mkVM C pc (below ++ slots) fs MG H) s' /\ S.vm_step limit s' = S.SErr k
    end).

Check (C01_program_simulation_setlocal :
  forall limit tco n ds main res,
  lrun_program n ds main = Some res -> n <= limit -> L.wf_program ds main = true ->
  match res with
  | LVal v _ _ => exists k mv s', Proofs_C01_setl.vrel tco v mv /\ L.vm_program limit tco false k ds main = S.RDone mv s'
  | LErr ek => exists k, L.vm_program limit tco false k ds main = S.RErr ek
  end).

Check (C01_program_render_setlocal :
  forall limit tco n ds main res,
  lrun_program n ds main = Some res -> n <= limit -> L.wf_program ds main = true ->
  exists k, S.render_run (L.vm_program limit tco false k ds main) = render_lresult (Some res)).

Check (C01_assign_convert_correct :
  forall n rs e st res, seval n rs e st = Some res ->
  forall W bx rb stb,
    Proofs_C01_conv.E W bx rs rb -> Proofs_C01_conv.inv bx rs e -> Proofs_C01_conv.clean e = true ->
    Proofs_C01_conv.StoreRel W (s_store st) (b_store stb) -> Proofs_C01_conv.GlobRel W (s_glob st) (b_glob stb) ->
    exists m,
      match res with
      | SVal v st' => exists W' bv stb', Proofs_C01_conv.ext W W' /\
          beval m rb (aconv bx e) stb = Some (BVal bv stb') /\ Proofs_C01_conv.V W' v bv /\
          Proofs_C01_conv.StoreRel W' (s_store st') (b_store stb') /\
          Proofs_C01_conv.GlobRel W' (s_glob st') (b_glob stb')
      | CoreS.SErr k => beval m rb (aconv bx e) stb = Some (BErr k)
      end).

Check (C01_assign_convert_program :
  forall n ds main sres,
  srun_program n ds main = Some sres -> Proofs_C01_conv.clean_prog ds main = true ->
  exists m bres, brun_program m (S.conv_defs ds) (assign_convert main) = Some bres /\
                 render_bresult (Some bres) = render_sresult (Some sres) /\
                 match sres, bres with
                 | SVal v _, BVal bv _ => exists W, Proofs_C01_conv.V W v bv
                 | CoreS.SErr k, BErr k' => k = k'
                 | _, _ => False
                 end).

Check (C01_end_to_end_set :
  forall forms ds ms n sres,
  ssplit_unit forms = Some (ds, ms) -> Proofs_C01_conv.clean_prog ds (sseq_of ms) = true ->
  srun_program n ds (sseq_of ms) = Some sres ->
  S.unit_render_ref n forms = render_sresult (Some sres) /\
  exists m, forall limit tco, m <= limit ->
    exists k, S.unit_render_vm limit tco false k forms = render_sresult (Some sres)).

Print Assumptions C01_simulation_L0.
Print Assumptions C01_simulation_tail.
Print Assumptions C01_program_simulation.
Print Assumptions C01_program_render.
Print Assumptions C01_var_latest.
Print Assumptions C01_dead_code_silent.
Print Assumptions C01_call_args_exact.
Print Assumptions C01_simulation_rest.
Print Assumptions C01_callglobal_fusion.
Print Assumptions C01_callglobaltail_fusion.
Print Assumptions C01_simulation_set.
Print Assumptions C01_program_simulation_set.
Print Assumptions C01_program_render_set.
Print Assumptions C01_set_returns_old.
Print Assumptions C01_simulation_setlocal.
Print Assumptions C01_program_simulation_setlocal.
Print Assumptions C01_program_render_setlocal.
Print Assumptions C01_assign_convert_correct.
Print Assumptions C01_assign_convert_program.
Print Assumptions C01_end_to_end_set.
