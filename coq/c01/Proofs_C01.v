(* C01 — forward simulation between the big-step evaluator Core.ceval and the compiled bytecode
   running on the VM of Bytecode.v.  One proof, parametric in [tco] (tail calls compiled to TAILCALL
   or not): C01_simulation_L0 is the instance tco = false, C01_simulation_tail the instance tco = true. *)
From Coq Require Import String.
From Coq Require Import ZArith List Bool Lia Arith.
From SV Require Import lib.Core lib.Bytecode.
Import ListNotations.
Open Scope list_scope.

(* ------------------------------------------------------------------ lists *)
Lemma unsnoc_app : forall A (l : list A) x, unsnoc (l ++ [x]) = Some (l, x).
Proof. induction l; intros; simpl; auto. rewrite IHl. auto. Qed.

Lemma nth_error_mid : forall A (pre : list A) x post, nth_error (pre ++ x :: post) (length pre) = Some x.
Proof. induction pre; simpl; auto. Qed.

Lemma firstn_app_exact : forall A (a b : list A), firstn (length a) (a ++ b) = a.
Proof. induction a; simpl; intros; auto. f_equal; auto. Qed.

Lemma skipn_app_exact : forall A (a b : list A), skipn (length a) (a ++ b) = b.
Proof. induction a; simpl; intros; auto. Qed.

Lemma firstn_app_more : forall A (a b : list A) m, firstn (length a + m) (a ++ b) = a ++ firstn m b.
Proof. induction a; simpl; intros; auto. f_equal; auto. Qed.

Lemma nth_error_app_plus : forall A (a b : list A) i, nth_error (a ++ b) (length a + i) = nth_error b i.
Proof. induction a; simpl; intros; auto. Qed.

Lemma Forall2_len : forall A B (R : A -> B -> Prop) l1 l2, Forall2 R l1 l2 -> length l1 = length l2.
Proof. induction 1; simpl; auto. Qed.

(* ------------------------------------------------------------------ code positions *)
Definition code_at (C : list instr) (pc : nat) (c : list instr) : Prop :=
  exists pre post, C = pre ++ c ++ post /\ pc = length pre.

Lemma code_at_app : forall C pc c1 c2, code_at C pc (c1 ++ c2) ->
  code_at C pc c1 /\ code_at C (pc + length c1) c2.
Proof.
  intros C pc c1 c2 (pre & post & -> & ->). split.
  - exists pre, (c2 ++ post). rewrite <- app_assoc. auto.
  - exists (pre ++ c1), post. rewrite app_length. split; auto. rewrite <- !app_assoc. auto.
Qed.

Lemma code_at_cons : forall C pc i c, code_at C pc (i :: c) ->
  nth_error C pc = Some i /\ code_at C (S pc) c.
Proof.
  intros C pc i c (pre & post & -> & ->). split.
  - simpl. apply nth_error_mid.
  - exists (pre ++ [i]), post. rewrite app_length. simpl. split; try lia.
    rewrite <- app_assoc. auto.
Qed.

Lemma code_at_zero : forall c post, code_at (c ++ post) 0 c.
Proof. intros. exists [], post. auto. Qed.

(* ------------------------------------------------------------------ lookup facts *)
Lemma lookup_in_fst : forall A x (l : list (ident * A)), In x (map fst l) -> exists a, Core.lookup x l = Some a.
Proof.
  induction l as [|[y a] l]; simpl; intros H; [tauto|].
  destruct (String.eqb x y) eqn:E; eauto.
  destruct H as [H|H]; [subst; rewrite String.eqb_refl in E; discriminate|auto].
Qed.

Lemma lookup_none_notin : forall A x (l : list (ident * A)), Core.lookup x l = None -> ~ In x (map fst l).
Proof.
  intros A x l H Hin. apply lookup_in_fst in Hin. destruct Hin as [a Ha]. congruence.
Qed.

Lemma memb_false_notin : forall x l, memb x l = false -> ~ In x l.
Proof.
  induction l; simpl; intros; auto. apply orb_false_iff in H. destruct H as [H1 H2].
  intros [->|Hin]; [rewrite String.eqb_refl in H1; discriminate|]. apply IHl; auto.
Qed.

Lemma memb_true_in : forall x l, memb x l = true -> In x l.
Proof.
  induction l; simpl; intros; [discriminate|]. apply orb_true_iff in H. destruct H as [H|H].
  - apply String.eqb_eq in H. auto.
  - auto.
Qed.

Lemma lookup_bind_notin : forall A xs (vs : list A) r x, memb x xs = false ->
  Core.lookup x (bind xs vs r) = Core.lookup x r.
Proof.
  induction xs; simpl; intros; auto. apply orb_false_iff in H. destruct H as [H1 H2].
  destruct vs; auto. rewrite IHxs; auto. simpl. rewrite H1. auto.
Qed.

Lemma lookup_bind_slots_none : forall xs d ce x, Core.lookup x (bind_slots xs d ce) = None ->
  memb x xs = false /\ Core.lookup x ce = None.
Proof.
  induction xs; simpl; intros; auto. apply IHxs in H. destruct H as [H1 H2]. simpl in H2.
  destruct (String.eqb x a); [discriminate|]. auto.
Qed.

Lemma lookup_caps_cenv : forall fvs s x l,
  Core.lookup x (combine fvs (map Cap (seq s (length fvs)))) = Some l ->
  exists j, l = Cap (s + j) /\ nth_error fvs j = Some x.
Proof.
  induction fvs; simpl; intros; [discriminate|].
  destruct (String.eqb x a) eqn:E.
  - inversion H; subst. apply String.eqb_eq in E; subst. exists 0. split; [f_equal; lia|auto].
  - apply IHfvs in H. destruct H as (j & -> & Hj). exists (S j). split; [f_equal; lia|auto].
Qed.

Lemma lookup_caps_cenv_none : forall fvs s x,
  Core.lookup x (combine fvs (map Cap (seq s (length fvs)))) = None -> ~ In x fvs.
Proof.
  induction fvs; simpl; intros; auto.
  destruct (String.eqb x a) eqn:E; [discriminate|]. apply String.eqb_neq in E.
  intros [->|Hin]; [congruence|]. eapply IHfvs; eauto.
Qed.

(* ------------------------------------------------------------------ free variables *)
Lemma fv_app_eq : forall x f args, fv x (EApp f args) = fv_list x args || fv x f.
Proof.
  intros. simpl. f_equal. induction args; simpl; auto. rewrite IHargs. auto.
Qed.

Lemma fv_let_eq : forall x bs body,
  fv x (ELet bs body) = fv_list x (map snd bs) || (negb (memb x (map fst bs)) && fv x body).
Proof.
  intros. simpl. f_equal. induction bs as [|[y a] bs]; simpl; auto. rewrite IHbs. auto.
Qed.

Section Sim.
  Variable limit : nat.
  Variable tco : bool.

  (* ---------------------------------------------------------------- compile equations *)
  Lemma compile_app_eq : forall ce d tail f args,
    compile tco ce d tail (EApp f args) =
    compile_list tco ce d args ++ compile tco ce (d + length args) false f
      ++ [if tail then TAILCALL (length args) else FUNC (length args)].
  Proof.
    intros. simpl. f_equal. revert d. induction args; simpl; intros; auto. rewrite IHargs. auto.
  Qed.

  Lemma compile_let_eq : forall ce d tail bs body,
    compile tco ce d tail (ELet bs body) =
    BEGINSCOPE :: compile_list tco ce d (map snd bs)
      ++ compile tco (bind_slots (map fst bs) d ce) (d + length bs) tail body ++ [LETENDSCOPE d].
  Proof.
    intros. simpl. f_equal. f_equal. revert d. induction bs as [|[y a] bs]; simpl; intros; auto.
    rewrite IHbs. auto.
  Qed.

  Definition rest_flag (rest : option ident) : bool := match rest with Some _ => true | None => false end.

  (* ---------------------------------------------------------------- the value relation *)
  Inductive vrel : val -> mval -> Prop :=
  | vr_int : forall z, vrel (VInt z) (MInt z)
  | vr_bool : forall b, vrel (VBool b) (MBool b)
  | vr_void : vrel VVoid MVoid
  | vr_prim : forall p, vrel (VPrim p) (MPrim p)
  | vr_clo : forall ps rest body r fvs caps,
      (forall j x, nth_error fvs j = Some x ->
         exists v mv, Core.lookup x r = Some v /\ nth_error caps j = Some mv /\ vrel v mv) ->
      (forall x, fv x body = true -> memb x (params ps rest) = false -> ~ In x fvs -> Core.lookup x r = None) ->
      vrel (VClo ps rest body r)
           (MClo (length (params ps rest)) (rest_flag rest)
                 (compile tco (body_cenv (params ps rest) fvs) (length (params ps rest)) tco body ++ [POPPURE]) caps)
  | vr_list : forall vs mvs, Forall2 vrel vs mvs -> vrel (VList vs) (MList mvs).

  Definition fetch (l : loc) (slots caps : list mval) : option mval :=
    match l with Slot i => nth_error slots i | Cap j => nth_error caps j end.

  Definition R1 (r : env) (ce : cenv) (slots caps : list mval) : Prop :=
    forall x l, Core.lookup x ce = Some l ->
      exists v mv, Core.lookup x r = Some v /\ fetch l slots caps = Some mv /\ vrel v mv.

  Definition R2 (e : expr) (r : env) (ce : cenv) : Prop :=
    forall x, fv x e = true -> Core.lookup x ce = None -> Core.lookup x r = None.

  Definition R2l (es : list expr) (r : env) (ce : cenv) : Prop :=
    forall x, fv_list x es = true -> Core.lookup x ce = None -> Core.lookup x r = None.

  Definition Grel (G : env) (MG : list (ident * mval)) : Prop :=
    forall g, match Core.lookup g G, Core.lookup g MG with
              | Some v, Some mv => vrel v mv
              | None, None => True
              | _, _ => False
              end.

  Definition frame_caps (fs : list frame) (caps : list mval) : Prop :=
    match fs with
    | f :: _ => exists a rs b, f_fn f = MClo a rs b caps
    | [] => caps = []
    end.

  Lemma R1_more_slots : forall r ce slots caps extra, R1 r ce slots caps -> R1 r ce (slots ++ extra) caps.
  Proof.
    intros r ce slots caps extra H x l Hl. destruct (H x l Hl) as (v & mv & A & B & C).
    exists v, mv. split; auto. split; auto. destruct l; simpl in *; auto.
    rewrite nth_error_app1; auto. apply nth_error_Some. congruence.
  Qed.

  Lemma R1_bind_one : forall r ce slots caps x v mv, R1 r ce slots caps -> vrel v mv ->
    R1 ((x, v) :: r) ((x, Slot (length slots)) :: ce) (slots ++ [mv]) caps.
  Proof.
    intros r ce slots caps x v mv H Hv y l Hl. simpl in *.
    destruct (String.eqb y x) eqn:E.
    - inversion Hl; subst. exists v, mv. split; auto. split; auto. simpl.
      replace (length slots) with (length slots + 0) by lia. rewrite nth_error_app_plus. auto.
    - apply (R1_more_slots _ _ _ _ [mv]) in H. apply H; auto.
  Qed.

  Lemma R1_bind : forall xs vs mvs r ce slots caps, R1 r ce slots caps -> Forall2 vrel vs mvs ->
    length xs = length vs ->
    R1 (bind xs vs r) (bind_slots xs (length slots) ce) (slots ++ mvs) caps.
  Proof.
    induction xs; intros vs mvs r ce slots caps H HF HL; simpl.
    - destruct vs; apply R1_more_slots; auto.
    - destruct vs as [|v vs]; [simpl in HL; discriminate|]. inversion HF; subst.
      replace (slots ++ y :: l') with ((slots ++ [y]) ++ l') by (rewrite <- app_assoc; auto).
      replace (S (length slots)) with (length (slots ++ [y])) by (rewrite app_length; simpl; lia).
      apply IHxs; auto. apply R1_bind_one; auto.
  Qed.

  (* ---------------------------------------------------------------- atoms / primitives *)
  Lemma vrel_atom : forall v mv, vrel v mv -> val_atom v = mval_atom mv.
  Proof. destruct 1; simpl; auto. Qed.

  Lemma vrel_atoms : forall vs mvs, Forall2 vrel vs mvs -> map val_atom vs = map mval_atom mvs.
  Proof. induction 1; simpl; auto. f_equal; auto. apply vrel_atom; auto. Qed.

  Lemma vrel_of_atom : forall a, vrel (atom_val a) (atom_mval a).
  Proof. destruct a; simpl; constructor. Qed.

  Lemma vrel_truthy : forall v mv, vrel v mv -> truthy v = mtruthy mv.
  Proof. intros. unfold truthy, mtruthy. erewrite vrel_atom; eauto. Qed.

  Lemma vrel_const : forall c, vrel (const_val c) (const_mval c).
  Proof. destruct c; simpl; constructor. Qed.

  (* ---------------------------------------------------------------- the return sequence *)
  Variable MG : list (ident * mval).

  Inductive returns_from (C : list instr) : nat -> nat -> Prop :=
  | rf_pop : forall pc d, nth_error C pc = Some POPPURE -> returns_from C pc d
  | rf_jmp : forall pc d k, nth_error C pc = Some (JMP k) -> returns_from C (pc + k) d -> returns_from C pc d
  | rf_let : forall pc d m, nth_error C pc = Some (LETENDSCOPE m) -> m <= d ->
             returns_from C (S pc) m -> returns_from C pc d.

  Notation star := (star limit).
  Notation vm_step := (vm_step limit).

  Lemma run_return : forall C pc d, returns_from C pc d ->
    forall below slots mv f fs', length below = f_sp f -> length slots = d ->
    star (mkVM C pc (below ++ slots ++ [mv]) (f :: fs') MG)
         (mkVM (f_ret_code f) (f_ret_ip f) (below ++ [mv]) fs' MG).
  Proof.
    induction 1; intros below slots mv f fs' Hb Hs.
    - apply star_one. unfold Bytecode.vm_step. simpl. rewrite H.
      rewrite app_assoc, unsnoc_app. unfold do_return. simpl.
      rewrite app_length, <- Hb.
      replace (Nat.leb (length below) (length below + length slots)) with true
        by (symmetry; apply Nat.leb_le; lia).
      rewrite firstn_app_exact. auto.
    - eapply star_step; [|apply IHreturns_from; eauto].
      unfold Bytecode.vm_step. simpl. rewrite H. auto.
    - eapply star_step; [|apply (IHreturns_from below (firstn m slots) mv f fs'); auto].
      + unfold Bytecode.vm_step. simpl. rewrite H.
        rewrite app_assoc, unsnoc_app. rewrite app_length, <- Hb.
        replace (Nat.leb (length below + m) (length below + length slots)) with true
          by (symmetry; apply Nat.leb_le; lia).
        unfold next_with. simpl. rewrite firstn_app_more. rewrite <- app_assoc. auto.
      + rewrite firstn_length. lia.
  Qed.

  (* the two shapes of a successful outcome *)
  Definition fall_state (C : list instr) (pc' : nat) (below slots : list mval) (fs : list frame) (mv : mval) :=
    mkVM C pc' (below ++ slots ++ [mv]) fs MG.

  Definition ret_state (f : frame) (below : list mval) (fs' : list frame) (mv : mval) :=
    mkVM (f_ret_code f) (f_ret_ip f) (below ++ [mv]) fs' MG.

  Definition outcome (tail : bool) (s : vmstate) C pc' below slots fs mv : Prop :=
    if tail then exists f fs', fs = f :: fs' /\ star s (ret_state f below fs' mv)
    else star s (fall_state C pc' below slots fs mv).

  Definition tail_ok (tail : bool) (C : list instr) (pc' d : nat) (fs : list frame) : Prop :=
    tail = true -> fs <> [] /\ returns_from C pc' d.

  Lemma outcome_of_fall : forall tail s C pc' below slots fs mv,
    star s (fall_state C pc' below slots fs mv) ->
    tail_ok tail C pc' (length slots) fs -> length below = cur_sp fs ->
    outcome tail s C pc' below slots fs mv.
  Proof.
    intros tail s C pc' below slots fs mv Hs Ht Hb. destruct tail; simpl; auto.
    destruct (Ht eq_refl) as [Hne Hr]. destruct fs as [|f fs']; [congruence|].
    exists f, fs'. split; auto. eapply star_trans; eauto.
    eapply run_return; eauto.
  Qed.

  (* ---------------------------------------------------------------- closure construction *)
  Lemma fetch_caps_ok : forall r ce below slots caps fs,
    R1 r ce slots caps -> frame_caps fs caps -> length below = cur_sp fs ->
    forall l, (forall x, In x l -> In x (map fst ce)) ->
    exists caps', fetch_caps (below ++ slots) fs (map (capsrc_of ce) l) = Some caps' /\
      forall j x, nth_error l j = Some x ->
        exists v mv, Core.lookup x r = Some v /\ nth_error caps' j = Some mv /\ vrel v mv.
  Proof.
    intros r ce below slots caps fs HR1 Hfc Hb. induction l as [|x l IH]; intros Hin.
    - exists []. split; auto. intros [|j] y Hy; discriminate.
    - destruct IH as (caps' & Hf & Hall). { intros; apply Hin; simpl; auto. }
      destruct (lookup_in_fst _ x ce (Hin x (or_introl eq_refl))) as [lc Hlc].
      destruct (HR1 x lc Hlc) as (v & mv & Hv & Hfetch & Hrel).
      exists (mv :: caps'). split.
      + simpl. rewrite Hf. unfold capsrc_of. rewrite Hlc. destruct lc; simpl in *.
        * rewrite <- Hb, nth_error_app_plus, Hfetch. auto.
        * destruct fs as [|f fs0]; simpl in Hfc.
          -- subst caps. destruct n; discriminate.
          -- destruct Hfc as (a & rs & b & ->). rewrite Hfetch. auto.
      + intros [|j] y Hy; simpl in *.
        * inversion Hy; subst. eauto.
        * eauto.
  Qed.

  Lemma captured_in : forall ce ps body x, In x (captured ce ps body) -> In x (map fst ce).
  Proof. unfold captured. intros. apply filter_In in H. destruct H as [H _]. apply in_rev; auto. Qed.

  Lemma captured_complete : forall ce ps body x, fv x body = true -> memb x ps = false ->
    In x (map fst ce) -> In x (captured ce ps body).
  Proof.
    unfold captured. intros. apply filter_In. split. apply in_rev. rewrite rev_involutive; auto.
    rewrite H, H0. auto.
  Qed.

  (* ---------------------------------------------------------------- the simulation *)
  Variable G : env.
  Hypothesis HG : Grel G MG.

  Definition sim_concl (res : result) (tail : bool) (s : vmstate) C pc' below slots fs : Prop :=
    match res with
    | Val v => exists mv, vrel v mv /\ outcome tail s C pc' below slots fs mv
    | Err k => exists s', star s s' /\ vm_step s' = SErr k
    end.

  Definition sim_at (n : nat) : Prop :=
    forall r e res, ceval G n r e = Some res ->
    forall ce tail C pc below slots caps fs,
      code_at C pc (compile tco ce (length slots) tail e) ->
      length below = cur_sp fs -> frame_caps fs caps ->
      R1 r ce slots caps -> R2 e r ce ->
      length fs + n <= limit ->
      tail_ok tail C (pc + length (compile tco ce (length slots) tail e)) (length slots) fs ->
      sim_concl res tail (mkVM C pc (below ++ slots) fs MG)
                C (pc + length (compile tco ce (length slots) tail e)) below slots fs.

  Lemma evals_length : forall ev es vs, evals ev es = Some (inl vs) -> length vs = length es.
  Proof.
    induction es; simpl; intros.
    - inversion H; auto.
    - destruct (ev a) as [[v|k]|]; try discriminate.
      destruct (evals ev es) as [[vs'|k]|]; try discriminate.
      inversion H; subst. simpl. f_equal. auto.
  Qed.

  Lemma sim_list : forall n, sim_at n -> forall r es x, evals (ceval G n r) es = Some x ->
    forall ce C pc below slots caps fs,
      code_at C pc (compile_list tco ce (length slots) es) ->
      length below = cur_sp fs -> frame_caps fs caps ->
      R1 r ce slots caps -> R2l es r ce -> length fs + n <= limit ->
      match x with
      | inl vs => exists mvs, Forall2 vrel vs mvs /\
          star (mkVM C pc (below ++ slots) fs MG)
               (mkVM C (pc + length (compile_list tco ce (length slots) es)) (below ++ slots ++ mvs) fs MG)
      | inr k => exists s', star (mkVM C pc (below ++ slots) fs MG) s' /\ vm_step s' = SErr k
      end.
  Proof.
    intros n IH r es. induction es as [|e es IHes]; intros x Hev ce C pc below slots caps fs Hc Hb Hfc HR1 HR2 Hlim.
    - simpl in Hev. inversion Hev; subst. exists []. split; auto. simpl.
      rewrite Nat.add_0_r, app_nil_r. constructor.
    - simpl in Hev. destruct (ceval G n r e) as [[v|k]|] eqn:He; try discriminate.
      + simpl in Hc. apply code_at_app in Hc. destruct Hc as [Hc1 Hc2].
        assert (HR2e : R2 e r ce). { intros y Hy. apply HR2. simpl. rewrite Hy. auto. }
        assert (HR2r : R2l es r ce). { intros y Hy. apply HR2. simpl. rewrite Hy. apply orb_true_r. }
        pose proof (IH r e (Val v) He ce false C pc below slots caps fs Hc1 Hb Hfc HR1 HR2e Hlim) as H1.
        destruct H1 as (mv & Hmv & Hstar). { intros Hf; discriminate. }
        simpl in Hstar. unfold fall_state in Hstar.
        destruct (evals (ceval G n r) es) as [[vs|k]|] eqn:Hes; try discriminate.
        * inversion Hev; subst x.
          specialize (IHes (inl vs) eq_refl ce C (pc + length (compile tco ce (length slots) false e))
                           below (slots ++ [mv]) caps fs).
          rewrite app_length in IHes. simpl in IHes. rewrite Nat.add_1_r in IHes.
          destruct IHes as (mvs & HF & Hst2); auto. { apply R1_more_slots; auto. }
          exists (mv :: mvs). split; [constructor; auto|].
          eapply star_trans; [exact Hstar|]. simpl.
          rewrite app_length, Nat.add_assoc.
          replace (below ++ slots ++ mv :: mvs) with (below ++ (slots ++ [mv]) ++ mvs)
            by (rewrite <- app_assoc; auto).
          exact Hst2.
        * inversion Hev; subst x.
          specialize (IHes (inr k) eq_refl ce C (pc + length (compile tco ce (length slots) false e))
                           below (slots ++ [mv]) caps fs).
          rewrite app_length in IHes. simpl in IHes. rewrite Nat.add_1_r in IHes.
          destruct IHes as (s' & Hst2 & Herr); auto. { apply R1_more_slots; auto. }
          exists s'. split; auto. eapply star_trans; [exact Hstar|]. exact Hst2.
      + inversion Hev; subst x.
        simpl in Hc. apply code_at_app in Hc. destruct Hc as [Hc1 Hc2].
        assert (HR2e : R2 e r ce). { intros y Hy. apply HR2. simpl. rewrite Hy. auto. }
        pose proof (IH r e (Err k) He ce false C pc below slots caps fs Hc1 Hb Hfc HR1 HR2e Hlim) as H1.
        apply H1. intros Hf; discriminate.
  Qed.
  (* one VM step from a state whose instruction is known *)
  Lemma step_star : forall s s' s'', vm_step s = SNext s' -> star s' s'' -> star s s''.
  Proof. intros. econstructor; eauto. Qed.

  Lemma star_snoc : forall s s' s'', star s s' -> vm_step s' = SNext s'' -> star s s''.
  Proof. intros. eapply star_trans; eauto. apply star_one; auto. Qed.

  Lemma sim_concl_prefix : forall res tail s0 s C pc' below slots fs,
    star s0 s -> sim_concl res tail s C pc' below slots fs -> sim_concl res tail s0 C pc' below slots fs.
  Proof.
    intros res tail s0 s C pc' below slots fs Hs H. destruct res; simpl in *.
    - destruct H as (mv & Hv & Ho). exists mv. split; auto. unfold outcome in *. destruct tail.
      + destruct Ho as (f & fs' & -> & Hst). exists f, fs'. split; auto. eapply star_trans; eauto.
      + eapply star_trans; eauto.
    - destruct H as (s' & Hst & He). exists s'. split; auto. eapply star_trans; eauto.
  Qed.

  Lemma ceval_fuel_pos : forall n r e res, ceval G n r e = Some res -> 1 <= n.
  Proof. destruct n; simpl; intros; [discriminate|lia]. Qed.

  (* ---------------------------------------------------------------- call steps *)
  Definition call_instr (tail : bool) (n : nat) : instr := if tail then TAILCALL n else FUNC n.

  Lemma skipn_len_app : forall A (a b : list A), skipn (length (a ++ b) - length b) (a ++ b) = b.
  Proof. intros. rewrite app_length. replace (length a + length b - length b) with (length a) by lia. apply skipn_app_exact. Qed.

  Lemma firstn_len_app : forall A (a b : list A), firstn (length (a ++ b) - length b) (a ++ b) = a.
  Proof. intros. rewrite app_length. replace (length a + length b - length b) with (length a) by lia. apply firstn_app_exact. Qed.

  Lemma call_step_notproc : forall tail C pcC st mf n fs,
    nth_error C pcC = Some (call_instr tail n) ->
    match mf with MClo _ _ _ _ | MPrim _ => False | _ => True end ->
    vm_step (mkVM C pcC (st ++ [mf]) fs MG) = SErr ENotProc.
  Proof.
    intros. unfold Bytecode.vm_step. simpl. rewrite H. unfold call_instr.
    destruct tail; rewrite unsnoc_app; destruct mf; simpl in *; tauto.
  Qed.

  Lemma call_step_prim : forall tail C pcC st0 mvs p fs,
    nth_error C pcC = Some (call_instr tail (length mvs)) ->
    vm_step (mkVM C pcC ((st0 ++ mvs) ++ [MPrim p]) fs MG) =
    match prim_sem p (map mval_atom mvs) with
    | inl a => SNext (mkVM C (S pcC) (st0 ++ [atom_mval a]) fs MG)
    | inr k => SErr k
    end.
  Proof.
    intros. unfold Bytecode.vm_step. simpl. rewrite H. unfold call_instr.
    destruct tail; rewrite unsnoc_app; simpl; unfold call_prim; simpl;
      (replace (Nat.leb (length mvs) (length (st0 ++ mvs))) with true
         by (symmetry; apply Nat.leb_le; rewrite app_length; lia));
      rewrite skipn_len_app, firstn_len_app; auto.
  Qed.

  Lemma call_step_arity : forall tail C pcC st arity rest body caps n fs,
    nth_error C pcC = Some (call_instr tail n) -> adjust_arity arity rest n st = inr EArity ->
    vm_step (mkVM C pcC (st ++ [MClo arity rest body caps]) fs MG) = SErr EArity.
  Proof.
    intros. unfold Bytecode.vm_step. simpl. rewrite H. unfold call_instr.
    destruct tail; rewrite unsnoc_app; simpl; rewrite H0; auto.
  Qed.

  Lemma call_step_func : forall C pcC st0 mvs mws n arity rest body caps fs,
    nth_error C pcC = Some (FUNC n) ->
    adjust_arity arity rest n (st0 ++ mvs) = inl (Some (st0 ++ mws)) -> arity = length mws ->
    S (length fs) < limit ->
    vm_step (mkVM C pcC ((st0 ++ mvs) ++ [MClo arity rest body caps]) fs MG) =
    SNext (mkVM body 0 (st0 ++ mws)
                (mkFrame (length st0) (MClo arity rest body caps) (S pcC) C :: fs) MG).
  Proof.
    intros C pcC st0 mvs mws n arity rest body caps fs H Hadj -> Hl.
    unfold Bytecode.vm_step. simpl. rewrite H. rewrite unsnoc_app. simpl. rewrite Hadj.
    replace (Nat.leb (length mws) (length (st0 ++ mws))) with true
      by (symmetry; apply Nat.leb_le; rewrite app_length; lia).
    replace (Nat.leb limit (S (length fs))) with false by (symmetry; apply Nat.leb_gt; lia).
    rewrite app_length. replace (length st0 + length mws - length mws) with (length st0) by lia. auto.
  Qed.

  Lemma call_step_tail : forall C pcC below slots mvs mws n arity rest body caps f0 fs0,
    nth_error C pcC = Some (TAILCALL n) ->
    adjust_arity arity rest n ((below ++ slots) ++ mvs) = inl (Some ((below ++ slots) ++ mws)) ->
    arity = length mws -> length below = f_sp f0 ->
    vm_step (mkVM C pcC (((below ++ slots) ++ mvs) ++ [MClo arity rest body caps]) (f0 :: fs0) MG) =
    SNext (mkVM body 0 (below ++ mws)
                (mkFrame (f_sp f0) (MClo arity rest body caps) (f_ret_ip f0) (f_ret_code f0) :: fs0) MG).
  Proof.
    intros C pcC below slots mvs mws n arity rest body caps f0 fs0 H Hadj -> H0.
    unfold Bytecode.vm_step. simpl. rewrite H. rewrite unsnoc_app. simpl. rewrite Hadj. simpl.
    replace (Nat.leb (length mws) (length ((below ++ slots) ++ mws))) with true
      by (symmetry; apply Nat.leb_le; rewrite !app_length; lia).
    replace (Nat.leb (f_sp f0) (length ((below ++ slots) ++ mws) - length mws)) with true
      by (symmetry; apply Nat.leb_le; rewrite !app_length; lia).
    simpl. rewrite <- H0. rewrite <- app_assoc. rewrite firstn_app_exact.
    rewrite app_assoc. rewrite skipn_len_app. auto.
  Qed.

  (* the operands a closure's parameters are bound to, on both sides (adjust_stack_for_multi_arity) *)
  Lemma Forall2_firstn : forall A B (R : A -> B -> Prop) k l1 l2, Forall2 R l1 l2 -> Forall2 R (firstn k l1) (firstn k l2).
  Proof. induction k; intros; simpl; [constructor|]. destruct H; constructor; auto. Qed.

  Lemma Forall2_skipn : forall A B (R : A -> B -> Prop) k l1 l2, Forall2 R l1 l2 -> Forall2 R (skipn k l1) (skipn k l2).
  Proof. induction k; intros; simpl; auto. destruct H; auto. Qed.

  Lemma Forall2_app2 : forall A B (R : A -> B -> Prop) a1 a2 b1 b2, Forall2 R a1 a2 -> Forall2 R b1 b2 -> Forall2 R (a1 ++ b1) (a2 ++ b2).
  Proof. induction 1; simpl; auto. Qed.

  Lemma skipn_app_plus : forall A (a b : list A) k, skipn (length a + k) (a ++ b) = skipn k b.
  Proof. induction a; simpl; intros; auto. Qed.

  Lemma adjust_rest : forall a n st0 mvs, n = length mvs -> 1 <= a -> a - 1 <= n ->
    adjust_arity a true n (st0 ++ mvs) =
    inl (Some (st0 ++ firstn (a - 1) mvs ++ [MList (skipn (a - 1) mvs)])).
  Proof.
    intros a n st0 mvs -> Ha Hn. cbv beta zeta delta [adjust_arity].
    destruct (Nat.ltb (length mvs) (a - 1)) eqn:E1; [apply Nat.ltb_lt in E1; lia|].
    destruct (Nat.leb (1 + length mvs - a) (length (st0 ++ mvs))) eqn:E2.
    2:{ apply Nat.leb_gt in E2. rewrite app_length in E2. lia. }
    replace (length (st0 ++ mvs) - (1 + length mvs - a)) with (length st0 + (a - 1))
      by (rewrite app_length; lia).
    rewrite firstn_app_more, skipn_app_plus, <- app_assoc. reflexivity.
  Qed.

  Lemma adjust_ok : forall ps rest vs xs ws mvs st0,
    call_args ps rest vs = Some (xs, ws) -> Forall2 vrel vs mvs ->
    exists mws, adjust_arity (length (params ps rest)) (rest_flag rest) (length mvs) (st0 ++ mvs) = inl (Some (st0 ++ mws)) /\
      Forall2 vrel ws mws /\ xs = params ps rest /\ length xs = length ws.
  Proof.
    intros ps rest vs xs ws mvs st0 Hc HF. pose proof (Forall2_len _ _ _ _ _ HF) as Hl.
    unfold call_args in Hc. destruct rest as [r|]; cbn [params rest_flag].
    - destruct (Nat.leb (length ps) (length vs)) eqn:E; [|discriminate]. apply Nat.leb_le in E.
      inversion Hc; subst xs ws. clear Hc.
      exists (firstn (length ps) mvs ++ [MList (skipn (length ps) mvs)]).
      rewrite adjust_rest; try (rewrite app_length; simpl; lia); auto.
      rewrite app_length. cbn [length]. replace (length ps + 1 - 1) with (length ps) by lia.
      repeat split; auto.
      + apply Forall2_app2. apply Forall2_firstn; auto. constructor; [|constructor].
        constructor. apply Forall2_skipn; auto.
      + rewrite !app_length. rewrite firstn_length. cbn [length]. lia.
    - destruct (Nat.eqb (length ps) (length vs)) eqn:E; [|discriminate]. apply Nat.eqb_eq in E.
      inversion Hc; subst xs ws. exists mvs. unfold adjust_arity.
      replace (Nat.eqb (length ps) (length mvs)) with true by (symmetry; apply Nat.eqb_eq; lia).
      auto.
  Qed.

  Lemma adjust_err : forall ps rest vs n st,
    call_args ps rest vs = None -> length vs = n ->
    adjust_arity (length (params ps rest)) (rest_flag rest) n st = inr EArity.
  Proof.
    intros ps rest vs n st Hc <-. unfold call_args in Hc. destruct rest as [r|]; cbn [params rest_flag].
    - destruct (Nat.leb (length ps) (length vs)) eqn:E; [discriminate|]. apply Nat.leb_gt in E.
      cbv beta zeta delta [adjust_arity]. rewrite app_length. cbn [length].
      destruct (Nat.ltb (length vs) (length ps + 1 - 1)) eqn:E1; auto. apply Nat.ltb_ge in E1. lia.
    - destruct (Nat.eqb (length ps) (length vs)) eqn:E; [discriminate|]. unfold adjust_arity. rewrite E. auto.
  Qed.

  (* ---------------------------------------------------------------- function entry *)
  Lemma entry_R1 : forall ps fvs r' caps' vs mvs,
    (forall j x, nth_error fvs j = Some x ->
       exists v mv, Core.lookup x r' = Some v /\ nth_error caps' j = Some mv /\ vrel v mv) ->
    Forall2 vrel vs mvs -> length ps = length vs ->
    R1 (bind ps vs r') (body_cenv ps fvs) mvs caps'.
  Proof.
    intros. unfold body_cenv.
    change mvs with ([] ++ mvs). change 0 with (length (@nil mval)).
    apply R1_bind; auto.
    intros x l Hl. unfold caps_cenv in Hl. apply lookup_caps_cenv in Hl. destruct Hl as (j & -> & Hj).
    destruct (H j x Hj) as (v & mv & A & B & Cc). exists v, mv. simpl. auto.
  Qed.

  Lemma entry_R2 : forall ps fvs r' body (vs : list val),
    (forall x, fv x body = true -> memb x ps = false -> ~ In x fvs -> Core.lookup x r' = None) ->
    R2 body (bind ps vs r') (body_cenv ps fvs).
  Proof.
    intros ps fvs r' body vs H y Hy Hnone. unfold body_cenv in Hnone.
    apply lookup_bind_slots_none in Hnone. destruct Hnone as [Hm Hn].
    rewrite lookup_bind_notin; auto. apply H; auto.
    unfold caps_cenv in Hn. eapply lookup_caps_cenv_none; eauto.
  Qed.

  Lemma outcome_to_ret : forall tl s Cb pc' below' slots' f fs' mv,
    outcome tl s Cb pc' below' slots' (f :: fs') mv ->
    returns_from Cb pc' (length slots') -> length below' = f_sp f ->
    star s (ret_state f below' fs' mv).
  Proof.
    intros tl s Cb pc' below' slots' f fs' mv Ho Hr Hb. destruct tl; simpl in Ho.
    - destruct Ho as (f1 & fs1 & Heq & Hst). inversion Heq; subst. auto.
    - eapply star_trans; [exact Ho|]. eapply run_return; eauto.
  Qed.

  Lemma sim_all : forall n, sim_at n.
  Proof.
    induction n as [|n IH]; intros r e res Hev; [discriminate|].
    intros ce tail C pc below slots caps fs Hc Hb Hfc HR1 HR2 Hlim Htail.
    assert (IH' : sim_at n) by exact IH.
    assert (Hlim' : length fs + n <= limit) by lia.
    destruct e as [c|x|ps rest e|fe args|e1 e2 e3|bs e|e1 e2]; simpl in Hev.
    - (* EConst *)
      inversion Hev; subst res. simpl. exists (const_mval c). split; [apply vrel_const|].
      simpl in Hc. apply code_at_cons in Hc. destruct Hc as [Hi _].
      apply outcome_of_fall; auto. apply star_one.
      unfold Bytecode.vm_step. simpl. rewrite Hi. unfold next_with. simpl.
      unfold fall_state. rewrite Nat.add_1_r, <- app_assoc. auto.
    - (* EVar *)
      simpl in Hc. apply code_at_cons in Hc. destruct Hc as [Hi _].
      destruct (Core.lookup x ce) as [lc|] eqn:Hce.
      + destruct (HR1 x lc Hce) as (v & mv & Hv & Hf & Hrel). rewrite Hv in Hev. inversion Hev; subst res.
        simpl. exists mv. split; auto. apply outcome_of_fall; auto. apply star_one.
        unfold Bytecode.vm_step. simpl. rewrite Hi. destruct lc; simpl in Hf.
        * rewrite <- Hb, nth_error_app_plus, Hf. unfold next_with, fall_state. simpl.
          rewrite Nat.add_1_r, <- app_assoc. auto.
        * destruct fs as [|f fs0]; simpl in Hfc.
          -- subst caps. destruct n0; discriminate.
          -- destruct Hfc as (a & rs & b & Hfn). rewrite Hfn, Hf. unfold next_with, fall_state. simpl.
             rewrite Nat.add_1_r, <- app_assoc. auto.
      + assert (Hr : Core.lookup x r = None). { apply HR2; auto. simpl. apply String.eqb_refl. }
        rewrite Hr in Hev. specialize (HG x).
        destruct (Core.lookup x G) as [v|] eqn:HxG.
        * inversion Hev; subst res. destruct (Core.lookup x MG) as [mv|] eqn:HxM; [|tauto].
          simpl. exists mv. split; auto. apply outcome_of_fall; auto. apply star_one.
          unfold Bytecode.vm_step. simpl. rewrite Hi. simpl. rewrite HxM. unfold next_with, fall_state. simpl.
          rewrite Nat.add_1_r, <- app_assoc. auto.
        * inversion Hev; subst res. destruct (Core.lookup x MG) as [mv|] eqn:HxM; [tauto|].
          simpl. eexists. split; [apply star_refl|].
          unfold Bytecode.vm_step. simpl. rewrite Hi. simpl. rewrite HxM. auto.
    - (* ELam *)
      inversion Hev; subst res. simpl in Hc. apply code_at_cons in Hc. destruct Hc as [Hi _].
      set (xs := params ps rest) in *.
      destruct (fetch_caps_ok r ce below slots caps fs HR1 Hfc Hb (captured ce xs e))
        as (caps' & Hfetch & Hall). { intros y Hy. eapply captured_in; eauto. }
      simpl. exists (MClo (length xs) (rest_flag rest)
                       (compile tco (body_cenv xs (captured ce xs e)) (length xs) tco e ++ [POPPURE]) caps').
      split.
      + unfold xs. constructor; auto.
        intros y Hfv Hps Hnot. apply HR2.
        * simpl. rewrite Hps, Hfv. auto.
        * destruct (Core.lookup y ce) eqn:Hy; auto. exfalso. apply Hnot.
          apply captured_complete; auto.
          assert (Hin : exists a, Core.lookup y ce = Some a) by eauto.
          clear - Hin. destruct Hin as [a Ha]. induction ce as [|[z b] ce]; simpl in *; [discriminate|].
          destruct (String.eqb y z) eqn:E; [apply String.eqb_eq in E; auto|auto].
      + apply outcome_of_fall; auto. apply star_one.
        unfold Bytecode.vm_step. simpl. rewrite Hi. simpl. rewrite Hfetch. unfold next_with, fall_state. simpl.
        rewrite Nat.add_1_r, <- app_assoc. auto.
    - (* EApp *)
      rewrite compile_app_eq in *. fold (call_instr tail (length args)) in *.
      remember (compile_list tco ce (length slots) args) as ca eqn:Eca.
      remember (compile tco ce (length slots + length args) false fe) as cf eqn:Ecf.
      set (pcC := pc + length ca + length cf) in *.
      replace (pc + length (ca ++ cf ++ [call_instr tail (length args)])) with (S pcC) in *
        by (unfold pcC; repeat (rewrite app_length; simpl); lia).
      apply code_at_app in Hc. destruct Hc as [Hca Hc].
      apply code_at_app in Hc. destruct Hc as [Hcf Hc]. fold pcC in Hc.
      apply code_at_cons in Hc. destruct Hc as [HiC _].
      assert (HRl : R2l args r ce). { intros y Hy. apply HR2. rewrite fv_app_eq, Hy. auto. }
      assert (HRf : R2 fe r ce). { intros y Hy. apply HR2. rewrite fv_app_eq, Hy. apply orb_true_r. }
      destruct (evals (ceval G n r) args) as [[vs|k]|] eqn:Hevs; try discriminate.
      2:{ inversion Hev; subst res. subst ca.
          exact (sim_list n IH' r args (inr k) Hevs ce C pc below slots caps fs Hca Hb Hfc HR1 HRl Hlim'). }
      subst ca.
      pose proof (sim_list n IH' r args (inl vs) Hevs ce C pc below slots caps fs Hca Hb Hfc HR1 HRl Hlim') as H1.
      destruct H1 as (mvs & HF & Hst1).
      assert (Hlen : length vs = length args) by (eapply evals_length; eauto).
      assert (Hlenm : length mvs = length args) by (rewrite <- Hlen; symmetry; eapply Forall2_len; eauto).
      assert (Hls : length (slots ++ mvs) = length slots + length args) by (rewrite app_length; lia).
      set (pcF := pc + length (compile_list tco ce (length slots) args)) in *.
      assert (Hcf' : code_at C pcF (compile tco ce (length (slots ++ mvs)) false fe)).
      { rewrite Hls. subst cf. exact Hcf. }
      assert (HR1' : R1 r ce (slots ++ mvs) caps) by (apply R1_more_slots; auto).
      destruct (ceval G n r fe) as [[fv0|k]|] eqn:Hef; try discriminate.
      2:{ inversion Hev; subst res.
          pose proof (IH' r fe (Err k) Hef ce false C pcF below (slots ++ mvs) caps fs Hcf' Hb Hfc HR1' HRf Hlim') as H2.
          eapply sim_concl_prefix.
          - replace (below ++ slots ++ mvs) with (below ++ (slots ++ mvs)) in Hst1 by auto. exact Hst1.
          - apply H2. intros Hf; discriminate. }
      pose proof (IH' r fe (Val fv0) Hef ce false C pcF below (slots ++ mvs) caps fs Hcf' Hb Hfc HR1' HRf Hlim') as H2.
      destruct H2 as (mf & Hrelf & Hst2). { intros Hf; discriminate. }
      simpl in Hst2. unfold fall_state in Hst2. rewrite Hls in Hst2. rewrite <- Ecf in Hst2. fold pcC in Hst2.
      eapply sim_concl_prefix.
      { eapply star_trans; [exact Hst1|exact Hst2]. }
      (* the call instruction *)
      replace (below ++ (slots ++ mvs) ++ [mf]) with (((below ++ slots) ++ mvs) ++ [mf])
        by (rewrite <- !app_assoc; auto).
      inversion Hrelf; subst fv0 mf.
      + inversion Hev; subst res. simpl. eexists. split; [apply star_refl|].
        eapply call_step_notproc; eauto; simpl; auto.
      + inversion Hev; subst res. simpl. eexists. split; [apply star_refl|].
        eapply call_step_notproc; eauto; simpl; auto.
      + inversion Hev; subst res. simpl. eexists. split; [apply star_refl|].
        eapply call_step_notproc; eauto; simpl; auto.
      + (* primitive *)
        inversion Hev; subst res. unfold prim_apply. rewrite (vrel_atoms _ _ HF).
        pose proof (call_step_prim tail C pcC (below ++ slots) mvs p fs) as Hp.
        rewrite Hlenm in Hp. specialize (Hp HiC).
        destruct (prim_sem p (map mval_atom mvs)) as [a|k].
        * simpl. exists (atom_mval a). split; [apply vrel_of_atom|].
          apply outcome_of_fall; auto. apply star_one. rewrite Hp. unfold fall_state.
          rewrite <- app_assoc. auto.
        * simpl. eexists. split; [apply star_refl|]. exact Hp.
      + (* closure *)
        rename H into Hcaps, H0 into Hfree.
        set (xs := params ps rest) in *.
        destruct (call_args ps rest vs) as [[xs' ws]|] eqn:Hcargs.
        2:{ inversion Hev; subst res. simpl. eexists. split; [apply star_refl|].
            eapply call_step_arity; eauto. eapply adjust_err; eauto. }
        destruct (adjust_ok ps rest vs xs' ws mvs (below ++ slots) Hcargs HF) as (mws & Hadj & HFw & Hxs & Hlw).
        fold xs in Hxs, Hadj. subst xs'. rewrite Hlenm in Hadj.
        set (bodyc := compile tco (body_cenv xs fvs) (length xs) tco body) in *.
        assert (Hpm : length xs = length mws) by (rewrite Hlw; eapply Forall2_len; eauto).
        assert (HRe1 : R1 (bind xs ws r0) (body_cenv xs fvs) mws caps0) by (apply entry_R1; auto).
        assert (HRe2 : R2 body (bind xs ws r0) (body_cenv xs fvs)) by (apply entry_R2; auto).
        assert (Hcb : code_at (bodyc ++ [POPPURE]) 0 (compile tco (body_cenv xs fvs) (length mws) tco body)).
        { rewrite <- Hpm. apply code_at_zero. }
        assert (Hrf : returns_from (bodyc ++ [POPPURE])
                        (0 + length (compile tco (body_cenv xs fvs) (length mws) tco body)) (length mws)).
        { rewrite <- Hpm. apply rf_pop. simpl. fold bodyc. apply nth_error_mid. }
        set (clo := MClo (length xs) (rest_flag rest) (bodyc ++ [POPPURE]) caps0) in *.
        destruct tail.
        * (* TAILCALL: the frame is reused *)
          destruct (Htail eq_refl) as [Hne _]. destruct fs as [|f0 fs0]; [congruence|].
          simpl in Hb.
          set (f0' := mkFrame (f_sp f0) clo (f_ret_ip f0) (f_ret_code f0)).
          assert (Hstep : vm_step (mkVM C pcC (((below ++ slots) ++ mvs) ++ [clo]) (f0 :: fs0) MG)
                          = SNext (mkVM (bodyc ++ [POPPURE]) 0 (below ++ mws) (f0' :: fs0) MG)).
          { unfold clo. eapply call_step_tail; eauto. }
          assert (Htk : tail_ok tco (bodyc ++ [POPPURE])
                          (0 + length (compile tco (body_cenv xs fvs) (length mws) tco body)) (length mws) (f0' :: fs0)).
          { intros _. split; [discriminate|exact Hrf]. }
          pose proof (IH' _ body res Hev _ tco (bodyc ++ [POPPURE]) 0 below mws caps0 (f0' :: fs0)
                          Hcb Hb (ex_intro _ _ (ex_intro _ _ (ex_intro _ _ eq_refl))) HRe1 HRe2) as H3.
          specialize (H3 ltac:(simpl in *; lia) Htk).
          destruct res as [v|k]; simpl in *.
          -- destruct H3 as (mv & Hrel & Ho). exists mv. split; auto.
             exists f0, fs0. split; auto.
             eapply step_star; [exact Hstep|].
             change (ret_state f0 below fs0 mv) with (ret_state f0' below fs0 mv).
             eapply outcome_to_ret; eauto.
          -- destruct H3 as (s' & Hst & He). exists s'. split; auto. eapply step_star; eauto.
        * (* FUNC: a new frame *)
          set (fr := mkFrame (length (below ++ slots)) clo (S pcC) C).
          assert (Hstep : vm_step (mkVM C pcC (((below ++ slots) ++ mvs) ++ [clo]) fs MG)
                          = SNext (mkVM (bodyc ++ [POPPURE]) 0 ((below ++ slots) ++ mws) (fr :: fs) MG)).
          { unfold clo. eapply call_step_func; eauto.
            apply ceval_fuel_pos in Hev. lia. }
          assert (Htk : tail_ok tco (bodyc ++ [POPPURE])
                          (0 + length (compile tco (body_cenv xs fvs) (length mws) tco body)) (length mws) (fr :: fs)).
          { intros _. split; [discriminate|exact Hrf]. }
          pose proof (IH' _ body res Hev _ tco (bodyc ++ [POPPURE]) 0 (below ++ slots) mws caps0 (fr :: fs)
                          Hcb eq_refl (ex_intro _ _ (ex_intro _ _ (ex_intro _ _ eq_refl))) HRe1 HRe2) as H3.
          specialize (H3 ltac:(simpl in *; lia) Htk).
          destruct res as [v|k]; simpl in *.
          -- destruct H3 as (mv & Hrel & Ho). exists mv. split; auto.
             eapply step_star; [exact Hstep|].
             assert (Hr : star (mkVM (bodyc ++ [POPPURE]) 0 ((below ++ slots) ++ mws) (fr :: fs) MG)
                               (ret_state fr (below ++ slots) fs mv)).
             { eapply outcome_to_ret; eauto. }
             unfold ret_state in Hr. simpl in Hr. unfold fall_state. rewrite app_assoc. exact Hr.
          -- destruct H3 as (s' & Hst & He). exists s'. split; auto. eapply step_star; eauto.
      + (* a list is not a procedure *)
        inversion Hev; subst res. simpl. eexists. split; [apply star_refl|].
        eapply call_step_notproc; eauto; simpl; auto.
    - (* EIf *)
      remember (compile tco ce (length slots) false e1) as cc eqn:Ecc.
      remember (compile tco ce (length slots) tail e2) as ct eqn:Ect.
      remember (compile tco ce (length slots) tail e3) as cf eqn:Ecf.
      assert (Hcode : compile tco ce (length slots) tail (EIf e1 e2 e3) =
                      cc ++ [IF (length ct + 2)] ++ ct ++ [JMP (length cf + 1)] ++ cf)
        by (simpl; subst; auto).
      rewrite Hcode in *. clear Hcode.
      set (pcI := pc + length cc) in *.
      replace (pc + length (cc ++ [IF (length ct + 2)] ++ ct ++ [JMP (length cf + 1)] ++ cf))
        with (S (S pcI + length ct) + length cf) in *
        by (unfold pcI; repeat (rewrite app_length; simpl); lia).
      apply code_at_app in Hc. destruct Hc as [Hcc Hc]. fold pcI in Hc.
      apply code_at_cons in Hc. destruct Hc as [HiI Hc].
      apply code_at_app in Hc. destruct Hc as [Hct Hc].
      apply code_at_cons in Hc. destruct Hc as [HiJ Hcf].
      assert (HRc : R2 e1 r ce). { intros y Hy. apply HR2. simpl. rewrite Hy. auto. }
      assert (HRt : R2 e2 r ce). { intros y Hy. apply HR2. simpl. rewrite Hy. rewrite orb_true_r. auto. }
      assert (HRf : R2 e3 r ce). { intros y Hy. apply HR2. simpl. rewrite Hy. rewrite !orb_true_r. auto. }
      destruct (ceval G n r e1) as [[vc|k]|] eqn:He1; try discriminate.
      + subst cc.
        pose proof (IH' r e1 (Val vc) He1 ce false C pc below slots caps fs Hcc Hb Hfc HR1 HRc Hlim') as H1.
        destruct H1 as (mvc & Hrelc & Hst1). { intros Hf; discriminate. }
        simpl in Hst1. unfold fall_state in Hst1. fold pcI in Hst1.
        rewrite (vrel_truthy _ _ Hrelc) in Hev.
        destruct (mtruthy mvc) eqn:Htr.
        * (* then branch *)
          assert (Hstep : vm_step (mkVM C pcI (below ++ slots ++ [mvc]) fs MG) =
                          SNext (mkVM C (S pcI) (below ++ slots) fs MG)).
          { unfold Bytecode.vm_step. simpl. rewrite HiI. rewrite app_assoc, unsnoc_app. rewrite Htr. auto. }
          eapply sim_concl_prefix; [eapply star_snoc; [exact Hst1|exact Hstep]|].
          subst ct.
          assert (Htk : tail_ok tail C (S pcI + length (compile tco ce (length slots) tail e2)) (length slots) fs).
          { intros Ht. destruct (Htail Ht) as [Hne Hrf]. split; auto.
            eapply rf_jmp; [exact HiJ|].
            replace (S pcI + length (compile tco ce (length slots) tail e2) + (length cf + 1))
              with (S (S pcI + length (compile tco ce (length slots) tail e2)) + length cf) by lia.
            exact Hrf. }
          pose proof (IH' r e2 res Hev ce tail C (S pcI) below slots caps fs Hct Hb Hfc HR1 HRt Hlim' Htk) as H2.
          destruct res as [v|k]; simpl in *; auto.
          destruct H2 as (mv & Hrel & Ho). exists mv. split; auto.
          unfold outcome in *. destruct tail; auto.
          eapply star_snoc; [exact Ho|].
          unfold Bytecode.vm_step, fall_state. simpl. rewrite HiJ. unfold set_code_ip. simpl.
          f_equal. f_equal. lia.
        * (* else branch *)
          assert (Hstep : vm_step (mkVM C pcI (below ++ slots ++ [mvc]) fs MG) =
                          SNext (mkVM C (S (S pcI + length ct)) (below ++ slots) fs MG)).
          { unfold Bytecode.vm_step. simpl. rewrite HiI. rewrite app_assoc, unsnoc_app. rewrite Htr.
            f_equal. f_equal. lia. }
          eapply sim_concl_prefix; [eapply star_snoc; [exact Hst1|exact Hstep]|].
          subst cf. eapply IH'; eauto.
      + inversion Hev; subst res. subst cc.
        pose proof (IH' r e1 (Err k) He1 ce false C pc below slots caps fs Hcc Hb Hfc HR1 HRc Hlim') as H1.
        apply H1. intros Hf; discriminate.
    - (* ELet *)
      rewrite compile_let_eq in *.
      remember (compile_list tco ce (length slots) (map snd bs)) as cl eqn:Ecl.
      remember (compile tco (bind_slots (map fst bs) (length slots) ce) (length slots + length bs) tail e) as cb eqn:Ecb.
      replace (pc + length (BEGINSCOPE :: cl ++ cb ++ [LETENDSCOPE (length slots)]))
        with (S (S pc + length cl + length cb)) in *
        by (simpl; repeat (rewrite app_length; simpl); lia).
      apply code_at_cons in Hc. destruct Hc as [HiB Hc].
      apply code_at_app in Hc. destruct Hc as [Hcl Hc].
      apply code_at_app in Hc. destruct Hc as [Hcb Hc].
      apply code_at_cons in Hc. destruct Hc as [HiL _].
      assert (HRl : R2l (map snd bs) r ce).
      { intros y Hy. apply HR2. rewrite fv_let_eq, Hy. auto. }
      assert (Hstep0 : vm_step (mkVM C pc (below ++ slots) fs MG) = SNext (mkVM C (S pc) (below ++ slots) fs MG)).
      { unfold Bytecode.vm_step. simpl. rewrite HiB. auto. }
      destruct (evals (ceval G n r) (map snd bs)) as [[vs|k]|] eqn:Hevs; try discriminate.
      + subst cl.
        pose proof (sim_list n IH' r (map snd bs) (inl vs) Hevs ce C (S pc) below slots caps fs Hcl Hb Hfc HR1 HRl Hlim') as H1.
        destruct H1 as (mvs & HF & Hst1).
        assert (Hlen : length vs = length bs). { apply evals_length in Hevs. rewrite map_length in Hevs. auto. }
        assert (Hlenm : length mvs = length bs). { rewrite <- Hlen. symmetry. eapply Forall2_len; eauto. }
        eapply sim_concl_prefix.
        { eapply step_star; [exact Hstep0|]. exact Hst1. }
        set (pcb := S pc + length (compile_list tco ce (length slots) (map snd bs))) in *.
        assert (HR1' : R1 (bind (map fst bs) vs r) (bind_slots (map fst bs) (length slots) ce) (slots ++ mvs) caps).
        { apply R1_bind; auto. rewrite map_length. auto. }
        assert (HR2' : R2 e (bind (map fst bs) vs r) (bind_slots (map fst bs) (length slots) ce)).
        { intros y Hy Hnone. apply lookup_bind_slots_none in Hnone. destruct Hnone as [Hm Hn].
          rewrite lookup_bind_notin; auto. apply HR2; auto. rewrite fv_let_eq, Hm, Hy. simpl. apply orb_true_r. }
        assert (Hls : length (slots ++ mvs) = length slots + length bs) by (rewrite app_length; lia).
        assert (Hcb' : code_at C pcb (compile tco (bind_slots (map fst bs) (length slots) ce) (length (slots ++ mvs)) tail e)).
        { rewrite Hls. subst cb. exact Hcb. }
        assert (Htk : tail_ok tail C (pcb + length (compile tco (bind_slots (map fst bs) (length slots) ce) (length (slots ++ mvs)) tail e))
                              (length (slots ++ mvs)) fs).
        { rewrite Hls. rewrite <- Ecb. intros Ht. destruct (Htail Ht) as [Hne Hrf]. split; auto.
          eapply rf_let; [exact HiL|lia|]. exact Hrf. }
        pose proof (IH' _ e res Hev _ tail C pcb below (slots ++ mvs) caps fs Hcb' Hb Hfc HR1' HR2' Hlim' Htk) as H2.
        rewrite Hls in H2. rewrite <- Ecb in H2.
        destruct res as [v|k]; simpl in *; auto.
        destruct H2 as (mv & Hrel & Ho). exists mv. split; auto.
        unfold outcome in *. destruct tail; auto.
        eapply star_snoc; [exact Ho|].
        unfold Bytecode.vm_step, fall_state. simpl. rewrite HiL.
        replace (below ++ (slots ++ mvs) ++ [mv]) with ((below ++ slots ++ mvs) ++ [mv])
          by (rewrite <- !app_assoc; auto).
        rewrite unsnoc_app. rewrite <- Hb.
        replace (Nat.leb (length below + length slots) (length (below ++ slots ++ mvs))) with true
          by (symmetry; apply Nat.leb_le; rewrite !app_length; lia).
        unfold next_with. simpl. rewrite firstn_app_more, firstn_app_exact. rewrite <- app_assoc. auto.
      + inversion Hev; subst res. subst cl.
        pose proof (sim_list n IH' r (map snd bs) (inr k) Hevs ce C (S pc) below slots caps fs Hcl Hb Hfc HR1 HRl Hlim') as H1.
        destruct H1 as (s' & Hst & He). simpl. exists s'. split; auto.
        eapply step_star; [exact Hstep0|]. exact Hst.
    - (* ESeq *)
      remember (compile tco ce (length slots) false e1) as c1 eqn:Ec1.
      remember (compile tco ce (length slots) tail e2) as c2 eqn:Ec2.
      assert (Hcode : compile tco ce (length slots) tail (ESeq e1 e2) = c1 ++ [POPSINGLE] ++ c2)
        by (simpl; subst; auto).
      rewrite Hcode in *. clear Hcode.
      replace (pc + length (c1 ++ [POPSINGLE] ++ c2)) with (S (pc + length c1) + length c2) in *
        by (rewrite !app_length; simpl; lia).
      apply code_at_app in Hc. destruct Hc as [Hc1 Hc2]. apply code_at_cons in Hc2. destruct Hc2 as [Hi Hc2].
      assert (HRa : R2 e1 r ce). { intros y Hy. apply HR2. simpl. rewrite Hy. auto. }
      assert (HRb : R2 e2 r ce). { intros y Hy. apply HR2. simpl. rewrite Hy. apply orb_true_r. }
      destruct (ceval G n r e1) as [[v1|k]|] eqn:He1; try discriminate.
      + subst c1.
        pose proof (IH' r e1 (Val v1) He1 ce false C pc below slots caps fs Hc1 Hb Hfc HR1 HRa Hlim') as H1.
        destruct H1 as (mv1 & _ & Hst1). { intros Hf; discriminate. }
        simpl in Hst1. unfold fall_state in Hst1.
        eapply sim_concl_prefix.
        * eapply star_snoc; [exact Hst1|].
          unfold Bytecode.vm_step. simpl. rewrite Hi. rewrite app_assoc, unsnoc_app. unfold next_with. simpl. reflexivity.
        * subst c2. eapply IH'; eauto.
      + inversion Hev; subst res. subst c1.
        pose proof (IH' r e1 (Err k) He1 ce false C pc below slots caps fs Hc1 Hb Hfc HR1 HRa Hlim') as H1.
        apply H1. intros Hf; discriminate.
  Qed.
End Sim.

(* ------------------------------------------------------------------ whole programs *)
Lemma vm_run_mono : forall limit k s r, vm_run limit k s = r -> r <> RFuel ->
  forall k', k <= k' -> vm_run limit k' s = r.
Proof.
  induction k; simpl; intros s r H Hr k' Hk.
  - congruence.
  - destruct k'; [lia|]. simpl. destruct (vm_step limit s); auto. apply IHk; auto. lia.
Qed.

Lemma star_run : forall limit s s', star limit s s' -> forall k r, vm_run limit k s' = r ->
  exists k', vm_run limit k' s = r.
Proof.
  induction 1; intros k r Hr; eauto.
  destruct (IHstar k r Hr) as [k' Hk']. exists (S k'). simpl. rewrite H. auto.
Qed.

Lemma Grel_prims : forall tco, Grel tco prim_env prim_globals.
Proof.
  intros tco g. unfold prim_env, prim_globals. induction prim_table as [|[x p] t]; simpl; auto.
  destruct (String.eqb g x); auto. constructor.
Qed.

Lemma Grel_cons : forall tco G MG x v mv, Grel tco G MG -> vrel tco v mv -> Grel tco ((x, v) :: G) ((x, mv) :: MG).
Proof. intros tco G MG x v mv H Hv g. simpl. destruct (String.eqb g x); auto. apply H. Qed.

Lemma R1_empty : forall tco r, R1 tco r [] [] [].
Proof. intros tco r x l H. discriminate. Qed.

Lemma R2_empty : forall e ce, R2 e [] ce.
Proof. intros e ce x _ _. auto. Qed.

(* a top-level expression form *)
Lemma sim_top : forall limit tco G MG, Grel tco G MG ->
  forall n e res, ceval G n [] e = Some res -> n <= limit ->
  match res with
  | Val v => exists k mv, vrel tco v mv /\
      vm_run limit k (init_vm (compile_top tco e) MG) =
      RDone mv (mkVM (compile_top tco e) (S (length (compile tco [] 0 false e))) [] [] MG)
  | Err ek => exists k, vm_run limit k (init_vm (compile_top tco e) MG) = RErr ek
  end.
Proof.
  intros limit tco G MG HG n e res Hev Hn.
  pose proof (sim_all limit tco MG G HG n [] e res Hev [] false (compile_top tco e) 0 [] [] [] []) as H.
  simpl in H. specialize (H (code_at_zero _ _) eq_refl eq_refl (R1_empty _ _) (R2_empty _ _) Hn).
  specialize (H ltac:(intros Hf; discriminate)).
  destruct res as [v|ek]; simpl in H.
  - destruct H as (mv & Hrel & Hst). unfold fall_state in Hst. simpl in Hst.
    eapply star_run with (k := 1) in Hst.
    + destruct Hst as [k' Hk']. exists k', mv. split; eauto.
    + simpl. unfold vm_step. simpl. unfold compile_top. rewrite nth_error_mid. simpl. reflexivity.
  - destruct H as (s' & Hst & He). eapply star_run with (k := 1) in Hst.
    + destruct Hst as [k' Hk']. exists k'. exact Hk'.
    + simpl. rewrite He. auto.
Qed.

(* a top-level definition: the value is bound, the form returns void *)
Lemma sim_define : forall limit tco G MG, Grel tco G MG ->
  forall n x e res, ceval G n [] e = Some res -> n <= limit ->
  match res with
  | Val v => exists k mv s', vrel tco v mv /\ globals s' = (x, mv) :: MG /\
      vm_run limit k (init_vm (compile_define tco x e) MG) = RDone MVoid s'
  | Err ek => exists k, vm_run limit k (init_vm (compile_define tco x e) MG) = RErr ek
  end.
Proof.
  intros limit tco G MG HG n x e res Hev Hn.
  pose proof (sim_all limit tco MG G HG n [] e res Hev [] false (compile_define tco x e) 0 [] [] [] []) as H.
  simpl in H. specialize (H (code_at_zero _ _) eq_refl eq_refl (R1_empty _ _) (R2_empty _ _) Hn).
  specialize (H ltac:(intros Hf; discriminate)).
  destruct res as [v|ek]; simpl in H.
  - destruct H as (mv & Hrel & Hst). unfold fall_state in Hst. simpl in Hst.
    set (c := compile tco [] 0 false e) in *.
    assert (H3 : vm_run limit 3 (mkVM (compile_define tco x e) (0 + length c) ([] ++ [] ++ [mv]) [] MG) =
                 RDone MVoid (mkVM (compile_define tco x e) (S (S (S (length c)))) [] [] ((x, mv) :: MG))).
    { unfold compile_define. fold c. simpl plus. simpl app.
      assert (E0 : nth_error (c ++ [BIND x; PUSHCONST KVoid; POPPURE]) (length c) = Some (BIND x)).
      { replace (length c) with (length c + 0) by lia. rewrite nth_error_app_plus. auto. }
      assert (E1 : nth_error (c ++ [BIND x; PUSHCONST KVoid; POPPURE]) (S (length c)) = Some (PUSHCONST KVoid)).
      { replace (S (length c)) with (length c + 1) by lia. rewrite nth_error_app_plus. auto. }
      assert (E2 : nth_error (c ++ [BIND x; PUSHCONST KVoid; POPPURE]) (S (S (length c))) = Some POPPURE).
      { replace (S (S (length c))) with (length c + 2) by lia. rewrite nth_error_app_plus. auto. }
      change 3 with (S (S (S 0))).
      cbn [vm_run]. unfold vm_step at 1. cbn [code ip stack frames globals]. rewrite E0.
      cbn [unsnoc]. cbn [vm_run]. unfold vm_step at 1. cbn [code ip stack frames globals]. rewrite E1.
      unfold next_with. cbn [code ip stack frames globals app const_mval].
      cbn [vm_run]. unfold vm_step at 1. cbn [code ip stack frames globals]. rewrite E2.
      cbn [unsnoc]. unfold do_return. cbn [code ip stack frames globals]. reflexivity. }
    destruct (star_run _ _ _ Hst _ _ H3) as [k' Hk'].
    exists k', mv. eexists. split; [exact Hrel|]. split; [|exact Hk']. reflexivity.
  - destruct H as (s' & Hst & He). eapply star_run with (k := 1) in Hst.
    + destruct Hst as [k' Hk']. exists k'. exact Hk'.
    + simpl. rewrite He. auto.
Qed.

Lemma sim_defs : forall limit tco n ds G MG, Grel tco G MG -> n <= limit ->
  forall x, run_defs n G ds = Some x ->
  match x with
  | inl G' => exists k MG', Grel tco G' MG' /\ forall k', k <= k' -> vm_defs limit tco false k' MG ds = inr MG'
  | inr ek => exists k, forall k', k <= k' -> vm_defs limit tco false k' MG ds = inl (RErr ek)
  end.
Proof.
  intros limit tco n ds. induction ds as [|[y e] ds IH]; intros G MG HG Hn x Hx; simpl in Hx.
  - inversion Hx; subst. exists 0, MG. split; auto.
  - destruct (ceval G n [] e) as [[v|ek]|] eqn:He; try discriminate.
    + destruct (sim_define limit tco G MG HG n y e (Val v) He Hn) as (k1 & mv & s' & Hrel & Hgl & Hrun).
      specialize (IH ((y, v) :: G) ((y, mv) :: MG) (Grel_cons _ _ _ _ _ _ HG Hrel) Hn x Hx).
      destruct x as [G'|ek].
      * destruct IH as (k2 & MG' & HG' & Hk2). exists (Nat.max k1 k2), MG'. split; auto.
        intros k' Hk'. simpl. unfold finish.
        rewrite (vm_run_mono limit k1 _ _ Hrun) by (try discriminate; lia).
        rewrite Hgl. apply Hk2. lia.
      * destruct IH as (k2 & Hk2). exists (Nat.max k1 k2).
        intros k' Hk'. simpl. unfold finish.
        rewrite (vm_run_mono limit k1 _ _ Hrun) by (try discriminate; lia).
        rewrite Hgl. apply Hk2. lia.
    + inversion Hx; subst x.
      destruct (sim_define limit tco G MG HG n y e (Err ek) He Hn) as (k1 & Hrun).
      exists k1. intros k' Hk'. simpl. unfold finish.
      rewrite (vm_run_mono limit k1 _ _ Hrun) by (try discriminate; lia). auto.
Qed.

Lemma sim_program : forall limit tco n ds main res,
  run_program n ds main = Some res -> n <= limit ->
  match res with
  | Val v => exists k mv s', vrel tco v mv /\ vm_program limit tco false k ds main = RDone mv s'
  | Err ek => exists k, vm_program limit tco false k ds main = RErr ek
  end.
Proof.
  intros limit tco n ds main res H Hn. unfold run_program in H.
  destruct (run_defs n prim_env ds) as [[G'|ek]|] eqn:Hd; try discriminate.
  - destruct (sim_defs limit tco n ds prim_env prim_globals (Grel_prims tco) Hn _ Hd) as (k1 & MG' & HG' & Hk1).
    pose proof (sim_top limit tco G' MG' HG' n main res H Hn) as Ht.
    destruct res as [v|ek].
    + destruct Ht as (k2 & mv & Hrel & Hrun). exists (Nat.max k1 k2), mv. eexists. split; eauto.
      unfold vm_program. rewrite Hk1 by lia. unfold finish.
      eapply (vm_run_mono limit k2 _ _ Hrun); [discriminate|lia].
    + destruct Ht as (k2 & Hrun). exists (Nat.max k1 k2).
      unfold vm_program. rewrite Hk1 by lia. unfold finish.
      eapply (vm_run_mono limit k2 _ _ Hrun); [discriminate|lia].
  - inversion H; subst res.
    destruct (sim_defs limit tco n ds prim_env prim_globals (Grel_prims tco) Hn _ Hd) as (k1 & Hk1).
    exists k1. unfold vm_program. rewrite Hk1; auto.
Qed.

(* related results print the same *)
Lemma vrel_canon : forall tco v mv, vrel tco v mv -> canon_val v = canon_mval mv.
Proof.
  intros tco. fix IH 3. intros v mv H. destruct H; simpl; auto.
  f_equal. f_equal. f_equal. induction H; simpl; auto. f_equal; auto.
Qed.

(* ------------------------------------------------------------------ facts about ceval singled out by the property *)
Lemma var_latest : forall G n r x v, ceval G (S n) ((x, v) :: r) (EVar x) = Some (Val v).
Proof. intros. simpl. rewrite String.eqb_refl. auto. Qed.

Lemma var_latest_let : forall G n r x e1 v,
  ceval G n r e1 = Some (Val v) ->
  ceval G (S n) r (ELet [(x, e1)] (EVar x)) = Some (Val v).
Proof.
  intros G n r x e1 v H. simpl. rewrite H. destruct n; [discriminate|].
  simpl. rewrite String.eqb_refl. auto.
Qed.

(* the unevaluated branch of [if] contributes nothing: it may be replaced by ANY expression
   (one that raises, diverges or is ill-scoped) without changing the outcome *)
Lemma dead_branch_true : forall G n r c t e1 e2 v,
  ceval G n r c = Some (Val v) -> truthy v = true ->
  ceval G (S n) r (EIf c t e1) = ceval G (S n) r (EIf c t e2) /\
  ceval G (S n) r (EIf c t e1) = ceval G n r t.
Proof. intros. simpl. rewrite H, H0. auto. Qed.

Lemma dead_branch_false : forall G n r c t1 t2 e v,
  ceval G n r c = Some (Val v) -> truthy v = false ->
  ceval G (S n) r (EIf c t1 e) = ceval G (S n) r (EIf c t2 e) /\
  ceval G (S n) r (EIf c t1 e) = ceval G n r e.
Proof. intros. simpl. rewrite H, H0. auto. Qed.

(* an uncalled lambda body contributes nothing: creating the closure succeeds whatever the body is *)
Lemma dead_lambda_body : forall G n r ps rest body,
  ceval G (S n) r (ELam ps rest body) = Some (Val (VClo ps rest body r)).
Proof. auto. Qed.

Lemma dead_code_silent : forall G n r c t e1 e2 v,
  ceval G n r c = Some (Val v) ->
  (truthy v = true -> ceval G (S n) r (EIf c t e1) = ceval G (S n) r (EIf c t e2)) /\
  (truthy v = false -> ceval G (S n) r (EIf c e1 t) = ceval G (S n) r (EIf c e2 t)) /\
  (forall ps rest body, ceval G (S n) r (ELam ps rest body) = Some (Val (VClo ps rest body r))).
Proof.
  intros G n r c t e1 e2 v H. split; [|split].
  - intros Ht. simpl. rewrite H, Ht. auto.
  - intros Ht. simpl. rewrite H, Ht. auto.
  - auto.
Qed.

(* the callee's parameters are bound to exactly the evaluated operands *)
Lemma lookup_bind_nth : forall (ps : list ident) (vs : list val) r i x v,
  NoDup ps -> length ps = length vs ->
  nth_error ps i = Some x -> nth_error vs i = Some v ->
  Core.lookup x (bind ps vs r) = Some v.
Proof.
  induction ps as [|p ps IH]; intros vs r i x v Hnd Hlen Hp Hv.
  - destruct i; discriminate.
  - destruct vs as [|w vs]; [discriminate|]. inversion Hnd; subst. simpl.
    destruct i; simpl in *.
    + inversion Hp; inversion Hv; subst.
      rewrite lookup_bind_notin.
      * simpl. rewrite String.eqb_refl. auto.
      * destruct (memb x ps) eqn:E; auto. apply memb_true_in in E. contradiction.
    + eapply IH; eauto.
Qed.

Lemma call_args_exact : forall G n r f args ps rest body r' vs,
  evals (ceval G n r) args = Some (inl vs) ->
  ceval G n r f = Some (Val (VClo ps rest body r')) ->
  (* the call evaluates the body with the parameters bound by [call_args], or is an arity error *)
  ceval G (S n) r (EApp f args) =
    match call_args ps rest vs with
    | Some (xs, ws) => ceval G n (bind xs ws r') body
    | None => Some (Err EArity)
    end /\
  (* fixed arity: exactly the evaluated operands, position by position *)
  (rest = None -> length ps = length vs -> call_args ps rest vs = Some (ps, vs)) /\
  (rest = None -> length ps <> length vs -> call_args ps rest vs = None) /\
  (* rest parameter r: the first |ps| operands, then the list of the remaining ones *)
  (forall r0, rest = Some r0 -> length ps <= length vs ->
     call_args ps rest vs = Some (ps ++ [r0], firstn (length ps) vs ++ [VList (skipn (length ps) vs)])) /\
  (forall xs ws, call_args ps rest vs = Some (xs, ws) -> NoDup xs ->
     forall i x v, nth_error xs i = Some x -> nth_error ws i = Some v -> Core.lookup x (bind xs ws r') = Some v) /\
  length vs = length args.
Proof.
  intros G n r f args ps rest body r' vs He Hf. repeat split.
  - simpl. rewrite He, Hf. destruct (call_args ps rest vs) as [[xs ws]|]; auto.
  - intros -> Hl. unfold call_args. apply Nat.eqb_eq in Hl. rewrite Hl. auto.
  - intros -> Hl. unfold call_args. apply Nat.eqb_neq in Hl. rewrite Hl. auto.
  - intros r0 -> Hl. unfold call_args. apply Nat.leb_le in Hl. rewrite Hl. auto.
  - intros xs ws Hc Hnd i x v Hx Hv. eapply lookup_bind_nth; eauto.
    unfold call_args in Hc. destruct rest.
    + destruct (Nat.leb (length ps) (length vs)) eqn:E; [|discriminate]. apply Nat.leb_le in E.
      inversion Hc; subst. rewrite !app_length, firstn_length. simpl. lia.
    + destruct (Nat.eqb (length ps) (length vs)) eqn:E; [|discriminate]. apply Nat.eqb_eq in E.
      inversion Hc; subst. auto.
  - eapply evals_length; eauto.
Qed.

(* ------------------------------------------------------------------ rest parameters: the entry of a variadic closure *)
Lemma rest_entry : forall limit tco MG ps r body r' clo vs mvs xs ws C pcC st0 fs,
  vrel tco (VClo ps (Some r) body r') clo ->
  call_args ps (Some r) vs = Some (xs, ws) -> Forall2 (vrel tco) vs mvs ->
  nth_error C pcC = Some (FUNC (length mvs)) -> S (length fs) < limit ->
  exists mws code caps fvs,
    clo = MClo (length ps + 1) true code caps /\
    xs = ps ++ [r] /\ ws = firstn (length ps) vs ++ [VList (skipn (length ps) vs)] /\
    mws = firstn (length ps) mvs ++ [MList (skipn (length ps) mvs)] /\
    vm_step limit (mkVM C pcC ((st0 ++ mvs) ++ [clo]) fs MG) =
      SNext (mkVM code 0 (st0 ++ mws) (mkFrame (length st0) clo (S pcC) C :: fs) MG) /\
    Forall2 (vrel tco) ws mws /\
    R1 tco (bind xs ws r') (body_cenv xs fvs) mws caps.
Proof.
  intros limit tco MG ps r body r' clo vs mvs xs ws C pcC st0 fs Hrel Hc HF Hi Hl.
  inversion Hrel; subst.
  destruct (adjust_ok tco ps (Some r) vs xs ws mvs st0 Hc HF) as (mws & Hadj & HFw & Hxs & Hlw).
  pose proof (Forall2_len _ _ _ _ _ HF) as Hlen.
  assert (Hc' := Hc). unfold call_args in Hc'.
  destruct (Nat.leb (length ps) (length vs)) eqn:E; [|discriminate]. apply Nat.leb_le in E.
  inversion Hc'; subst xs ws.
  assert (Hmws : mws = firstn (length ps) mvs ++ [MList (skipn (length ps) mvs)]).
  { cbn [params rest_flag] in Hadj. rewrite adjust_rest in Hadj; try (rewrite app_length; simpl; lia); auto.
    rewrite app_length in Hadj. cbn [length] in Hadj. replace (length ps + 1 - 1) with (length ps) in Hadj by lia.
    inversion Hadj as [Heq]. apply app_inv_head in Heq. auto. }
  exists mws. eexists. exists caps, fvs. cbn [params rest_flag]. rewrite app_length. cbn [length].
  split; [reflexivity|]. split; auto. split; auto. split; auto. split.
  - eapply (call_step_func limit MG); eauto.
    + cbn [params rest_flag] in Hadj. rewrite app_length in Hadj. exact Hadj.
    + rewrite Hmws, app_length, firstn_length. cbn [length]. lia.
  - split; auto. apply entry_R1; auto.
Qed.

(* ------------------------------------------------------------------ the CALLGLOBAL super-instruction
   program.rs rewrites  PUSH g ; FUNC n  into  CALLGLOBAL g ; FUNC n  (and the TAILCALL pair into
   CALLGLOBALTAIL g ; TAILCALL n).  One step of the fused form does what the two steps of the original
   pair do: same error, or the same next state up to the instruction array [C] vs [C'] it is fetched
   from / returns to. *)
Definition with_code (C' : list instr) (s : vmstate) : vmstate :=
  mkVM C' (ip s) (stack s) (frames s) (globals s).

Lemma callglobal_fusion : forall limit C C' pc g n st fs MG,
  nth_error C pc = Some (PUSH g) -> nth_error C (S pc) = Some (FUNC n) ->
  nth_error C' pc = Some (CALLGLOBAL g) -> nth_error C' (S pc) = Some (FUNC n) ->
  match vm_step limit (mkVM C pc st fs MG) with
  | SErr k => vm_step limit (mkVM C' pc st fs MG) = SErr k
  | SNext s1 =>
      match vm_step limit s1, vm_step limit (mkVM C' pc st fs MG) with
      | SErr k, r => r = SErr k
      | SStuck, r => r = SStuck
      | SNext a, SNext b =>
          (* a primitive: execution continues after the pair in the same array *)
          (code a = C /\ b = with_code C' a) \/
          (* a closure: a frame was pushed whose return address is after the pair *)
          (exists fr, frames a = fr :: fs /\ f_ret_code fr = C /\
                      b = mkVM (code a) (ip a) (stack a) (mkFrame (f_sp fr) (f_fn fr) (f_ret_ip fr) C' :: fs) (globals a))
      | _, _ => False
      end
  | _ => False
  end.
Proof.
  intros limit C C' pc g n st fs MG H1 H2 H3 H4.
  unfold vm_step at 1. cbn [code ip stack frames globals]. rewrite H1.
  destruct (Core.lookup g MG) as [f|] eqn:Hg.
  - unfold next_with. cbn [code ip stack frames globals].
    unfold vm_step at 1. cbn [code ip stack frames globals]. rewrite H2, unsnoc_app.
    unfold vm_step. cbn [code ip stack frames globals]. rewrite H3, H4, Hg.
    destruct f; cbn [do_call]; auto.
    + (* primitive *)
      unfold call_prim. cbn [code ip stack frames globals].
      destruct (Nat.leb n (length st)); auto.
      destruct (prim_sem p _); auto; try (left; split; auto; fail).
    + (* closure *)
      destruct (adjust_arity arity rest n st) as [[st'|]|k]; auto.
      destruct (Nat.leb arity (length st')); auto.
      cbn [code ip stack frames globals].
      destruct (Nat.leb limit (S (length fs))); auto;
        try (right; eexists; split; [reflexivity|]; split; reflexivity).
  - unfold vm_step. cbn [code ip stack frames globals]. rewrite H3, H4, Hg. auto.
Qed.

(* the tail pair with a closure callee: the frame is reused, so the two forms reach the SAME state *)
Lemma callglobaltail_fusion : forall limit C C' pc g n st fs MG arity rest body caps,
  nth_error C pc = Some (PUSH g) -> nth_error C (S pc) = Some (TAILCALL n) ->
  nth_error C' pc = Some (CALLGLOBALTAIL g) -> nth_error C' (S pc) = Some (TAILCALL n) ->
  Core.lookup g MG = Some (MClo arity rest body caps) ->
  exists s1, vm_step limit (mkVM C pc st fs MG) = SNext s1 /\
             vm_step limit s1 = vm_step limit (mkVM C' pc st fs MG).
Proof.
  intros limit C C' pc g n st fs MG arity rest body caps H1 H2 H3 H4 Hg.
  eexists. split.
  - unfold vm_step. cbn [code ip stack frames globals]. rewrite H1, Hg. reflexivity.
  - unfold vm_step. cbn [code ip stack frames globals]. rewrite H2, H3, H4, Hg, unsnoc_app.
    cbn [do_tail_call]. cbn [code ip stack frames globals]. reflexivity.
Qed.
