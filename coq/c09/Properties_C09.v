(* C09 — property theorems.  Each is closed by [exact lemma] (generated-fact lemmas by computation);
   statements are pinned in Pins_C09.v.  The VM is lib/Bytecode.v ([limit] = STACK_LIMIT, any value). *)
From Coq Require Import String.
From Coq Require Import ZArith NArith List Bool Lia Arith.
From SV Require Import lib.Core lib.Bytecode c01.Proofs_C01 c09.Model_C09 c09.Proofs_C09 gen.Gen_C09.
Import ListNotations.
Open Scope list_scope.

(* Executing a TAILCALL / tail CALLGLOBAL whose callee is a closure (fixed arity or rest arguments) leaves
   the frame stack length unchanged, keeps the frame base, and leaves exactly [arity] operands above it. *)
Theorem C09_tail_call_space : forall limit s s' arity rest body caps,
  tail_call_target s = Some (MClo arity rest body caps) ->
  vm_step limit s = SNext s' ->
  length (frames s') = length (frames s) /\
  length (stack s') = cur_sp (frames s) + arity /\
  cur_sp (frames s') = cur_sp (frames s) /\
  ip s' = 0 /\ code s' = body.
Proof. exact tail_call_space. Qed.

(* Loops whose back edge is a tail call (self, or mutual among any number of closures): along ANY execution
   [tr] from a state s0 inside the loop's frame that does not return from that frame, every tail call
   executed at the loop's frame depth lands at the callee's head with the same frame-stack length and with
   operand-stack length = (frame base at s0) + arity(callee) — at every iteration, for every iteration count
   (the trace is arbitrary: induction over it, no bound). *)
Theorem C09_loop_constant_space : forall limit s0 tr, exec_trace limit s0 tr -> 1 <= length (frames s0) ->
  (forall s, In s tr -> length (frames s0) <= length (frames s)) ->
  forall i s s' arity rest body caps,
    nth_error (s0 :: tr) i = Some s -> nth_error (s0 :: tr) (S i) = Some s' ->
    length (frames s) = length (frames s0) ->
    tail_call_target s = Some (MClo arity rest body caps) ->
    length (frames s') = length (frames s0) /\
    length (stack s') = cur_sp (frames s0) + arity /\
    cur_sp (frames s') = cur_sp (frames s0) /\
    ip s' = 0 /\ code s' = body.
Proof. exact loop_constant_space. Qed.

(* After the tail-call shuffle slot k of the frame holds the k-th operand written at the call site: all
   arities, whatever lies between the frame base and the operands (old arguments, let-bound temporaries at
   any depth). *)
Theorem C09_args_shuffled_right : forall limit C pc below junk args arity body caps f0 fs0 MG,
  nth_error C pc = Some (TAILCALL arity) ->
  length below = f_sp f0 -> length args = arity ->
  exists s', vm_step limit (mkVM C pc ((below ++ junk ++ args) ++ [MClo arity false body caps]) (f0 :: fs0) MG) = SNext s' /\
    stack s' = below ++ args /\
    (forall k, k < arity -> nth_error (stack s') (cur_sp (frames s') + k) = nth_error args k) /\
    length (frames s') = length (f0 :: fs0).
Proof. exact args_shuffled_right. Qed.

Theorem C09_args_shuffled_right_global : forall limit C pc g below junk args arity body caps f0 fs0 MG n',
  nth_error C pc = Some (CALLGLOBALTAIL g) ->
  nth_error C (S pc) = Some (TAILCALL arity) \/ nth_error C (S pc) = Some (FUNC arity) ->
  n' = arity ->
  Core.lookup g MG = Some (MClo arity false body caps) ->
  length below = f_sp f0 -> length args = arity ->
  exists s', vm_step limit (mkVM C pc (below ++ junk ++ args) (f0 :: fs0) MG) = SNext s' /\
    stack s' = below ++ args /\
    (forall k, k < arity -> nth_error (stack s') (cur_sp (frames s') + k) = nth_error args k) /\
    length (frames s') = length (f0 :: fs0).
Proof. exact args_shuffled_right_global. Qed.

(* A closure call that would make the frame stack reach the limit yields the overflow ERROR (never Stuck) ... *)
Theorem C09_deep_recursion_step : forall limit s st arity rest body caps n rip st',
  adjust_arity arity rest n st = inl (Some st') -> arity <= length st' ->
  limit <= S (length (frames s)) ->
  do_call limit s st (MClo arity rest body caps) n rip = SErr EOverflow.
Proof. exact call_overflow. Qed.

(* ... and the whole program (define (deep n) (+ 1 (deep n))) (deep 0) — unbounded non-tail recursion — ends
   with that error for EVERY limit: it is never stuck and never runs out of fuel. *)
Theorem C09_deep_recursion_is_error : forall limit,
  exists k, vm_program limit true false k [deep_def] deep_main = RErr EOverflow.
Proof. exact deep_recursion_program. Qed.

(* The model's tail-position classifier (the [tail] flag [compile] propagates, [flag_at]) marks the subterm
   at a position as tail iff the position is a tail position (defined inductively on the source: TailPos);
   the code of the whole expression contains the code of that subterm compiled with exactly that flag, and
   an application compiled with flag b ends in TAILCALL iff b = true. *)
Theorem C09_tail_pos_sound : forall p e e', subterm e p = Some e' ->
  (flag_at true e p = Some true <-> TailPos e p) /\ (exists b, flag_at true e p = Some b).
Proof. exact tail_pos_sound. Qed.

Theorem C09_tail_flag_is_compiled : forall tco p e e' tail b, subterm e p = Some e' -> flag_at tail e p = Some b ->
  forall ce d, exists ce' d' pre post, compile tco ce d tail e = pre ++ compile tco ce' d' b e' ++ post.
Proof. exact compile_flag. Qed.

Theorem C09_tail_flag_instr : forall tco ce d b f args,
  exists pre, compile tco ce d b (EApp f args) = pre ++ [if b then TAILCALL (length args) else FUNC (length args)].
Proof. exact compile_call_instr. Qed.

(* ------------------------------------------------------------------ generated facts (Gen_C09.v, from vm.rs / opcode.rs) *)
Definition modelled_tail_ops : list string := ["TAILCALL"; "CALLGLOBALTAIL"]%string.
Definition measured_tail_ops : list string :=
  ["TCOJMP"; "SELFTAILCALLNOARITY"; "TAILCALLNOARITY"; "CALLGLOBALTAILNOARITY"; "CALLPRIMITIVETAIL";
   "UNBOXTAIL"; "BINOPADDTAIL"]%string.
Definition subset (a b : list string) : bool := forallb (fun o => existsb (String.eqb o) b) a.

(* the depth guard of the source is the guard of the model: enabled, `>= STACK_LIMIT`, performed by the
   closure-call path after the push; the limit is positive *)
Theorem C09_gen_depth_guard :
  check_stack_overflow_enabled = true /\ overflow_cmp_is_ge = true /\ closure_call_checks_overflow = true /\
  (0 < stack_limit)%N.
Proof. repeat split. Qed.

(* new_handle_tail_call_closure drains stack[last.sp .. len - arity], replaces the frame's function and
   pushes no frame *)
Theorem C09_gen_tail_call_shape : tail_call_drains_and_reuses = true.
Proof. reflexivity. Qed.

(* every tail-call opcode of opcode.rs is either modelled (theorems above) or listed as measured-only;
   the modelled ones are handled by a frame-reusing arm of VmCore::vm; every frame-reusing arm belongs to
   a tail-call opcode *)
Theorem C09_gen_tail_opcodes :
  subset tail_opcodes (modelled_tail_ops ++ measured_tail_ops) = true /\
  subset modelled_tail_ops frame_reuse_arms = true /\
  subset frame_reuse_arms tail_opcodes = true /\
  subset tail_opcodes opcodes = true.
Proof. vm_compute. repeat split. Qed.

(* the engine's configured limit: instance of C09_deep_recursion_is_error *)
Theorem C09_engine_limit_is_error :
  exists k, vm_program (N.to_nat stack_limit) true false k [deep_def] deep_main = RErr EOverflow.
Proof. exact (deep_recursion_program (N.to_nat stack_limit)). Qed.

(* non-vacuity: the model VM runs a tail loop of 300 iterations at one frame and 2 operands; with tail
   calls disabled the same loop overflows a limit of 50 frames *)
Example C09_example :
  loop_heads_render 50 100000
    [("lp"%string, ELam ["i"; "acc"]%string None (EIf (EApp (EVar "=") [EVar "i"; EConst (KInt 0)]) (EVar "acc")
        (EApp (EVar "lp") [EApp (EVar "-") [EVar "i"; EConst (KInt 1)]; EApp (EVar "+") [EVar "acc"; EConst (KInt 2)]]))%string)]
    (EApp (EVar "lp"%string) [EConst (KInt 300); EConst (KInt 0)]) = "OK I600 | 1,2"%string /\
  render_run (vm_program 50 false false 100000
    [("lp"%string, ELam ["i"; "acc"]%string None (EIf (EApp (EVar "=") [EVar "i"; EConst (KInt 0)]) (EVar "acc")
        (EApp (EVar "lp") [EApp (EVar "-") [EVar "i"; EConst (KInt 1)]; EApp (EVar "+") [EVar "acc"; EConst (KInt 2)]]))%string)]
    (EApp (EVar "lp"%string) [EConst (KInt 300); EConst (KInt 0)])) = "ERR Generic"%string.
Proof. vm_compute. split; reflexivity. Qed.
