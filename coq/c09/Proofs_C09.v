(* C09 — tail calls run in constant space: theorems about the VM of lib/Bytecode.v
   (new_handle_tail_call_closure, vm.rs:4724; CALLGLOBALTAIL arm, vm.rs:3493; check_stack_overflow,
   vm.rs:5032). *)
From Coq Require Import String.
From Coq Require Import ZArith List Bool Lia Arith.
From SV Require Import lib.Core lib.Bytecode c01.Proofs_C01 c09.Model_C09.
Import ListNotations.
Open Scope list_scope.

Section C09.
  Variable limit : nat.
  Notation vm_step := (vm_step limit).

  (* ---------------------------------------------------------------- C09_tail_call_space *)
  Lemma do_tail_call_clo_space : forall s st arity rest body caps n rip pr s',
    do_tail_call s st (MClo arity rest body caps) n rip pr = SNext s' ->
    length (frames s') = length (frames s) /\
    length (stack s') = cur_sp (frames s) + arity /\
    cur_sp (frames s') = cur_sp (frames s) /\
    ip s' = 0 /\ code s' = body /\ globals s' = globals s.
  Proof.
    intros s st arity rest body caps n rip pr s' H. unfold do_tail_call in H.
    destruct (adjust_arity arity rest n st) as [[st'|]|k]; try discriminate.
    destruct (frames s) as [|f0 fs0] eqn:Hf; try discriminate.
    destruct (Nat.leb arity (length st') && Nat.leb (f_sp f0) (length st' - arity)) eqn:Hc; try discriminate.
    apply andb_true_iff in Hc. destruct Hc as [H1 H2]. apply Nat.leb_le in H1. apply Nat.leb_le in H2.
    inversion H; subst s'. simpl. repeat split; auto.
    rewrite app_length, firstn_length, skipn_length. lia.
  Qed.

  Lemma tail_call_space : forall s s' arity rest body caps,
    tail_call_target s = Some (MClo arity rest body caps) ->
    vm_step s = SNext s' ->
    length (frames s') = length (frames s) /\
    length (stack s') = cur_sp (frames s) + arity /\
    cur_sp (frames s') = cur_sp (frames s) /\
    ip s' = 0 /\ code s' = body.
  Proof.
    intros s s' arity rest body caps Ht Hs. unfold tail_call_target in Ht. unfold Bytecode.vm_step in Hs.
    destruct (nth_error (code s) (ip s)) as [i|]; try discriminate.
    destruct i; try discriminate.
    - destruct (unsnoc (stack s)) as [[st f]|]; try discriminate. inversion Ht; subst f.
      apply do_tail_call_clo_space in Hs. tauto.
    - rewrite Ht in Hs.
      destruct (nth_error (code s) (S (ip s))) as [[]|]; try discriminate;
        apply do_tail_call_clo_space in Hs; tauto.
  Qed.

  (* ---------------------------------------------------------------- C09_args_shuffled_right *)
  Lemma do_tail_call_shuffle : forall s below junk args arity body caps rip pr f0 fs0,
    frames s = f0 :: fs0 -> length below = f_sp f0 -> length args = arity ->
    do_tail_call s (below ++ junk ++ args) (MClo arity false body caps) arity rip pr =
    SNext (mkVM body 0 (below ++ args)
                (mkFrame (f_sp f0) (MClo arity false body caps) (f_ret_ip f0) (f_ret_code f0) :: fs0) (globals s)).
  Proof.
    intros s below junk args arity body caps rip pr f0 fs0 Hf Hb Ha. unfold do_tail_call, adjust_arity.
    rewrite Nat.eqb_refl, Hf.
    replace (Nat.leb arity (length (below ++ junk ++ args))) with true
      by (symmetry; apply Nat.leb_le; rewrite !app_length; lia).
    replace (Nat.leb (f_sp f0) (length (below ++ junk ++ args) - arity)) with true
      by (symmetry; apply Nat.leb_le; rewrite !app_length; lia).
    simpl. rewrite <- Hb, firstn_app_exact.
    replace (below ++ junk ++ args) with ((below ++ junk) ++ args) by (rewrite <- app_assoc; auto).
    rewrite <- Ha. rewrite skipn_len_app. auto.
  Qed.

  (* after the shuffle the frame's slots are exactly the operands written at the call site, in order,
     whatever was between the frame base and the operands (let-bound temporaries at any depth, the
     old arguments): slot k = k-th operand *)
  Lemma args_shuffled_right : forall C pc below junk args arity body caps f0 fs0 MG,
    nth_error C pc = Some (TAILCALL arity) ->
    length below = f_sp f0 -> length args = arity ->
    exists s', vm_step (mkVM C pc ((below ++ junk ++ args) ++ [MClo arity false body caps]) (f0 :: fs0) MG) = SNext s' /\
      stack s' = below ++ args /\
      (forall k, k < arity -> nth_error (stack s') (cur_sp (frames s') + k) = nth_error args k) /\
      length (frames s') = length (f0 :: fs0).
  Proof.
    intros C pc below junk args arity body caps f0 fs0 MG Hi Hb Ha.
    eexists. split.
    - unfold Bytecode.vm_step. simpl. rewrite Hi, unsnoc_app.
      apply (do_tail_call_shuffle (mkVM C pc ((below ++ junk ++ args) ++ [MClo arity false body caps]) (f0 :: fs0) MG));
        simpl; auto.
    - simpl. split; auto. split; auto. intros k Hk. rewrite <- Hb. apply nth_error_app_plus.
  Qed.

  Lemma args_shuffled_right_global : forall C pc g below junk args arity body caps f0 fs0 MG n',
    nth_error C pc = Some (CALLGLOBALTAIL g) -> nth_error C (S pc) = Some (TAILCALL arity) \/ nth_error C (S pc) = Some (FUNC arity) ->
    n' = arity ->
    Core.lookup g MG = Some (MClo arity false body caps) ->
    length below = f_sp f0 -> length args = arity ->
    exists s', vm_step (mkVM C pc (below ++ junk ++ args) (f0 :: fs0) MG) = SNext s' /\
      stack s' = below ++ args /\
      (forall k, k < arity -> nth_error (stack s') (cur_sp (frames s') + k) = nth_error args k) /\
      length (frames s') = length (f0 :: fs0).
  Proof.
    intros C pc g below junk args arity body caps f0 fs0 MG n' Hi Hn _ Hg Hb Ha.
    exists (mkVM body 0 (below ++ args)
                 (mkFrame (f_sp f0) (MClo arity false body caps) (f_ret_ip f0) (f_ret_code f0) :: fs0) MG).
    split.
    - unfold Bytecode.vm_step. cbn [code ip stack frames globals]. rewrite Hi.
      destruct Hn as [Hn|Hn]; rewrite Hn, Hg;
        apply (do_tail_call_shuffle (mkVM C pc (below ++ junk ++ args) (f0 :: fs0) MG)); simpl; auto.
    - simpl. split; auto. split; auto. intros k Hk. rewrite <- Hb. apply nth_error_app_plus.
  Qed.

  (* ---------------------------------------------------------------- how one step changes the frame stack *)
  Inductive frames_change : list frame -> list frame -> Prop :=
  | fc_same : forall fs, frames_change fs fs
  | fc_push : forall fs fr, frames_change fs (fr :: fs)
  | fc_pop : forall f fs, frames_change (f :: fs) fs
  | fc_reuse : forall f0 fs0 fn, frames_change (f0 :: fs0) (mkFrame (f_sp f0) fn (f_ret_ip f0) (f_ret_code f0) :: fs0).

  Lemma do_return_frames : forall s st v s', do_return s st v = SNext s' -> frames_change (frames s) (frames s').
  Proof.
    unfold do_return. intros. destruct (frames s); try discriminate.
    destruct (Nat.leb (f_sp f) (length st)); try discriminate. inversion H; subst. simpl. constructor.
  Qed.

  Lemma call_prim_frames : forall s st p n rip s', call_prim s st p n rip = SNext s' -> frames s' = frames s.
  Proof.
    unfold call_prim. intros. destruct (Nat.leb n (length st)); try discriminate.
    destruct (prim_sem p _); try discriminate. inversion H; subst; auto.
  Qed.

  Lemma do_call_frames : forall s st f n rip s', do_call limit s st f n rip = SNext s' -> frames_change (frames s) (frames s').
  Proof.
    unfold do_call. intros. destruct f; try discriminate.
    - apply call_prim_frames in H. rewrite H. constructor.
    - destruct (adjust_arity arity rest n st) as [[st'|]|]; try discriminate.
      destruct (Nat.leb arity (length st')); try discriminate.
      destruct (Nat.leb limit (S (length (frames s)))); try discriminate.
      inversion H; subst. simpl. constructor.
  Qed.

  Lemma do_tail_call_frames : forall s st f n rip pr s', do_tail_call s st f n rip pr = SNext s' ->
    frames_change (frames s) (frames s').
  Proof.
    unfold do_tail_call. intros. destruct f; try discriminate.
    - destruct pr.
      + destruct (Nat.leb n (length st)); try discriminate.
        destruct (prim_sem p _); try discriminate. eapply do_return_frames; eauto.
      + apply call_prim_frames in H. rewrite H. constructor.
    - destruct (adjust_arity arity rest n st) as [[st'|]|]; try discriminate.
      destruct (frames s) as [|f0 fs0]; try discriminate.
      destruct (Nat.leb arity (length st') && Nat.leb (f_sp f0) (length st' - arity)); try discriminate.
      inversion H; subst. simpl. constructor.
  Qed.

  Lemma step_frames : forall s s', vm_step s = SNext s' -> frames_change (frames s) (frames s').
  Proof.
    intros s s' H. unfold Bytecode.vm_step in H.
    destruct (nth_error (code s) (ip s)) as [i|]; try discriminate.
    destruct i;
      try (unfold next_with in H);
      repeat match type of H with
             | context [match ?x with _ => _ end] =>
                 match x with
                 | do_call _ _ _ _ _ _ => fail 1
                 | do_tail_call _ _ _ _ _ _ => fail 1
                 | do_return _ _ _ => fail 1
                 | _ => destruct x eqn:?; try discriminate
                 end
             end;
      try (inversion H; subst; simpl; constructor; fail);
      try (eapply do_call_frames; eauto; fail);
      try (eapply do_tail_call_frames; eauto; fail);
      try (eapply do_return_frames; eauto; fail).
  Qed.

  (* ---------------------------------------------------------------- C09_loop_constant_space *)
  (* the stack pointers of the outermost L frames *)
  Definition base_sp (L : nat) (fs : list frame) : list nat := map f_sp (skipn (length fs - L) fs).

  Lemma frames_change_base : forall L fs fs', frames_change fs fs' ->
    L <= length fs -> L <= length fs' -> base_sp L fs' = base_sp L fs.
  Proof.
    intros L fs fs' H H1 H2. unfold base_sp. destruct H; auto.
    - simpl length. replace (S (length fs) - L) with (S (length fs - L)) by lia. auto.
    - simpl length in *. replace (S (length fs) - L) with (S (length fs - L)) by lia. auto.
    - simpl length in *. destruct (S (length fs0) - L) eqn:E; simpl; auto.
  Qed.

  Fixpoint exec_trace (s : vmstate) (tr : list vmstate) : Prop :=
    match tr with
    | [] => True
    | s' :: r => vm_step s = SNext s' /\ exec_trace s' r
    end.

  Lemma trace_base : forall L tr s0, exec_trace s0 tr -> L <= length (frames s0) ->
    (forall s, In s tr -> L <= length (frames s)) ->
    forall s, In s (s0 :: tr) -> base_sp L (frames s) = base_sp L (frames s0).
  Proof.
    intros L tr. induction tr as [|s1 tr IH]; intros s0 Ht HL Hall s Hin.
    - destruct Hin as [<-|[]]. auto.
    - destruct Hin as [<-|Hin]; auto. destruct Ht as [Hs Ht].
      assert (H1 : L <= length (frames s1)) by (apply Hall; simpl; auto).
      rewrite (IH s1 Ht H1 (fun x Hx => Hall x (or_intror Hx)) s Hin).
      apply frames_change_base; auto. apply step_frames; auto.
  Qed.

  Lemma base_sp_full : forall fs, 1 <= length fs -> hd 0 (base_sp (length fs) fs) = cur_sp fs.
  Proof. intros. unfold base_sp. rewrite Nat.sub_diag. simpl. destruct fs; simpl in *; auto; lia. Qed.

  Lemma trace_consecutive : forall tr s0 i s s', exec_trace s0 tr ->
    nth_error (s0 :: tr) i = Some s -> nth_error (s0 :: tr) (S i) = Some s' -> vm_step s = SNext s'.
  Proof.
    induction tr as [|s1 tr IH]; intros s0 i s s' Ht H1 H2.
    - destruct i as [|[|i]]; simpl in *; discriminate.
    - destruct Ht as [Hs Ht]. destruct i; cbn [nth_error] in *.
      + inversion H1; inversion H2; subst; auto.
      + eapply IH; eauto.
  Qed.

  (* A loop whose back edge is a tail call, observed from any state s0 inside the loop's frame: along ANY
     execution that does not return from that frame (frame depth never below the depth L at s0), however
     long, every tail call executed at depth L (the back edge: self call or a call to any other closure of
     a mutually recursive group) lands at the callee's loop head with the frame stack again of length L
     and the operand stack of length sp0 + arity(callee), where sp0 is the frame base at s0.  Nothing
     depends on the number of iterations. *)
  Lemma loop_constant_space : forall s0 tr, exec_trace s0 tr -> 1 <= length (frames s0) ->
    (forall s, In s tr -> length (frames s0) <= length (frames s)) ->
    forall i s s' arity rest body caps,
      nth_error (s0 :: tr) i = Some s -> nth_error (s0 :: tr) (S i) = Some s' ->
      length (frames s) = length (frames s0) ->
      tail_call_target s = Some (MClo arity rest body caps) ->
      length (frames s') = length (frames s0) /\
      length (stack s') = cur_sp (frames s0) + arity /\
      cur_sp (frames s') = cur_sp (frames s0) /\
      ip s' = 0 /\ code s' = body.
  Proof.
    intros s0 tr Ht HL Hall i s s' arity rest body caps H1 H2 Hlen Htc.
    pose proof (trace_consecutive tr s0 i s s' Ht H1 H2) as Hstep.
    destruct (tail_call_space s s' arity rest body caps Htc Hstep) as (A & B & Cc & D & E).
    assert (Hin : In s (s0 :: tr)) by (eapply nth_error_In; eauto).
    pose proof (trace_base (length (frames s0)) tr s0 Ht (le_n _) Hall s Hin) as Hb.
    assert (Hsp : cur_sp (frames s) = cur_sp (frames s0)).
    { rewrite <- (base_sp_full (frames s)) by lia. rewrite <- (base_sp_full (frames s0)) by lia.
      rewrite Hlen, Hb. auto. }
    rewrite A, B, Cc, Hsp, Hlen. auto.
  Qed.

  (* ---------------------------------------------------------------- C09_deep_recursion_is_error (one step) *)
  Lemma call_overflow : forall s st arity rest body caps n rip st',
    adjust_arity arity rest n st = inl (Some st') -> arity <= length st' ->
    limit <= S (length (frames s)) ->
    do_call limit s st (MClo arity rest body caps) n rip = SErr EOverflow.
  Proof.
    intros. unfold do_call. rewrite H.
    replace (Nat.leb arity (length st')) with true by (symmetry; apply Nat.leb_le; auto).
    replace (Nat.leb limit (S (length (frames s)))) with true by (symmetry; apply Nat.leb_le; auto). auto.
  Qed.
End C09.

(* ------------------------------------------------------------------ C09_deep_recursion_is_error (a whole program) *)
(* (define (deep n) (+ 1 (deep n)))  (deep 0): unbounded NON-tail recursion.  For EVERY frame limit the
   run ends with the stack-overflow error value: it is never stuck and never out of fuel. *)
Lemma vm_run_next : forall limit k s s', vm_step limit s = SNext s' -> vm_run limit (S k) s = vm_run limit k s'.
Proof. intros. simpl. rewrite H. auto. Qed.

Lemma vm_run_err : forall limit k s e, vm_step limit s = SErr e -> vm_run limit (S k) s = RErr e.
Proof. intros. simpl. rewrite H. auto. Qed.

Lemma nth_local0 : forall (S0 : list mval) arg x, nth_error ((S0 ++ [arg]) ++ [x]) (length S0 + 0) = Some arg.
Proof. intros. rewrite <- app_assoc. rewrite nth_error_app_plus. reflexivity. Qed.

Lemma deep_entry : forall limit m fs S0 arg,
  limit - length fs = m -> cur_sp fs = length S0 ->
  exists k, vm_run limit k (mkVM deep_code 0 (S0 ++ [arg]) fs deep_globals) = RErr EOverflow.
Proof.
  intros limit m. induction m as [|m IH]; intros fs S0 arg Hm Hsp.
  - (* the limit is reached: the next call overflows *)
    exists 4.
    rewrite (vm_run_next limit 3 _ (mkVM deep_code 1 ((S0 ++ [arg]) ++ [MInt 1]) fs deep_globals)) by reflexivity.
    rewrite (vm_run_next limit 2 _ (mkVM deep_code 2 (((S0 ++ [arg]) ++ [MInt 1]) ++ [arg]) fs deep_globals)).
    2:{ unfold vm_step. cbn [code ip stack frames globals deep_code nth_error]. rewrite Hsp.
        rewrite nth_local0. reflexivity. }
    rewrite (vm_run_next limit 1 _ (mkVM deep_code 3 ((((S0 ++ [arg]) ++ [MInt 1]) ++ [arg]) ++ [deep_clo]) fs deep_globals)) by reflexivity.
    apply vm_run_err. unfold vm_step. cbn [code ip stack frames globals deep_code nth_error].
    rewrite unsnoc_app. unfold deep_clo. apply call_overflow with (st' := ((S0 ++ [arg]) ++ [MInt 1]) ++ [arg]).
    + reflexivity.
    + rewrite !app_length. simpl. lia.
    + simpl. lia.
  - destruct (Nat.leb limit (S (length fs))) eqn:Hl.
    + apply Nat.leb_le in Hl. exists 4.
      rewrite (vm_run_next limit 3 _ (mkVM deep_code 1 ((S0 ++ [arg]) ++ [MInt 1]) fs deep_globals)) by reflexivity.
      rewrite (vm_run_next limit 2 _ (mkVM deep_code 2 (((S0 ++ [arg]) ++ [MInt 1]) ++ [arg]) fs deep_globals)).
      2:{ unfold vm_step. cbn [code ip stack frames globals deep_code nth_error]. rewrite Hsp.
          rewrite nth_local0. reflexivity. }
      rewrite (vm_run_next limit 1 _ (mkVM deep_code 3 ((((S0 ++ [arg]) ++ [MInt 1]) ++ [arg]) ++ [deep_clo]) fs deep_globals)) by reflexivity.
      apply vm_run_err. unfold vm_step. cbn [code ip stack frames globals deep_code nth_error].
      rewrite unsnoc_app. unfold deep_clo. apply call_overflow with (st' := ((S0 ++ [arg]) ++ [MInt 1]) ++ [arg]).
      * reflexivity.
      * rewrite !app_length. simpl. lia.
      * simpl. lia.
    + apply Nat.leb_gt in Hl.
      set (st := ((S0 ++ [arg]) ++ [MInt 1]) ++ [arg]).
      set (fr := mkFrame (length st - 1) deep_clo 4 deep_code).
      destruct (IH (fr :: fs) ((S0 ++ [arg]) ++ [MInt 1]) arg) as [k Hk].
      * simpl. lia.
      * simpl. unfold st. rewrite !app_length. simpl. lia.
      * exists (4 + k).
        change (4 + k) with (S (S (S (S k)))).
        rewrite (vm_run_next limit _ _ (mkVM deep_code 1 ((S0 ++ [arg]) ++ [MInt 1]) fs deep_globals)) by reflexivity.
        rewrite (vm_run_next limit _ _ (mkVM deep_code 2 st fs deep_globals)).
        2:{ unfold vm_step. cbn [code ip stack frames globals deep_code nth_error]. rewrite Hsp.
            rewrite nth_local0. reflexivity. }
        rewrite (vm_run_next limit _ _ (mkVM deep_code 3 (st ++ [deep_clo]) fs deep_globals)) by reflexivity.
        rewrite (vm_run_next limit _ _ (mkVM deep_code 0 st (fr :: fs) deep_globals)).
        2:{ unfold vm_step. cbn [code ip stack frames globals deep_code nth_error].
            rewrite unsnoc_app. unfold fr, deep_clo. unfold do_call. cbn [adjust_arity Nat.eqb frames code ip stack globals].
            replace (Nat.leb 1 (length st)) with true
              by (symmetry; apply Nat.leb_le; unfold st; rewrite !app_length; simpl; lia).
            replace (Nat.leb limit (S (length fs))) with false by (symmetry; apply Nat.leb_gt; lia).
            reflexivity. }
        exact Hk.
Qed.

Lemma deep_recursion_program : forall limit,
  exists k, vm_program limit true false k [deep_def] deep_main = RErr EOverflow.
Proof.
  intros limit.
  assert (Hdefs : forall k, 4 <= k -> vm_defs limit true false k prim_globals [deep_def] = inr deep_globals).
  { intros k Hk. unfold vm_defs, deep_def.
    rewrite (vm_run_mono limit 4 _ (RDone MVoid (mkVM (finish false (compile_define true "deep"%string (snd deep_def))) 4 [] [] deep_globals))).
    - reflexivity.
    - reflexivity.
    - discriminate.
    - exact Hk. }
  destruct (Nat.leb limit 1) eqn:Hl.
  - apply Nat.leb_le in Hl. exists 4. unfold vm_program. rewrite Hdefs by lia.
    unfold finish, deep_main, compile_top, init_vm. cbn [compile app Core.lookup].
    rewrite (vm_run_next limit 3 _ (mkVM [PUSHCONST (KInt 0); PUSH "deep"%string; FUNC 1; POPPURE] 1 [MInt 0] [] deep_globals)) by reflexivity.
    rewrite (vm_run_next limit 2 _ (mkVM [PUSHCONST (KInt 0); PUSH "deep"%string; FUNC 1; POPPURE] 2 ([MInt 0] ++ [deep_clo]) [] deep_globals)) by reflexivity.
    apply vm_run_err. unfold vm_step. cbn [code ip stack frames globals nth_error].
    rewrite unsnoc_app. unfold deep_clo. apply call_overflow with (st' := [MInt 0]); simpl; auto; lia.
  - apply Nat.leb_gt in Hl.
    set (top := [PUSHCONST (KInt 0); PUSH "deep"%string; FUNC 1; POPPURE]).
    destruct (deep_entry limit (limit - 1) [mkFrame 0 deep_clo 3 top] [] (MInt 0)) as [k Hk]; simpl; auto.
    exists (4 + k). unfold vm_program. rewrite Hdefs by lia.
    unfold finish, deep_main, compile_top, init_vm. cbn [compile app Core.lookup]. fold top.
    change (4 + k) with (S (S (S (S k)))). 
    rewrite (vm_run_next limit _ _ (mkVM top 1 [MInt 0] [] deep_globals)) by reflexivity.
    rewrite (vm_run_next limit _ _ (mkVM top 2 ([MInt 0] ++ [deep_clo]) [] deep_globals)) by reflexivity.
    rewrite (vm_run_next limit _ _ (mkVM deep_code 0 [MInt 0] [mkFrame 0 deep_clo 3 top] deep_globals)).
    2:{ unfold vm_step. cbn [code ip stack frames globals nth_error top].
        rewrite unsnoc_app. unfold deep_clo. unfold do_call. cbn [adjust_arity Nat.eqb length Nat.leb Nat.sub frames code ip stack globals].
        replace (Nat.leb limit 1) with false by (symmetry; apply Nat.leb_gt; lia). reflexivity. }
    (* vm_run of the remaining fuel: k, but we consumed only 3 of the 4 *)
    apply (vm_run_mono limit k); auto; try discriminate; lia.
Qed.


(* ------------------------------------------------------------------ C09_tail_pos_sound *)
Lemma flag_false : forall p e b, flag_at false e p = Some b -> b = false.
Proof.
  induction p as [|st p IH]; intros e b H; simpl in H.
  - inversion H; auto.
  - destruct st, e; try discriminate; eauto.
    + destruct (nth_error bs i) as [[? a]|]; try discriminate; eauto.
    + destruct (nth_error args i); try discriminate; eauto.
Qed.

Lemma flag_defined : forall p e e' tail, subterm e p = Some e' -> exists b, flag_at tail e p = Some b.
Proof.
  induction p as [|st p IH]; intros e e' tail H; simpl in *.
  - eauto.
  - destruct st, e; try discriminate; eauto.
    + destruct (nth_error bs i) as [[? a]|]; try discriminate; eauto.
    + destruct (nth_error args i); try discriminate; eauto.
Qed.

Lemma tail_pos_sound : forall p e e', subterm e p = Some e' ->
  (flag_at true e p = Some true <-> TailPos e p) /\ (exists b, flag_at true e p = Some b).
Proof.
  intros p e e' Hs. split; [|eapply flag_defined; eauto].
  revert e e' Hs. induction p as [|st p IH]; intros e e' Hs.
  - split; intros; [constructor|reflexivity].
  - simpl in Hs. split.
    + intros Hf. simpl in Hf.
      destruct st, e; try discriminate;
        try (apply flag_false in Hf; discriminate);
        try (constructor; eapply IH; eauto; fail).
      * destruct (nth_error bs i) as [[? a]|]; try discriminate. apply flag_false in Hf; discriminate.
      * destruct (nth_error args i); try discriminate. apply flag_false in Hf; discriminate.
    + intros Ht. inversion Ht; subst; simpl; eapply IH; eauto.
Qed.

(* the classifier is the flag compile uses: the code of e contains the code of the subterm at p compiled
   with exactly that flag; an application there ends in TAILCALL iff the flag is true *)
Lemma compile_list_nth : forall tco ce es d i a, nth_error es i = Some a ->
  exists pre post, compile_list tco ce d es = pre ++ compile tco ce (d + i) false a ++ post.
Proof.
  induction es as [|x es IH]; intros d i a H; destruct i; simpl in *; try discriminate.
  - inversion H; subst. exists [], (compile_list tco ce (S d) es). rewrite Nat.add_0_r. auto.
  - destruct (IH (S d) i a H) as (pre & post & E). rewrite E.
    exists (compile tco ce d false x ++ pre), post.
    replace (d + S i) with (S d + i) by lia. rewrite <- app_assoc. auto.
Qed.

Lemma compile_flag : forall tco p e e' tail b, subterm e p = Some e' -> flag_at tail e p = Some b ->
  forall ce d, exists ce' d' pre post, compile tco ce d tail e = pre ++ compile tco ce' d' b e' ++ post.
Proof.
  induction p as [|st p IH]; intros e e' tail b Hs Hf ce d; simpl in Hs, Hf.
  - inversion Hs; inversion Hf; subst. exists ce, d, [], []. rewrite app_nil_r. auto.
  - destruct st, e; try discriminate.
    + (* PIfC *) destruct (IH _ _ _ _ Hs Hf ce d) as (ce' & d' & pre & post & E).
      exists ce', d', pre.
      exists (post ++ [IF (length (compile tco ce d tail e2) + 2)] ++ compile tco ce d tail e2
                ++ [JMP (length (compile tco ce d tail e3) + 1)] ++ compile tco ce d tail e3).
      cbn [compile]. rewrite E. rewrite <- !app_assoc. reflexivity.
    + (* PIfT *) destruct (IH _ _ _ _ Hs Hf ce d) as (ce' & d' & pre & post & E).
      exists ce', d'.
      exists (compile tco ce d false e1 ++ [IF (length (compile tco ce d tail e2) + 2)] ++ pre).
      exists (post ++ [JMP (length (compile tco ce d tail e3) + 1)] ++ compile tco ce d tail e3).
      cbn [compile]. rewrite E at 2. rewrite <- !app_assoc. reflexivity.
    + (* PIfE *) destruct (IH _ _ _ _ Hs Hf ce d) as (ce' & d' & pre & post & E).
      exists ce', d'.
      exists (compile tco ce d false e1 ++ [IF (length (compile tco ce d tail e2) + 2)] ++ compile tco ce d tail e2
                ++ [JMP (length (compile tco ce d tail e3) + 1)] ++ pre).
      exists post.
      cbn [compile]. rewrite E at 2. rewrite <- !app_assoc. reflexivity.
    + (* PLetB *) destruct (nth_error bs i) as [[y a]|] eqn:Hn; try discriminate.
      assert (bf : b = false) by (eapply flag_false; eauto). subst b.
      destruct (IH _ _ _ _ Hs Hf ce (d + i)) as (ce' & d' & pre & post & E).
      assert (Hn' : nth_error (map snd bs) i = Some a) by (rewrite nth_error_map, Hn; auto).
      destruct (compile_list_nth tco ce (map snd bs) d i a Hn') as (pre2 & post2 & E2).
      exists ce', d', (BEGINSCOPE :: pre2 ++ pre).
      exists (post ++ post2 ++ compile tco (bind_slots (map fst bs) d ce) (d + length bs) tail e ++ [LETENDSCOPE d]).
      rewrite compile_let_eq. rewrite E2, E. simpl. rewrite <- !app_assoc. reflexivity.
    + (* PLetBody *)
      destruct (IH _ _ _ _ Hs Hf (bind_slots (map fst bs) d ce) (d + length bs)) as (ce' & d' & pre & post & E).
      exists ce', d', (BEGINSCOPE :: compile_list tco ce d (map snd bs) ++ pre), (post ++ [LETENDSCOPE d]).
      rewrite compile_let_eq. rewrite E. simpl. rewrite <- !app_assoc. reflexivity.
    + (* PSeq1 *) destruct (IH _ _ _ _ Hs Hf ce d) as (ce' & d' & pre & post & E).
      exists ce', d', pre, (post ++ [POPSINGLE] ++ compile tco ce d tail e2).
      cbn [compile]. rewrite E. rewrite <- !app_assoc. reflexivity.
    + (* PSeq2 *) destruct (IH _ _ _ _ Hs Hf ce d) as (ce' & d' & pre & post & E).
      exists ce', d', (compile tco ce d false e1 ++ [POPSINGLE] ++ pre), post.
      cbn [compile]. rewrite E. rewrite <- !app_assoc. reflexivity.
    + (* PAppF *) destruct (IH _ _ _ _ Hs Hf ce (d + length args)) as (ce' & d' & pre & post & E).
      exists ce', d', (compile_list tco ce d args ++ pre),
             (post ++ [if tail then TAILCALL (length args) else FUNC (length args)]).
      rewrite compile_app_eq. rewrite E. rewrite <- !app_assoc. reflexivity.
    + (* PAppArg *) destruct (nth_error args i) as [a|] eqn:Hn; try discriminate.
      assert (bf : b = false) by (eapply flag_false; eauto). subst b.
      destruct (IH _ _ _ _ Hs Hf ce (d + i)) as (ce' & d' & pre & post & E).
      destruct (compile_list_nth tco ce args d i a Hn) as (pre2 & post2 & E2).
      exists ce', d', (pre2 ++ pre),
             (post ++ post2 ++ compile tco ce (d + length args) false e ++ [if tail then TAILCALL (length args) else FUNC (length args)]).
      rewrite compile_app_eq. rewrite E2, E. rewrite <- !app_assoc. reflexivity.
Qed.

Lemma compile_call_instr : forall tco ce d b f args,
  exists pre, compile tco ce d b (EApp f args) = pre ++ [if b then TAILCALL (length args) else FUNC (length args)].
Proof.
  intros. rewrite compile_app_eq.
  exists (compile_list tco ce d args ++ compile tco ce (d + length args) false f).
  rewrite <- app_assoc. reflexivity.
Qed.
