(* C09 — definitions used by the theorems and by the correspondence (no proofs here). *)
From Coq Require Import String.
From Coq Require Import ZArith List Bool Lia Arith.
From SV Require Import lib.Lang lib.Core lib.Bytecode.
Import ListNotations.
Open Scope list_scope.

(* the callee of the tail-call instruction about to be executed, if any *)
Definition tail_call_target (s : vmstate) : option mval :=
  match nth_error (code s) (ip s) with
  | Some (TAILCALL _) => match unsnoc (stack s) with Some (_, f) => Some f | None => None end
  | Some (CALLGLOBALTAIL g) => Core.lookup g (globals s)
  | _ => None
  end.

(* the operand stack the callee's arguments are taken from *)
Definition tail_call_operands (s : vmstate) : list mval :=
  match nth_error (code s) (ip s) with
  | Some (TAILCALL _) => match unsnoc (stack s) with Some (st, _) => st | None => [] end
  | _ => stack s
  end.


(* ------------------------------------------------------------------ a whole program with unbounded NON-tail recursion *)
Definition deep_def : ident * expr :=
  ("deep"%string, ELam ["n"%string] None (EApp (EVar "+"%string) [EConst (KInt 1); EApp (EVar "deep"%string) [EVar "n"%string]])).
Definition deep_main : expr := EApp (EVar "deep"%string) [EConst (KInt 0)].

Definition deep_code : list instr :=
  [PUSHCONST (KInt 1); READLOCAL 0; PUSH "deep"%string; FUNC 1; PUSH "+"%string; TAILCALL 2; POPPURE].
Definition deep_clo : mval := MClo 1 false deep_code [].
Definition deep_globals : list (ident * mval) := ("deep"%string, deep_clo) :: prim_globals.


(* ------------------------------------------------------------------ tail positions *)
(* positions inside an expression (not entering lambda bodies: a lambda body is a new tail context) *)
Inductive pstep := PIfC | PIfT | PIfE | PLetB (i : nat) | PLetBody | PSeq1 | PSeq2 | PAppF | PAppArg (i : nat).

Fixpoint subterm (e : expr) (p : list pstep) : option expr :=
  match p with
  | [] => Some e
  | st :: p' =>
    match st, e with
    | PIfC, EIf c _ _ => subterm c p'
    | PIfT, EIf _ t _ => subterm t p'
    | PIfE, EIf _ _ e' => subterm e' p'
    | PLetB i, ELet bs _ => match nth_error bs i with Some (_, a) => subterm a p' | None => None end
    | PLetBody, ELet _ b => subterm b p'
    | PSeq1, ESeq e1 _ => subterm e1 p'
    | PSeq2, ESeq _ e2 => subterm e2 p'
    | PAppF, EApp f _ => subterm f p'
    | PAppArg i, EApp _ args => match nth_error args i with Some a => subterm a p' | None => None end
    | _, _ => None
    end
  end.

(* tail position, defined inductively on the source: the expression itself; the branches of an if in
   tail position; the body of a let in tail position; the last expression of a begin in tail position *)
Inductive TailPos : expr -> list pstep -> Prop :=
| tp_here : forall e, TailPos e []
| tp_if_then : forall c t e p, TailPos t p -> TailPos (EIf c t e) (PIfT :: p)
| tp_if_else : forall c t e p, TailPos e p -> TailPos (EIf c t e) (PIfE :: p)
| tp_let_body : forall bs b p, TailPos b p -> TailPos (ELet bs b) (PLetBody :: p)
| tp_seq_last : forall e1 e2 p, TailPos e2 p -> TailPos (ESeq e1 e2) (PSeq2 :: p).

(* the model's classifier: the [tail] flag with which [compile] reaches the subterm at p
   (mirror of visit_with_tail_call_eligibility / tail_call_eligible in analysis.rs) *)
Fixpoint flag_at (tail : bool) (e : expr) (p : list pstep) : option bool :=
  match p with
  | [] => Some tail
  | st :: p' =>
    match st, e with
    | PIfC, EIf c _ _ => flag_at false c p'
    | PIfT, EIf _ t _ => flag_at tail t p'
    | PIfE, EIf _ _ e' => flag_at tail e' p'
    | PLetB i, ELet bs _ => match nth_error bs i with Some (_, a) => flag_at false a p' | None => None end
    | PLetBody, ELet _ b => flag_at tail b p'
    | PSeq1, ESeq e1 _ => flag_at false e1 p'
    | PSeq2, ESeq _ e2 => flag_at tail e2 p'
    | PAppF, EApp f _ => flag_at false f p'
    | PAppArg i, EApp _ args => match nth_error args i with Some a => flag_at false a p' | None => None end
    | _, _ => None
    end
  end.


(* ------------------------------------------------------------------ executable: loop heads of a run *)
(* the distinct (frame-stack length, operand-stack length) pairs at closure entries (ip = 0 inside a frame)
   met during a run: what the hook #%verif-stack-depth samples at a loop head *)
Definition pair_mem (p : nat * nat) (l : list (nat * nat)) : bool :=
  existsb (fun q => Nat.eqb (fst p) (fst q) && Nat.eqb (snd p) (snd q)) l.

Fixpoint run_heads (limit fuel : nat) (s : vmstate) (acc : list (nat * nat)) : run_result * list (nat * nat) :=
  match fuel with
  | O => (RFuel, acc)
  | S f =>
    let here := (List.length (frames s), List.length (stack s)) in
    let acc' := match ip s, frames s with
                | O, _ :: _ => if pair_mem here acc then acc else here :: acc
                | _, _ => acc
                end in
    match vm_step limit s with
    | SNext s' => run_heads limit f s' acc'
    | SDone v s' => (RDone v s', acc')
    | SErr k => (RErr k, acc')
    | SStuck => (RStuck, acc')
    end
  end.

Definition nat_str (n : nat) : string := Lang.z_to_string (Z.of_nat n).

Definition loop_heads_render (limit fuel : nat) (ds : list (ident * expr)) (main : expr) : string :=
  match vm_defs limit true false fuel prim_globals ds with
  | inl r => render_run r
  | inr g =>
    let '(r, acc) := run_heads limit fuel (init_vm (compile_top true main) g) [] in
    (render_run r ++ " | " ++
     Lang.join ";" (map (fun p => nat_str (fst p) ++ "," ++ nat_str (snd p)) (rev acc)))%string
  end.
