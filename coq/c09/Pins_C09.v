(* Compiled on every run of the C09 check: pins each statement and prints its assumptions. *)
From Coq Require Import String.
From Coq Require Import ZArith NArith List Bool Lia Arith.
From SV Require Import lib.Core lib.Bytecode c01.Proofs_C01 c09.Model_C09 c09.Proofs_C09 gen.Gen_C09 c09.Properties_C09.
Import ListNotations.
Open Scope list_scope.

Check (C09_tail_call_space :
  forall limit s s' arity rest body caps,
  tail_call_target s = Some (MClo arity rest body caps) ->
  vm_step limit s = SNext s' ->
  length (frames s') = length (frames s) /\
  length (stack s') = cur_sp (frames s) + arity /\
  cur_sp (frames s') = cur_sp (frames s) /\
  ip s' = 0 /\ code s' = body).

Check (C09_loop_constant_space :
  forall limit s0 tr, exec_trace limit s0 tr -> 1 <= length (frames s0) ->
  (forall s, In s tr -> length (frames s0) <= length (frames s)) ->
  forall i s s' arity rest body caps,
    nth_error (s0 :: tr) i = Some s -> nth_error (s0 :: tr) (S i) = Some s' ->
    length (frames s) = length (frames s0) ->
    tail_call_target s = Some (MClo arity rest body caps) ->
    length (frames s') = length (frames s0) /\
    length (stack s') = cur_sp (frames s0) + arity /\
    cur_sp (frames s') = cur_sp (frames s0) /\
    ip s' = 0 /\ code s' = body).

Check (C09_args_shuffled_right :
  forall limit C pc below junk args arity body caps f0 fs0 MG,
  nth_error C pc = Some (TAILCALL arity) ->
  length below = f_sp f0 -> length args = arity ->
  exists s', vm_step limit (mkVM C pc ((below ++ junk ++ args) ++ [MClo arity false body caps]) (f0 :: fs0) MG) = SNext s' /\
    stack s' = below ++ args /\
    (forall k, k < arity -> nth_error (stack s') (cur_sp (frames s') + k) = nth_error args k) /\
    length (frames s') = length (f0 :: fs0)).

Check (C09_args_shuffled_right_global :
  forall limit C pc g below junk args arity body caps f0 fs0 MG n',
  nth_error C pc = Some (CALLGLOBALTAIL g) ->
  nth_error C (S pc) = Some (TAILCALL arity) \/ nth_error C (S pc) = Some (FUNC arity) ->
  n' = arity ->
  Core.lookup g MG = Some (MClo arity false body caps) ->
  length below = f_sp f0 -> length args = arity ->
  exists s', vm_step limit (mkVM C pc (below ++ junk ++ args) (f0 :: fs0) MG) = SNext s' /\
    stack s' = below ++ args /\
    (forall k, k < arity -> nth_error (stack s') (cur_sp (frames s') + k) = nth_error args k) /\
    length (frames s') = length (f0 :: fs0)).

Check (C09_deep_recursion_step :
  forall limit s st arity rest body caps n rip st',
  adjust_arity arity rest n st = inl (Some st') -> arity <= length st' ->
  limit <= S (length (frames s)) ->
  do_call limit s st (MClo arity rest body caps) n rip = SErr EOverflow).

Check (C09_deep_recursion_is_error :
  forall limit,
  exists k, vm_program limit true false k [deep_def] deep_main = RErr EOverflow).

Check (C09_tail_pos_sound :
  forall p e e', subterm e p = Some e' ->
  (flag_at true e p = Some true <-> TailPos e p) /\ (exists b, flag_at true e p = Some b)).

Check (C09_tail_flag_is_compiled :
  forall tco p e e' tail b, subterm e p = Some e' -> flag_at tail e p = Some b ->
  forall ce d, exists ce' d' pre post, compile tco ce d tail e = pre ++ compile tco ce' d' b e' ++ post).

Check (C09_tail_flag_instr :
  forall tco ce d b f args,
  exists pre, compile tco ce d b (EApp f args) = pre ++ [if b then TAILCALL (length args) else FUNC (length args)]).

Check (C09_gen_depth_guard :
  check_stack_overflow_enabled = true /\ overflow_cmp_is_ge = true /\ closure_call_checks_overflow = true /\
  (0 < stack_limit)%N).

Check (C09_gen_tail_call_shape :
  tail_call_drains_and_reuses = true).

Check (C09_gen_tail_opcodes :
  subset tail_opcodes (modelled_tail_ops ++ measured_tail_ops) = true /\
  subset modelled_tail_ops frame_reuse_arms = true /\
  subset frame_reuse_arms tail_opcodes = true /\
  subset tail_opcodes opcodes = true).

Check (C09_engine_limit_is_error :
  exists k, vm_program (N.to_nat stack_limit) true false k [deep_def] deep_main = RErr EOverflow).

Print Assumptions C09_tail_call_space.
Print Assumptions C09_loop_constant_space.
Print Assumptions C09_args_shuffled_right.
Print Assumptions C09_args_shuffled_right_global.
Print Assumptions C09_deep_recursion_step.
Print Assumptions C09_deep_recursion_is_error.
Print Assumptions C09_tail_pos_sound.
Print Assumptions C09_tail_flag_is_compiled.
Print Assumptions C09_tail_flag_instr.
Print Assumptions C09_gen_depth_guard.
Print Assumptions C09_gen_tail_call_shape.
Print Assumptions C09_gen_tail_opcodes.
Print Assumptions C09_engine_limit_is_error.
