(* C19 -- property theorems only (the heap model and the lemmas are those of C04); pinned in Pins_C19.v. *)
From Coq Require Import String List Arith Bool ZArith NArith.
From SV Require Import gen.Gen_C04 c04.Model_C04 c04.Proofs_C04.
Import ListNotations.

(* a dropped host root stops being a root: RootToken::drop frees its entry unconditionally (generated fact) *)
Theorem host_root_drop_frees : root_token_drop_frees = true.
Proof. reflexivity. Qed.

Theorem mark_queue_is_cleared : mark_queue_cleared = true.
Proof. exact queue_cleared_lemma. Qed.

Theorem constants_ok : 20 < init_slots /\ 20 < extend_chunk /\ 0 < reset_limit /\ full_pct = 95.
Proof. exact constants_lemma. Qed.

(* after the mark phase of a full collection a slot is flagged iff the program can reach it: garbage
   -- acyclic, cycles of any length, self references, anything referenced only from values that are
   no longer roots -- is unflagged, i.e. handed out again by allocate *)
Theorem sweep_complete : forall h r h' nb nv,
  mark marker_par (reset_marks h) r = Ok (h', nb, nv) ->
  forall x, flagged h' x = true <-> (reach h (all_roots r) x).
Proof. exact sweep_complete_lemma. Qed.

(* count bookkeeping: alloc_count = number of unflagged slots is kept by every free-list operation *)
Theorem count_exact_grow : forall amount f, counted f -> counted (fl_grow_by amount f).
Proof. exact counted_grow_by. Qed.
Theorem count_exact_allocate : forall chunk v f a f',
  cursor_free f -> counted f -> fl_allocate chunk v f = Ok (a, f') -> counted f'.
Proof. exact counted_allocate. Qed.
Theorem count_exact_weak : forall held f, counted f -> counted (fl_weak held f).
Proof. exact counted_weak. Qed.
Theorem count_exact_compact : forall chunk f, counted (fl_compact chunk f).
Proof. exact counted_compact. Qed.

(* allocate extends the slot vector only when it has just used the last free slot *)
Theorem reuse_before_growth : forall chunk v f a f',
  counted f -> fl_allocate chunk v f = Ok (a, f') ->
  length (slots f') = length (slots f) \/
  (count_dead (slots f) = 1 /\ f' = fl_grow chunk (with_free (with_slots f (set_nth (cursor f) {| sid := a; live := true; sval := v |} (slots f))) 0)).
Proof. exact reuse_before_growth_lemma. Qed.

(* the growth policy of the collections (grow while grow_count <= RESET_LIMIT, else compact to the
   flagged slots and extend once): for every number of collections the slot vector stays below
   bound(L) = max(init, 2L, L + chunk) * 2^RESET_LIMIT when compactions keep at most L slots *)
Theorem bounded_growth : forall init chunk limit L ops len gc,
  fold_left (fun p o => size_step chunk limit o p) ops (Nat.max 0 init, 1) = (len, gc) ->
  (forall pre o post, ops = pre ++ o :: post ->
     size_ok limit L o (fold_left (fun p o => size_step chunk limit o p) pre (Nat.max 0 init, 1))) ->
  len <= bound init chunk limit L.
Proof. exact bounded_growth_lemma. Qed.

(* a weak box whose target is not reachable reports so after the mark phase of a full collection *)
Theorem weak_box_clears : forall h r h' nb nv a,
  mark marker_par (reset_marks h) r = Ok (h', nb, nv) ->
  ~ reach h (all_roots r) (HB a) -> weak_value h' a = None.
Proof. exact weak_box_clears_lemma. Qed.
