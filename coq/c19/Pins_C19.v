(* Compiled on every run of the C19 check: pins each statement and prints its assumptions. *)
From Coq Require Import String List Arith Bool ZArith NArith.
From SV Require Import gen.Gen_C04 c04.Model_C04 c04.Proofs_C04 c19.Properties_C19.
Import ListNotations.

Check (host_root_drop_frees : root_token_drop_frees = true).
Check (mark_queue_is_cleared : mark_queue_cleared = true).
Check (constants_ok : 20 < init_slots /\ 20 < extend_chunk /\ 0 < reset_limit /\ full_pct = 95).
Check (sweep_complete : forall h r h' nb nv,
  mark marker_par (reset_marks h) r = Ok (h', nb, nv) ->
  forall x, flagged h' x = true <-> (reach h (all_roots r) x)).
Check (count_exact_grow : forall amount f, counted f -> counted (fl_grow_by amount f)).
Check (count_exact_allocate : forall chunk v f a f',
  cursor_free f -> counted f -> fl_allocate chunk v f = Ok (a, f') -> counted f').
Check (count_exact_weak : forall held f, counted f -> counted (fl_weak held f)).
Check (count_exact_compact : forall chunk f, counted (fl_compact chunk f)).
Check (reuse_before_growth : forall chunk v f a f',
  counted f -> fl_allocate chunk v f = Ok (a, f') ->
  length (slots f') = length (slots f) \/
  (count_dead (slots f) = 1 /\ f' = fl_grow chunk (with_free (with_slots f (set_nth (cursor f) {| sid := a; live := true; sval := v |} (slots f))) 0))).
Check (bounded_growth : forall init chunk limit L ops len gc,
  fold_left (fun p o => size_step chunk limit o p) ops (Nat.max 0 init, 1) = (len, gc) ->
  (forall pre o post, ops = pre ++ o :: post ->
     size_ok limit L o (fold_left (fun p o => size_step chunk limit o p) pre (Nat.max 0 init, 1))) ->
  len <= bound init chunk limit L).
Check (weak_box_clears : forall h r h' nb nv a,
  mark marker_par (reset_marks h) r = Ok (h', nb, nv) ->
  ~ reach h (all_roots r) (HB a) -> weak_value h' a = None).
Print Assumptions host_root_drop_frees.
Print Assumptions mark_queue_is_cleared.
Print Assumptions constants_ok.
Print Assumptions sweep_complete.
Print Assumptions count_exact_grow.
Print Assumptions count_exact_allocate.
Print Assumptions count_exact_weak.
Print Assumptions count_exact_compact.
Print Assumptions reuse_before_growth.
Print Assumptions bounded_growth.
Print Assumptions weak_box_clears.
