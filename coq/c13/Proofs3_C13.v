(* C13 — lemmas, part 5: an explicit fuel bound for template instantiation. *)
From Coq Require Import List String Ascii Bool Arith Lia.
From SV Require Import c13.Model_C13 c13.Proofs_C13 c13.Proofs2_C13.
Import ListNotations.
Open Scope string_scope.
Open Scope list_scope.
Open Scope nat_scope.

(* ------------------------------------------------------------------ a fuel bound for inst *)
Fixpoint fatoms (e : sx) : list (bool * string) :=
  match e with
  | Id s _ => [(false, s)]
  | UId s _ => [(true, s)]
  | Lit _ => []
  | SL xs _ => flat_map fatoms xs
  end.

Definition dmax (l : list nat) : nat := fold_right Nat.max 0 l.
Fixpoint depth (e : sx) : nat :=
  match e with
  | SL xs _ => S (dmax (map depth xs))
  | _ => 1
  end.

Lemma dmax_le : forall l n, In n l -> n <= dmax l.
Proof.
  induction l as [|a r IH]; intros n H; [contradiction|]. change (dmax (a :: r)) with (Nat.max a (dmax r)).
  destruct H as [->|H]; [apply Nat.le_max_l|]. specialize (IH _ H). pose proof (Nat.le_max_r a (dmax r)). lia.
Qed.
Lemma dmax_bound : forall l b, (forall n, In n l -> n <= b) -> dmax l <= b.
Proof.
  induction l as [|a r IH]; intros b H; [cbn; lia|]. change (dmax (a :: r)) with (Nat.max a (dmax r)).
  pose proof (H a (or_introl eq_refl)). assert (dmax r <= b) by (apply IH; intros; apply H; right; assumption).
  apply Nat.max_lub; assumption.
Qed.
Lemma depth_elem : forall xs imp e, In e xs -> depth e < depth (SL xs imp).
Proof. intros xs imp e H. cbn. apply le_n_S. apply dmax_le. apply in_map. exact H. Qed.
Lemma depth_SL_bound : forall xs imp b, (forall e, In e xs -> depth e <= b) -> depth (SL xs imp) <= S b.
Proof. intros xs imp b H. cbn. apply le_n_S. apply dmax_bound. intros n Hn. apply in_map_iff in Hn. destruct Hn as [e [<- He]]. auto. Qed.
Lemma depth_SL_mono : forall xs imp xs2 imp2, (forall e, In e xs2 -> depth e < depth (SL xs imp)) ->
  depth (SL xs2 imp2) <= depth (SL xs imp).
Proof.
  intros xs imp xs2 imp2 H. change (depth (SL xs imp)) with (S (dmax (map depth xs))) in *.
  apply (depth_SL_bound _ _ (dmax (map depth xs))). intros e He. specialize (H e He). lia.
Qed.
Lemma depth_pos : forall e, 1 <= depth e.
Proof. destruct e; cbn; lia. Qed.

Lemma atoms_fatoms : forall e, atoms e = map snd (fatoms e).
Proof.
  induction e using sx_ind2; cbn; try reflexivity.
  induction xs as [|a r IHr]; cbn; [reflexivity|]. rewrite map_app. inversion H; subst. f_equal; auto.
Qed.

Lemma lookup_notin : forall x s, ~ In x (dom s) -> lookup x s = None.
Proof.
  induction s as [|[y w] r IH]; cbn; intro H; [reflexivity|].
  destruct (String.eqb x y) eqn:E; [apply String.eqb_eq in E; subst; exfalso; apply H; auto|]. apply IH. tauto.
Qed.
Lemma lookup_dom_in : forall x s v, lookup x s = Some v -> In x (dom s).
Proof. intros x s v H. apply lookup_In in H. unfold dom. apply in_map_iff. exists (x, v). auto. Qed.

Lemma seq_res_no_oof : forall (A B : Type) (f : A -> res B) zs,
  (forall a, In a zs -> f a <> OutOfFuel) -> seq_res (map f zs) <> OutOfFuel.
Proof.
  induction zs as [|a r IH]; cbn; intro H; [discriminate|].
  destruct (f a) eqn:E; cbn; [|discriminate|exfalso; apply (H a); auto].
  destruct (seq_res (map f r)) eqn:E2; cbn; try discriminate. apply IH; auto.
Qed.

Lemma fatoms_make_improper : forall xs p, In p (fatoms (make_improper xs)) -> In p (fatoms (SL xs true)).
Proof.
  intros xs p. unfold make_improper. destruct (last_opt xs) as [[s0 o0|s0 o0|s0|ys imp']|] eqn:E; try (intro H; exact H).
  cbn [fatoms]. rewrite flat_map_app, in_app_iff. intros [H|H].
  - apply in_flat_map in H. destruct H as [e [He Hp]]. apply in_flat_map. exists e. split; [eapply removelast'_In; eauto|exact Hp].
  - apply in_flat_map. exists (SL ys imp'). split; [eapply last_opt_In; eauto|exact H].
Qed.

Lemma depth_make_improper : forall xs, depth (make_improper xs) <= depth (SL xs true).
Proof.
  intros xs. unfold make_improper. destruct (last_opt xs) as [[s0 o0|s0 o0|s0|ys imp']|] eqn:E; try apply le_n.
  change (depth (SL xs true)) with (S (dmax (map depth xs))).
  apply (depth_SL_bound _ _ (dmax (map depth xs))). intros e He. apply in_app_or in He. destruct He as [He|He].
  - apply removelast'_In in He. apply dmax_le, in_map. exact He.
  - apply last_opt_In in E. pose proof (dmax_le (map depth xs) _ (in_map depth _ _ E)).
    pose proof (depth_elem ys imp' e He). lia.
Qed.

Lemma find_ell_nth : forall xs i, find_ell xs = Some i -> i < List.length xs.
Proof.
  induction xs as [|e r IH]; cbn; intros i H; [discriminate|].
  destruct (is_ell e); [inversion H; lia|]. destruct (find_ell r); [|discriminate]. inversion H. specialize (IH _ eq_refl). lia.
Qed.

Lemma ell_vars_nil : forall kinds s v, (forall x, In x (atoms v) -> ~ In x (dom s)) -> ell_vars kinds s v = [].
Proof.
  intros kinds s v. unfold ell_vars. induction (atoms v) as [|x r IHr]; intro H; [reflexivity|].
  cbn [flat_map]. rewrite lookup_notin by (apply H; left; reflexivity). cbn [app]. apply IHr. intros y Hy. apply H. right; exact Hy.
Qed.

Section Fuel.
  Variable in_scope is_global : string -> bool.
  Variable kinds : list string.
  Variable K : list string.

  Definition U (name : string) : Prop := (in_scope name && negb (is_global name))%bool = false.
  Definition settled (e : sx) : Prop :=
    forall fl name, In (fl, name) (fatoms e) -> ~ In name K /\ (fl = true -> U name).
  Definition uid_ok (e : sx) : Prop := forall name, In (true, name) (fatoms e) -> U name.
  Definition env_ok (D : nat) (s : env) : Prop := forall x v, In (x, v) s -> settled v /\ depth v <= D.

  Lemma settled_SL : forall xs imp, settled (SL xs imp) <-> (forall e, In e xs -> settled e).
  Proof.
    intros xs imp. unfold settled. cbn [fatoms]. split.
    - intros H e He fl name Hin. apply H. apply in_flat_map. eauto.
    - intros H fl name Hin. apply in_flat_map in Hin. destruct Hin as [e [He Hin]]. eapply H; eauto.
  Qed.
  Lemma uid_ok_SL : forall xs imp e, uid_ok (SL xs imp) -> In e xs -> uid_ok e.
  Proof. intros xs imp e H He name Hin. apply H. cbn. apply in_flat_map. eauto. Qed.
  Lemma settled_uid_ok : forall e, settled e -> uid_ok e.
  Proof. intros e H name Hin. apply (H true name Hin). reflexivity. Qed.
  Lemma settled_unflag : forall b, settled b -> settled (unflag b).
  Proof.
    intros [s o|s o|s|xs imp] H; cbn; try exact H.
    intros fl name Hin. cbn in Hin. destruct Hin as [E|[]]. inversion E; subst.
    destruct (H true name (or_introl eq_refl)) as [H1 _]. split; [exact H1|discriminate].
  Qed.
  Lemma depth_unflag : forall b, depth (unflag b) = depth b.
  Proof. destruct b; reflexivity. Qed.
  Lemma settled_make_improper : forall xs, (forall e, In e xs -> settled e) -> settled (make_improper xs).
  Proof. intros xs H fl name Hin. apply fatoms_make_improper in Hin. revert fl name Hin. apply (settled_SL xs true). exact H. Qed.

  (* visiting a settled form: a plain traversal *)
  Lemma settled_visit : forall s fb, (forall x, In x (dom s) -> In x K) ->
    forall f e, settled e ->
      (forall r, inst in_scope is_global kinds f s fb e = Ok r -> settled r /\ depth r <= depth e) /\
      (depth e <= f -> inst in_scope is_global kinds f s fb e <> OutOfFuel).
  Proof.
    intros s fb Hk. induction f as [|f IH]; intros e He.
    { split; [intros r H; discriminate|]. intro H. pose proof (depth_pos e). lia. }
    assert (Hatom : forall name o flagged tt, (tt = Id name o /\ flagged = false) \/ (tt = UId name o /\ flagged = true) ->
      settled tt ->
      let name' := if (flagged && in_scope name && negb (is_global name))%bool then String.append "##" name else name in
      (if String.eqb name' "_" then Ok tt else
       match lookup name' s with
       | Some b => Ok (unflag b)
       | None => Ok (if flagged then UId name' o else Id name' o)
       end) = Ok tt).
    { intros name o flagged tt Htt Hs. cbv zeta.
      assert (Hn : (if (flagged && in_scope name && negb (is_global name))%bool then String.append "##" name else name) = name).
      { destruct Htt as [[-> ->]|[-> ->]]; [reflexivity|].
        destruct (Hs true name (or_introl eq_refl)) as [_ Hu]. specialize (Hu eq_refl). unfold U in Hu.
        cbn [andb]. rewrite Hu. reflexivity. }
      rewrite Hn. destruct (String.eqb name "_"); [reflexivity|].
      assert (Hnk : ~ In name K).
      { destruct Htt as [[-> ->]|[-> ->]]; [apply (Hs false name)|apply (Hs true name)]; left; reflexivity. }
      rewrite lookup_notin by (intro Hc; apply Hnk; apply Hk; exact Hc).
      destruct Htt as [[-> ->]|[-> ->]]; reflexivity. }
    destruct e as [name o|name o|lit|args imp].
    - cbn [inst]. rewrite (Hatom name o false (Id name o)) by (auto). split; [intros r H; inversion H; subst; auto|discriminate].
    - cbn [inst]. rewrite (Hatom name o true (UId name o)) by (auto). split; [intros r H; inversion H; subst; auto|discriminate].
    - cbn [inst]. split; [intros r H; inversion H; subst; auto|discriminate].
    - (* list: expand_ellipses does nothing or fails *)
      assert (Hel : forall a, In a args -> settled a) by (apply (settled_SL args imp); exact He).
      assert (Hargs1 : forall X : res (list sx),
        X = (match find_ell args with
             | None | Some O => Ok args
             | Some (S i) =>
                 let splice (items : list sx) := Ok (firstn i args ++ items ++ skipn (S (S i)) args) in
                 match nth i args (Lit "") with
                 | Id var _ | UId var _ =>
                     match lookup var s with
                     | None => Ok args
                     | Some (SL l _) => splice (map unflag l)
                     | Some _ =>
                         match lookup var fb with
                         | None => Ok args
                         | Some (SL l _) => splice (map unflag l)
                         | Some _ => Err "BadSyntax"
                         end
                     end
                 | (SL _ _) as v =>
                     let vs := ell_vars kinds s v in
                     match vs with
                     | [] => Err "BadSyntax"
                     | (_, l0) :: _ =>
                         let w := List.length l0 in
                         if negb (same_width w vs) then Err "BadSyntax" else
                         do rs <- seq_res (map (fun j =>
                                  let s' := map (fun '(x, l) => (x, nth j l (Lit ""))) vs ++ s in
                                  inst in_scope is_global kinds f s' (map (fun '(x, l) => (x, SL l false)) vs) v) (seq 0 w));
                         splice rs
                     end
                 | Lit _ => Err "BadSyntax"
                 end
             end) -> X = Ok args \/ exists k, X = Err k).
      { intros X ->. destruct (find_ell args) as [[|i]|] eqn:Ef; auto.
        assert (Hi : i < List.length args) by (apply find_ell_nth in Ef; lia).
        pose proof (nth_In args (Lit "") Hi) as Hin. specialize (Hel _ Hin).
        destruct (nth i args (Lit "")) as [var o|var o|lit|vxs vimp] eqn:En.
        - rewrite lookup_notin; [auto|]. intro Hc. apply (Hel false var (or_introl eq_refl)). apply Hk. exact Hc.
        - rewrite lookup_notin; [auto|]. intro Hc. apply (Hel true var (or_introl eq_refl)). apply Hk. exact Hc.
        - right; eauto.
        - assert (Hv : ell_vars kinds s (SL vxs vimp) = []).
          { apply ell_vars_nil. intros x Hx Hc. rewrite atoms_fatoms in Hx. apply in_map_iff in Hx.
            destruct Hx as [[fl x'] [Ex Hx]]. cbn in Ex. subst x'. apply (Hel fl x Hx). apply Hk. exact Hc. }
          cbv zeta. rewrite Hv. right; eauto. }
      cbn [inst].
      match goal with |- context [bind ?X _] => destruct (Hargs1 X eq_refl) as [HX|[k HX]]; rewrite HX end; cbn [bind].
      2:{ split; [intros r H; discriminate|discriminate]. }
      split.
      + intros r H.
        destruct (seq_res (map (inst in_scope is_global kinds f s fb) args)) as [args2| |] eqn:E2; cbn [bind] in H; try discriminate.
        inversion H; subst r. clear H.
        assert (Hall : forall r', In r' args2 -> settled r' /\ depth r' < depth (SL args imp)).
        { intros r' Hr'. destruct (seq_res_In _ _ _ _ _ E2 _ Hr') as [a [Ha Hia]].
          destruct (IH a (Hel a Ha)) as [H1 _]. destruct (H1 _ Hia) as [Hs Hd].
          split; [exact Hs|]. pose proof (depth_elem args imp a Ha). lia. }
        destruct imp.
        * split; [apply settled_make_improper; intros e0 He0; apply Hall; exact He0|].
          pose proof (depth_make_improper args2).
          assert (depth (SL args2 true) <= depth (SL args true)).
          { apply depth_SL_mono. intros e0 He0. apply Hall. exact He0. }
          lia.
        * split; [apply settled_SL; intros e0 He0; apply Hall; exact He0|].
          apply depth_SL_mono. intros e0 He0. apply Hall. exact He0.
      + intro Hd.
        assert (Hn : seq_res (map (inst in_scope is_global kinds f s fb) args) <> OutOfFuel).
        { apply seq_res_no_oof. intros a Ha. destruct (IH a (Hel a Ha)) as [_ H2]. apply H2.
          pose proof (depth_elem args imp a Ha). lia. }
        destruct (seq_res (map (inst in_scope is_global kinds f s fb) args)); cbn [bind]; try discriminate. congruence.
  Qed.
End Fuel.

Section Fuel2.
  Variable in_scope is_global : string -> bool.
  Variable kinds : list string.
  Variable K : list string.
  Hypothesis HK_ : ~ In "_" K.
  Notation settled := (settled in_scope is_global K).
  Notation uid_ok := (uid_ok in_scope is_global).
  Notation env_ok := (env_ok in_scope is_global K).
  Notation INST := (inst in_scope is_global kinds).

  Record Inv (D : nat) (s fb : env) : Prop := {
    keyS : forall x, In x (dom s) <-> In x K;
    keyF : forall x, In x (dom fb) -> In x K;
    envS : env_ok D s;
    envF : env_ok D fb }.

  Definition expand_step (f : nat) (s fb : env) (args : list sx) : res (list sx) :=
    match find_ell args with
    | None | Some O => Ok args
    | Some (S i) =>
        let splice (items : list sx) := Ok (firstn i args ++ items ++ skipn (S (S i)) args) in
        match nth i args (Lit "") with
        | Id var _ | UId var _ =>
            match lookup var s with
            | None => Ok args
            | Some (SL l _) => splice (map unflag l)
            | Some _ =>
                match lookup var fb with
                | None => Ok args
                | Some (SL l _) => splice (map unflag l)
                | Some _ => Err "BadSyntax"
                end
            end
        | (SL _ _) as v =>
            let vs := ell_vars kinds s v in
            match vs with
            | [] => Err "BadSyntax"
            | (_, l0) :: _ =>
                let w := List.length l0 in
                if negb (same_width w vs) then Err "BadSyntax" else
                do rs <- seq_res (map (fun j =>
                         let s' := map (fun '(x, l) => (x, nth j l (Lit ""))) vs ++ s in
                         INST f s' (map (fun '(x, l) => (x, SL l false)) vs) v) (seq 0 w));
                splice rs
            end
        | Lit _ => Err "BadSyntax"
        end
    end.

  Lemma inst_SL : forall f s fb args imp,
    INST (S f) s fb (SL args imp) =
    (do args1 <- expand_step f s fb args;
     do args2 <- seq_res (map (INST f s fb) args1);
     Ok (if imp then make_improper args2 else SL args2 false)).
  Proof. reflexivity. Qed.

  Lemma in_splice : forall (a : sx) i args items,
    In a (firstn i args ++ items ++ skipn (S (S i)) args) -> In a args \/ In a items.
  Proof.
    intros a i args items H. apply in_app_or in H. destruct H as [H|H].
    - left. rewrite <- (firstn_skipn i args). apply in_or_app. left; exact H.
    - apply in_app_or in H. destruct H as [H|H]; [right; exact H|].
      left. rewrite <- (firstn_skipn (S (S i)) args). apply in_or_app. right; exact H.
  Qed.

  Lemma ell_vars_in : forall s v x l, In (x, l) (ell_vars kinds s v) -> exists imp', lookup x s = Some (SL l imp').
  Proof.
    intros s v x l H. unfold ell_vars in H. apply in_flat_map in H. destruct H as [y [_ H]].
    destruct (lookup y s) as [[ | | |l' imp']|] eqn:E; try contradiction.
    destruct (mem y kinds); [|contradiction]. destruct H as [H|[]]. inversion H; subst. eauto.
  Qed.

  Lemma Inv_iter : forall D s fb v j, Inv D s fb ->
    Inv D (map (fun '(x, l) => (x, nth j l (Lit ""))) (ell_vars kinds s v) ++ s)
          (map (fun '(x, l) => (x, SL l false)) (ell_vars kinds s v)).
  Proof.
    intros D s fb v j [kS kF eS eF].
    assert (Hvs : forall x l, In (x, l) (ell_vars kinds s v) ->
              In x K /\ (forall e, In e l -> settled e /\ depth e < D) /\ 1 <= D).
    { intros x l H. destruct (ell_vars_in _ _ _ _ H) as [imp' E].
      pose proof (lookup_dom_in _ _ _ E) as Hd. apply lookup_In in E. destruct (eS _ _ E) as [Hs Hdp].
      split; [apply kS; exact Hd|]. split.
      - intros e He. split; [apply (proj1 (settled_SL _ _ _ l imp') Hs); exact He|].
        pose proof (depth_elem l imp' e He). lia.
      - pose proof (depth_pos (SL l imp')). lia. }
    constructor.
    - intro x. rewrite dom_app, in_app_iff. split.
      + intros [H|H]; [|apply kS; exact H]. unfold dom in H. rewrite map_map in H. apply in_map_iff in H.
        destruct H as [[y l] [E H]]. cbn in E. subst. apply (Hvs _ _ H).
      + intro H. right. apply kS. exact H.
    - intros x H. unfold dom in H. rewrite map_map in H. apply in_map_iff in H.
      destruct H as [[y l] [E H]]. cbn in E. subst. apply (Hvs _ _ H).
    - intros x w H. apply in_app_or in H. destruct H as [H|H]; [|apply eS in H; exact H].
      apply in_map_iff in H. destruct H as [[y l] [E H]]. inversion E; subst.
      destruct (Hvs _ _ H) as [_ [Hl HD]].
      destruct (nth_in_or_default j l (Lit "")) as [Hn|Hn].
      + destruct (Hl _ Hn). split; [assumption|lia].
      + rewrite Hn. split; [intros fl name []|cbn; exact HD].
    - intros x w H. apply in_map_iff in H. destruct H as [[y l] [E H]]. inversion E; subst.
      destruct (Hvs _ _ H) as [_ [Hl HD]]. split.
      + apply settled_SL. intros e He. apply Hl. exact He.
      + assert (depth (SL l false) <= S (D - 1)).
        { apply depth_SL_bound. intros e He. destruct (Hl e He). lia. }
        lia.
  Qed.

  Lemma step_members : forall f D s fb args args1, Inv D s fb ->
    (forall s' fb' v r, Inv D s' fb' -> In v args -> INST f s' fb' v = Ok r -> settled r /\ depth r <= depth v + D) ->
    expand_step f s fb args = Ok args1 ->
    forall a, In a args1 -> In a args \/ (settled a /\ depth a <= dmax (map depth args) + D).
  Proof.
    intros f D s fb args args1 HI HR H a Ha. unfold expand_step in H.
    destruct (find_ell args) as [[|i]|] eqn:Ef; try (inversion H; subst; left; exact Ha).
    assert (Hi : i < List.length args) by (apply find_ell_nth in Ef; lia).
    pose proof (nth_In args (Lit "") Hi) as Hin.
    assert (Hval : forall E l imp' var, In (var, SL l imp') E -> env_ok D E -> In a (map unflag l) ->
                   settled a /\ depth a <= dmax (map depth args) + D).
    { intros E l imp' var HE Hok Hal. apply in_map_iff in Hal. destruct Hal as [e [<- He]].
      destruct (Hok _ _ HE) as [Hs Hd]. split.
      - apply settled_unflag. apply (proj1 (settled_SL _ _ _ l imp') Hs). exact He.
      - rewrite depth_unflag. pose proof (depth_elem l imp' e He). lia. }
    destruct HI as [kS kF eS eF].
    destruct (nth i args (Lit "")) as [var o|var o|lit|vxs vimp] eqn:En.
    1-2: (destruct (lookup var s) as [[s0 o0|s0 o0|s0|l imp']|] eqn:El; cbv zeta in H;
          try (inversion H; subst; left; exact Ha);
          try (inversion H; subst; apply in_splice in Ha; destruct Ha as [Ha|Ha]; [left; exact Ha|right];
               apply lookup_In in El; eapply Hval; eauto);
          (destruct (lookup var fb) as [[s1 o1|s1 o1|s1|l imp']|] eqn:Elf;
           try discriminate; try (inversion H; subst; left; exact Ha);
           inversion H; subst; apply in_splice in Ha; destruct Ha as [Ha|Ha]; [left; exact Ha|right];
           apply lookup_In in Elf; eapply Hval; eauto)).
    - discriminate.
    - cbv zeta in H. destruct (ell_vars kinds s (SL vxs vimp)) as [|[x0 l0] vr] eqn:Ev; [discriminate|].
      destruct (negb (same_width (List.length l0) ((x0, l0) :: vr))); [discriminate|].
      match type of H with bind ?X _ = _ => destruct X as [rs| |] eqn:Er end; cbn [bind] in H; try discriminate.
      inversion H; subst. apply in_splice in Ha. destruct Ha as [Ha|Ha]; [left; exact Ha|right].
      destruct (seq_res_In _ _ _ _ _ Er _ Ha) as [j [_ Hj]]. cbv zeta in Hj. rewrite <- Ev in Hj.
      destruct (HR _ _ _ _ (Inv_iter D s fb (SL vxs vimp) j (Build_Inv D s fb kS kF eS eF)) Hin Hj) as [Hs Hd].
      split; [exact Hs|]. pose proof (dmax_le (map depth args) _ (in_map depth _ _ Hin)). lia.
  Qed.

  Lemma inst_result : forall f D s fb t r, Inv D s fb -> uid_ok t ->
    INST f s fb t = Ok r -> settled r /\ depth r <= depth t + D.
  Proof.
    induction f as [|f IH]; intros D s fb t r HI Hu H; [discriminate|].
    pose proof HI as [kS kF eS eF].
    assert (Hatom : forall name o (flagged : bool) tt, (tt = Id name o /\ flagged = false) \/ (tt = UId name o /\ flagged = true) ->
      (let name' := if (flagged && in_scope name && negb (is_global name))%bool then String.append "##" name else name in
       if String.eqb name' "_" then Ok tt else
       match lookup name' s with
       | Some b => Ok (unflag b)
       | None => Ok (if flagged then UId name' o else Id name' o)
       end) = Ok r -> uid_ok tt -> settled r /\ depth r <= 1 + D).
    { intros name o flagged tt Htt. cbv zeta. intros Hr Hut.
      assert (Hn : (if (flagged && in_scope name && negb (is_global name))%bool then String.append "##" name else name) = name).
      { destruct Htt as [[-> ->]|[-> ->]]; [reflexivity|].
        pose proof (Hut name (or_introl eq_refl)) as Hun. unfold U in Hun. cbn [andb]. rewrite Hun. reflexivity. }
      rewrite Hn in Hr. destruct (String.eqb name "_") eqn:Eu.
      - apply String.eqb_eq in Eu. subst name. inversion Hr; subst r. split; [|destruct Htt as [[-> _]|[-> _]]; cbn; lia].
        intros fl nm Hin. destruct Htt as [[-> ->]|[-> ->]]; cbn in Hin; destruct Hin as [E|[]]; inversion E; subst;
          (split; [exact HK_|]); [discriminate|intros _; apply Hut; left; reflexivity].
      - destruct (lookup name s) as [b|] eqn:El; inversion Hr; subst r.
        + apply lookup_In in El. destruct (eS _ _ El) as [Hs Hd]. split; [apply settled_unflag; exact Hs|rewrite depth_unflag; lia].
        + assert (Hnk : ~ In name K).
          { intro Hc. apply kS in Hc. destruct (lookup_dom name s Hc) as [v Ev]. congruence. }
          split; [|destruct flagged; cbn; lia].
          intros fl nm Hin. destruct Htt as [[-> ->]|[-> ->]]; cbn in Hin; destruct Hin as [E|[]]; inversion E; subst;
            (split; [exact Hnk|]); [discriminate|intros _; apply Hut; left; reflexivity]. }
    destruct t as [name o|name o|lit|args imp].
    - cbn [inst] in H. apply (Hatom name o false (Id name o)); auto.
    - cbn [inst] in H. apply (Hatom name o true (UId name o)); auto.
    - cbn [inst] in H. inversion H; subst. split; [intros fl nm []|cbn; lia].
    - rewrite inst_SL in H.
      destruct (expand_step f s fb args) as [args1| |] eqn:E1; cbn [bind] in H; try discriminate.
      destruct (seq_res (map (INST f s fb) args1)) as [args2| |] eqn:E2; cbn [bind] in H; try discriminate.
      inversion H; subst r. clear H.
      set (B := dmax (map depth args) + D).
      assert (Hall : forall r', In r' args2 -> settled r' /\ depth r' <= B).
      { intros r' Hr'. destruct (seq_res_In _ _ _ _ _ E2 _ Hr') as [a [Ha Hia]].
        destruct (step_members f D s fb args args1 HI) with (a := a) as [Hin|[Hs Hd]]; auto.
        - intros s' fb' v r0 HI' Hv Hr0. apply (IH D s' fb' v r0 HI'); [eapply uid_ok_SL; eauto|exact Hr0].
        - destruct (IH D s fb a r' HI (uid_ok_SL _ _ _ _ _ Hu Hin) Hia) as [Hs Hd]. split; [exact Hs|].
          pose proof (dmax_le (map depth args) _ (in_map depth _ _ Hin)). unfold B. lia.
        - destruct (settled_visit in_scope is_global kinds K s fb (fun x Hx => proj1 (kS x) Hx) f a Hs) as [H1 _].
          destruct (H1 _ Hia) as [Hs' Hd']. split; [exact Hs'|lia]. }
      change (depth (SL args imp)) with (S (dmax (map depth args))).
      assert (Hb : forall im, depth (SL args2 im) <= S B).
      { intro im. apply depth_SL_bound. intros e He. apply Hall. exact He. }
      destruct imp.
      + split; [apply settled_make_improper; intros e He; apply Hall; exact He|].
        pose proof (depth_make_improper args2). specialize (Hb true). unfold B in *. lia.
      + split; [apply settled_SL; intros e He; apply Hall; exact He|]. specialize (Hb false). unfold B in *. lia.
  Qed.

  Lemma inst_fuel : forall f D s fb t, Inv D s fb -> uid_ok t -> depth t + D <= f -> INST f s fb t <> OutOfFuel.
  Proof.
    induction f as [|f IH]; intros D s fb t HI Hu Hf; [pose proof (depth_pos t); lia|].
    pose proof HI as [kS kF eS eF].
    destruct t as [name o|name o|lit|args imp].
    - cbn [inst]. cbv zeta. destruct (String.eqb _ "_"); [discriminate|]. destruct (lookup _ s); discriminate.
    - cbn [inst]. cbv zeta. destruct (String.eqb _ "_"); [discriminate|]. destruct (lookup _ s); discriminate.
    - discriminate.
    - rewrite inst_SL. change (depth (SL args imp)) with (S (dmax (map depth args))) in Hf.
      assert (Hel : forall a, In a args -> depth a + D <= f).
      { intros a Ha. pose proof (dmax_le (map depth args) _ (in_map depth _ _ Ha)). lia. }
      assert (H1 : expand_step f s fb args <> OutOfFuel).
      { unfold expand_step. destruct (find_ell args) as [[|i]|] eqn:Ef; try discriminate.
        assert (Hi : i < List.length args) by (apply find_ell_nth in Ef; lia).
        pose proof (nth_In args (Lit "") Hi) as Hin.
        destruct (nth i args (Lit "")) as [var o|var o|lit|vxs vimp] eqn:En.
        1-2: (cbv zeta; destruct (lookup var s) as [[ | | | ]|]; try discriminate;
              destruct (lookup var fb) as [[ | | | ]|]; discriminate).
        - discriminate.
        - cbv zeta. destruct (ell_vars kinds s (SL vxs vimp)) as [|[x0 l0] vr] eqn:Ev; [discriminate|].
          destruct (negb (same_width (List.length l0) ((x0, l0) :: vr))); [discriminate|].
          match goal with |- bind ?X _ <> _ => assert (HX : X <> OutOfFuel) end.
          { apply seq_res_no_oof. intros j _. cbv zeta. rewrite <- Ev.
            apply (IH D); [apply (Inv_iter D s fb); exact HI|eapply uid_ok_SL; eauto|apply Hel; exact Hin]. }
          match goal with |- bind ?X _ <> _ => destruct X; cbn [bind]; try discriminate; congruence end. }
      destruct (expand_step f s fb args) as [args1| |] eqn:E1; cbn [bind]; try discriminate; [|congruence].
      assert (H2 : seq_res (map (INST f s fb) args1) <> OutOfFuel).
      { apply seq_res_no_oof. intros a Ha.
        destruct (step_members f D s fb args args1 HI) with (a := a) as [Hin|[Hs Hd]]; auto.
        - intros s' fb' v r0 HI' Hv Hr0. apply (inst_result f D s' fb' v r0 HI'); [eapply uid_ok_SL; eauto|exact Hr0].
        - apply (IH D); [exact HI|eapply uid_ok_SL; eauto|apply Hel; exact Hin].
        - destruct (settled_visit in_scope is_global kinds K s fb (fun x Hx => proj1 (kS x) Hx) f a Hs) as [_ H2].
          apply H2. lia. }
      destruct (seq_res (map (INST f s fb) args1)); cbn [bind]; try discriminate. congruence.
  Qed.
End Fuel2.

Lemma inst_fuel_top : forall in_scope is_global kinds s t D fuel,
  ~ In "_" (dom s) ->
  env_ok in_scope is_global (dom s) D s ->
  uid_ok in_scope is_global t ->
  depth t + D <= fuel ->
  inst in_scope is_global kinds fuel s [] t <> OutOfFuel.
Proof.
  intros in_scope is_global kinds s t D fuel Hu He Ht Hf.
  apply (inst_fuel in_scope is_global kinds (dom s) Hu fuel D s [] t); auto.
  constructor; [tauto|intros x []|exact He|intros x v []].
Qed.
