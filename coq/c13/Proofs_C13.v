(* C13 — lemmas.  Part 1: the binding-resolution view (hygiene). *)
From Coq Require Import List String Ascii Bool Arith Lia.
From SV Require Import c13.Model_C13.
Import ListNotations.
Open Scope string_scope.
Open Scope list_scope.
Open Scope nat_scope.

(* ------------------------------------------------------------------ resolution by spelling vs by mark *)
Lemma same_id_sp : forall v b, same_id v b = true -> same_sp v b = true.
Proof. unfold same_id, same_sp; intros v b H; apply andb_prop in H; tauto. Qed.

Lemma resolve_agree : forall o, captured o = false -> resolve_name o = resolve_mark o.
Proof.
  intros [v g]; unfold captured, resolve_name, resolve_mark; cbn [fst snd].
  induction g as [|b r IH]; cbn [find index_of]; intro H; [reflexivity|].
  destruct (same_sp v b) eqn:Hs.
  - apply negb_false_iff in H. unfold same_id. unfold same_sp in Hs. rewrite Hs.
    rewrite Nat.eqb_sym, H. reflexivity.
  - assert (Hi : same_id v b = false).
    { destruct (same_id v b) eqn:E; [apply same_id_sp in E; congruence|reflexivity]. }
    rewrite Hi, (IH H). reflexivity.
Qed.

Lemma resolve_differ : forall o, captured o = true -> resolve_name o <> resolve_mark o.
Proof.
  intros [v g]; unfold captured, resolve_name, resolve_mark; cbn [fst snd].
  induction g as [|b r IH]; cbn [find index_of]; intro H; [discriminate|].
  destruct (same_sp v b) eqn:Hs.
  - apply negb_true_iff in H. unfold same_id. unfold same_sp in Hs. rewrite Hs.
    rewrite Nat.eqb_sym, H. cbn.
    match goal with |- _ <> option_map S ?x => destruct x end; cbn; congruence.
  - assert (Hi : same_id v b = false).
    { destruct (same_id v b) eqn:E; [apply same_id_sp in E; congruence|reflexivity]. }
    rewrite Hi. specialize (IH H).
    destruct (index_of (same_sp v) r), (index_of (same_id v) r); cbn; congruence.
Qed.

Lemma hygiene_outside_known_l : forall e,
  known_class e = false -> resolution_engine e = resolution_hygienic e.
Proof.
  intros e H. unfold resolution_engine, resolution_hygienic. apply map_ext_in.
  intros o Hin. apply resolve_agree.
  unfold known_class in H.
  destruct (captured o) eqn:E; [|reflexivity].
  assert (existsb captured (occs [] e) = true) by (apply existsb_exists; eauto). congruence.
Qed.

Lemma map_differ : forall (A B : Type) (f g : A -> B) l x,
  In x l -> f x <> g x -> map f l <> map g l.
Proof.
  induction l as [|a l IH]; cbn; intros x Hin Hd; [contradiction|].
  destruct Hin as [->|Hin]; intro E; injection E; intros; [contradiction|].
  eapply IH; eauto.
Qed.

Lemma hygiene_known_l : forall e,
  known_class e = true -> resolution_engine e <> resolution_hygienic e.
Proof.
  intros e H. unfold known_class in H. apply existsb_exists in H. destruct H as [o [Hin Hc]].
  unfold resolution_engine, resolution_hygienic.
  eapply map_differ; eauto. apply resolve_differ; assumption.
Qed.

Lemma capture_kind_exhaustive : forall o, captured o = true ->
  capture_kind o = "nested_same_spelling" \/ capture_kind o = "use_site_shadowing" \/
  capture_kind o = "unrenamed_binder".
Proof.
  intros [v g]; unfold captured, capture_kind; cbn [fst snd].
  destruct (find (same_sp v) g) as [b|]; [|discriminate].
  intro H. apply negb_true_iff in H. rewrite H.
  destruct (snd v), (snd b); auto.
Qed.

Lemma capture_kind_none : forall o, captured o = false -> capture_kind o = "none".
Proof.
  intros [v g]; unfold captured, capture_kind; cbn [fst snd].
  destruct (find (same_sp v) g) as [b|]; [|reflexivity].
  intro H. apply negb_false_iff in H. rewrite H. reflexivity.
Qed.

Lemma syntactic_sufficient_l : forall e,
  forallb syntactic_ok (occs [] e) = true -> known_class e = false.
Proof.
  intros e H. unfold known_class.
  destruct (existsb captured (occs [] e)) eqn:E; [|reflexivity].
  apply existsb_exists in E. destruct E as [[v g] [Hin Hc]].
  rewrite forallb_forall in H. specialize (H _ Hin).
  unfold syntactic_ok in H; cbn [fst snd] in H. rewrite forallb_forall in H.
  unfold captured in Hc; cbn [fst snd] in Hc.
  destruct (find (same_sp v) g) as [b|] eqn:F; [|discriminate].
  apply find_some in F. destruct F as [Hb Hs]. specialize (H _ Hb). rewrite Hs in H. cbn in H.
  apply negb_true_iff in Hc.
  destruct (has_pfx (fst v)).
  - apply andb_prop in H. destruct H as [_ H]. congruence.
  - apply andb_prop in H. destruct H as [H1 H2].
    apply Nat.eqb_eq in H1, H2. rewrite H1, H2 in Hc. discriminate.
Qed.

(* ------------------------------------------------------------------ witnesses (F7) *)
Definition i (s : string) := Id s 0.
Definition l (xs : list sx) := SL xs false.
Definition n (s : string) := Lit s.

(* (define-syntax m2 (syntax-rules () [(_ a b) (let ([t 2]) (list a b t))]))
   (define-syntax m  (syntax-rules () [(_ x) (let ([t 1]) (m2 t x))]))   (m 0) *)
Definition W_m2 := mk_macro "m2" [] [([PSingle "a"; PSingle "b"],
  l [i "let"; l [l [i "t"; n "2"]]; l [i "list"; i "a"; i "b"; i "t"]])].
Definition W_m := mk_macro "m" [] [([PSingle "x"],
  l [i "let"; l [l [i "t"; n "1"]]; l [i "m2"; i "t"; i "x"]])].
Definition W_nested := l [i "m"; n "0"].
Definition W_nested_out :=
  l [i "let"; l [l [Id "##t" 1; n "1"]];
     l [Id "let" 2; l [l [Id "##t" 2; n "2"]]; l [UId "list" 2; Id "##t" 1; n "0"; Id "##t" 2]]].

(* non-colliding variant of the same shape: the inner macro introduces another spelling *)
Definition W_m2' := mk_macro "m2" [] [([PSingle "a"; PSingle "b"],
  l [i "let"; l [l [i "u"; n "2"]]; l [i "list"; i "a"; i "b"; i "u"]])].

(* (define-syntax uses-list (syntax-rules () [(_ x) (list x)]))
   (let ([list (lambda args 'shadowed)]) (uses-list 1)) *)
Definition W_ul := mk_macro "uses-list" [] [([PSingle "x"], l [i "list"; i "x"])].
Definition W_shadow := l [i "let"; l [l [i "list"; l [i "lambda"; i "args"; l [i "quote"; i "shadowed"]]]];
                          l [i "uses-list"; n "1"]].
Definition W_noshadow := l [i "let"; l [l [i "other"; l [i "lambda"; i "args"; l [i "quote"; i "shadowed"]]]];
                            l [i "uses-list"; n "1"]].

Lemma hygiene_refuted_l :
  exists e, expand_top [W_m; W_m2] ["list"] W_nested = Ok e /\
            show e = "(let ((##t 1)) (let ((##t 2)) (list ##t 0 ##t)))" /\
            resolution_engine e = [None; Some 0; Some 0] /\
            resolution_hygienic e = [None; Some 1; Some 0] /\
            map capture_kind (occs [] e) = ["none"; "nested_same_spelling"; "none"].
Proof. eexists. split; [vm_compute; reflexivity|]. vm_compute. repeat split. Qed.

Lemma hygiene_noncolliding_l :
  exists e, expand_top [W_m; W_m2'] ["list"] W_nested = Ok e /\
            known_class e = false /\ resolution_engine e = [None; Some 1; Some 0].
Proof. eexists. split; [vm_compute; reflexivity|]. vm_compute. repeat split. Qed.

Lemma reftransp_refuted_l :
  exists e, expand_top [W_ul] ["list"] W_shadow = Ok e /\
            show e = "(let ((list (lambda args (quote shadowed)))) (list 1))" /\
            resolution_engine e = [Some 0] /\ resolution_hygienic e = [None] /\
            map capture_kind (occs [] e) = ["use_site_shadowing"].
Proof. eexists. split; [vm_compute; reflexivity|]. vm_compute. repeat split. Qed.

Lemma reftransp_noshadow_l :
  exists e, expand_top [W_ul] ["list"] W_noshadow = Ok e /\
            known_class e = false /\ resolution_engine e = [None].
Proof. eexists. split; [vm_compute; reflexivity|]. vm_compute. repeat split. Qed.

(* ------------------------------------------------------------------ Part 2: instantiation *)
Definition dom (s : env) : list string := map fst s.
Definition closedb (d : list string) (e : sx) : bool :=
  forallb (fun x => negb (mem x d) || String.eqb x "_") (atoms e).
Definition env_clean (s : env) : Prop := forall x v, In (x, v) s -> closedb (dom s) v = true.

Lemma mem_In : forall x l, mem x l = true <-> In x l.
Proof.
  unfold mem; intros x l; rewrite existsb_exists; split.
  - intros [y [Hy E]]. apply String.eqb_eq in E. subst. assumption.
  - intro H. exists x. split; [assumption|apply String.eqb_refl].
Qed.

Lemma lookup_In : forall x s v, lookup x s = Some v -> In (x, v) s.
Proof.
  induction s as [|[y w] r IH]; cbn; intros v H; [discriminate|].
  destruct (String.eqb x y) eqn:E.
  - apply String.eqb_eq in E. inversion H; subst. left; reflexivity.
  - right. apply IH; assumption.
Qed.

Lemma lookup_None : forall x s, lookup x s = None -> mem x (dom s) = false.
Proof.
  induction s as [|[y w] r IH]; cbn; intro H; [reflexivity|].
  destruct (String.eqb x y) eqn:E; [discriminate|].
  unfold mem, dom in *. cbn. try rewrite E. cbn. apply IH. assumption.
Qed.

Lemma atoms_unflag : forall b, atoms (unflag b) = atoms b.
Proof. destruct b; reflexivity. Qed.

Lemma closedb_SL : forall d xs imp,
  closedb d (SL xs imp) = true <-> (forall e, In e xs -> closedb d e = true).
Proof.
  unfold closedb; intros d xs imp; cbn [atoms]. rewrite forallb_forall. split.
  - intros H e He. rewrite forallb_forall. intros x Hx. apply H. apply in_flat_map. eauto.
  - intros H x Hx. apply in_flat_map in Hx. destruct Hx as [e [He Hx]].
    specialize (H e He). rewrite forallb_forall in H. auto.
Qed.

Lemma last_opt_In : forall (A : Type) (zs : list A) x, last_opt zs = Some x -> In x zs.
Proof.
  induction zs as [|a r IH]; intros x H; [discriminate|].
  destruct r as [|b r']; [inversion H; left; reflexivity|].
  right. apply IH. exact H.
Qed.

Lemma removelast'_In : forall (A : Type) (zs : list A) x, In x (removelast' zs) -> In x zs.
Proof.
  induction zs as [|a r IH]; intros x H; [contradiction|].
  destruct r as [|b r']; [contradiction|].
  destruct H as [->|H]; [left; reflexivity|right; apply IH; exact H].
Qed.

Lemma closedb_make_improper : forall d xs,
  (forall e, In e xs -> closedb d e = true) -> closedb d (make_improper xs) = true.
Proof.
  intros d xs H. unfold make_improper.
  destruct (last_opt xs) as [[s0 o0|s0 o0|s0|ys imp']|] eqn:E; try (apply closedb_SL; assumption).
  apply closedb_SL. intros e He. apply in_app_or in He. destruct He as [He|He].
  - apply H. eapply removelast'_In; eauto.
  - apply last_opt_In in E. specialize (H _ E). rewrite closedb_SL in H. auto.
Qed.

Lemma seq_res_In : forall (A B : Type) (f : A -> res B) zs rs,
  seq_res (map f zs) = Ok rs -> forall r, In r rs -> exists a, In a zs /\ f a = Ok r.
Proof.
  induction zs as [|a zs IH]; cbn; intros rs H r Hr.
  - inversion H; subst. contradiction.
  - destruct (f a) eqn:Fa; cbn in H; try discriminate.
    destruct (seq_res (map f zs)) eqn:Fl; cbn in H; try discriminate.
    inversion H; subst. destruct Hr as [->|Hr]; [exists a; auto|].
    destruct (IH _ eq_refl _ Hr) as [a' [Ha' E]]. exists a'; auto.
Qed.

(* no pattern variable survives instantiation: whatever the template, every identifier of the result that
   is bound in the environment has been replaced (the wildcard _ is never substituted) *)
Lemma inst_closed : forall in_scope is_global kinds s, env_clean s ->
  forall fuel fb t r, inst in_scope is_global kinds fuel s fb t = Ok r -> closedb (dom s) r = true.
Proof.
  intros in_scope is_global kinds s Hs.
  induction fuel as [|f IH]; intros fb t r H; [discriminate|].
  assert (Hatom : forall name o flagged tt, atoms tt = [name] ->
    (let name' := if flagged && in_scope name && negb (is_global name) then String.append "##" name else name in
     if String.eqb name' "_" then Ok tt else
     match lookup name' s with
     | Some b => Ok (unflag b)
     | None => Ok (if flagged then UId name' o else Id name' o)
     end) = Ok r -> closedb (dom s) r = true).
  { intros name o flagged tt Htt. cbv zeta.
    set (name' := if flagged && in_scope name && negb (is_global name) then String.append "##" name else name).
    destruct (String.eqb name' "_") eqn:Eu.
    - intro E; inversion E; subst. unfold closedb. rewrite Htt. cbn.
      destruct (flagged && in_scope name && negb (is_global name)) eqn:Efl; subst name'.
      + cbn in Eu. discriminate.
      + rewrite Eu. rewrite orb_true_r. reflexivity.
    - destruct (lookup name' s) as [b|] eqn:El; intro E; inversion E; subst.
      + unfold closedb. rewrite atoms_unflag. apply lookup_In in El. apply (Hs _ _ El).
      + apply lookup_None in El.
        assert (Ha : atoms (if flagged then UId name' o else Id name' o) = [name']) by (destruct flagged; reflexivity).
        unfold closedb. rewrite Ha. cbn [forallb]. rewrite El. reflexivity. }
  destruct t as [name o|name o|lit|args imp]; cbn [inst] in H.
  - apply (Hatom name o false (Id name o) eq_refl). exact H.
  - apply (Hatom name o true (UId name o) eq_refl). exact H.
  - inversion H; subst. reflexivity.
  - match type of H with bind ?X _ = _ => destruct X as [args1| |] eqn:E1 end; cbn [bind] in H; try discriminate.
    destruct (seq_res (map (inst in_scope is_global kinds f s fb) args1)) as [args2| |] eqn:E2; cbn [bind] in H; try discriminate.
    inversion H; subst.
    assert (Hall : forall e, In e args2 -> closedb (dom s) e = true).
    { intros e He. destruct (seq_res_In _ _ _ _ _ E2 _ He) as [a [_ Ha]]. eapply IH; eauto. }
    destruct imp; [apply closedb_make_improper|apply closedb_SL]; assumption.
Qed.

(* ------------------------------------------------------------------ Part 3: matching / binding is total *)
Section PatInd.
  Variable P : pat -> Prop.
  Hypothesis HS : forall v, P (PSingle v).
  Hypothesis HY : forall s, P (PSyntax s).
  Hypothesis HL : forall s, P (PLit s).
  Hypothesis HM : forall p, P p -> P (PMany p).
  Hypothesis HR : forall p, P p -> P (PRest p).
  Hypothesis HN : forall ps, Forall P ps -> P (PNested ps).
  Fixpoint pat_ind2 (p : pat) : P p :=
    match p with
    | PSingle v => HS v
    | PSyntax s => HY s
    | PLit s => HL s
    | PMany q => HM q (pat_ind2 q)
    | PRest q => HR q (pat_ind2 q)
    | PNested ps => HN ps ((fix go (zs : list pat) : Forall P zs :=
                              match zs with
                              | [] => Forall_nil P
                              | z :: r => Forall_cons z (pat_ind2 z) (go r)
                              end) ps)
    end.
End PatInd.

Lemma bind_no_oof : forall (A B : Type) (r : res A) (f : A -> res B),
  r <> OutOfFuel -> (forall a, f a <> OutOfFuel) -> bind r f <> OutOfFuel.
Proof. intros A B [a|k|] f H1 H2; cbn; [apply H2|discriminate|congruence]. Qed.

Lemma collect_go_no_oof : forall co ps,
  Forall (fun p => forall e, co p e <> OutOfFuel) ps ->
  (forall p q, In p ps -> (p = PMany q \/ p = PRest q) -> forall e, co q e <> OutOfFuel) ->
  forall es k imp, collect_go_gen co ps es k imp <> OutOfFuel.
Proof.
  intros co ps Hall Hsub. induction ps as [|p ps' IH]; intros es k imp; cbn; [discriminate|].
  assert (IH' : forall es k imp, collect_go_gen co ps' es k imp <> OutOfFuel).
  { apply IH; [inversion Hall; assumption|]. intros p0 q Hin Hq. eapply Hsub; [right; exact Hin|exact Hq]. }
  assert (Hp : forall e, co p e <> OutOfFuel) by (inversion Hall; assumption).
  destruct p as [v|s|s|sub|qs|q].
  - destruct es as [|e es']; [discriminate|].
    apply bind_no_oof; [apply IH'|]. intros [b2 k2]. discriminate.
  - destruct es as [|e es']; [discriminate|].
    apply bind_no_oof; [apply Hp|]. intros [b1 k1].
    apply bind_no_oof; [apply IH'|]. intros [b2 k2]. discriminate.
  - apply IH'.
  - assert (Hsubq : forall e, co sub e <> OutOfFuel) by (eapply Hsub; [left; reflexivity|left; reflexivity]).
    apply bind_no_oof.
    + generalize es. induction k as [|k' IHk]; intro es0; cbn; [discriminate|].
      destruct es0 as [|e es0']; [discriminate|].
      apply bind_no_oof; [apply Hsubq|]. intros [b kk].
      apply bind_no_oof; [apply IHk|]. intros [[bs kks] rest]. discriminate.
    + intros [[bs kks] rest]. apply bind_no_oof; [apply IH'|]. intros [b2 k2]. discriminate.
  - destruct es as [|e es']; [discriminate|].
    apply bind_no_oof; [apply Hp|]. intros [b1 k1].
    apply bind_no_oof; [apply IH'|]. intros [b2 k2]. discriminate.
  - assert (Hsubq : forall e, co q e <> OutOfFuel) by (eapply Hsub; [left; reflexivity|right; reflexivity]).
    apply bind_no_oof; [apply Hsubq|]. intros [b1 k1].
    apply bind_no_oof; [apply IH'|]. intros [b2 k2]. discriminate.
Qed.

Definition Qc (p : pat) : Prop := forall e, collect_one p e <> OutOfFuel.
Definition Pc (p : pat) : Prop := Qc p /\ match p with PMany q | PRest q => Qc q | _ => True end.

Lemma collect_one_no_oof' : forall p, Pc p.
Proof.
  induction p using pat_ind2; unfold Pc, Qc in *.
  - split; [intro e; cbn; discriminate|exact I].
  - split; [|exact I]. intro e; cbn. destruct e; try discriminate; destruct (_ || _); discriminate.
  - split; [intro e; cbn; discriminate|exact I].
  - split; [intro e; cbn; discriminate|apply IHp].
  - split; [intro e; cbn; discriminate|apply IHp].
  - split; [|exact I]. intro e. cbn.
    destruct e as [x o|x o|x|xs imp].
    1-3: (destruct ps as [|[ | | |sub| | ] [|[ | | | | |q] [|? ?]]]; try discriminate;
          apply bind_no_oof; [inversion H as [|? ? _ H2]; inversion H2 as [|? ? H3 _]; subst; apply H3|intros [b k]; discriminate]).
    apply collect_go_no_oof.
    + eapply Forall_impl; [|exact H]. intros a Ha. apply Ha.
    + intros p q Hin Hq. rewrite Forall_forall in H. specialize (H _ Hin).
      destruct Hq as [-> | ->]; apply H.
Qed.

Lemma collect_one_no_oof : forall p e, collect_one p e <> OutOfFuel.
Proof. intro p. apply collect_one_no_oof'. Qed.

Lemma collect_no_oof : forall ps xs imp, collect ps xs imp <> OutOfFuel.
Proof.
  intros ps xs imp. unfold collect.
  pose proof (collect_one_no_oof (PNested ps) (SL xs imp)) as H. cbn in H. exact H.
Qed.

Lemma collect_total : forall ps xs imp,
  (exists b k, collect ps xs imp = Ok (b, k)) \/ (exists kind, collect ps xs imp = Err kind).
Proof.
  intros ps xs imp. pose proof (collect_no_oof ps xs imp) as H.
  destruct (collect ps xs imp) as [[b k]|kind|]; [left; eauto|right; eauto|congruence].
Qed.
