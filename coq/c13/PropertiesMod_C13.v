(* C13, macros imported from modules: theorems about the collection of in-scope (qualified) names, instantiated with
   the shape facts generated from crates/steel-core/src/compiler/modules.rs on every run (coq/gen/Gen_C13mod.v).
   A change of the code that drops a shape from the collection changes a generated flag and the statements below no
   longer check. *)
From Coq Require Import String List Bool.
From SV Require Import c13.ModelMod_C13 c13.ProofsMod_C13 gen.Gen_C13mod.
Import ListNotations.
Open Scope string_scope.

(* every name a module exports through a provide spec the provide expansion accepts is collected as an in-scope name
   of a module that requires it as a whole (find_in_scope_macros, loop over modules_to_check) *)
Theorem C13_mod_in_scope_complete : forall specs n,
  exported provide_atom_accepted provide_value_heads specs n ->
  In n (in_scope_names in_scope_collects_atom in_scope_collects_list_second specs).
Proof.
  apply (in_scope_complete provide_atom_accepted provide_value_heads in_scope_collects_atom in_scope_collects_list_second).
  reflexivity.
Qed.

(* every local name that a require object binds in the requiring module (alias and prefix applied, as in
   to_top_level_module) is in the set of names find_in_scope_macros qualifies inside the module's macro templates *)
Theorem C13_mod_bound_in_scope : forall r specs l,
  bound provide_atom_accepted provide_value_heads r specs l ->
  In l (in_scope_req req_ids_normal req_ids_renamed req_ids_without_prefix
                     in_scope_collects_atom in_scope_collects_list_second
                     in_scope_prefixed_collects_atom in_scope_prefixed_collects_list_second r specs).
Proof.
  intros r specs l H.
  apply (bound_in_scope provide_atom_accepted provide_value_heads in_scope_collects_atom in_scope_collects_list_second
                        in_scope_prefixed_collects_atom in_scope_prefixed_collects_list_second);
    [reflexivity | reflexivity | exact H].
Qed.

(* the main program and modules accept the same provide specs *)
Theorem C13_mod_main_accepts_same :
  provide_value_heads_main = provide_value_heads /\ provide_atom_accepted_main = provide_atom_accepted.
Proof. split; reflexivity. Qed.

(* to_top_level_module registers, for a spec export, the name it defines (alias / prefix applied) *)
Theorem C13_mod_spec_registers_bound_name : spec_registers_bound_name = true.
Proof. reflexivity. Qed.

(* the forms found in the source are the ones the module-graph family of checks/c13.py generates *)
Theorem C13_mod_forms_covered :
  forallb (fun h => existsb (String.eqb h) ["%require-ident-spec"]) provide_value_heads = true /\
  forallb (fun h => existsb (String.eqb h) ["for-syntax"]) provide_syntax_heads = true /\
  forallb (fun h => existsb (String.eqb h) ["contract/out"]) provide_surface_macros = true /\
  forallb (fun h => existsb (String.eqb h) ["<string>"; "only-in"; "prefix-in"; "for-syntax"]) require_heads = true /\
  forallb (fun h => existsb (String.eqb h) ["<identifier>"; "<rename-pair>"]) only_in_items = true.
Proof. repeat split; reflexivity. Qed.

(* the obligations are tight *)
Theorem C13_mod_collection_tight : forall atom_ok heads c_atom c_list,
  collection_covers atom_ok heads c_atom c_list = false ->
  exists specs n, exported atom_ok heads specs n /\ ~ In n (in_scope_names c_atom c_list specs).
Proof. exact in_scope_incomplete. Qed.

Theorem C13_mod_shapes_needed :
  (exists r specs l, bound true [] r specs l /\ ~ In l (in_scope_req true true false true true true true r specs)) /\
  (exists r specs l, bound true [] r specs l /\ ~ In l (in_scope_req true false true true true true true r specs)) /\
  (exists r specs l, bound true [] r specs l /\ ~ In l (in_scope_req true true true true true false false r specs)).
Proof.
  exact (conj as_identifiers_needed_noprefix (conj as_identifiers_needed_renamed prefixed_collection_needed)).
Qed.

(* non-vacuity: the export of the seeded shape, (provide perimeter (contract/out area ...)) required as a whole *)
Example C13_mod_nonvacuous :
  exported provide_atom_accepted provide_value_heads
           [PAtom "perimeter"; PList "%require-ident-spec" (Some "area")] "area" /\
  in_scope_names in_scope_collects_atom in_scope_collects_list_second
           [PAtom "perimeter"; PList "%require-ident-spec" (Some "area")] = ["perimeter"; "area"] /\
  bound provide_atom_accepted provide_value_heads
        {| r_items := [IRenamed "area" "surface"]; r_prefix := Some "geo." |}
        [PAtom "perimeter"; PList "%require-ident-spec" (Some "area")] "geo.surface".
Proof.
  split; [| split].
  - exists (PList "%require-ident-spec" (Some "area")). simpl. auto.
  - reflexivity.
  - exists "area". split; [exists (PList "%require-ident-spec" (Some "area")); simpl; auto | reflexivity].
Qed.
