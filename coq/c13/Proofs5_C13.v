(* C13 — lemmas, part 7: one macro use at top level is hygienic under the syntactic condition safe_use. *)
From Coq Require Import List String Ascii Bool Arith Lia.
From SV Require Import c13.Model_C13 c13.Proofs_C13 c13.Proofs2_C13 c13.Proofs3_C13 c13.Proofs4_C13.
Import ListNotations.
Open Scope string_scope.
Open Scope list_scope.
Open Scope nat_scope.

(* ------------------------------------------------------------------ occurrences never have a keyword spelling *)
Definition nt (o : ident * list ident) : Prop := mem (fst (fst o)) TOKENS = false.
Definition QA (e : sx) : Prop := forall g o, In o (occs g e) -> nt o.

Lemma Qseq : forall l, (forall x, In x l -> QA x) -> forall g o, In o (occs_seq occs g l) -> nt o.
Proof.
  induction l as [|x r IH]; intros HP g o Ho; [contradiction|].
  cbn [occs_seq] in Ho. apply in_app_or in Ho. destruct Ho as [Ho|Ho].
  - eapply HP; [left; reflexivity|exact Ho].
  - eapply IH; [|exact Ho]. intros y Hy. apply HP. right; exact Hy.
Qed.

Lemma Qinits : forall g l, (forall p v, In p l -> (exists a more imp, p = SL (a :: v :: more) imp) -> QA v) ->
  forall o, In o (occs_inits occs g l) -> nt o.
Proof.
  induction l as [|p r IH]; intros HP o Ho; [contradiction|].
  assert (Hr : forall o, In o (occs_inits occs g r) -> nt o).
  { intros o' Ho'. eapply IH; [|exact Ho']. intros p' v Hp'. apply HP. right; exact Hp'. }
  destruct p as [s o'|s o'|s|[|a [|v more]] imp]; cbn [occs_inits] in Ho; try (apply Hr; exact Ho).
  apply in_app_or in Ho. destruct Ho as [Ho|Ho]; [|apply Hr; exact Ho].
  eapply (HP _ v (or_introl eq_refl)); [eauto|exact Ho].
Qed.

Ltac q_seq IH Ho :=
  eapply Qseq; [|exact Ho];
  let x := fresh "x" in let Hx := fresh "Hx" in intros x Hx; apply IH;
  match goal with Hd : depth (SL ?XS ?im) <= S _ |- _ =>
    let Hm := fresh "Hm" in assert (Hm : In x XS) by (cbn [In]; tauto);
    pose proof (depth_elem XS im x Hm); lia end.

Ltac q_inits IH Ho :=
  eapply Qinits; [|exact Ho];
  let p := fresh "p" in let v := fresh "v" in let Hp := fresh "Hp" in
  let a := fresh "a" in let more := fresh "more" in let i0 := fresh "i0" in
  intros p v Hp [a [more [i0 ->]]]; apply IH;
  match goal with Hd : depth (SL ?XS ?im) <= S _, Hp' : In (SL (a :: v :: more) i0) ?PRS |- _ =>
    match XS with context [SL PRS ?pim] =>
      let Hm := fresh "Hm" in assert (Hm : In (SL PRS pim) XS) by (cbn [In]; tauto);
      pose proof (depth_elem XS im _ Hm); pose proof (depth_elem PRS pim _ Hp');
      pose proof (depth_elem (a :: v :: more) i0 v (or_intror (or_introl eq_refl))); lia end end.

Lemma QA_all : forall n e, depth e <= n -> QA e.
Proof.
  induction n as [|n IH]; intros e Hd; [pose proof (depth_pos e); lia|].
  destruct e as [s o|s o|s|xs imp].
  1-2: (intros g o' Ho; cbn [occs] in Ho; unfold ident_of in Ho; destruct (mem s TOKENS) eqn:Et; [contradiction|];
        destruct Ho as [<-|[]]; exact Et).
  - intros g o' Ho. contradiction.
  - intros g o Ho. cbn [occs] in Ho.
    destruct xs as [|hd args]; [contradiction|].
    destruct hd as [h ho|h ho|h|hx hi]; [| |q_seq IH Ho|q_seq IH Ho].
    1-2: (destruct (String.eqb h "quote"); [contradiction|];
          destruct (mem h LAMBDAS);
          [destruct args as [|[s1 o1|s1 o1|s1|ps pi] body]; [contradiction| | | |]; q_seq IH Ho|];
          destruct (mem h LETS);
          [destruct args as [|[s1 o1|s1 o1|s1|prs pim] rest]; [contradiction| | | |];
           [destruct rest as [|[s2 o2|s2 o2|s2|prs pim] body]; try contradiction
           |destruct rest as [|[s2 o2|s2 o2|s2|prs pim] body]; try contradiction
           |destruct rest as [|[s2 o2|s2 o2|s2|prs pim] body]; try contradiction
           |];
           (apply in_app_or in Ho; destruct Ho as [Ho|Ho]; [q_inits IH Ho|q_seq IH Ho])|];
          destruct (mem h DEFINES);
          [destruct args as [|[s1 o1|s1 o1|s1|[|f ps] pim] body]; [contradiction| | | | |]; q_seq IH Ho|];
          q_seq IH Ho).
Qed.

Lemma no_shared_spelling_nt : forall e,
  (forall v b, In v (ids e) -> In b (ids e) -> mem (fst v) TOKENS = false -> fst v = fst b -> snd v = snd b) ->
  known_class e = false.
Proof.
  intros e H. unfold known_class. destruct (existsb captured (occs [] e)) eqn:E; [|reflexivity].
  apply existsb_exists in E. destruct E as [o [Ho Hc]]. destruct (occs_ids e o Ho) as [H1 H2].
  pose proof (QA_all (depth e) e (le_n _) [] o Ho) as Hnt. unfold nt in Hnt.
  unfold captured in Hc. destruct (find (same_sp (fst o)) (snd o)) as [b|] eqn:F; [|discriminate].
  apply find_some in F. destruct F as [Hb Hs]. unfold same_sp in Hs. apply String.eqb_eq in Hs.
  rewrite (H (fst o) b H1 (H2 b Hb) Hnt Hs) in Hc. rewrite Nat.eqb_refl in Hc. discriminate.
Qed.

(* ------------------------------------------------------------------ where the identifiers of an expansion come from *)
Definition ids_env (s : env) : list ident := flat_map (fun p => ids (snd p)) s.

Lemma ids_unflag : forall b, ids (unflag b) = ids b.
Proof. destruct b; reflexivity. Qed.

Lemma ids_freeze : forall e, ids (freeze e) = ids e.
Proof.
  induction e using sx_ind2; cbn; try reflexivity.
  induction xs as [|a r IHr]; cbn; [reflexivity|]. inversion H; subst. rewrite H2, IHr by assumption. reflexivity.
Qed.

Lemma ids_make_improper : forall xs, incl (ids (make_improper xs)) (flat_map ids xs).
Proof.
  intros xs z. unfold make_improper. destruct (last_opt xs) as [[s0 o0|s0 o0|s0|ys imp']|] eqn:E; try (intro H; exact H).
  cbn [ids]. rewrite flat_map_app, in_app_iff. intros [H|H].
  - apply in_flat_map in H. destruct H as [e [He Hp]]. apply in_flat_map. exists e. split; [eapply removelast'_In; eauto|exact Hp].
  - apply in_flat_map. exists (SL ys imp'). split; [eapply last_opt_In; eauto|exact H].
Qed.

Lemma ids_stamp : forall i t v, In v (ids (stamp i t)) -> snd v = i /\ In (fst v) (atoms t).
Proof.
  intros i t; induction t using sx_ind2; intros v Hv; cbn in Hv.
  - destruct Hv as [<-|[]]. cbn. auto.
  - destruct Hv as [<-|[]]. cbn. auto.
  - contradiction.
  - apply in_flat_map in Hv. destruct Hv as [e [He Hv]]. apply in_map_iff in He. destruct He as [e0 [<- He0]].
    rewrite Forall_forall in H. destruct (H e0 He0 v Hv) as [H1 H2]. split; [exact H1|].
    cbn [atoms]. apply in_flat_map. eauto.
Qed.

Lemma ids_env_val : forall x v s, In (x, v) s -> incl (ids v) (ids_env s).
Proof. intros x v s H z Hz. unfold ids_env. apply in_flat_map. exists (x, v). auto. Qed.
Lemma ids_env_app : forall a b, ids_env (a ++ b) = ids_env a ++ ids_env b.
Proof. intros. unfold ids_env. apply flat_map_app. Qed.
Lemma ids_elem : forall l imp e, In e l -> incl (ids e) (ids (SL l imp)).
Proof. intros l imp e H z Hz. cbn. apply in_flat_map. eauto. Qed.

Section InstIds.
  Variable in_scope is_global : string -> bool.
  Variable kinds : list string.
  Hypothesis Htop : forall x, in_scope x = false.
  Notation INST := (inst in_scope is_global kinds).
  Notation STEP := (expand_step in_scope is_global kinds).

  Lemma iter_env_ids : forall s v j,
    incl (ids_env (map (fun '(x, l) => (x, nth j l (Lit ""))) (ell_vars kinds s v) ++ s)) (ids_env s) /\
    incl (ids_env (map (fun '(x, l) => (x, SL l false)) (ell_vars kinds s v))) (ids_env s).
  Proof.
    intros s v j.
    assert (Hvs : forall x l, In (x, l) (ell_vars kinds s v) -> incl (ids (SL l false)) (ids_env s)).
    { intros x l H. destruct (ell_vars_in kinds _ _ _ _ H) as [imp' E]. apply lookup_In in E.
      intros z Hz. apply (ids_env_val _ _ _ E). exact Hz. }
    split.
    - rewrite ids_env_app. intros z Hz. apply in_app_or in Hz. destruct Hz as [Hz|Hz]; [|exact Hz].
      unfold ids_env in Hz. apply in_flat_map in Hz. destruct Hz as [[x w] [Hin Hz]].
      apply in_map_iff in Hin. destruct Hin as [[y l] [E Hin]]. inversion E; subst. cbn [snd] in Hz.
      destruct (nth_in_or_default j l (Lit "")) as [Hn|Hn].
      + apply (Hvs _ _ Hin). eapply ids_elem; eauto.
      + rewrite Hn in Hz. contradiction.
    - intros z Hz. unfold ids_env in Hz. apply in_flat_map in Hz. destruct Hz as [[x w] [Hin Hz]].
      apply in_map_iff in Hin. destruct Hin as [[y l] [E Hin]]. inversion E; subst. cbn [snd] in Hz.
      apply (Hvs _ _ Hin). exact Hz.
  Qed.

  Lemma step_ids : forall f s fb args args1,
    (forall s' fb' v r, In v args -> INST f s' fb' v = Ok r -> incl (ids r) (ids v ++ ids_env s' ++ ids_env fb')) ->
    STEP f s fb args = Ok args1 ->
    forall a, In a args1 -> incl (ids a) (flat_map ids args ++ ids_env s ++ ids_env fb).
  Proof.
    intros f s fb args args1 HR H a Ha. unfold expand_step in H.
    assert (Hargs : forall a, In a args -> incl (ids a) (flat_map ids args ++ ids_env s ++ ids_env fb)).
    { intros a0 Ha0 z Hz. apply in_or_app. left. apply in_flat_map. eauto. }
    destruct (find_ell args) as [[|i]|] eqn:Ef; try (inversion H; subst; apply Hargs; exact Ha).
    assert (Hi : i < List.length args) by (apply find_ell_nth in Ef; lia).
    pose proof (nth_In args (Lit "") Hi) as Hin.
    assert (Hval : forall (left_ : bool) E l imp' var, In (var, SL l imp') E -> In a (map unflag l) -> incl (ids a) (ids_env E)).
    { intros _ E l imp' var HE Hal. apply in_map_iff in Hal. destruct Hal as [e [<- He]].
      rewrite ids_unflag. intros z Hz. apply (ids_env_val _ _ _ HE). eapply ids_elem; eauto. }
    destruct (nth i args (Lit "")) as [var o|var o|lit|vxs vimp] eqn:En.
    1-2: (destruct (lookup var s) as [[s0 o0|s0 o0|s0|l imp']|] eqn:El; cbv zeta in H;
          try (inversion H; subst; apply Hargs; exact Ha);
          try (inversion H; subst; apply in_splice in Ha; destruct Ha as [Ha|Ha]; [apply Hargs; exact Ha|];
               apply lookup_In in El; intros z Hz; apply in_or_app; right; apply in_or_app; left;
               eapply (Hval true); eauto);
          (destruct (lookup var fb) as [[s1 o1|s1 o1|s1|l imp']|] eqn:Elf;
           try discriminate; try (inversion H; subst; apply Hargs; exact Ha);
           inversion H; subst; apply in_splice in Ha; destruct Ha as [Ha|Ha]; [apply Hargs; exact Ha|];
           apply lookup_In in Elf; intros z Hz; apply in_or_app; right; apply in_or_app; right;
           eapply (Hval true); eauto)).
    - discriminate.
    - cbv zeta in H. destruct (ell_vars kinds s (SL vxs vimp)) as [|[x0 l0] vr] eqn:Ev; [discriminate|].
      destruct (negb (same_width (List.length l0) ((x0, l0) :: vr))); [discriminate|].
      match type of H with bind ?X _ = _ => destruct X as [rs| |] eqn:Er end; cbn [bind] in H; try discriminate.
      inversion H; subst. apply in_splice in Ha. destruct Ha as [Ha|Ha]; [apply Hargs; exact Ha|].
      destruct (seq_res_In _ _ _ _ _ Er _ Ha) as [j [_ Hj]]. cbv zeta in Hj. rewrite <- Ev in Hj.
      pose proof (HR _ _ _ _ Hin Hj) as Hr. destruct (iter_env_ids s (SL vxs vimp) j) as [I1 I2].
      intros z Hz. apply Hr in Hz. apply in_app_or in Hz. destruct Hz as [Hz|Hz].
      + apply Hargs in Hin. apply Hin. exact Hz.
      + apply in_or_app. right. apply in_or_app. left.
        apply in_app_or in Hz. destruct Hz as [Hz|Hz]; [apply I1|apply I2]; exact Hz.
  Qed.

  Lemma inst_ids : forall f s fb t r, INST f s fb t = Ok r -> incl (ids r) (ids t ++ ids_env s ++ ids_env fb).
  Proof.
    induction f as [|f IH]; intros s fb t r H; [discriminate|].
    destruct t as [name o|name o|lit|args imp].
    1-2: (cbn [inst] in H; cbv zeta in H; rewrite Htop in H; rewrite ?andb_false_r in H; cbn [andb] in H;
          destruct (String.eqb name "_"); [inversion H; subst; intros z Hz; apply in_or_app; left; exact Hz|];
          destruct (lookup name s) as [b|] eqn:El; inversion H; subst;
          [rewrite ids_unflag; apply lookup_In in El; intros z Hz; apply in_or_app; right; apply in_or_app; left;
           apply (ids_env_val _ _ _ El); exact Hz
          |intros z Hz; apply in_or_app; left; exact Hz]).
    - cbn [inst] in H. inversion H; subst. intros z [].
    - rewrite inst_SL in H.
      destruct (STEP f s fb args) as [args1| |] eqn:E1; cbn [bind] in H; try discriminate.
      destruct (seq_res (map (INST f s fb) args1)) as [args2| |] eqn:E2; cbn [bind] in H; try discriminate.
      inversion H; subst r. clear H.
      assert (Hall : incl (flat_map ids args2) (ids (SL args imp) ++ ids_env s ++ ids_env fb)).
      { intros z Hz. apply in_flat_map in Hz. destruct Hz as [r' [Hr' Hz]].
        destruct (seq_res_In _ _ _ _ _ E2 _ Hr') as [a [Ha Hia]].
        apply (IH _ _ _ _ Hia) in Hz. apply in_app_or in Hz. destruct Hz as [Hz|Hz]; [|apply in_or_app; right; exact Hz].
        apply (step_ids f s fb args args1 (fun s' fb' v r0 _ Hr0 => IH s' fb' v r0 Hr0) E1 a Ha). exact Hz. }
      destruct imp; [intros z Hz; apply Hall; apply ids_make_improper; exact Hz|exact Hall].
  Qed.
End InstIds.

(* ------------------------------------------------------------------ bindings only contain identifiers of the use *)
Lemma bind_ok : forall (A B : Type) (r : res A) (f : A -> res B) y, bind r f = Ok y -> exists a, r = Ok a /\ f a = Ok y.
Proof. intros A B [a|k|] f y H; cbn in H; try discriminate. eauto. Qed.

Definition CI (co : pat -> sx -> cres) (p : pat) : Prop :=
  forall e b k, co p e = Ok (b, k) -> incl (ids_env b) (ids e).

Lemma tl_ids : forall es, incl (flat_map ids (tl es)) (flat_map ids es).
Proof. intros [|e r] z Hz; [exact Hz|]. cbn. apply in_or_app. right; exact Hz. Qed.

Lemma c_items_ids : forall co sub, CI co sub -> forall n es bs kks rest,
  c_items co sub n es = Ok (bs, kks, rest) ->
  (forall b, In b bs -> incl (ids_env b) (flat_map ids es)) /\ incl (flat_map ids rest) (flat_map ids es).
Proof.
  intros co sub Hc. induction n as [|n IH]; intros es bs kks rest H.
  - cbn in H. inversion H; subst. split; [intros b []|intros z Hz; exact Hz].
  - cbn in H. destruct es as [|e es']; [inversion H; subst; split; [intros b []|intros z []]|].
    apply bind_ok in H. destruct H as [[b kk] [E1 H]]. apply bind_ok in H. destruct H as [[[bs' kks'] rest'] [E2 H]].
    inversion H; subst. destruct (IH _ _ _ _ E2) as [I1 I2]. split.
    + intros b0 [<-|Hb] z Hz; cbn; apply in_or_app; [left; apply (Hc _ _ _ E1); exact Hz|right; eapply I1; eauto].
    + intros z Hz. cbn. apply in_or_app. right. apply I2. exact Hz.
Qed.

Lemma collect_go_ids : forall co ps,
  Forall (CI co) ps ->
  (forall p q, In p ps -> (p = PMany q \/ p = PRest q) -> CI co q) ->
  forall es k imp b kk, collect_go_gen co ps es k imp = Ok (b, kk) -> incl (ids_env b) (flat_map ids es).
Proof.
  intros co ps Hall Hsub. induction ps as [|p ps' IH]; intros es k imp b kk H.
  - cbn in H. inversion H; subst. intros z [].
  - assert (IH' : forall es k imp b kk, collect_go_gen co ps' es k imp = Ok (b, kk) -> incl (ids_env b) (flat_map ids es)).
    { apply IH; [inversion Hall; assumption|]. intros p0 q Hin Hq. eapply Hsub; [right; exact Hin|exact Hq]. }
    assert (Hp : CI co p) by (inversion Hall; assumption).
    cbn [collect_go_gen] in H. fold (collect_go_gen co) in H.
    destruct p as [v|s|s|sub|qs|q].
    + destruct es as [|e es']; [discriminate|]. apply bind_ok in H. destruct H as [[b2 k2] [E2 H]]. inversion H; subst.
      rewrite ids_env_app. intros z Hz. apply in_app_or in Hz. cbn [flat_map]. apply in_or_app. destruct Hz as [Hz|Hz].
      * right. eapply IH'; eauto.
      * left. unfold ids_env in Hz. cbn in Hz. rewrite app_nil_r, ids_freeze in Hz. exact Hz.
    + destruct es as [|e es']; [discriminate|]. apply bind_ok in H. destruct H as [[b1 k1] [E1 H]].
      apply bind_ok in H. destruct H as [[b2 k2] [E2 H]]. inversion H; subst.
      rewrite ids_env_app. intros z Hz. apply in_app_or in Hz. cbn [flat_map]. apply in_or_app. destruct Hz as [Hz|Hz].
      * right. eapply IH'; eauto.
      * left. eapply Hp; eauto.
    + intros z Hz. apply tl_ids. eapply IH'; eauto.
    + assert (Hq : CI co sub) by (eapply Hsub; [left; reflexivity|left; reflexivity]).
      apply bind_ok in H. destruct H as [[[bs kks] rest] [E1 H]].
      apply bind_ok in H. destruct H as [[b2 k2] [E2 H]]. inversion H; subst.
      destruct (c_items_ids co sub Hq _ _ _ _ _ E1) as [I1 I2].
      rewrite ids_env_app. intros z Hz. apply in_app_or in Hz. destruct Hz as [Hz|Hz].
      * apply I2. eapply IH'; eauto.
      * unfold ids_env in Hz. apply in_flat_map in Hz. destruct Hz as [[x w] [Hin Hz]].
        apply in_map_iff in Hin. destruct Hin as [y [E Hy]]. injection E as Ex Ew. subst x w. cbn [snd ids] in Hz.
        apply in_flat_map in Hz. destruct Hz as [e0 [He0 Hz]]. apply in_flat_map in He0. destruct He0 as [b0 [Hb0 He0]].
        destruct (lookup y b0) as [v0|] eqn:El; [|contradiction]. destruct He0 as [<-|[]].
        apply (I1 b0 Hb0). apply lookup_In in El. apply (ids_env_val _ _ _ El). exact Hz.
    + destruct es as [|e es']; [discriminate|]. apply bind_ok in H. destruct H as [[b1 k1] [E1 H]].
      apply bind_ok in H. destruct H as [[b2 k2] [E2 H]]. inversion H; subst.
      rewrite ids_env_app. intros z Hz. apply in_app_or in Hz. cbn [flat_map]. apply in_or_app. destruct Hz as [Hz|Hz].
      * right. eapply IH'; eauto.
      * left. eapply Hp; eauto.
    + assert (Hq : CI co q) by (eapply Hsub; [left; reflexivity|right; reflexivity]).
      apply bind_ok in H. destruct H as [[b1 k1] [E1 H]]. apply bind_ok in H. destruct H as [[b2 k2] [E2 H]]. inversion H; subst.
      rewrite ids_env_app. intros z Hz. apply in_app_or in Hz. destruct Hz as [Hz|Hz].
      * apply tl_ids. eapply IH'; eauto.
      * apply (Hq _ _ _ E1) in Hz.
        destruct es as [|e1 [|e2 r]]; [contradiction| |exact Hz].
        destruct imp; [cbn; rewrite app_nil_r; exact Hz|exact Hz].
Qed.

Definition CIP (p : pat) : Prop :=
  CI collect_one p /\ match p with PMany q | PRest q => CI collect_one q | _ => True end.

Lemma collect_one_ids' : forall p, CIP p.
Proof.
  induction p using pat_ind2; unfold CIP, CI in *.
  - split; [|exact I]. intros e b k H. cbn in H. inversion H; subst. unfold ids_env. cbn. rewrite app_nil_r, ids_freeze. intros z Hz; exact Hz.
  - split; [|exact I]. intros e b k H. cbn in H. destruct e; try (inversion H; subst; intros z []);
      (destruct (_ || _); [inversion H; subst; intros z []|discriminate]).
  - split; [|exact I]. intros e b k H. cbn in H. inversion H; subst. intros z [].
  - split; [intros e b k H; discriminate|apply IHp].
  - split; [intros e b k H; discriminate|apply IHp].
  - split; [|exact I]. intros e b k H0. cbn [collect_one] in H0.
    destruct e as [x o|x o|x|xs imp].
    1-3: (destruct ps as [|[ | | |sub| | ] [|[ | | | | |q] [|? ?]]]; try discriminate;
          apply bind_ok in H0; destruct H0 as [[b1 k1] [E1 H0]]; inversion H0; subst;
          rewrite ids_env_app; intros z Hz; apply in_app_or in Hz; destruct Hz as [Hz|Hz];
          [pose proof (Forall_inv (Forall_inv_tail H)) as HH3; destruct HH3 as [_ HH4]; apply (HH4 _ _ _ E1); exact Hz
          |unfold ids_env in Hz; apply in_flat_map in Hz; destruct Hz as [[y w] [Hin Hz]];
           apply in_map_iff in Hin; destruct Hin as [y' [E _]]; inversion E; subst; contradiction]).
    apply (collect_go_ids collect_one ps) in H0; [exact H0| |].
    + eapply Forall_impl; [|exact H]. intros a Ha. destruct Ha as [Ha _]. exact Ha.
    + intros p q Hin Hq. rewrite Forall_forall in H. specialize (H _ Hin). destruct Hq as [-> | ->]; destruct H as [_ H]; exact H.
Qed.

Lemma collect_ids : forall ps xs imp b k, collect ps xs imp = Ok (b, k) -> incl (ids_env b) (flat_map ids xs).
Proof.
  intros ps xs imp b k H. destruct (collect_one_ids' (PNested ps)) as [Hc _].
  apply (Hc (SL xs imp) b k). exact H.
Qed.

(* ------------------------------------------------------------------ one macro use at top level *)
(* decidable condition on (macro definition, use): the use is written by the user (origin 0, instantiation
   number i > 0) and none of its non-keyword spellings occurs in a template of the macro - neither as a free
   identifier of the template nor as one of its ##-renamed identifiers (so in particular the use cannot spell a
   ##-name that the macro uses, and does not mention the template's free identifiers) *)
Definition safe_use (m : macro) (i : nat) (args : list sx) : bool :=
  negb (Nat.eqb i 0) &&
  forallb (fun v : ident => Nat.eqb (snd v) 0) (flat_map ids args) &&
  forallb (fun c => forallb (fun v : ident => mem (fst v) TOKENS || negb (mem (fst v) (atoms (c_tmpl c))))
                            (flat_map ids args)) (m_cases m).

Lemma expand_use_hygienic_l : forall globals m i args imp out,
  safe_use m i args = true ->
  expand_use globals m [] i args imp = Ok out ->
  known_class out = false.
Proof.
  intros globals m i args imp out Hs H. unfold safe_use in Hs.
  apply andb_prop in Hs. destruct Hs as [Hs Hc]. apply andb_prop in Hs. destruct Hs as [Hi Ho].
  apply negb_true_iff, Nat.eqb_neq in Hi. rewrite forallb_forall in Ho, Hc.
  unfold expand_use in H.
  destruct (find (fun c => match_list (fun s => mem s []) (c_pats c) args imp) (m_cases m)) as [c|] eqn:Ef; [|discriminate].
  apply find_some in Ef. destruct Ef as [Hcin _]. specialize (Hc c Hcin). rewrite forallb_forall in Hc.
  apply bind_ok in H. destruct H as [[b kinds] [Ec H]].
  pose proof (collect_ids _ _ _ _ _ Ec) as Hb.
  pose proof (inst_ids (fun s => mem s []) (fun s => mem s globals) kinds (fun _ => eq_refl) _ _ _ _ _ H) as Hout.
  assert (Hsrc : forall v, In v (ids out) ->
            (snd v = i /\ In (fst v) (atoms (c_tmpl c))) \/
            (snd v = 0 /\ (mem (fst v) TOKENS = true \/ ~ In (fst v) (atoms (c_tmpl c))))).
  { intros v Hv. apply Hout in Hv. apply in_app_or in Hv. destruct Hv as [Hv|Hv].
    - left. apply ids_stamp in Hv. exact Hv.
    - right. cbn in Hv. rewrite app_nil_r in Hv. apply Hb in Hv. split.
      + apply Nat.eqb_eq. apply (Ho v Hv).
      + specialize (Hc v Hv). apply orb_prop in Hc. destruct Hc as [Hc|Hc]; [left; exact Hc|right].
        apply negb_true_iff in Hc. intro Hin. apply mem_In in Hin. congruence. }
  apply no_shared_spelling_nt. intros v w Hv Hw Hnt Hsp.
  destruct (Hsrc v Hv) as [[Hv1 Hv2]|[Hv1 Hv2]], (Hsrc w Hw) as [[Hw1 Hw2]|[Hw1 Hw2]]; try congruence.
  - exfalso. destruct Hw2 as [Hw2|Hw2]; [rewrite <- Hsp in Hw2; congruence|apply Hw2; rewrite <- Hsp; exact Hv2].
  - exfalso. destruct Hv2 as [Hv2|Hv2]; [congruence|apply Hv2; rewrite Hsp; exact Hw2].
Qed.

Lemma expand_use_hygienic_full : forall globals m i args imp out,
  safe_use m i args = true ->
  expand_use globals m [] i args imp = Ok out ->
  known_class out = false /\ resolution_engine out = resolution_hygienic out.
Proof.
  intros globals m i args imp out Hs H.
  pose proof (expand_use_hygienic_l globals m i args imp out Hs H) as Hk.
  split; [exact Hk|exact (hygiene_outside_known_l out Hk)].
Qed.
