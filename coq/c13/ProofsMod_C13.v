From Coq Require Import String List Bool.
From SV Require Import c13.ModelMod_C13.
Import ListNotations.
Open Scope string_scope.

Lemma collect_one_exported : forall atom_ok heads c_atom c_list p n,
  collection_covers atom_ok heads c_atom c_list = true ->
  accepted atom_ok heads p = true -> exported_name p = Some n ->
  In n (collect_one c_atom c_list p).
Proof.
  intros atom_ok heads c_atom c_list p n Hc Ha He.
  unfold collection_covers in Hc. apply andb_true_iff in Hc. destruct Hc as [Hat Hli].
  destruct p as [m | h s].
  - simpl in Ha, He. injection He as He. rewrite Ha in Hat. simpl in Hat.
    rewrite Hat, He. simpl. left. reflexivity.
  - destruct s as [m |]; [| simpl in He; discriminate He].
    simpl in He. injection He as He.
    destruct heads as [| h0 hs]; [simpl in Ha; discriminate Ha |].
    simpl in Hli. rewrite Hli, He. simpl. left. reflexivity.
Qed.

Lemma in_scope_complete : forall atom_ok heads c_atom c_list,
  collection_covers atom_ok heads c_atom c_list = true ->
  forall specs n, exported atom_ok heads specs n -> In n (in_scope_names c_atom c_list specs).
Proof.
  intros atom_ok heads c_atom c_list Hc specs n [p [Hin [Ha He]]].
  unfold in_scope_names. apply in_flat_map. exists p. split; [exact Hin |].
  eapply collect_one_exported; eauto.
Qed.

(* the obligation is tight: a collection that does not match an accepted shape misses an exported name *)
Lemma in_scope_incomplete : forall atom_ok heads c_atom c_list,
  collection_covers atom_ok heads c_atom c_list = false ->
  exists specs n, exported atom_ok heads specs n /\ ~ In n (in_scope_names c_atom c_list specs).
Proof.
  intros atom_ok heads c_atom c_list Hc.
  unfold collection_covers in Hc. apply andb_false_iff in Hc. destruct Hc as [Hc | Hc].
  - destruct atom_ok; destruct c_atom; simpl in Hc; try discriminate.
    exists [PAtom "f"], "f". split.
    + exists (PAtom "f"). simpl. auto.
    + simpl. intros [].
  - destruct heads as [| h hs]; [simpl in Hc; destruct c_list; discriminate |].
    destruct c_list; simpl in Hc; try discriminate.
    exists [PList h (Some "f")], "f". split.
    + exists (PList h (Some "f")). simpl. rewrite String.eqb_refl. simpl. auto.
    + simpl. destruct c_atom; simpl; intros [].
Qed.

Lemma lookup_item_in : forall items n r, lookup_item items n = Some r ->
  exists it, In it items /\
    match r with
    | Some alias => exists f, it = IRenamed f alias
    | None => it = INormal n
    end.
Proof.
  induction items as [| it rest IH]; intros n r H; simpl in H; [discriminate |].
  destruct it as [i | f t].
  - destruct (lookup_item rest n) as [r' |] eqn:E.
    + inversion H; subst. destruct (IH n r E) as [it [Hin Hs]]. exists it. split; [right; exact Hin | exact Hs].
    + destruct (String.eqb i n) eqn:Ei; [| discriminate]. inversion H; subst.
      apply String.eqb_eq in Ei. subst. exists (INormal n). split; [left; reflexivity | reflexivity].
  - destruct (lookup_item rest n) as [r' |] eqn:E.
    + inversion H; subst. destruct (IH n r E) as [it [Hin Hs]]. exists it. split; [right; exact Hin | exact Hs].
    + destruct (String.eqb f n) eqn:Ef; [| discriminate]. inversion H; subst.
      exists (IRenamed f t). split; [left; reflexivity | exists f; reflexivity].
Qed.

Lemma bound_in_scope : forall atom_ok heads c_atom c_list pc_atom pc_list,
  collection_covers atom_ok heads c_atom c_list = true ->
  collection_covers atom_ok heads pc_atom pc_list = true ->
  forall r specs l, bound atom_ok heads r specs l ->
  In l (in_scope_req true true true c_atom c_list pc_atom pc_list r specs).
Proof.
  intros atom_ok heads c_atom c_list pc_atom pc_list Hc Hpc r specs l [n [Hex Hb]].
  unfold in_scope_req, bound_name in *.
  destruct (r_items r) as [| it0 rest] eqn:Eit.
  - inversion Hb; subst. apply in_or_app. right.
    unfold with_prefix. destruct (r_prefix r) as [p |] eqn:Ep.
    + apply in_or_app. right. apply in_map. eapply in_scope_complete; eauto.
    + apply in_or_app. left. eapply in_scope_complete; eauto.
  - apply in_or_app. left. unfold as_identifiers. rewrite Eit.
    destruct (lookup_item (it0 :: rest) n) as [[alias |] |] eqn:El; [| | discriminate]; inversion Hb; subst.
    + destruct (lookup_item_in _ _ _ El) as [it [Hin [f Hf]]]. subst it.
      apply in_flat_map. exists (IRenamed f alias). split; [exact Hin |].
      unfold item_ids, with_prefix. destruct (r_prefix r); simpl; auto.
    + destruct (lookup_item_in _ _ _ El) as [it [Hin Hf]]. subst it.
      apply in_flat_map. exists (INormal n). split; [exact Hin |].
      unfold item_ids, with_prefix. destruct (r_prefix r); simpl; auto.
Qed.

(* the shapes as_identifiers has to handle: dropping one of them loses a bound name *)
Lemma as_identifiers_needed_noprefix :
  exists r specs l, bound true [] r specs l /\
    ~ In l (in_scope_req true true false true true true true r specs).
Proof.
  exists {| r_items := [INormal "f"]; r_prefix := None |}, [PAtom "f"], "f". split.
  - exists "f". split; [exists (PAtom "f"); simpl; auto | reflexivity].
  - simpl. intros [].
Qed.

Lemma as_identifiers_needed_renamed :
  exists r specs l, bound true [] r specs l /\
    ~ In l (in_scope_req true false true true true true true r specs).
Proof.
  exists {| r_items := [IRenamed "f" "g"]; r_prefix := None |}, [PAtom "f"], "g". split.
  - exists "f". split; [exists (PAtom "f"); simpl; auto | reflexivity].
  - simpl. intros [].
Qed.

Lemma prefixed_collection_needed :
  exists r specs l, bound true [] r specs l /\
    ~ In l (in_scope_req true true true true true false false r specs).
Proof.
  exists {| r_items := []; r_prefix := Some "p." |}, [PAtom "f"], "p.f". split.
  - exists "f". split; [exists (PAtom "f"); simpl; auto | reflexivity].
  - simpl. intros [H | []]. discriminate.
Qed.
