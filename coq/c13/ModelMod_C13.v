(* C13, macros imported from modules: which names are qualified (mangled) inside the templates of a module's macros.
   Definitions only.  Mirrors crates/steel-core/src/compiler/modules.rs:
     - CompiledModule::to_top_level_module (the provide loop, `match provide`): which provide specs of a required
       module become a definition in the requiring module, and under which local name (alias, prefix);
     - ModuleManager::find_in_scope_macros: `globals` = collect_globals(module.ast) + RequireObject::as_identifiers
       + names of the provides of modules required as a whole (+ the same under the prefix);
       NameMangler::visit_atom qualifies exactly the identifiers of a template that are in `globals`.
   The shape flags (which spec shapes each loop matches) are generated from the source on every run
   (coq/gen/Gen_C13mod.v); the definitions below take them as parameters. *)
From Coq Require Import String List Bool.
Import ListNotations.
Open Scope string_scope.

(* one element of a (provide ...) form as kept in CompiledModule.provides ((for-syntax m) is filtered out before) *)
Inductive provide_spec : Type :=
| PAtom (n : string)                                  (* name *)
| PList (head : string) (second : option string).     (* (head second ...): second = Some n when it is an identifier *)

(* to_top_level_module: `ExprKind::Atom(_)` arm / `x if x == *HEAD` arms; any other head stops with TypeMismatch *)
Definition accepted (atom_ok : bool) (heads : list string) (p : provide_spec) : bool :=
  match p with
  | PAtom _ => atom_ok
  | PList h (Some _) => existsb (String.eqb h) heads
  | PList _ None => false
  end.

Definition exported_name (p : provide_spec) : option string :=
  match p with PAtom n => Some n | PList _ s => s end.

Definition exported (atom_ok : bool) (heads : list string) (specs : list provide_spec) (n : string) : Prop :=
  exists p, In p specs /\ accepted atom_ok heads p = true /\ exported_name p = Some n.

(* find_in_scope_macros, body of `for provide in &provide_expr.list().unwrap().args[1..]`:
   `if let Some(ident) = provide.atom_identifier()` and `if let Some(list) = provide.list().and_then(|x| x.second_ident())` *)
Definition collect_one (c_atom c_list : bool) (p : provide_spec) : list string :=
  (match p with PAtom n => if c_atom then [n] else [] | PList _ _ => [] end) ++
  (match p with PList _ (Some n) => if c_list then [n] else [] | _ => [] end).

Definition in_scope_names (c_atom c_list : bool) (specs : list provide_spec) : list string :=
  flat_map (collect_one c_atom c_list) specs.

Definition no_heads (heads : list string) : bool := match heads with [] => true | _ => false end.

(* the collection matches every shape the provide expansion accepts *)
Definition collection_covers (atom_ok : bool) (heads : list string) (c_atom c_list : bool) : bool :=
  implb atom_ok c_atom && implb (negb (no_heads heads)) c_list.

(* ---- require objects: (only-in spec id ... (from to) ...), (prefix-in pfx spec) *)
Inductive import_item : Type := INormal (n : string) | IRenamed (from to : string).
Record require_obj : Type := { r_items : list import_item; r_prefix : option string }.

Definition with_prefix (r : require_obj) (n : string) : string :=
  match r_prefix r with Some p => p ++ n | None => n end.

(* explicit_requires: HashMap from -> Option<to>, later entries replace earlier ones *)
Fixpoint lookup_item (items : list import_item) (n : string) : option (option string) :=
  match items with
  | [] => None
  | INormal i :: rest =>
      match lookup_item rest n with Some r => Some r | None => if String.eqb i n then Some None else None end
  | IRenamed f t :: rest =>
      match lookup_item rest n with Some r => Some r | None => if String.eqb f n then Some (Some t) else None end
  end.

(* to_top_level_module: local name bound for the export n of the required module *)
Definition bound_name (r : require_obj) (n : string) : option string :=
  match r_items r with
  | [] => Some (with_prefix r n)
  | items => match lookup_item items n with
             | Some (Some alias) => Some (with_prefix r alias)
             | Some None => Some (with_prefix r n)
             | None => None
             end
  end.

Definition bound (atom_ok : bool) (heads : list string) (r : require_obj) (specs : list provide_spec) (l : string) : Prop :=
  exists n, exported atom_ok heads specs n /\ bound_name r n = Some l.

(* RequireObject::as_identifiers, with the shapes it handles as flags *)
Definition item_ids (f_normal f_renamed f_noprefix : bool) (r : require_obj) (it : import_item) : list string :=
  let emit n := match r_prefix r with
                | Some p => [p ++ n]
                | None => if f_noprefix then [n] else []
                end in
  match it with
  | INormal n => if f_normal then emit n else []
  | IRenamed _ t => if f_renamed then emit t else []
  end.

Definition as_identifiers (f_normal f_renamed f_noprefix : bool) (r : require_obj) : list string :=
  flat_map (item_ids f_normal f_renamed f_noprefix r) (r_items r).

(* find_in_scope_macros: what one require object of the module contributes to `globals` *)
Definition in_scope_req (f_normal f_renamed f_noprefix c_atom c_list pc_atom pc_list : bool)
                        (r : require_obj) (specs : list provide_spec) : list string :=
  as_identifiers f_normal f_renamed f_noprefix r ++
  match r_items r with
  | [] => in_scope_names c_atom c_list specs ++
          match r_prefix r with
          | Some p => map (fun n => p ++ n) (in_scope_names pc_atom pc_list specs)
          | None => []
          end
  | _ => []
  end.
