(* C13 — lemmas, part 4: matching is sound and complete w.r.t. instantiating the pattern as a template. *)
From Coq Require Import List String Ascii Bool Arith Lia.
From SV Require Import c13.Model_C13 c13.Proofs_C13.
Import ListNotations.
Open Scope string_scope.
Open Scope list_scope.
Open Scope nat_scope.

(* ---------- generic helpers *)
Section SxInd.
  Variable P : sx -> Prop.
  Hypothesis HI : forall s o, P (Id s o).
  Hypothesis HU : forall s o, P (UId s o).
  Hypothesis HLi : forall s, P (Lit s).
  Hypothesis HS : forall xs imp, Forall P xs -> P (SL xs imp).
  Fixpoint sx_ind2 (e : sx) : P e :=
    match e with
    | Id s o => HI s o
    | UId s o => HU s o
    | Lit s => HLi s
    | SL xs imp => HS xs imp ((fix go (zs : list sx) : Forall P zs :=
                                 match zs with
                                 | [] => Forall_nil P
                                 | z :: r => Forall_cons z (sx_ind2 z) (go r)
                                 end) xs)
    end.
End SxInd.

Lemma freeze_plain : forall e, plain e = true -> freeze e = e.
Proof.
  induction e using sx_ind2; cbn; intro Hp; try reflexivity; try discriminate.
  apply andb_prop in Hp. destruct Hp as [Hp _]. f_equal.
  rewrite forallb_forall in Hp. rewrite Forall_forall in H.
  rewrite <- (map_id xs) at 2. apply map_ext_in. intros a Ha. apply H; auto.
Qed.

Lemma lookup_app_l : forall x b2 b1, In x (dom b2) -> lookup x (b2 ++ b1) = lookup x b2.
Proof.
  induction b2 as [|[y w] r IH]; cbn; intros b1 H; [contradiction|].
  destruct (String.eqb x y) eqn:E; [reflexivity|].
  destruct H as [H|H]; [subst; rewrite String.eqb_refl in E; discriminate|]. apply IH; exact H.
Qed.

Lemma lookup_app_r : forall x b2 b1, ~ In x (dom b2) -> lookup x (b2 ++ b1) = lookup x b1.
Proof.
  induction b2 as [|[y w] r IH]; cbn; intros b1 H; [reflexivity|].
  destruct (String.eqb x y) eqn:E.
  - apply String.eqb_eq in E. subst. exfalso. apply H. left; reflexivity.
  - apply IH. intro Hc. apply H. right; exact Hc.
Qed.

Lemma lookup_gen : forall (f : string -> sx) vars x,
  In x vars -> lookup x (map (fun y => (y, f y)) vars) = Some (f x).
Proof.
  induction vars as [|y r IH]; cbn; intros x H; [contradiction|].
  destruct (String.eqb x y) eqn:E.
  - apply String.eqb_eq in E. subst. reflexivity.
  - destruct H as [H|H]; [subst; rewrite String.eqb_refl in E; discriminate|]. apply IH; exact H.
Qed.

Lemma dom_gen : forall (f : string -> sx) vars, dom (map (fun y => (y, f y)) vars) = vars.
Proof. induction vars as [|y r IH]; cbn; [reflexivity|]. f_equal. exact IH. Qed.

Lemma lookup_dom : forall x b, In x (dom b) -> exists v, lookup x b = Some v.
Proof.
  induction b as [|[y w] r IH]; cbn; intro H; [contradiction|].
  destruct (String.eqb x y) eqn:E; [eauto|].
  destruct H as [H|H]; [subst; rewrite String.eqb_refl in E; discriminate|]. apply IH; exact H.
Qed.

Lemma dom_app : forall b2 b1, dom (b2 ++ b1) = dom b2 ++ dom b1.
Proof. intros. unfold dom. apply map_app. Qed.

Lemma seq_opt_seq : forall (A : Type) (d : A) (es : list A) (f : nat -> option A),
  (forall j, j < List.length es -> f j = Some (nth j es d)) ->
  seq_opt (map f (seq 0 (List.length es))) = Some es.
Proof.
  induction es as [|e r IH]; intros f H; [reflexivity|].
  cbn [List.length seq map seq_opt]. rewrite (H 0) by (cbn; lia). cbn [nth].
  rewrite <- seq_shift, map_map. rewrite (IH (fun j => f (S j))); [reflexivity|].
  intros j Hj. rewrite (H (S j)) by (cbn; lia). reflexivity.
Qed.

Lemma removelast'_last : forall (A : Type) (zs : list A) z,
  last_opt zs = Some z -> removelast' zs ++ [z] = zs.
Proof.
  induction zs as [|a r IH]; intros z H; [discriminate|].
  destruct r as [|b r']; [inversion H; reflexivity|].
  change (a :: (removelast' (b :: r') ++ [z]) = a :: b :: r'). f_equal. apply IH. exact H.
Qed.

Lemma removelast'_length : forall (A : Type) (zs : list A),
  List.length (removelast' zs) = List.length zs - 1.
Proof.
  induction zs as [|a r IH]; [reflexivity|]. destruct r as [|b r']; [reflexivity|].
  change (S (List.length (removelast' (b :: r'))) = S (List.length (b :: r')) - 1). rewrite IH. cbn. lia.
Qed.

Lemma last_opt_some : forall (A : Type) (zs : list A), zs <> [] -> exists z, last_opt zs = Some z.
Proof.
  induction zs as [|a r IH]; intro H; [congruence|]. destruct r as [|b r']; [exists a; reflexivity|].
  apply IH. discriminate.
Qed.

(* ---------- counting on well-formed item lists *)
Definition simple (p : pat) : bool := match p with PMany _ | PRest _ => false | _ => true end.
Fixpoint nsimple (ps : list pat) : nat :=
  match ps with [] => 0 | p :: r => (if simple p then 1 else 0) + nsimple r end.
Definition has_many (ps : list pat) : bool := existsb is_many ps.

Lemma has_rest_cons : forall p q ps, has_rest (p :: q :: ps) = has_rest (q :: ps).
Proof. reflexivity. Qed.

Lemma wf_no_many : forall w ps, wf_items_gen w false ps = true -> has_many ps = false.
Proof.
  induction ps as [|p r IH]; cbn; intro H; [reflexivity|].
  destruct p; cbn in *; try (apply andb_prop in H; destruct H as [_ H]; auto); try discriminate.
  destruct p; try discriminate. destruct r; [reflexivity|discriminate].
Qed.

Lemma wf_count : forall w allow ps, wf_items_gen w allow ps = true ->
  List.length ps - (if has_rest ps then 1 else 0) = nsimple ps + (if has_many ps then 1 else 0).
Proof.
  intros w allow ps; revert allow; induction ps as [|p r IH]; intros allow H; [reflexivity|].
  destruct p.
  1-3,5: (cbn in H; apply andb_prop in H; destruct H as [_ H]; specialize (IH _ H);
        destruct r as [|q r']; [cbn; reflexivity|];
        rewrite has_rest_cons; cbn [nsimple simple has_many existsb is_many orb List.length] in *;
        destruct (has_rest (q :: r')); fold (has_many (q :: r')) in *; lia).
  - cbn in H. repeat (apply andb_prop in H; destruct H as [H ?]).
    pose proof (wf_no_many _ _ H0) as Hm. specialize (IH _ H0). rewrite Hm in IH.
    destruct r as [|q r']; [cbn; reflexivity|].
    rewrite has_rest_cons. cbn [nsimple simple has_many existsb is_many orb List.length] in *.
    destruct (has_rest (q :: r')); lia.
  - cbn in H. destruct p; try discriminate. destruct r; [|discriminate]. reflexivity.
Qed.

(* ---------- the Many loops *)
Lemma m_items_spec : forall ms sub n es es',
  m_items ms sub n es = Some es' ->
  exists es1, es = es1 ++ es' /\ List.length es1 = n /\ Forall (fun e => ms sub e = true) es1.
Proof.
  induction n as [|n IH]; cbn; intros es es' H.
  - inversion H; subst. exists []. auto.
  - destruct es as [|e r]; [discriminate|]. destruct (ms sub e) eqn:E; [|discriminate].
    destruct (IH _ _ H) as [es1 [-> [Hl Hf]]]. exists (e :: es1). cbn. auto.
Qed.

Definition val (x : string) (b : env) : sx := match lookup x b with Some v => v | None => Lit "" end.

Lemma c_items_spec : forall co sub es1 rest,
  Forall (fun e => exists b k, co sub e = Ok (b, k)) es1 ->
  exists bs kks, c_items co sub (List.length es1) (es1 ++ rest) = Ok (bs, kks, rest) /\
                 Forall2 (fun e b => exists k, co sub e = Ok (b, k)) es1 bs.
Proof.
  induction es1 as [|e r IH]; cbn; intros rest H.
  - exists [], []. auto.
  - inversion H as [|? ? [b [k Hb]] Hr]; subst. rewrite Hb. cbn.
    destruct (IH rest Hr) as [bs [kks [E F]]]. rewrite E. cbn. exists (b :: bs), (k ++ kks). eauto.
Qed.

Definition agree (s b : env) (vars : list string) : Prop := forall x, In x vars -> lookup x s = lookup x b.
Definition domeq (b : env) (vars : list string) : Prop := forall x, In x (dom b) <-> In x vars.

(* what the induction carries for one pattern *)
Definition S1 (bound : string -> bool) (p : pat) : Prop :=
  wf1 p = true -> NoDup (pvars p) ->
  forall e, plain e = true -> match_single bound p e = true ->
  exists b k, collect_one p e = Ok (b, k) /\ domeq b (pvars p) /\
              (forall s, agree s b (pvars p) -> pinst p s = Some e).
Definition P1 (bound : string -> bool) (p : pat) : Prop :=
  S1 bound p /\ match p with PMany q | PRest q => S1 bound q | _ => True end.

Definition atomic (e : sx) : bool := match e with SL _ _ => false | _ => true end.

Lemma NoDup_app_l : forall (A : Type) (l1 l2 : list A), NoDup (l1 ++ l2) -> NoDup l1.
Proof. induction l1; cbn; intros l2 H; [constructor|]. inversion H; subst. constructor; [intro; apply H2; apply in_or_app; auto|eauto]. Qed.
Lemma NoDup_app_r : forall (A : Type) (l1 l2 : list A), NoDup (l1 ++ l2) -> NoDup l2.
Proof. induction l1; cbn; intros l2 H; [exact H|]. inversion H; subst. eauto. Qed.
Lemma NoDup_app_disj : forall (A : Type) (l1 l2 : list A) x, NoDup (l1 ++ l2) -> In x l1 -> In x l2 -> False.
Proof.
  induction l1; cbn; intros l2 x H H1 H2; [contradiction|]. inversion H; subst.
  destruct H1 as [->|H1]; [apply H4; apply in_or_app; auto|eauto].
Qed.

(* environments of two consecutive pieces *)
Lemma env_pieces : forall b1 b2 v1 v2, domeq b1 v1 -> domeq b2 v2 -> NoDup (v1 ++ v2) ->
  domeq (b2 ++ b1) (v1 ++ v2) /\
  (forall s, agree s (b2 ++ b1) (v1 ++ v2) -> agree s b1 v1 /\ agree s b2 v2).
Proof.
  intros b1 b2 v1 v2 D1 D2 ND. split.
  - intro x. rewrite dom_app, !in_app_iff, (D1 x), (D2 x). tauto.
  - intros s A. split; intros x Hx.
    + rewrite (A x) by (apply in_or_app; auto). apply lookup_app_r.
      intro Hc. apply D2 in Hc. eapply NoDup_app_disj; eauto.
    + rewrite (A x) by (apply in_or_app; auto). apply lookup_app_l. apply D2. exact Hx.
Qed.

Lemma skipn_app_exact : forall (A : Type) (l1 l2 : list A), skipn (List.length l1) (l1 ++ l2) = l2.
Proof. induction l1; cbn; auto. Qed.

Lemma has_rest_simple : forall p ps, simple p = true -> has_rest (p :: ps) = has_rest ps.
Proof. intros p [|q r] H; [destruct p; try discriminate; reflexivity|reflexivity]. Qed.
Lemma has_rest_many : forall q ps, has_rest (PMany q :: ps) = has_rest ps.
Proof. intros q [|p r]; reflexivity. Qed.

(* ---------- one simple pattern in the three loops *)
Lemma F_wf : forall w allow p ps, simple p = true ->
  wf_items_gen w allow (p :: ps) = (w p && wf_items_gen w allow ps)%bool.
Proof. intros w allow p ps H; destruct p; try discriminate; reflexivity. Qed.

Lemma F_match : forall ms p ps ok es k mt imp, simple p = true ->
  match_go_gen ms (p :: ps) {| m_ok := ok; m_es := es; m_k := k; m_tail := mt; m_imp := imp |} =
  match es with
  | e :: es' => (ms p e && match_go_gen ms ps {| m_ok := true; m_es := es'; m_k := k; m_tail := mt; m_imp := imp |})%bool
  | [] => false
  end.
Proof. intros ms p ps ok es k mt imp H; destruct p; try discriminate; reflexivity. Qed.

Lemma F_collect : forall p ps e es k imp b1 k1 b2 k2, simple p = true ->
  collect_one p e = Ok (b1, k1) ->
  collect_go_gen collect_one ps es k imp = Ok (b2, k2) ->
  exists kk, collect_go_gen collect_one (p :: ps) (e :: es) k imp = Ok (b2 ++ b1, kk).
Proof.
  intros p ps e es k imp b1 k1 b2 k2 H H1 H2; destruct p; try discriminate.
  - cbn in H1. inversion H1; subst. cbn. fold (collect_go_gen collect_one). rewrite H2. cbn. eauto.
  - cbn [collect_go_gen]. fold (collect_go_gen collect_one). rewrite H1. cbn [bind]. rewrite H2. cbn. eauto.
  - cbn in H1. inversion H1; subst. cbn. fold (collect_go_gen collect_one). rewrite H2. rewrite app_nil_r. eauto.
  - cbn [collect_go_gen]. fold (collect_go_gen collect_one). rewrite H1. cbn [bind]. rewrite H2. cbn. eauto.
Qed.

Lemma F_pinst : forall pi s p ps, simple p = true ->
  pinst_go_gen pi s (p :: ps) =
  match pi p s, pinst_go_gen pi s ps with
  | Some e, Some (its, tl) => Some (e :: its, tl)
  | _, _ => None
  end.
Proof. intros pi s p ps H; destruct p; try discriminate; reflexivity. Qed.

Lemma flat_map_val : forall x (bs : list env), (forall b, In b bs -> In x (dom b)) ->
  flat_map (fun b => match lookup x b with Some v => [v] | None => [] end) bs = map (val x) bs.
Proof.
  induction bs as [|b r IH]; cbn; intro H; [reflexivity|].
  destruct (lookup_dom x b (H b (or_introl eq_refl))) as [v E]. unfold val at 1. rewrite E. cbn.
  f_equal. apply IH. intros b' Hb'. apply H. right; exact Hb'.
Qed.

Lemma Forall2_nth : forall (A B : Type) (R : A -> B -> Prop) l1 l2 da db j,
  Forall2 R l1 l2 -> j < List.length l1 -> R (nth j l1 da) (nth j l2 db).
Proof.
  intros A B R l1 l2 da db j H; revert j; induction H; intros j Hj; cbn in Hj; [lia|].
  destruct j; cbn; [assumption|apply IHForall2; lia].
Qed.

Lemma Forall2_length : forall (A B : Type) (R : A -> B -> Prop) l1 l2, Forall2 R l1 l2 -> List.length l1 = List.length l2.
Proof. induction 1; cbn; auto. Qed.

Lemma Forall2_In_r : forall (A B : Type) (R : A -> B -> Prop) l1 l2 b, Forall2 R l1 l2 -> In b l2 -> exists a, In a l1 /\ R a b.
Proof.
  induction 1; cbn; intro Hb; [contradiction|]. destruct Hb as [->|Hb]; [eauto|].
  destruct (IHForall2 Hb) as [a [Ha Hr]]. eauto.
Qed.

Lemma freeze_plain_list : forall ces, forallb plain ces = true -> map freeze ces = ces.
Proof.
  intros ces H. rewrite forallb_forall in H. rewrite <- (map_id ces) at 2.
  apply map_ext_in. intros a Ha. apply freeze_plain. auto.
Qed.

Definition Tcond (T : list sx) (imp : bool) : Prop :=
  (T = [] /\ imp = false) \/ (exists t, T = [t] /\ imp = true /\ plain t = true /\ atomic t = true).

Lemma F_pinst_many : forall pi s q ps x0 r0 l imp0, pvars q = x0 :: r0 -> lookup x0 s = Some (SL l imp0) ->
  pinst_go_gen pi s (PMany q :: ps) =
  match seq_opt (map (fun j => pi q (proj j (pvars q) s)) (seq 0 (List.length l))), pinst_go_gen pi s ps with
  | Some reps, Some (its, tl) => Some (reps ++ its, tl)
  | _, _ => None
  end.
Proof. intros pi s q ps x0 r0 l imp0 H1 H2. cbn [pinst_go_gen]. rewrite H1, H2. reflexivity. Qed.

Section GLemma.
  Variable bound : string -> bool.
  Let ms := match_single bound.

  Lemma G : forall ps, Forall (P1 bound) ps ->
    forall allow, wf_items_gen wf1 allow ps = true -> NoDup (flat_map pvars ps) ->
    forall es T mt k imp ok,
      forallb plain es = true -> Tcond T imp ->
      (has_rest ps = false -> T = []) ->
      (has_many ps = true -> mt = T /\ List.length es = nsimple ps + k) ->
      (has_many ps = false -> nsimple ps <= List.length es -> mt = skipn (nsimple ps) es ++ T) ->
      (has_many ps = false -> has_rest ps = false -> List.length es = nsimple ps) ->
      match_go_gen ms ps {| m_ok := ok; m_es := es; m_k := k; m_tail := mt; m_imp := imp |} = true ->
      exists b kk, collect_go_gen collect_one ps (es ++ T) k imp = Ok (b, kk) /\ domeq b (flat_map pvars ps) /\
        forall s, agree s b (flat_map pvars ps) ->
          exists its tl, pinst_go_gen pinst s ps = Some (its, tl) /\
            forall pre, (imp = true -> pre ++ es <> []) ->
              combine_tail (pre ++ its) tl = SL (pre ++ es ++ T) imp.
  Proof.
    induction ps as [|p ps' IH]; intros HP allow Hwf ND es T mt k imp ok Hpl HT HrT Hm Hnm Hlen Hmatch.
    - (* [] *)
      assert (T = []) by (apply HrT; reflexivity). subst T.
      assert (Hes : es = []).
      { specialize (Hlen eq_refl eq_refl). destruct es; [reflexivity|discriminate]. }
      subst es. exists [], []. split; [reflexivity|]. split; [intro x; cbn; tauto|].
      intros s _. exists [], None. split; [reflexivity|]. intros pre _.
      destruct HT as [[_ ->]|[t [Ht _]]]; [|discriminate]. cbn. rewrite !app_nil_r. reflexivity.
    - destruct (simple p) eqn:Hsp.
      + (* a simple pattern *)
        rewrite F_wf in Hwf by exact Hsp. apply andb_prop in Hwf. destruct Hwf as [Hw1 Hw2].
        unfold ms in Hmatch. rewrite F_match in Hmatch by exact Hsp.
        destruct es as [|e es']; [discriminate|]. apply andb_prop in Hmatch. destruct Hmatch as [Hme Hmg].
        pose proof (Forall_inv HP) as HP1; pose proof (Forall_inv_tail HP) as HPr. destruct HP1 as [HS1 _].
        cbn [flat_map] in ND. pose proof (NoDup_app_l _ _ _ ND) as ND1. pose proof (NoDup_app_r _ _ _ ND) as ND2.
        cbn [forallb] in Hpl. apply andb_prop in Hpl. destruct Hpl as [Hpe Hpl'].
        destruct (HS1 Hw1 ND1 e Hpe Hme) as [b1 [k1 [E1 [D1 A1]]]].
        assert (Hns : nsimple (p :: ps') = S (nsimple ps')) by (cbn; rewrite Hsp; reflexivity).
        assert (Hhm : has_many (p :: ps') = has_many ps') by (destruct p; try discriminate; reflexivity).
        pose proof (has_rest_simple p ps' Hsp) as Hhr.
        rewrite Hns, Hhm, Hhr in *.
        destruct (IH HPr allow Hw2 ND2 es' T mt k imp true Hpl' HT HrT) as [b2 [k2 [E2 [D2 A2]]]].
        { intro H. destruct (Hm H) as [-> Hl]. split; [reflexivity|]. cbn in Hl. lia. }
        { intros H Hle. rewrite (Hnm H) by (cbn; lia). reflexivity. }
        { intros H1 H2. specialize (Hlen H1 H2). cbn in Hlen. lia. }
        { exact Hmg. }
        destruct (F_collect p ps' e (es' ++ T) k imp b1 k1 b2 k2 Hsp E1 E2) as [kk Ec].
        exists (b2 ++ b1), kk. split; [exact Ec|].
        destruct (env_pieces b1 b2 _ _ D1 D2 ND) as [Dq Aq]. split; [exact Dq|].
        intros s As. destruct (Aq s As) as [As1 As2].
        destruct (A2 s As2) as [its [tl [Ei C]]].
        exists (e :: its), tl. split.
        * rewrite F_pinst by exact Hsp. rewrite (A1 s As1), Ei. reflexivity.
        * intros pre _. specialize (C (pre ++ [e])).
          rewrite <- !app_assoc in C. cbn in C. apply C. intros _. destruct pre; discriminate.
      + destruct p as [v|x|x|q|qs|r]; try discriminate.
        * (* PMany q *)
          cbn in Hwf. repeat (apply andb_prop in Hwf; destruct Hwf as [Hwf ?]).
          rename H into Hw2, H0 into Hnn, H1 into Hwq.
          pose proof (wf_no_many _ _ Hw2) as Hnm'.
          assert (Hhm : has_many (PMany q :: ps') = true) by reflexivity.
          destruct (Hm Hhm) as [-> Hl]. cbn [nsimple simple] in Hl.
          unfold ms in Hmatch. cbn [match_go_gen] in Hmatch. fold (match_go_gen (match_single bound)) in Hmatch.
          cbn [m_k m_es m_tail m_imp] in Hmatch.
          destruct (m_items (match_single bound) q k es) as [es2|] eqn:Emi; [|discriminate].
          destruct (m_items_spec _ _ _ _ _ Emi) as [es1 [-> [Hl1 Hf1]]].
          rewrite app_length in Hl. assert (Hl2 : List.length es2 = nsimple ps') by lia.
          pose proof (Forall_inv HP) as HP1; pose proof (Forall_inv_tail HP) as HPr. destruct HP1 as [_ HSq].
          cbn [flat_map pvars] in ND. pose proof (NoDup_app_l _ _ _ ND) as ND1. pose proof (NoDup_app_r _ _ _ ND) as ND2.
          rewrite forallb_app in Hpl. apply andb_prop in Hpl. destruct Hpl as [Hp1 Hp2].
          rewrite forallb_forall in Hp1. rewrite Forall_forall in Hf1.
          assert (Hco : Forall (fun e => exists b k0, collect_one q e = Ok (b, k0)) es1).
          { apply Forall_forall. intros e He.
            destruct (HSq Hwq ND1 e (Hp1 e He) (Hf1 e He)) as [b [k0 [E _]]]. eauto. }
          destruct (c_items_spec collect_one q es1 (es2 ++ T) Hco) as [bs [kks [Eci F2]]]. rewrite Hl1 in Eci.
          rewrite has_rest_many in HrT.
          destruct (IH HPr false Hw2 ND2 es2 T T k imp true Hp2 HT HrT) as [b2 [k2 [E2 [D2 A2]]]].
          { intro H. congruence. }
          { intros _ _. rewrite <- Hl2. rewrite skipn_all. reflexivity. }
          { intros _ _. exact Hl2. }
          { exact Hmatch. }
          set (b1 := map (fun x => (x, SL (flat_map (fun b => match lookup x b with Some v => [v] | None => [] end) bs) false)) (pvars q)).
          exists (b2 ++ b1). eexists. split.
          { cbn [collect_go_gen]. fold (collect_go_gen collect_one). rewrite <- app_assoc. rewrite Eci. cbn [bind].
            rewrite E2. cbn [bind]. reflexivity. }
          assert (D1 : domeq b1 (pvars q)) by (intro x; unfold b1; rewrite dom_gen; tauto).
          destruct (env_pieces b1 b2 _ _ D1 D2 ND) as [Dq Aq]. split; [exact Dq|].
          intros s As. destruct (Aq s As) as [As1 As2].
          destruct (A2 s As2) as [its [tl [Ei C]]].
          (* every item binds every variable of q *)
          assert (Hdom : forall x, In x (pvars q) -> forall b, In b bs -> In x (dom b)).
          { intros x Hx b Hb. destruct (Forall2_In_r _ _ _ _ _ _ F2 Hb) as [e [He [k0 Ee]]].
            destruct (HSq Hwq ND1 e (Hp1 e He) (Hf1 e He)) as [b' [k' [E' [D' _]]]].
            rewrite E' in Ee. inversion Ee; subst. apply D'. exact Hx. }
          assert (Hlk : forall x, In x (pvars q) -> lookup x s = Some (SL (map (val x) bs) false)).
          { intros x Hx. rewrite (As1 x Hx). unfold b1. rewrite lookup_gen by exact Hx.
            rewrite flat_map_val by (apply Hdom; exact Hx). reflexivity. }
          exists (es1 ++ its), tl. split.
          { assert (Hx0 : exists x0 r0, pvars q = x0 :: r0) by (destruct (pvars q); [discriminate Hnn|eauto]).
            destruct Hx0 as [x0 [r0 Epv]].
            assert (Hin0 : In x0 (pvars q)) by (rewrite Epv; left; reflexivity).
            rewrite (F_pinst_many _ _ _ _ _ _ _ _ Epv (Hlk x0 Hin0)).
            rewrite map_length, <- (Forall2_length _ _ _ _ _ F2).
            rewrite (seq_opt_seq _ (Lit "") es1).
            - rewrite Ei. reflexivity.
            - intros j Hj.
              pose proof (Forall2_nth _ _ _ _ _ (Lit "") [] j F2 Hj) as [k0 Ej].
              assert (Hin : In (nth j es1 (Lit "")) es1) by (apply nth_In; exact Hj).
              destruct (HSq Hwq ND1 _ (Hp1 _ Hin) (Hf1 _ Hin)) as [b' [k' [E' [D' A']]]].
              rewrite E' in Ej. inversion Ej; subst. apply A'.
              intros x Hx. unfold proj. rewrite lookup_app_l by (rewrite dom_gen; exact Hx).
              rewrite lookup_gen by exact Hx. rewrite (Hlk x Hx).
              change (Lit "") with (val x []) at 1. rewrite map_nth.
              destruct (lookup_dom x (nth j bs []) (proj2 (D' x) Hx)) as [v Ev].
              unfold val. rewrite Ev. symmetry. exact Ev. }
          { intros pre Hne. specialize (C (pre ++ es1)). rewrite <- !app_assoc in C. rewrite <- !app_assoc.
            apply C. exact Hne. }
        * (* PRest r *)
          cbn in Hwf. destruct r as [v| | | | | ]; try discriminate. destruct ps' as [|? ?]; [|discriminate].
          assert (Hmt : mt = es ++ T) by (apply (Hnm eq_refl); cbn; lia). subst mt.
          assert (Hces : forallb plain (es ++ T) = true).
          { rewrite forallb_app, Hpl. destruct HT as [[-> _]|[t [-> [_ [Ht _]]]]]; cbn; [reflexivity|rewrite Ht; reflexivity]. }
          set (arg := match es ++ T with
                      | [] => SL [] false
                      | [e] => if imp then e else SL (es ++ T) imp
                      | _ => SL (es ++ T) imp
                      end).
          assert (Hfa : freeze arg = arg).
          { unfold arg. destruct (es ++ T) as [|e1 [|e2 r]] eqn:Ec; [reflexivity| |].
            - destruct imp; [apply freeze_plain; cbn in Hces; apply andb_prop in Hces; tauto|].
              cbn [freeze]. rewrite freeze_plain_list by exact Hces. reflexivity.
            - cbn [freeze]. rewrite freeze_plain_list by exact Hces. reflexivity. }
          exists [(v, arg)], []. split.
          { cbn [collect_go_gen]. fold arg. cbn [collect_one bind]. rewrite Hfa. reflexivity. }
          split; [intro x; cbn; tauto|].
          intros s As. exists [], (Some arg). split.
          { cbn [pinst_go_gen pinst]. rewrite (As v (or_introl eq_refl)). cbn. rewrite String.eqb_refl. reflexivity. }
          intros pre Hne. rewrite app_nil_r. unfold arg.
          destruct HT as [[-> ->]|[t [-> [-> [Ht Hat]]]]].
          { rewrite app_nil_r. destruct es as [|e1 [|e2 r]]; cbn; rewrite ?app_nil_r; reflexivity. }
          { destruct es as [|e1 r].
            - cbn. destruct t; try discriminate; (destruct pre; [exfalso; apply (Hne eq_refl); reflexivity|reflexivity]).
            - destruct r; cbn; reflexivity. }
  Qed.
End GLemma.

Section Main.
  Variable bound : string -> bool.

  Lemma plain_atom : forall e, plain e = true -> atomic e = true ->
    (exists s, e = Id s 0 /\ String.eqb s ELL = false) \/ (exists s, e = Lit s).
  Proof.
    intros [s o|s o|s|xs imp] Hp Ha; try discriminate.
    - cbn in Hp. apply andb_prop in Hp. destruct Hp as [Ho Hs]. apply Nat.eqb_eq in Ho. subst.
      apply negb_true_iff in Hs. left; eauto.
    - right; eauto.
  Qed.

  Lemma S1_nested_list : forall ps, Forall (P1 bound) ps ->
    wf_items_gen wf1 true ps = true -> NoDup (flat_map pvars ps) ->
    forall xs imp, plain (SL xs imp) = true ->
    match_single bound (PNested ps) (SL xs imp) = true ->
    exists b k, collect_one (PNested ps) (SL xs imp) = Ok (b, k) /\ domeq b (flat_map pvars ps) /\
                (forall s, agree s b (flat_map pvars ps) -> pinst (PNested ps) s = Some (SL xs imp)).
  Proof.
    intros ps HP Hwf ND xs imp Hpl Hm.
    cbn [plain] in Hpl. apply andb_prop in Hpl. destruct Hpl as [Hpx Himp].
    (* split xs into the proper part and the dotted tail *)
    assert (Hsplit : exists es T, xs = es ++ T /\ Tcond T imp /\ forallb plain es = true /\
                       es = (if imp then removelast' xs else xs) /\ (imp = true -> es <> [])).
    { destruct imp.
      - cbn [negb orb] in Himp. apply andb_prop in Himp. destruct Himp as [Hlen Hlast]. apply Nat.leb_le in Hlen.
        destruct (last_opt_some _ xs) as [t Ht]; [destruct xs; [cbn in Hlen; lia|discriminate]|].
        exists (removelast' xs), [t]. pose proof (removelast'_last _ _ _ Ht) as Hx.
        assert (Hpa : forallb plain (removelast' xs ++ [t]) = true) by (rewrite Hx; exact Hpx).
        rewrite forallb_app in Hpa. apply andb_prop in Hpa. destruct Hpa as [Hp1 Hp2]. cbn in Hp2.
        rewrite andb_true_r in Hp2. rewrite Ht in Hlast.
        split; [symmetry; exact Hx|]. split.
        + right. exists t. repeat split; auto; try (destruct t; try reflexivity; discriminate).
        + split; [exact Hp1|]. split; [reflexivity|]. intros _ Hc.
          pose proof (removelast'_length _ xs) as Hl. rewrite Hc in Hl. cbn in Hl. lia.
      - exists xs, []. rewrite app_nil_r. repeat split; auto. left; auto. intro; discriminate. }
    destruct Hsplit as [es [T [Hxs [HT [Hpe [Hes Hne]]]]]].
    pose proof (wf_count _ _ _ Hwf) as Hcnt.
    cbn [match_single] in Hm. apply andb_prop in Hm. destruct Hm as [Hok Hgo].
    unfold mprep in Hok, Hgo. cbv zeta in Hok, Hgo. cbn [m_ok] in Hok.
    rewrite <- Hes in Hok, Hgo.
    fold (has_many ps) in Hok, Hgo, Hcnt.
    rewrite Hcnt in Hok, Hgo.
    apply andb_prop in Hok. destruct Hok as [Hlen Htail].
    assert (Hsk : skipn (List.length es) xs = T) by (rewrite Hxs; apply skipn_app_exact).
    destruct (G bound ps HP true Hwf ND es T
                (if has_many ps then skipn (List.length es) xs
                 else skipn (nsimple ps + (if has_many ps then 1 else 0)) xs)
                (List.length es + 1 - (nsimple ps + (if has_many ps then 1 else 0))) imp
                ((if (has_many ps || has_rest ps)%bool
                  then (nsimple ps + (if has_many ps then 1 else 0) <=? List.length es + 1)
                  else (List.length es =? nsimple ps + (if has_many ps then 1 else 0))) &&
                 (has_rest ps || match (if has_many ps then skipn (List.length es) xs
                                        else skipn (nsimple ps + (if has_many ps then 1 else 0)) xs) with
                                 | [] => true | _ => false end))%bool
                Hpe HT) as [b [kk [Ec [Dq Aq]]]].
    - (* no rest => no dotted tail *)
      intro Hr. rewrite Hr in *. rewrite orb_false_r in Hlen. cbn [orb] in Htail.
      destruct (has_many ps).
      + rewrite Hsk in Htail. destruct T; [reflexivity|discriminate].
      + apply Nat.eqb_eq in Hlen. rewrite Nat.add_0_r in *. rewrite <- Hlen, Hsk in Htail.
        destruct T; [reflexivity|discriminate].
    - intro Hmany. rewrite Hmany in *. cbn [orb] in Hlen. apply Nat.leb_le in Hlen. split; [exact Hsk|lia].
    - intros Hmany Hle. rewrite Hmany. rewrite Nat.add_0_r. rewrite Hxs, skipn_app.
      replace (nsimple ps - List.length es) with 0 by lia. reflexivity.
    - intros Hmany Hr. rewrite Hmany, Hr in Hlen. cbn [orb] in Hlen. apply Nat.eqb_eq in Hlen. lia.
    - exact Hgo.
    - exists b, kk. split.
      + cbn [collect_one]. unfold cprep_k. fold (has_many ps).
        assert (Hl : (if imp then List.length xs - 1 else List.length xs) = List.length es).
        { rewrite Hes. destruct imp; [rewrite removelast'_length|]; reflexivity. }
        rewrite Hl. rewrite Hcnt. rewrite Hxs. exact Ec.
      + split; [exact Dq|]. intros s As. destruct (Aq s As) as [its [tl [Ei C]]].
        cbn [pinst]. rewrite Ei. specialize (C [] (fun Hi => Hne Hi)). cbn [app] in C. rewrite C, Hxs. reflexivity.
  Qed.
End Main.

Section Main2.
  Variable bound : string -> bool.

  Lemma S1_single : forall v, S1 bound (PSingle v).
  Proof.
    intros v _ _ e Hp _. exists [(v, e)], []. split; [cbn; rewrite freeze_plain by exact Hp; reflexivity|].
    split; [intro x; cbn; tauto|].
    intros s As. cbn. rewrite (As v (or_introl eq_refl)). cbn. rewrite String.eqb_refl. reflexivity.
  Qed.

  Lemma S1_syntax : forall x, S1 bound (PSyntax x).
  Proof.
    intros x _ _ e Hp Hm. cbn in Hm.
    destruct e as [s o|s o|s|xs imp]; try discriminate.
    cbn in Hp. apply andb_prop in Hp. destruct Hp as [Ho Hs]. apply Nat.eqb_eq in Ho. subst o.
    apply negb_true_iff in Hs. unfold syntax_matches in Hm. rewrite Hs in Hm. cbn [orb] in Hm.
    apply andb_prop in Hm. destruct Hm as [Hsx _]. apply String.eqb_eq in Hsx. subst s.
    exists [], []. split; [cbn; rewrite String.eqb_refl, orb_true_r; reflexivity|].
    split; [intro y; cbn; tauto|]. intros s _. reflexivity.
  Qed.

  Lemma S1_lit : forall l, S1 bound (PLit l).
  Proof.
    intros l _ _ e _ Hm. cbn in Hm. destruct e as [s o|s o|s|xs imp]; try discriminate.
    apply String.eqb_eq in Hm. subst s. exists [], []. split; [reflexivity|].
    split; [intro y; cbn; tauto|]. intros s _. reflexivity.
  Qed.

  Lemma S1_nested_atom : forall ps e, wf_items_gen wf1 true ps = true -> NoDup (flat_map pvars ps) ->
    plain e = true -> atomic e = true -> match_single bound (PNested ps) e = true ->
    exists b k, collect_one (PNested ps) e = Ok (b, k) /\ domeq b (flat_map pvars ps) /\
                (forall s, agree s b (flat_map pvars ps) -> pinst (PNested ps) s = Some e).
  Proof.
    intros ps e Hwf ND Hp Ha Hm.
    assert (Hshape : exists sub v, ps = [PMany sub; PRest (PSingle v)]).
    { destruct e; try discriminate;
      (destruct ps as [|[ | | |sub| | ] [|[ | | | | |q] [|? ?]]]; try discriminate;
       cbn in Hwf; repeat (apply andb_prop in Hwf; destruct Hwf as [Hwf ?]);
       destruct q; try discriminate; eauto). }
    destruct Hshape as [sub [v ->]].
    cbn in Hwf. repeat (apply andb_prop in Hwf; destruct Hwf as [Hwf ?]). rename H0 into Hnn.
    cbn [flat_map pvars] in ND. rewrite app_nil_r in ND.
    assert (Hfz : freeze e = e) by (apply freeze_plain; exact Hp).
    exists ([(v, e)] ++ map (fun x => (x, SL [] false)) (pvars sub)). eexists. split.
    { destruct e; try discriminate; cbn [collect_one bind]; cbn [freeze]; reflexivity. }
    assert (Hnv : ~ In v (pvars sub)).
    { intro Hc. eapply NoDup_app_disj; [exact ND|exact Hc|left; reflexivity]. }
    split.
    { intro x. cbn [flat_map pvars]. rewrite app_nil_r, dom_app, dom_gen. cbn. rewrite in_app_iff. cbn. tauto. }
    intros s As. cbn [flat_map pvars] in As. rewrite app_nil_r in As.
    assert (Hx0 : exists x0 r0, pvars sub = x0 :: r0) by (destruct (pvars sub); [discriminate Hnn|eauto]).
    destruct Hx0 as [x0 [r0 Epv]].
    assert (Hin0 : In x0 (pvars sub)) by (rewrite Epv; left; reflexivity).
    assert (Hl0 : lookup x0 s = Some (SL [] false)).
    { rewrite (As x0) by (apply in_or_app; left; exact Hin0).
      cbn [app lookup]. destruct (String.eqb x0 v) eqn:E; [apply String.eqb_eq in E; subst; contradiction|].
      apply (lookup_gen (fun _ => SL [] false)). exact Hin0. }
    assert (Hlv : lookup v s = Some e).
    { rewrite (As v) by (apply in_or_app; right; left; reflexivity). cbn. rewrite String.eqb_refl. reflexivity. }
    cbn [pinst]. rewrite (F_pinst_many _ _ _ _ _ _ _ _ Epv Hl0). cbn [List.length seq map seq_opt].
    cbn [pinst_go_gen pinst]. rewrite Hlv. cbn [app combine_tail].
    destruct e; try discriminate; reflexivity.
  Qed.

  Lemma all_P1 : forall p, P1 bound p.
  Proof.
    induction p using pat_ind2; unfold P1.
    - split; [apply S1_single|exact I].
    - split; [apply S1_syntax|exact I].
    - split; [apply S1_lit|exact I].
    - split; [intros Hw; discriminate|apply IHp].
    - split; [intros Hw; discriminate|apply IHp].
    - split; [|exact I]. intros Hw ND e Hp Hm. cbn [wf1] in Hw. cbn [pvars] in ND.
      destruct e as [s o|s o|s|xs imp].
      + apply (S1_nested_atom ps _ Hw ND Hp eq_refl Hm).
      + discriminate.
      + apply (S1_nested_atom ps _ Hw ND Hp eq_refl Hm).
      + apply (S1_nested_list bound ps H Hw ND xs imp Hp Hm).
  Qed.

  Lemma nodupb_NoDup : forall l, nodupb l = true -> NoDup l.
  Proof.
    induction l as [|x r IH]; cbn; intro H; [constructor|].
    apply andb_prop in H. destruct H as [H1 H2]. constructor; [|apply IH; exact H2].
    intro Hc. apply mem_In in Hc. rewrite Hc in H1. discriminate.
  Qed.

  (* match_sound_complete *)
  Lemma match_sound_complete_l : forall ps xs imp,
    wf_pattern ps = true -> plain (SL xs imp) = true -> match_list bound ps xs imp = true ->
    exists b k, collect ps xs imp = Ok (b, k) /\
      (forall x, In x (dom b) <-> In x (flat_map pvars ps)) /\
      pinst (PNested ps) b = Some (SL xs imp).
  Proof.
    intros ps xs imp Hwf Hp Hm. unfold wf_pattern in Hwf. apply andb_prop in Hwf. destruct Hwf as [Hw Hn].
    apply nodupb_NoDup in Hn.
    destruct (all_P1 (PNested ps)) as [HS _].
    destruct (HS Hw Hn (SL xs imp) Hp Hm) as [b [k [E [D A]]]].
    exists b, k. split; [exact E|]. split; [exact D|]. apply A. intros x _. reflexivity.
  Qed.
End Main2.
