(* Compiled on every run of the C13 check (after coq/gen/Gen_C13mod.v has been regenerated from modules.rs):
   pins the statements about macros imported from modules and prints their assumptions. *)
From Coq Require Import List String Bool.
From SV Require Import c13.ModelMod_C13 c13.ProofsMod_C13 gen.Gen_C13mod c13.PropertiesMod_C13.
Import ListNotations.
Open Scope string_scope.
Open Scope list_scope.

Check (C13_mod_in_scope_complete : forall specs n,
  exported provide_atom_accepted provide_value_heads specs n ->
  In n (in_scope_names in_scope_collects_atom in_scope_collects_list_second specs)).
Check (C13_mod_bound_in_scope : forall r specs l,
  bound provide_atom_accepted provide_value_heads r specs l ->
  In l (in_scope_req req_ids_normal req_ids_renamed req_ids_without_prefix
                     in_scope_collects_atom in_scope_collects_list_second
                     in_scope_prefixed_collects_atom in_scope_prefixed_collects_list_second r specs)).
Check (C13_mod_main_accepts_same :
  provide_value_heads_main = provide_value_heads /\ provide_atom_accepted_main = provide_atom_accepted).
Check (C13_mod_spec_registers_bound_name : spec_registers_bound_name = true).
Check (C13_mod_forms_covered :
  forallb (fun h => existsb (String.eqb h) ["%require-ident-spec"]) provide_value_heads = true /\
  forallb (fun h => existsb (String.eqb h) ["for-syntax"]) provide_syntax_heads = true /\
  forallb (fun h => existsb (String.eqb h) ["contract/out"]) provide_surface_macros = true /\
  forallb (fun h => existsb (String.eqb h) ["<string>"; "only-in"; "prefix-in"; "for-syntax"]) require_heads = true /\
  forallb (fun h => existsb (String.eqb h) ["<identifier>"; "<rename-pair>"]) only_in_items = true).
Check (C13_mod_collection_tight : forall atom_ok heads c_atom c_list,
  collection_covers atom_ok heads c_atom c_list = false ->
  exists specs n, exported atom_ok heads specs n /\ ~ In n (in_scope_names c_atom c_list specs)).
Check (C13_mod_shapes_needed :
  (exists r specs l, bound true [] r specs l /\ ~ In l (in_scope_req true true false true true true true r specs)) /\
  (exists r specs l, bound true [] r specs l /\ ~ In l (in_scope_req true false true true true true true r specs)) /\
  (exists r specs l, bound true [] r specs l /\ ~ In l (in_scope_req true true true true true false false r specs))).
Check (C13_mod_nonvacuous :
  exported provide_atom_accepted provide_value_heads
           [PAtom "perimeter"; PList "%require-ident-spec" (Some "area")] "area" /\
  in_scope_names in_scope_collects_atom in_scope_collects_list_second
           [PAtom "perimeter"; PList "%require-ident-spec" (Some "area")] = ["perimeter"; "area"] /\
  bound provide_atom_accepted provide_value_heads
        {| r_items := [IRenamed "area" "surface"]; r_prefix := Some "geo." |}
        [PAtom "perimeter"; PList "%require-ident-spec" (Some "area")] "geo.surface").
(* the definitions the statements are about (a statement over a weakened definition would still type-check) *)
Check (eq_refl : collect_one true true (PList "h" (Some "n")) = ["n"]).
Check (eq_refl : collect_one true false (PList "h" (Some "n")) = []).
Check (eq_refl : accepted true ["h"] (PList "h" (Some "n")) = true).
Check (eq_refl : accepted true ["h"] (PList "g" (Some "n")) = false).
Check (eq_refl : bound_name {| r_items := [INormal "a"; IRenamed "b" "c"]; r_prefix := Some "p." |} "b" = Some "p.c").
Check (eq_refl : bound_name {| r_items := [INormal "a"]; r_prefix := None |} "b" = None).

Print Assumptions C13_mod_in_scope_complete.
Print Assumptions C13_mod_bound_in_scope.
Print Assumptions C13_mod_main_accepts_same.
Print Assumptions C13_mod_spec_registers_bound_name.
Print Assumptions C13_mod_forms_covered.
Print Assumptions C13_mod_collection_tight.
Print Assumptions C13_mod_shapes_needed.
Print Assumptions C13_mod_nonvacuous.
