(* Compiled on every run of the C13 check: pins each statement and prints its assumptions. *)
From Coq Require Import List String Bool Arith.
From SV Require Import c13.Model_C13 c13.Proofs_C13 c13.Properties_C13.
Import ListNotations.
Open Scope string_scope.
Open Scope list_scope.
Open Scope nat_scope.

Check (C13_hygiene_outside_known : forall e,
  known_class e = false -> resolution_engine e = resolution_hygienic e).
Check (C13_hygiene_known_exact : forall e,
  known_class e = true -> resolution_engine e <> resolution_hygienic e).
Check (C13_capture_kinds : forall o, captured o = true ->
  capture_kind o = "nested_same_spelling" \/ capture_kind o = "use_site_shadowing" \/
  capture_kind o = "unrenamed_binder").
Check (C13_syntactic_sufficient : forall e,
  forallb syntactic_ok (occs [] e) = true -> known_class e = false).
Check (C13_instantiate_closed : forall in_scope is_global kinds s, env_clean s ->
  forall fuel fb t r, inst in_scope is_global kinds fuel s fb t = Ok r -> closedb (dom s) r = true).
Check (C13_match_total : forall ps xs imp,
  (exists b k, collect ps xs imp = Ok (b, k)) \/ (exists kind, collect ps xs imp = Err kind)).
Check (C13_hygiene_refuted :
  exists e, expand_top [W_m; W_m2] ["list"] W_nested = Ok e /\
            show e = "(let ((##t 1)) (let ((##t 2)) (list ##t 0 ##t)))" /\
            resolution_engine e = [None; Some 0; Some 0] /\
            resolution_hygienic e = [None; Some 1; Some 0] /\
            map capture_kind (occs [] e) = ["none"; "nested_same_spelling"; "none"]).
Check (C13_hygiene_noncolliding :
  exists e, expand_top [W_m; W_m2'] ["list"] W_nested = Ok e /\
            known_class e = false /\ resolution_engine e = [None; Some 1; Some 0]).
Check (C13_reftransp_refuted :
  exists e, expand_top [W_ul] ["list"] W_shadow = Ok e /\
            show e = "(let ((list (lambda args (quote shadowed)))) (list 1))" /\
            resolution_engine e = [Some 0] /\ resolution_hygienic e = [None] /\
            map capture_kind (occs [] e) = ["use_site_shadowing"]).
Check (C13_reftransp_noshadow :
  exists e, expand_top [W_ul] ["list"] W_noshadow = Ok e /\
            known_class e = false /\ resolution_engine e = [None]).

Print Assumptions C13_hygiene_outside_known.
Print Assumptions C13_hygiene_known_exact.
Print Assumptions C13_capture_kinds.
Print Assumptions C13_syntactic_sufficient.
Print Assumptions C13_instantiate_closed.
Print Assumptions C13_match_total.
Print Assumptions C13_hygiene_refuted.
Print Assumptions C13_hygiene_noncolliding.
Print Assumptions C13_reftransp_refuted.
Print Assumptions C13_reftransp_noshadow.
