(* Compiled on every run of the C13 check: pins each statement and prints its assumptions. *)
From Coq Require Import List String Bool Arith.
From SV Require Import c13.Model_C13 c13.Proofs_C13 c13.Proofs2_C13 c13.Proofs3_C13 c13.Proofs4_C13 c13.Proofs5_C13 c13.Properties_C13.
Import ListNotations.
Open Scope string_scope.
Open Scope list_scope.
Open Scope nat_scope.

Check (C13_hygiene_outside_known : forall e,
  known_class e = false -> resolution_engine e = resolution_hygienic e).
Check (C13_hygiene_known_exact : forall e,
  known_class e = true -> resolution_engine e <> resolution_hygienic e).
Check (C13_capture_kinds : forall o, captured o = true ->
  capture_kind o = "nested_same_spelling" \/ capture_kind o = "use_site_shadowing" \/
  capture_kind o = "unrenamed_binder").
Check (C13_syntactic_sufficient : forall e,
  forallb syntactic_ok (occs [] e) = true -> known_class e = false).
Check (C13_instantiate_closed : forall in_scope is_global kinds s, env_clean s ->
  forall fuel fb t r, inst in_scope is_global kinds fuel s fb t = Ok r -> closedb (dom s) r = true).
Check (C13_match_total : forall ps xs imp,
  (exists b k, collect ps xs imp = Ok (b, k)) \/ (exists kind, collect ps xs imp = Err kind)).
Check (C13_match_sound_complete : forall bound ps xs imp,
  wf_pattern ps = true -> plain (SL xs imp) = true -> match_list bound ps xs imp = true ->
  exists b k, collect ps xs imp = Ok (b, k) /\
    (forall x, In x (dom b) <-> In x (flat_map pvars ps)) /\
    pinst (PNested ps) b = Some (SL xs imp)).
Check (C13_match_nonvacuous :
  let ps := [PSingle "x"; PMany (PNested [PSingle "a"; PMany (PSingle "b")]); PSingle "c"; PRest (PSingle "r")] in
  let xs := [Lit "0"; SL [Lit "1"; Lit "2"; Lit "3"] false; SL [Lit "4"] false; Lit "6"; Lit "7"] in
  wf_pattern ps = true /\ plain (SL xs true) = true /\ match_list (fun _ => false) ps xs true = true /\
  show_env (collect ps xs true) = "[r 7] [c 6] [a (1 4)] [b ((2 3) ())] [x 0]").
Check (C13_inst_fuel : forall in_scope is_global kinds s t D fuel,
  ~ In "_" (dom s) ->
  env_ok in_scope is_global (dom s) D s ->
  uid_ok in_scope is_global t ->
  depth t + D <= fuel ->
  inst in_scope is_global kinds fuel s [] t <> OutOfFuel).
Check (C13_no_shared_spelling : forall e,
  (forall v b, In v (ids e) -> In b (ids e) -> fst v = fst b -> snd v = snd b) -> known_class e = false).
Check (C13_expand_use_hygienic : forall globals m i args imp out,
  safe_use m i args = true ->
  expand_use globals m [] i args imp = Ok out ->
  known_class out = false /\ resolution_engine out = resolution_hygienic out).
Check (C13_safe_use_nonvacuous :
  safe_use W_m2 1 [Id "p" 0; Lit "5"] = true /\
  (exists out, expand_use ["list"] W_m2 [] 1 [Id "p" 0; Lit "5"] false = Ok out /\
               show out = "(let ((##t 2)) (list p 5 ##t))" /\ known_class out = false) /\
  safe_use W_m2 1 [Id "t" 0; Lit "5"] = true /\
  safe_use W_ul 1 [Id "list" 0] = false).
Check (C13_hygiene_refuted :
  exists e, expand_top [W_m; W_m2] ["list"] W_nested = Ok e /\
            show e = "(let ((##t 1)) (let ((##t 2)) (list ##t 0 ##t)))" /\
            resolution_engine e = [None; Some 0; Some 0] /\
            resolution_hygienic e = [None; Some 1; Some 0] /\
            map capture_kind (occs [] e) = ["none"; "nested_same_spelling"; "none"]).
Check (C13_hygiene_noncolliding :
  exists e, expand_top [W_m; W_m2'] ["list"] W_nested = Ok e /\
            known_class e = false /\ resolution_engine e = [None; Some 1; Some 0]).
Check (C13_reftransp_refuted :
  exists e, expand_top [W_ul] ["list"] W_shadow = Ok e /\
            show e = "(let ((list (lambda args (quote shadowed)))) (list 1))" /\
            resolution_engine e = [Some 0] /\ resolution_hygienic e = [None] /\
            map capture_kind (occs [] e) = ["use_site_shadowing"]).
Check (C13_reftransp_noshadow :
  exists e, expand_top [W_ul] ["list"] W_noshadow = Ok e /\
            known_class e = false /\ resolution_engine e = [None]).

Print Assumptions C13_hygiene_outside_known.
Print Assumptions C13_hygiene_known_exact.
Print Assumptions C13_capture_kinds.
Print Assumptions C13_syntactic_sufficient.
Print Assumptions C13_instantiate_closed.
Print Assumptions C13_match_total.
Print Assumptions C13_match_sound_complete.
Print Assumptions C13_match_nonvacuous.
Print Assumptions C13_inst_fuel.
Print Assumptions C13_no_shared_spelling.
Print Assumptions C13_expand_use_hygienic.
Print Assumptions C13_safe_use_nonvacuous.
Print Assumptions C13_hygiene_refuted.
Print Assumptions C13_hygiene_noncolliding.
Print Assumptions C13_reftransp_refuted.
Print Assumptions C13_reftransp_noshadow.
