(* C13 — lemmas, part 6: identifiers of occurrences and binders; programs without a spelling shared between origins. *)
From Coq Require Import List String Ascii Bool Arith Lia.
From SV Require Import c13.Model_C13 c13.Proofs_C13 c13.Proofs2_C13 c13.Proofs3_C13.
Import ListNotations.
Open Scope string_scope.
Open Scope list_scope.
Open Scope nat_scope.

(* ------------------------------------------------------------------ end to end: one macro use at top level *)
Fixpoint ids (e : sx) : list ident :=
  match e with
  | Id s o | UId s o => [(s, o)]
  | Lit _ => []
  | SL xs _ => flat_map ids xs
  end.

Ltac incl_tac := cbn [ids flat_map] in *; repeat rewrite in_app_iff in *; cbn [In] in *; tauto.

Lemma binders_of_ids : forall l, incl (binders_of l) (flat_map ids l).
Proof.
  induction l as [|e r IH]; intros z Hz; [exact Hz|]. unfold binders_of in Hz. cbn [flat_map] in *.
  apply in_app_or in Hz. apply in_or_app. destruct Hz as [Hz|Hz]; [left|right; apply IH; exact Hz].
  destruct e as [s o|s o|s|xs imp]; unfold ident_of in Hz; try contradiction;
    (destruct (mem s TOKENS); [contradiction|]; destruct Hz as [<-|[]]; left; reflexivity).
Qed.

Lemma let_names_ids : forall l, incl (flat_map ids (let_names l)) (flat_map ids l).
Proof.
  induction l as [|e r IH]; intros z Hz; [exact Hz|].
  destruct e as [s o|s o|s|[|nm more] imp]; cbn [let_names flat_map ids] in *;
    try (apply in_or_app; right; apply IH; exact Hz).
  apply in_app_or in Hz. apply in_or_app. destruct Hz as [Hz|Hz]; [left; apply in_or_app; left; exact Hz|right; apply IH; exact Hz].
Qed.

Lemma def_scope_incl : forall g x, incl (def_scope g x) (ids x ++ g).
Proof.
  intros g x. unfold def_scope.
  destruct x as [s o|s o|s|[|[h o|h o|h|hx hi] [|nm more]] imp]; try (intros z Hz; apply in_or_app; right; exact Hz).
  1-2: (destruct (mem h DEFINES); [|intros z Hz; apply in_or_app; right; exact Hz];
        destruct nm as [s1 o1|s1 o1|s1|[|f fs] imp1];
        intros z Hz; apply in_app_or in Hz; destruct Hz as [Hz|Hz]; try (apply in_or_app; right; exact Hz);
        apply binders_of_ids in Hz; cbn [ids flat_map] in *; repeat rewrite in_app_iff in *; cbn [In] in *; tauto).
Qed.

Definition PA (e : sx) : Prop :=
  forall g o, In o (occs g e) -> In (fst o) (ids e) /\ incl (snd o) (ids e ++ g).

Lemma occs_seq_ids : forall l, (forall x, In x l -> PA x) ->
  forall g o, In o (occs_seq occs g l) -> In (fst o) (flat_map ids l) /\ incl (snd o) (flat_map ids l ++ g).
Proof.
  induction l as [|x r IH]; intros HP g o Ho; [contradiction|].
  cbn [occs_seq] in Ho. apply in_app_or in Ho. pose proof (def_scope_incl g x) as Hd.
  destruct Ho as [Ho|Ho].
  - destruct (HP x (or_introl eq_refl) _ _ Ho) as [H1 H2]. split; [cbn; apply in_or_app; left; exact H1|].
    intros z Hz. apply H2 in Hz. apply in_app_or in Hz. destruct Hz as [Hz|Hz]; [|apply Hd in Hz]; incl_tac.
  - destruct (IH (fun y Hy => HP y (or_intror Hy)) _ _ Ho) as [H1 H2]. split; [cbn; apply in_or_app; right; exact H1|].
    intros z Hz. apply H2 in Hz. apply in_app_or in Hz. destruct Hz as [Hz|Hz]; [|apply Hd in Hz]; incl_tac.
Qed.

Lemma occs_inits_ids : forall g l, (forall p v, In p l -> (exists a more imp, p = SL (a :: v :: more) imp) -> PA v) ->
  forall o, In o (occs_inits occs g l) -> In (fst o) (flat_map ids l) /\ incl (snd o) (flat_map ids l ++ g).
Proof.
  induction l as [|p r IH]; intros HP o Ho; [contradiction|].
  assert (Hr : forall o, In o (occs_inits occs g r) -> In (fst o) (flat_map ids (p :: r)) /\ incl (snd o) (flat_map ids (p :: r) ++ g)).
  { intros o' Ho'. destruct (IH (fun p' v Hp' => HP p' v (or_intror Hp')) _ Ho') as [H1 H2].
    split; [cbn; apply in_or_app; right; exact H1|]. intros z Hz. apply H2 in Hz. incl_tac. }
  destruct p as [s o'|s o'|s|[|a [|v more]] imp]; cbn [occs_inits] in Ho; try (apply Hr; exact Ho).
  apply in_app_or in Ho. destruct Ho as [Ho|Ho]; [|apply Hr; exact Ho].
  destruct (HP _ v (or_introl eq_refl) (ex_intro _ a (ex_intro _ more (ex_intro _ imp eq_refl))) _ _ Ho) as [H1 H2].
  split; [cbn [flat_map ids]; repeat rewrite in_app_iff; tauto|].
  intros z Hz. apply H2 in Hz. incl_tac.
Qed.

Lemma PA_all : forall n e, depth e <= n -> PA e.
Proof.
  induction n as [|n IH]; intros e Hd; [pose proof (depth_pos e); lia|].
  destruct e as [s o|s o|s|xs imp].
  1-2: (intros g o' Ho; cbn [occs] in Ho; unfold ident_of in Ho; destruct (mem s TOKENS); [contradiction|];
        destruct Ho as [<-|[]]; cbn; split; [left; reflexivity|intros z Hz; right; exact Hz]).
  - intros g o' Ho. contradiction.
  - assert (Hel : forall x, In x xs -> PA x).
    { intros x Hx. apply IH. pose proof (depth_elem xs imp x Hx). lia. }
    assert (Hsub : forall l im, In (SL l im) xs -> forall x, In x l -> PA x).
    { intros l im Hl x Hx. apply IH. pose proof (depth_elem xs imp _ Hl). pose proof (depth_elem l im x Hx). lia. }
    assert (Hpair : forall prs im, In (SL prs im) xs ->
              forall p v, In p prs -> (exists a more imp0, p = SL (a :: v :: more) imp0) -> PA v).
    { intros prs im Hl p v Hp [a [more [imp0 ->]]]. apply IH.
      pose proof (depth_elem xs imp _ Hl). pose proof (depth_elem prs im _ Hp).
      pose proof (depth_elem (a :: v :: more) imp0 v (or_intror (or_introl eq_refl))). lia. }
    (* generic consequence for a body that is a sub-list of xs *)
    assert (Hseq : forall body g0 g o, (forall x, In x body -> In x xs) -> incl g0 (ids (SL xs imp) ++ g) ->
              In o (occs_seq occs g0 body) -> In (fst o) (ids (SL xs imp)) /\ incl (snd o) (ids (SL xs imp) ++ g)).
    { intros body g0 g o Hb Hg Ho.
      destruct (occs_seq_ids body (fun x Hx => Hel x (Hb x Hx)) _ _ Ho) as [H1 H2].
      assert (Hi : incl (flat_map ids body) (ids (SL xs imp))).
      { intros z Hz. apply in_flat_map in Hz. destruct Hz as [x [Hx Hz]]. cbn [ids]. apply in_flat_map. exists x. auto. }
      split; [apply Hi; exact H1|]. intros z Hz. apply H2 in Hz. apply in_app_or in Hz.
      destruct Hz as [Hz|Hz]; [apply in_or_app; left; apply Hi; exact Hz|apply Hg; exact Hz]. }
    assert (Hini : forall prs im g o, In (SL prs im) xs ->
              In o (occs_inits occs g prs) -> In (fst o) (ids (SL xs imp)) /\ incl (snd o) (ids (SL xs imp) ++ g)).
    { intros prs im g o Hl Ho. destruct (occs_inits_ids g prs (Hpair prs im Hl) _ Ho) as [H1 H2].
      assert (Hi : incl (flat_map ids prs) (ids (SL xs imp))).
      { intros z Hz. cbn [ids]. apply in_flat_map. exists (SL prs im). split; [exact Hl|exact Hz]. }
      split; [apply Hi; exact H1|]. intros z Hz. apply H2 in Hz. apply in_app_or in Hz.
      destruct Hz as [Hz|Hz]; apply in_or_app; [left; apply Hi; exact Hz|right; exact Hz]. }
    assert (Hbind : forall l, (forall x, In x l -> In x xs) -> forall g, incl (binders_of l ++ g) (ids (SL xs imp) ++ g)).
    { intros l Hl g z Hz. apply in_app_or in Hz. destruct Hz as [Hz|Hz]; apply in_or_app; [left|right; exact Hz].
      apply binders_of_ids in Hz. apply in_flat_map in Hz. destruct Hz as [x [Hx Hz]]. cbn [ids]. apply in_flat_map. exists x. auto. }
    assert (Hbind2 : forall l im, In (SL l im) xs -> forall l', incl (flat_map ids l') (flat_map ids l) ->
              forall g, incl (binders_of l' ++ g) (ids (SL xs imp) ++ g)).
    { intros l im Hl l' Hl' g z Hz. apply in_app_or in Hz. destruct Hz as [Hz|Hz]; apply in_or_app; [left|right; exact Hz].
      apply binders_of_ids in Hz. apply Hl' in Hz. cbn [ids]. apply in_flat_map. exists (SL l im). auto. }
    intros g o Ho. cbn [occs] in Ho.
    destruct xs as [|hd args]; [contradiction|].
    assert (Hdef : In o (occs_seq occs g (hd :: args)) -> In (fst o) (ids (SL (hd :: args) imp)) /\ incl (snd o) (ids (SL (hd :: args) imp) ++ g)).
    { intro H. apply (Hseq (hd :: args) g g o); auto. intros z Hz. apply in_or_app. right; exact Hz. }
    assert (Htl : forall x, In x args -> In x (hd :: args)) by (intros; right; assumption).
    destruct hd as [h ho|h ho|h|hx hi]; [| |apply Hdef; exact Ho|apply Hdef; exact Ho].
    {
      destruct (String.eqb h "quote"); [contradiction|].
      destruct (mem h LAMBDAS).
      { destruct args as [|a1 body]; [contradiction|].
        assert (Hb : forall x, In x body -> In x (Id h ho :: a1 :: body)) by (intros; right; right; assumption).
        destruct a1 as [s1 o1|s1 o1|s1|ps pi].
        1-3: (eapply Hseq; [exact Hb| |exact Ho]; apply Hbind; intros x [<-|[]]; right; left; reflexivity).
        eapply Hseq; [exact Hb| |exact Ho]. apply (Hbind2 ps pi); [right; left; reflexivity|intros z Hz; exact Hz]. }
      destruct (mem h LETS).
      { destruct args as [|a1 rest]; [contradiction|].
        destruct a1 as [s1 o1|s1 o1|s1|prs pim].
        1-3: (destruct rest as [|[s2 o2|s2 o2|s2|prs pim] body]; try contradiction;
              apply in_app_or in Ho; destruct Ho as [Ho|Ho];
              [eapply Hini; [|exact Ho]; right; right; left; reflexivity|];
              (eapply Hseq; [| |exact Ho]; [intros; right; right; right; assumption|]);
              intros z Hz; apply in_app_or in Hz; destruct Hz as [Hz|Hz];
              [apply binders_of_ids, let_names_ids in Hz; apply in_or_app; left; incl_tac|];
              apply in_app_or in Hz; destruct Hz as [Hz|Hz]; [|apply in_or_app; right; exact Hz];
              apply binders_of_ids in Hz; apply in_or_app; left; incl_tac).
        apply in_app_or in Ho. destruct Ho as [Ho|Ho].
        - eapply Hini; [|exact Ho]. right; left; reflexivity.
        - eapply Hseq; [| |exact Ho]; [intros; right; right; assumption|].
          intros z Hz. apply in_app_or in Hz. destruct Hz as [Hz|Hz]; [|apply in_or_app; right; exact Hz].
          apply binders_of_ids, let_names_ids in Hz. apply in_or_app; left. incl_tac. }
      destruct (mem h DEFINES).
      { destruct args as [|a1 body]; [contradiction|].
        assert (Hb : forall x, In x body -> In x (Id h ho :: a1 :: body)) by (intros; right; right; assumption).
        destruct a1 as [s1 o1|s1 o1|s1|[|f ps] pim];
          try (eapply Hseq; [exact Hb| |exact Ho]; intros z Hz; apply in_or_app; right; exact Hz).
        eapply Hseq; [exact Hb| |exact Ho].
        intros z Hz. apply in_app_or in Hz. destruct Hz as [Hz|Hz]; [|apply in_or_app; right; exact Hz].
        apply binders_of_ids in Hz. apply in_or_app; left. incl_tac. }
      apply Hdef; exact Ho. }
    {
      destruct (String.eqb h "quote"); [contradiction|].
      destruct (mem h LAMBDAS).
      { destruct args as [|a1 body]; [contradiction|].
        assert (Hb : forall x, In x body -> In x (UId h ho :: a1 :: body)) by (intros; right; right; assumption).
        destruct a1 as [s1 o1|s1 o1|s1|ps pi].
        1-3: (eapply Hseq; [exact Hb| |exact Ho]; apply Hbind; intros x [<-|[]]; right; left; reflexivity).
        eapply Hseq; [exact Hb| |exact Ho]. apply (Hbind2 ps pi); [right; left; reflexivity|intros z Hz; exact Hz]. }
      destruct (mem h LETS).
      { destruct args as [|a1 rest]; [contradiction|].
        destruct a1 as [s1 o1|s1 o1|s1|prs pim].
        1-3: (destruct rest as [|[s2 o2|s2 o2|s2|prs pim] body]; try contradiction;
              apply in_app_or in Ho; destruct Ho as [Ho|Ho];
              [eapply Hini; [|exact Ho]; right; right; left; reflexivity|];
              (eapply Hseq; [| |exact Ho]; [intros; right; right; right; assumption|]);
              intros z Hz; apply in_app_or in Hz; destruct Hz as [Hz|Hz];
              [apply binders_of_ids, let_names_ids in Hz; apply in_or_app; left; incl_tac|];
              apply in_app_or in Hz; destruct Hz as [Hz|Hz]; [|apply in_or_app; right; exact Hz];
              apply binders_of_ids in Hz; apply in_or_app; left; incl_tac).
        apply in_app_or in Ho. destruct Ho as [Ho|Ho].
        - eapply Hini; [|exact Ho]. right; left; reflexivity.
        - eapply Hseq; [| |exact Ho]; [intros; right; right; assumption|].
          intros z Hz. apply in_app_or in Hz. destruct Hz as [Hz|Hz]; [|apply in_or_app; right; exact Hz].
          apply binders_of_ids, let_names_ids in Hz. apply in_or_app; left. incl_tac. }
      destruct (mem h DEFINES).
      { destruct args as [|a1 body]; [contradiction|].
        assert (Hb : forall x, In x body -> In x (UId h ho :: a1 :: body)) by (intros; right; right; assumption).
        destruct a1 as [s1 o1|s1 o1|s1|[|f ps] pim];
          try (eapply Hseq; [exact Hb| |exact Ho]; intros z Hz; apply in_or_app; right; exact Hz).
        eapply Hseq; [exact Hb| |exact Ho].
        intros z Hz. apply in_app_or in Hz. destruct Hz as [Hz|Hz]; [|apply in_or_app; right; exact Hz].
        apply binders_of_ids in Hz. apply in_or_app; left. incl_tac. }
      apply Hdef; exact Ho. }
Qed.

(* every occurrence and every binder in scope is an identifier atom of the program *)
Lemma occs_ids : forall e o, In o (occs [] e) -> In (fst o) (ids e) /\ incl (snd o) (ids e).
Proof.
  intros e o Ho. destruct (PA_all (depth e) e (le_n _) [] o Ho) as [H1 H2]. split; [exact H1|].
  intros z Hz. apply H2 in Hz. rewrite app_nil_r in Hz. exact Hz.
Qed.

(* a program in which no spelling is used with two different origins is outside the known class *)
Lemma no_shared_spelling_l : forall e,
  (forall v b, In v (ids e) -> In b (ids e) -> fst v = fst b -> snd v = snd b) -> known_class e = false.
Proof.
  intros e H. unfold known_class. destruct (existsb captured (occs [] e)) eqn:E; [|reflexivity].
  apply existsb_exists in E. destruct E as [o [Ho Hc]]. destruct (occs_ids e o Ho) as [H1 H2].
  unfold captured in Hc. destruct (find (same_sp (fst o)) (snd o)) as [b|] eqn:F; [|discriminate].
  apply find_some in F. destruct F as [Hb Hs]. unfold same_sp in Hs. apply String.eqb_eq in Hs.
  rewrite (H (fst o) b H1 (H2 b Hb) Hs) in Hc. rewrite Nat.eqb_refl in Hc. discriminate.
Qed.
