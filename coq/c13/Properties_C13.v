(* C13 — property theorems only.  Statements are pinned in Pins_C13.v (compiled on every run). *)
From Coq Require Import List String Bool Arith.
From SV Require Import c13.Model_C13 c13.Proofs_C13 c13.Proofs2_C13 c13.Proofs3_C13 c13.Proofs4_C13 c13.Proofs5_C13.
Import ListNotations.
Open Scope string_scope.

(* Hygiene, binding-resolution view.  For every fully expanded program (any S-expression whose identifier
   occurrences carry their origin): outside the known class the engine's resolution (by spelling, after the ##
   renaming) and the hygienic resolution (by spelling and origin) pick the same binder for every occurrence ... *)
Theorem C13_hygiene_outside_known : forall e,
  known_class e = false -> resolution_engine e = resolution_hygienic e.
Proof. exact hygiene_outside_known_l. Qed.

(* ... and inside the class they differ (the class is exact, not merely sufficient). *)
Theorem C13_hygiene_known_exact : forall e,
  known_class e = true -> resolution_engine e <> resolution_hygienic e.
Proof. exact hygiene_known_l. Qed.

(* every capture is of one of the three recorded kinds *)
Theorem C13_capture_kinds : forall o, captured o = true ->
  capture_kind o = "nested_same_spelling" \/ capture_kind o = "use_site_shadowing" \/
  capture_kind o = "unrenamed_binder".
Proof. exact capture_kind_exhaustive. Qed.

(* a syntactic sufficient condition: template binders all carry the ## prefix, each ##-spelling in scope
   belongs to the instantiation of the occurrence, and un-prefixed spellings are bound by user binders for
   user occurrences only *)
Theorem C13_syntactic_sufficient : forall e,
  forallb syntactic_ok (occs [] e) = true -> known_class e = false.
Proof. exact syntactic_sufficient_l. Qed.

(* Template instantiation (ReplaceExpressions with its ellipsis expansion, any template, any fuel): no
   identifier bound in the environment survives, i.e. every pattern variable has been replaced (the wildcard _
   is never substituted).  env_clean: the matched sub-forms contain no identifier that is itself a (## -prefixed)
   pattern variable of the macro - guaranteed for user code by the reader, which rejects ## identifiers. *)
Theorem C13_instantiate_closed : forall in_scope is_global kinds s, env_clean s ->
  forall fuel fb t r, inst in_scope is_global kinds fuel s fb t = Ok r -> closedb (dom s) r = true.
Proof. exact inst_closed. Qed.

(* Matching and binding are total: match_list is a (fuel-free, structurally recursive) boolean function and
   collect_bindings returns bindings or an error kind (BadSyntax / ArityMismatch) on every pattern list and
   every use, proper or improper. *)
Theorem C13_match_total : forall ps xs imp,
  (exists b k, collect ps xs imp = Ok (b, k)) \/ (exists kind, collect ps xs imp = Err kind).
Proof. exact collect_total. Qed.

(* Matching binds every pattern variable to exactly the matched sub-forms.  For every pattern list in the class
   wf_pattern (what parse_from_list builds: at most one ellipsis per list level whose sub-pattern binds a
   variable, a dotted tail is last and is a variable, no wildcard, pairwise distinct variables; any nesting,
   ellipsis followed by more patterns and by a dotted tail) and every user-written form (proper or dotted):
   if match_list_pattern accepts, collect_bindings (the repaired code) succeeds, binds exactly the pattern
   variables, and instantiating the pattern itself as a template under these bindings gives back the form -
   a variable under k ellipses is bound to a k-fold nested list whose projections reproduce each repetition. *)
Theorem C13_match_sound_complete : forall bound ps xs imp,
  wf_pattern ps = true -> plain (SL xs imp) = true -> match_list bound ps xs imp = true ->
  exists b k, collect ps xs imp = Ok (b, k) /\
    (forall x, In x (dom b) <-> In x (flat_map pvars ps)) /\
    pinst (PNested ps) b = Some (SL xs imp).
Proof. exact match_sound_complete_l. Qed.

(* non-vacuity: (x (a b ...) ... c . r) against (0 (1 2 3) (4) 6 . 7) *)
Example C13_match_nonvacuous :
  let ps := [PSingle "x"; PMany (PNested [PSingle "a"; PMany (PSingle "b")]); PSingle "c"; PRest (PSingle "r")] in
  let xs := [Lit "0"; SL [Lit "1"; Lit "2"; Lit "3"] false; SL [Lit "4"] false; Lit "6"; Lit "7"] in
  wf_pattern ps = true /\ plain (SL xs true) = true /\ match_list (fun _ => false) ps xs true = true /\
  show_env (collect ps xs true) = "[r 7] [c 6] [a (1 4)] [b ((2 3) ())] [x 0]".
Proof. vm_compute. repeat split. Qed.

(* Fuel bound for template instantiation (the faithful ReplaceExpressions model, any template): with
   fuel >= depth of the template + D, where D bounds the nesting depth of the matched sub-forms, inst never
   runs out of fuel, so C13_instantiate_closed and the expander (INST_FUEL = 4096) do not depend on fuel.
   Hypotheses: env_ok - no identifier of a matched sub-form is a key of the environment (keys are the
   ##-prefixed pattern variables; the reader rejects ## in user code - without this the engine itself loops
   on (m (##a ...))); no wildcard key; uid_ok - the in-scope ## prefixing of ReplaceExpressions does not
   apply to a free identifier of the template (no use-site local binding shadows a non-global free identifier
   of the template). *)
Theorem C13_inst_fuel : forall in_scope is_global kinds s t D fuel,
  ~ In "_" (dom s) ->
  env_ok in_scope is_global (dom s) D s ->
  uid_ok in_scope is_global t ->
  depth t + D <= fuel ->
  inst in_scope is_global kinds fuel s [] t <> OutOfFuel.
Proof. exact inst_fuel_top. Qed.

(* Towards the expander: every occurrence and every binder in scope that the resolution looks at is an
   identifier atom of the program, hence a program in which no spelling occurs with two different origins
   (template-introduced identifiers carry spellings the user's forms do not use, and vice versa) is outside
   the known class, i.e. resolved hygienically by C13_hygiene_outside_known. *)
Theorem C13_no_shared_spelling : forall e,
  (forall v b, In v (ids e) -> In b (ids e) -> fst v = fst b -> snd v = snd b) -> known_class e = false.
Proof. exact no_shared_spelling_l. Qed.

(* End to end for one macro use at top level (SteelMacro::expand = match_case + collect_bindings +
   ReplaceExpressions on the stamped, ##-renamed template): if the use satisfies the decidable condition safe_use
   - written by the user, and none of its non-keyword spellings occurs in a template of the macro (neither as a
   free identifier nor as a ##-renamed one) - then the expansion is outside the known class and every identifier
   occurrence resolves exactly as under the hygienic reading.  Proof: every identifier of the output comes from
   the stamped template (origin i) or from the arguments (origin 0) - inst_ids, collect_ids - so no non-keyword
   spelling is shared between two origins (no_shared_spelling_nt). *)
Theorem C13_expand_use_hygienic : forall globals m i args imp out,
  safe_use m i args = true ->
  expand_use globals m [] i args imp = Ok out ->
  known_class out = false /\ resolution_engine out = resolution_hygienic out.
Proof. exact expand_use_hygienic_full. Qed.

(* non-vacuity: (m2 p 5) is a safe use and expands; (uses-list list) is not safe (it mentions the template's
   free identifier), (m2 t 5) is safe although m2 binds t (the binder is spelled ##t in the template) *)
Example C13_safe_use_nonvacuous :
  safe_use W_m2 1 [Id "p" 0; Lit "5"] = true /\
  (exists out, expand_use ["list"] W_m2 [] 1 [Id "p" 0; Lit "5"] false = Ok out /\
               show out = "(let ((##t 2)) (list p 5 ##t))" /\ known_class out = false) /\
  safe_use W_m2 1 [Id "t" 0; Lit "5"] = true /\
  safe_use W_ul 1 [Id "list" 0] = false.
Proof. vm_compute. split; [reflexivity|]. split; [eexists; repeat split|]. split; reflexivity. Qed.

(* F7, first witness: nested macros introducing the same spelling; replayed on the engine by checks/c13.py *)
Theorem C13_hygiene_refuted :
  exists e, expand_top [W_m; W_m2] ["list"] W_nested = Ok e /\
            show e = "(let ((##t 1)) (let ((##t 2)) (list ##t 0 ##t)))" /\
            resolution_engine e = [None; Some 0; Some 0] /\
            resolution_hygienic e = [None; Some 1; Some 0] /\
            map capture_kind (occs [] e) = ["none"; "nested_same_spelling"; "none"].
Proof. exact hygiene_refuted_l. Qed.

Example C13_hygiene_noncolliding :
  exists e, expand_top [W_m; W_m2'] ["list"] W_nested = Ok e /\
            known_class e = false /\ resolution_engine e = [None; Some 1; Some 0].
Proof. exact hygiene_noncolliding_l. Qed.

(* F7, second witness: a use-site binding captures a free identifier of the template *)
Theorem C13_reftransp_refuted :
  exists e, expand_top [W_ul] ["list"] W_shadow = Ok e /\
            show e = "(let ((list (lambda args (quote shadowed)))) (list 1))" /\
            resolution_engine e = [Some 0] /\ resolution_hygienic e = [None] /\
            map capture_kind (occs [] e) = ["use_site_shadowing"].
Proof. exact reftransp_refuted_l. Qed.

Example C13_reftransp_noshadow :
  exists e, expand_top [W_ul] ["list"] W_noshadow = Ok e /\
            known_class e = false /\ resolution_engine e = [None].
Proof. exact reftransp_noshadow_l. Qed.
