(* C13 — property theorems only.  Statements are pinned in Pins_C13.v (compiled on every run). *)
From Coq Require Import List String Bool Arith.
From SV Require Import c13.Model_C13 c13.Proofs_C13.
Import ListNotations.
Open Scope string_scope.

(* Hygiene, binding-resolution view.  For every fully expanded program (any S-expression whose identifier
   occurrences carry their origin): outside the known class the engine's resolution (by spelling, after the ##
   renaming) and the hygienic resolution (by spelling and origin) pick the same binder for every occurrence ... *)
Theorem C13_hygiene_outside_known : forall e,
  known_class e = false -> resolution_engine e = resolution_hygienic e.
Proof. exact hygiene_outside_known_l. Qed.

(* ... and inside the class they differ (the class is exact, not merely sufficient). *)
Theorem C13_hygiene_known_exact : forall e,
  known_class e = true -> resolution_engine e <> resolution_hygienic e.
Proof. exact hygiene_known_l. Qed.

(* every capture is of one of the three recorded kinds *)
Theorem C13_capture_kinds : forall o, captured o = true ->
  capture_kind o = "nested_same_spelling" \/ capture_kind o = "use_site_shadowing" \/
  capture_kind o = "unrenamed_binder".
Proof. exact capture_kind_exhaustive. Qed.

(* a syntactic sufficient condition: template binders all carry the ## prefix, each ##-spelling in scope
   belongs to the instantiation of the occurrence, and un-prefixed spellings are bound by user binders for
   user occurrences only *)
Theorem C13_syntactic_sufficient : forall e,
  forallb syntactic_ok (occs [] e) = true -> known_class e = false.
Proof. exact syntactic_sufficient_l. Qed.

(* Template instantiation (ReplaceExpressions with its ellipsis expansion, any template, any fuel): no
   identifier bound in the environment survives, i.e. every pattern variable has been replaced (the wildcard _
   is never substituted).  env_clean: the matched sub-forms contain no identifier that is itself a (## -prefixed)
   pattern variable of the macro - guaranteed for user code by the reader, which rejects ## identifiers. *)
Theorem C13_instantiate_closed : forall in_scope is_global kinds s, env_clean s ->
  forall fuel fb t r, inst in_scope is_global kinds fuel s fb t = Ok r -> closedb (dom s) r = true.
Proof. exact inst_closed. Qed.

(* Matching and binding are total: match_list is a (fuel-free, structurally recursive) boolean function and
   collect_bindings returns bindings or an error kind (BadSyntax / ArityMismatch) on every pattern list and
   every use, proper or improper. *)
Theorem C13_match_total : forall ps xs imp,
  (exists b k, collect ps xs imp = Ok (b, k)) \/ (exists kind, collect ps xs imp = Err kind).
Proof. exact collect_total. Qed.

(* F7, first witness: nested macros introducing the same spelling; replayed on the engine by checks/c13.py *)
Theorem C13_hygiene_refuted :
  exists e, expand_top [W_m; W_m2] ["list"] W_nested = Ok e /\
            show e = "(let ((##t 1)) (let ((##t 2)) (list ##t 0 ##t)))" /\
            resolution_engine e = [None; Some 0; Some 0] /\
            resolution_hygienic e = [None; Some 1; Some 0] /\
            map capture_kind (occs [] e) = ["none"; "nested_same_spelling"; "none"].
Proof. exact hygiene_refuted_l. Qed.

Example C13_hygiene_noncolliding :
  exists e, expand_top [W_m; W_m2'] ["list"] W_nested = Ok e /\
            known_class e = false /\ resolution_engine e = [None; Some 1; Some 0].
Proof. exact hygiene_noncolliding_l. Qed.

(* F7, second witness: a use-site binding captures a free identifier of the template *)
Theorem C13_reftransp_refuted :
  exists e, expand_top [W_ul] ["list"] W_shadow = Ok e /\
            show e = "(let ((list (lambda args (quote shadowed)))) (list 1))" /\
            resolution_engine e = [Some 0] /\ resolution_hygienic e = [None] /\
            map capture_kind (occs [] e) = ["use_site_shadowing"].
Proof. exact reftransp_refuted_l. Qed.

Example C13_reftransp_noshadow :
  exists e, expand_top [W_ul] ["list"] W_noshadow = Ok e /\
            known_class e = false /\ resolution_engine e = [None].
Proof. exact reftransp_noshadow_l. Qed.
