(* C13 — syntax-rules: pattern matching, template instantiation, the definition-time `##` renamer,
   the expander driver and the binding-resolution view (DESIGN.md section 4, C13; finding F7).

   Definitions only.  Sources mirrored (steel-core/src/parser):
     expander.rs       MacroPattern, match_list_pattern / match_rest_pattern / match_single_pattern
                       (L893-1190), collect_bindings (L1198-1367), non_list_match, MacroCase::expand,
                       MacroPattern::mangle, SteelMacro::match_case
     replace_idents.rs ReplaceExpressions::visit (L651-730), expand_ellipses (L214-354),
                       EllipsesExpanderVisitor (L128-180)
     rename_idents.rs  RenameIdentifiersVisitor (visit_atom L117, visit_list L132-373)
     expand_visitor.rs Expander::visit (L228-567): scope tracking for let / lambda / define, depth limit 512
   steel-parser/src/ast.rs List::make_improper (L1191).

   Not modelled (outside the envelope of the generators, stated as assumptions of the check): vector and
   bytevector patterns, MacroPattern::Quote / QuotedExpr / Keyword, datum->syntax, syntax-const-if,
   #%syntax-span, source-id based suppression of macro uses (all uses are in the source of the definition). *)
From Coq Require Import List String Ascii Bool Arith Lia.
Import ListNotations.
Open Scope string_scope.
Open Scope list_scope.
Open Scope nat_scope.

(* ------------------------------------------------------------------ syntax *)
(* Identifiers carry their *origin*: 0 = written by the user, i > 0 = copied from a macro template by
   the i-th macro instantiation of the expansion.  The engine has no such field: nothing in the
   expander below reads it (it is only written by [stamp]); it is what the hygienic ("marks")
   resolution compares and what the engine's resolution (by spelling) ignores.
   [UId] is an identifier whose SyntaxObject has unresolved = true (set by the renamer on template
   identifiers that are neither pattern variables nor introduced binders). *)
Inductive sx : Type :=
| Id (s : string) (o : nat)
| UId (s : string) (o : nat)
| Lit (s : string)
| SL (xs : list sx) (imp : bool).     (* List { args, improper }: improper => last element is the tail *)

Inductive pat : Type :=
| PSingle (v : string)
| PSyntax (s : string)
| PLit (s : string)
| PMany (p : pat)
| PNested (ps : list pat)             (* Nested(PatternList, false); a dotted tail is a trailing PRest *)
| PRest (p : pat).

Definition ELL := "...".
Definition is_ell (e : sx) : bool :=
  match e with Id s _ | UId s _ => String.eqb s ELL | _ => false end.
Definition is_many (p : pat) : bool := match p with PMany _ => true | _ => false end.
Definition mem (s : string) (l : list string) : bool := existsb (String.eqb s) l.
Definition KEYWORDS := ["define"; "lambda"; "begin"; "if"].

Fixpoint removelast' {A} (l : list A) : list A :=
  match l with [] => [] | [_] => [] | x :: r => x :: removelast' r end.
Fixpoint last_opt {A} (l : list A) : option A :=
  match l with [] => None | [x] => Some x | _ :: r => last_opt r end.
Definition has_rest (ps : list pat) : bool :=
  match last_opt ps with Some (PRest _) => true | _ => false end.

(* ------------------------------------------------------------------ matching (bool) *)
(* what match_list_pattern computes before its loop *)
Record mstate := { m_ok : bool; m_es : list sx; m_k : nat; m_tail : list sx; m_imp : bool }.

Definition mprep (ps : list pat) (xs : list sx) (imp : bool) : mstate :=
  let hr := has_rest ps in
  let np := List.length ps - (if hr then 1 else 0) in
  let proper := if imp then removelast' xs else xs in
  let nl := List.length proper in
  let has_ell := existsb is_many ps in
  let multi := has_ell || hr in
  let len_ok := if multi then np <=? nl + 1 else nl =? np in
  let unmatched := if has_ell then skipn nl xs else skipn np xs in
  let tail_ok := hr || match unmatched with [] => true | _ => false end in
  {| m_ok := len_ok && tail_ok; m_es := proper; m_k := nl + 1 - np; m_tail := unmatched; m_imp := imp |}.

Section Match.
  (* bound s = in_scope.contains(s) || globals.contains(s): a literal only matches an identifier that is
     not locally bound (GlobalMap::Map::contains is constantly false, expand_visitor.rs L88) *)
  Variable bound : string -> bool.

  Definition syntax_matches (v : string) (e : sx) : bool :=
    match e with
    | Id s _ | UId s _ =>
        String.eqb s ELL                                  (* TokenType::Ellipses => true (L1041) *)
        || (String.eqb s v && (mem s KEYWORDS || negb (bound s)))
    | _ => false
    end.

  (* the `for _ in 0..expected_many_captures` loop of a Many pattern *)
  Definition m_items (ms : pat -> sx -> bool) (sub : pat) : nat -> list sx -> option (list sx) :=
    fix items (n : nat) (es : list sx) {struct n} : option (list sx) :=
      match n with
      | O => Some es
      | S n' => match es with
                | e :: es' => if ms sub e then items n' es' else None
                | [] => None
                end
      end.

  (* the loop of match_list_pattern over the patterns, parameterised by the matcher of one pattern *)
  Definition match_go_gen (ms : pat -> sx -> bool) : list pat -> mstate -> bool :=
    fix go (ps : list pat) (st : mstate) {struct ps} : bool :=
    match ps with
    | [] => true
    | p :: ps' =>
        match p with
        | PRest q =>
            match ps' with
            | [] =>
                match m_imp st, m_tail st with
                | true, [e] => ms q e
                | _, _ =>
                    match q with                          (* match_rest_pattern *)
                    | PSingle _ => true
                    | PNested _ => ms q (SL (m_tail st) (m_imp st))
                    | _ => false
                    end
                end
            | _ => false                                  (* Rest not last: unreachable!() *)
            end
        | PMany sub =>
            match m_items ms sub (m_k st) (m_es st) with
            | Some es' => go ps' {| m_ok := true; m_es := es'; m_k := m_k st; m_tail := m_tail st; m_imp := m_imp st |}
            | None => false
            end
        | _ =>
            match m_es st with
            | e :: es' => ms p e &&
                          go ps' {| m_ok := true; m_es := es'; m_k := m_k st; m_tail := m_tail st; m_imp := m_imp st |}
            | [] => false
            end
        end
    end.

  Fixpoint match_single (p : pat) (e : sx) {struct p} : bool :=
    match p with
    | PMany _ => false                                    (* unreachable!() *)
    | PRest _ => false                                    (* unreachable!() *)
    | PSingle _ => true
    | PSyntax v => syntax_matches v e
    | PLit l => match e with Lit s => String.eqb s l | _ => false end
    | PNested ps =>
        match e with
        | SL xs imp => let st := mprep ps xs imp in m_ok st && match_go_gen match_single ps st
        | _ => match ps with                              (* non_list_match *)
               | [PMany _; PRest q] => match_single q e
               | _ => false
               end
        end
    end.

  Definition match_go := match_go_gen match_single.

  Definition match_list (ps : list pat) (xs : list sx) (imp : bool) : bool :=
    let st := mprep ps xs imp in m_ok st && match_go ps st.
End Match.

(* ------------------------------------------------------------------ bindings *)
Inductive res (A : Type) : Type := Ok (a : A) | Err (kind : string) | OutOfFuel.
Arguments Ok {A} _. Arguments Err {A} _. Arguments OutOfFuel {A}.
Definition bind {A B} (r : res A) (f : A -> res B) : res B :=
  match r with Ok a => f a | Err k => Err k | OutOfFuel => OutOfFuel end.
Notation "'do' x <- r ; k" := (bind r (fun x => k)) (at level 200, x pattern, r at level 100, k at level 200).

Definition env := list (string * sx).          (* newest first; FxHashMap::insert overwrites *)
Fixpoint lookup (x : string) (s : env) : option sx :=
  match s with [] => None | (y, v) :: r => if String.eqb x y then Some v else lookup x r end.

Fixpoint pvars (p : pat) : list string :=
  match p with
  | PSingle v => [v]
  | PMany q | PRest q => pvars q
  | PNested ps => flat_map pvars ps
  | _ => []
  end.

(* values entering the bindings have introduced_via_macro = true on every atom (MacroCase::expand
   L500-509), which disables the in-scope renaming of ReplaceExpressions for them: UId -> Id *)
Fixpoint freeze (e : sx) : sx :=
  match e with
  | UId s o => Id s o
  | SL xs imp => SL (map freeze xs) imp
  | _ => e
  end.

(* collect_bindings after the fix of the ellipsis count (fix: commit in /repo, see known_findings.d/C13.json) *)
Definition cprep_k (ps : list pat) (n : nat) (imp : bool) : nat :=
  let np := List.length ps - (if has_rest ps then 1 else 0) in
  let nl := if imp then n - 1 else n in
  nl + 1 - np.

(* result: bindings (newest first) and the identifiers whose BindingKind is Many *)
Definition cres := res (env * list string).

Definition c_items (co : pat -> sx -> cres) (sub : pat) : nat -> list sx -> res (list env * list string * list sx) :=
  fix items (n : nat) (es : list sx) {struct n} : res (list env * list string * list sx) :=
    match n with
    | O => Ok ([], [], es)
    | S n' => match es with
              | e :: es' =>
                  do (b, kk) <- co sub e;
                  do (bs, kks, rest) <- items n' es';
                  Ok (b :: bs, kk ++ kks, rest)
              | [] => Ok ([], [], [])
              end
    end.

Definition collect_go_gen (co : pat -> sx -> cres) : list pat -> list sx -> nat -> bool -> cres :=
  fix go (ps : list pat) (es : list sx) (k : nat) (imp : bool) {struct ps} : cres :=
  match ps with
  | [] => Ok ([], [])
  | p :: ps' =>
      match p with
      | PRest q =>
          let arg := match es with
                     | [] => SL [] false
                     | [e] => if imp then e else SL es imp
                     | _ => SL es imp
                     end in
          (* collect_bindings(&[pat], &[arg], .., false) *)
          do (b1, k1) <- co q arg;
          (* the loop goes on with the iterator advanced by one (only reachable when Rest is last) *)
          do (b2, k2) <- go ps' (tl es) k imp;
          Ok (b2 ++ b1, k2 ++ k1)
      | PMany sub =>
          do (bs, kks, rest) <- c_items co sub k es;
          let vars := pvars sub in
          let b1 := map (fun x => (x, SL (flat_map (fun b => match lookup x b with Some v => [v] | None => [] end) bs) false)) vars in
          do (b2, k2) <- go ps' rest k imp;
          Ok (b2 ++ b1, k2 ++ vars ++ kks)
      | PSingle s =>
          match es with
          | e :: es' => do (b2, k2) <- go ps' es' k imp; Ok (b2 ++ [(s, freeze e)], k2)
          | [] => Err "ArityMismatch"
          end
      | PSyntax _ =>
          match es with
          | e :: es' => do (b1, k1) <- co p e; do (b2, k2) <- go ps' es' k imp; Ok (b2 ++ b1, k2 ++ k1)
          | [] => Err "BadSyntax"
          end
      | PNested _ =>
          match es with
          | e :: es' => do (b1, k1) <- co p e; do (b2, k2) <- go ps' es' k imp; Ok (b2 ++ b1, k2 ++ k1)
          | [] => Err "ArityMismatch"
          end
      | PLit _ => go ps' (tl es) k imp
      end
  end.

Fixpoint collect_one (p : pat) (e : sx) {struct p} : cres :=
  match p with
  | PSingle s => Ok ([(s, freeze e)], [])
  | PSyntax s =>
      match e with
      | Id x _ | UId x _ => if String.eqb x ELL || String.eqb x s then Ok ([], [])
                            else Err "BadSyntax"
      | _ => Ok ([], [])
      end
  | PLit _ => Ok ([], [])
  | PMany _ => Err "Unreachable"                         (* Many directly under Many / Rest: not built by the parser *)
  | PRest _ => Err "Unreachable"
  | PNested ps =>
      match e with
      | SL xs imp => collect_go_gen collect_one ps xs (cprep_k ps (List.length xs) imp) imp
      | _ => match ps with
             | [PMany sub; PRest q] =>
                 (* non_list_match: the ellipsis matches no item (second fix: commit) *)
                 do (b, k) <- collect_one q e;
                 Ok (b ++ map (fun x => (x, SL [] false)) (pvars sub), k ++ pvars sub)
             | _ => Err "BadSyntax"
             end
      end
  end.

Definition collect_go := collect_go_gen collect_one.

Definition collect (ps : list pat) (xs : list sx) (imp : bool) : cres :=
  collect_go ps xs (cprep_k ps (List.length xs) imp) imp.

(* ------------------------------------------------------------------ template instantiation *)
Fixpoint atoms (e : sx) : list string :=
  match e with
  | Id s _ | UId s _ => [s]
  | Lit _ => []
  | SL xs _ => flat_map atoms xs
  end.

Fixpoint find_ell (xs : list sx) : option nat :=
  match xs with
  | [] => None
  | e :: r => if is_ell e then Some 0 else option_map S (find_ell r)
  end.

Definition unflag (e : sx) : sx := match e with UId s o => Id s o | _ => e end.

(* List::make_improper *)
Definition make_improper (xs : list sx) : sx :=
  match last_opt xs with
  | Some (SL l imp') => SL (removelast' xs ++ l) imp'
  | _ => SL xs true
  end.

Section Inst.
  Variable in_scope : string -> bool.
  Variable is_global : string -> bool.     (* globals.actually_contains *)
  Variable kinds : list string.            (* BindingKind::Many *)

  (* EllipsesExpanderVisitor: pattern variables bound to a list with kind Many; width = common List.length *)
  Definition ell_vars (s : env) (v : sx) : list (string * list sx) :=
    flat_map (fun x => match lookup x s with
                       | Some (SL l _) => if mem x kinds then [(x, l)] else []
                       | _ => []
                       end) (atoms v).

  Fixpoint same_width (w : nat) (vs : list (string * list sx)) : bool :=
    match vs with [] => true | (_, l) :: r => (List.length l =? w) && same_width w r end.

  Fixpoint seq_res {A} (l : list (res A)) : res (list A) :=
    match l with
    | [] => Ok []
    | r :: rs => do a <- r; do as_ <- seq_res rs; Ok (a :: as_)
    end.

  (* ReplaceExpressions::visit; [fb] = fallback_bindings *)
  Fixpoint inst (fuel : nat) (s fb : env) (t : sx) {struct fuel} : res sx :=
    match fuel with
    | O => OutOfFuel
    | S f =>
        let atom (name : string) (o : nat) (flagged : bool) :=
          let name' := if flagged && in_scope name && negb (is_global name) then String.append "##" name else name in
          if String.eqb name' "_" then Ok t else
          match lookup name' s with
          | Some b => Ok (unflag b)
          | None => Ok (if flagged then UId name' o else Id name' o)
          end in
        match t with
        | Id name o => atom name o false
        | UId name o => atom name o true
        | Lit _ => Ok t
        | SL args imp =>
            do args1 <- (
              match find_ell args with
              | None | Some O => Ok args
              | Some (S i) =>
                  let splice (items : list sx) := Ok (firstn i args ++ items ++ skipn (S (S i)) args) in
                  match nth i args (Lit "") with
                  | Id var _ | UId var _ =>
                      match lookup var s with
                      | None => Ok args
                      | Some (SL l _) => splice (map unflag l)
                      | Some _ =>
                          match lookup var fb with
                          | None => Ok args
                          | Some (SL l _) => splice (map unflag l)
                          | Some _ => Err "BadSyntax"
                          end
                      end
                  | (SL _ _) as v =>
                      let vs := ell_vars s v in
                      match vs with
                      | [] => Err "BadSyntax"                       (* No pattern variables before ellipses *)
                      | (_, l0) :: _ =>
                          let w := List.length l0 in
                          if negb (same_width w vs) then Err "BadSyntax" else
                          do rs <- seq_res (map (fun j =>
                                   let s' := map (fun '(x, l) => (x, nth j l (Lit ""))) vs ++ s in
                                   inst f s' (map (fun '(x, l) => (x, SL l false)) vs) v) (seq 0 w));
                          splice rs
                      end
                  | Lit _ => Err "BadSyntax"
                  end
              end);
            do args2 <- seq_res (map (inst f s fb) args1);
            Ok (if imp then make_improper args2 else SL args2 false)
        end
    end.
  (* during the iteration of a list sub-template the fallback map is exactly the collected variables
     with their full lists (core::mem::swap, replace_idents.rs L303) *)
End Inst.

(* ------------------------------------------------------------------ definition-time renamer *)
Definition PFX (s : string) : string := String.append "##" s.
(* spellings the lexer turns into keyword tokens (steel-parser lexer.rs L462-475): not Identifier tokens *)
Definition TOKENS := ["if"; "let"; "define"; "begin"; "lambda"; "fn"; "λ"; "quote"; "syntax-rules";
  "define-syntax"; "..."; "set!"; "require"; "return!"; "%plain-let"; "#%plain-lambda"; "defn"; "#%define"].
Definition LAMBDAS := ["lambda"; "fn"; "λ"; "#%plain-lambda"].
Definition LETS := ["let"; "%plain-let"].
Definition DEFINES := ["define"; "defn"; "#%define"].

Section Ren.
  Variable pv lits : list string.

  (* RenameIdentifiersVisitor::visit_atom *)
  Definition ren_atom (intro : list string) (e : sx) : sx :=
    match e with
    | Id s o | UId s o =>
        if mem s TOKENS || mem s lits || String.eqb s "datum->syntax" then e
        else if mem s intro || mem s pv then Id (PFX s) o else UId s o
    | _ => e
    end.

  (* a binder position of define / lambda / let: always prefixed; recorded unless a pattern variable *)
  Definition ren_binder (intro : list string) (e : sx) : sx * list string :=
    match e with
    | Id s o | UId s o =>
        if mem s TOKENS then (e, intro) else (Id (PFX s) o, if mem s pv then intro else s :: intro)
    | _ => (e, intro)
    end.

  Fixpoint ren_binders (intro : list string) (l : list sx) : list sx * list string :=
    match l with
    | [] => ([], intro)
    | e :: r => let (e', i1) := ren_binder intro e in
                let (r', i2) := ren_binders i1 r in (e' :: r', i2)
    end.

  (* second visit of the binding list of a named let (rename_idents.rs L356-360 visits args[2..]) *)
  Fixpoint reflag (intro : list string) (e : sx) : sx :=
    match e with
    | SL xs imp => SL (map (reflag intro) xs) imp
    | _ => ren_atom intro e
    end.

  (* RenameIdentifiersVisitor::visit / visit_list: one left-to-right traversal, the set of introduced
     identifiers only grows (it is never scoped) *)
  Fixpoint ren (intro : list string) (t : sx) {struct t} : sx * list string :=
    match t with
    | SL xs imp =>
        let visit_all := fix va (intro : list string) (l : list sx) {struct l} : list sx * list string :=
          match l with
          | [] => ([], intro)
          | e :: r => let (e', i1) := ren intro e in
                      let (r', i2) := va i1 r in (e' :: r', i2)
          end in
        let pairs_of := fix lp (intro : list string) (l : list sx) {struct l} : list sx * list string :=
          match l with
          | [] => ([], intro)
          | pr :: r =>
              let (pr', i1) :=
                match pr with
                | SL (n :: v :: more) ip =>
                    let (n', i1) := ren_binder intro n in
                    let (v', i2) := ren i1 v in (SL (n' :: v' :: more) ip, i2)
                | SL [n] ip => let (n', i1) := ren_binder intro n in (SL [n'] ip, i1)
                | _ => (pr, intro)
                end in
              let (r', i2) := lp i1 r in (pr' :: r', i2)
          end in
        match xs with
        | ((Id h _ | UId h _) as hd) :: a1 :: rest =>
            if mem h DEFINES then
              let (a1', i1) := match a1 with
                               | SL ys iy => let (ys', i) := ren_binders intro ys in (SL ys' iy, i)
                               | _ => ren_binder intro a1
                               end in
              let (rest', i2) := visit_all i1 rest in (SL (hd :: a1' :: rest') imp, i2)
            else if mem h LAMBDAS then
              let (a1', i1) := match a1 with
                               | SL ys iy => let (ys', i) := ren_binders intro ys in (SL ys' iy, i)
                               | _ => ren_binder intro a1
                               end in
              let (rest', i2) := visit_all i1 rest in (SL (hd :: a1' :: rest') imp, i2)
            else if mem h LETS then
              match a1 with
              | SL prs ip =>
                  let (prs', i1) := pairs_of intro prs in
                  let (rest', i2) := visit_all i1 rest in (SL (hd :: SL prs' ip :: rest') imp, i2)
              | Id _ _ | UId _ _ =>
                  let (a1', i1) := ren_binder intro a1 in
                  match rest with
                  | SL prs ip :: body =>
                      let (prs', i2) := pairs_of i1 prs in
                      let (body', i3) := visit_all i2 body in
                      (SL (hd :: a1' :: reflag i2 (SL prs' ip) :: body') imp, i3)
                  | _ => let (rest', i2) := visit_all i1 rest in (SL (hd :: a1' :: rest') imp, i2)
                  end
              | _ => let (rest', i2) := visit_all intro rest in (SL (hd :: a1 :: rest') imp, i2)
              end
            else let (xs', i) := visit_all intro xs in (SL xs' imp, i)
        | _ => let (xs', i) := visit_all intro xs in (SL xs' imp, i)
        end
    | _ => (ren_atom intro t, intro)
    end.
End Ren.

(* MacroPattern::mangle *)
Fixpoint mangle (lits : list string) (p : pat) : pat :=
  match p with
  | PSingle s => if mem s lits || String.eqb s "_" then p else PSingle (PFX s)
  | PNested ps => PNested (map (mangle lits) ps)
  | PMany q => PMany (mangle lits q)
  | PRest q => PRest (mangle lits q)
  | _ => p
  end.

Record mcase := { c_pats : list pat; c_tmpl : sx }.
Record macro := { m_name : string; m_lits : list string; m_cases : list mcase }.

(* MacroCase::parse_from_pattern_pair: [ps] are the patterns after the macro keyword *)
Definition mk_case (lits : list string) (ps : list pat) (tmpl : sx) : mcase :=
  let pv := filter (fun s => negb (String.eqb s "_")) (flat_map pvars ps) in
  {| c_pats := map (mangle lits) ps; c_tmpl := fst (ren pv lits [] tmpl) |}.

Definition mk_macro (name : string) (lits : list string) (cases : list (list pat * sx)) : macro :=
  {| m_name := name; m_lits := lits; m_cases := map (fun '(ps, t) => mk_case lits ps t) cases |}.

(* ------------------------------------------------------------------ the expander driver *)
Fixpoint stamp (i : nat) (t : sx) : sx :=
  match t with
  | Id s _ => Id s i
  | UId s _ => UId s i
  | SL xs imp => SL (map (stamp i) xs) imp
  | _ => t
  end.

Fixpoint find_macro (h : string) (ms : list macro) : option macro :=
  match ms with [] => None | m :: r => if String.eqb h (m_name m) then Some m else find_macro h r end.

Definition top_ids (l : list sx) : list string :=
  flat_map (fun e => match e with Id s _ | UId s _ => [s] | _ => [] end) l.

Definition INST_FUEL := 4096.

Section Expand.
  Variable ms : list macro.
  Variable globals : list string.

  (* one macro use: SteelMacro::expand = match_case + MacroCase::expand *)
  Definition expand_use (m : macro) (scope : list string) (i : nat) (args : list sx) (imp : bool) : res sx :=
    let bound := fun s => mem s scope in
    match find (fun c => match_list bound (c_pats c) args imp) (m_cases m) with
    | None => Err "BadSyntax"
    | Some c =>
        do (b, kinds) <- collect (c_pats c) args imp;
        inst (fun s => mem s scope) (fun s => mem s globals) kinds INST_FUEL b [] (stamp i (c_tmpl c))
    end.

  (* Expander::visit; returns the expanded form, the scope set after it (define adds to the current
     layer) and the next instance number *)
  Fixpoint expand (fuel depth : nat) (scope : list string) (n : nat) (e : sx) {struct fuel}
    : res (sx * list string * nat) :=
    match fuel with
    | O => OutOfFuel
    | S f =>
        if 512 <? depth then Err "Generic" else
        let all := fix va (scope : list string) (n : nat) (l : list sx) {struct l} : res (list sx * list string * nat) :=
          match l with
          | [] => Ok ([], scope, n)
          | x :: r => do (x', sc1, n1) <- expand f depth scope n x;
                      do (r', sc2, n2) <- va sc1 n1 r;
                      Ok (x' :: r', sc2, n2)
          end in
        match e with
        | SL (((Id h _ | UId h _) as hd) :: args) imp =>
            if String.eqb h "quote" || String.eqb h "define-syntax" || String.eqb h "syntax-rules" then Ok (e, scope, n)
            else if mem h LAMBDAS then
              match args with
              | params :: body =>
                  let inner := match params with
                               | SL ps _ => top_ids ps ++ scope
                               | _ => top_ids [params] ++ scope
                               end in
                  do (body', _, n1) <- all inner n body;
                  Ok (SL (hd :: params :: body') imp, scope, n1)
              | [] => Ok (e, scope, n)
              end
            else if mem h LETS then
              match args with
              | SL prs ip :: body =>
                  let pairs := fix lp (scope : list string) (n : nat) (l : list sx) {struct l} : res (list sx * list string * nat) :=
                    match l with
                    | [] => Ok ([], scope, n)
                    | SL (nm :: v :: more) ipp :: r =>
                        let sc1 := top_ids [nm] ++ scope in
                        do (v', sc2, n1) <- expand f depth sc1 n v;
                        do (r', sc3, n2) <- lp sc2 n1 r;
                        Ok (SL (nm :: v' :: more) ipp :: r', sc3, n2)
                    | pr :: r =>
                        let sc1 := match pr with SL (nm :: _) _ => top_ids [nm] ++ scope | _ => scope end in
                        do (r', sc3, n2) <- lp sc1 n r; Ok (pr :: r', sc3, n2)
                    end in
                  do (prs', sc1, n1) <- pairs scope n prs;
                  do (body', _, n2) <- all sc1 n1 body;
                  Ok (SL (hd :: SL prs' ip :: body') imp, scope, n2)
              | a1 :: rest =>
                  do (rest', _, n1) <- all scope n rest;
                  Ok (SL (hd :: a1 :: rest') imp, scope, n1)
              | [] => Ok (e, scope, n)
              end
            else if mem h DEFINES then
              match args with
              | nm :: rest =>
                  let sc1 := match nm with
                             | SL (x :: _) _ => top_ids [x] ++ scope
                             | _ => top_ids [nm] ++ scope
                             end in
                  do (rest', sc2, n1) <- all sc1 n rest;
                  Ok (SL (hd :: nm :: rest') imp, sc2, n1)
              | [] => Err "BadSyntax"
              end
            else
              match find_macro h ms with
              | Some m =>
                  do out <- expand_use m scope (S n) args imp;
                  expand f (S depth) scope (S n) out
              | None => do (xs', sc, n1) <- all scope n (hd :: args); Ok (SL xs' imp, sc, n1)
              end
        | SL xs imp => do (xs', sc, n1) <- all scope n xs; Ok (SL xs' imp, sc, n1)
        | _ => Ok (e, scope, n)
        end
    end.
End Expand.

Definition EXP_FUEL := 2000.
Definition expand_top (ms : list macro) (globals : list string) (e : sx) : res sx :=
  do (r, _, _) <- expand ms globals EXP_FUEL 0 [] 0 e; Ok r.

(* ------------------------------------------------------------------ binding-resolution view *)
(* An identifier occurrence of the fully expanded program is (spelling, origin).  The engine resolves by
   spelling (all that is left after expansion); the hygienic reading resolves by (spelling, origin): an
   identifier can only be bound by a binder of its own origin (marks / renaming-per-instantiation). *)
Definition ident := (string * nat)%type.
Definition ident_of (e : sx) : option ident :=
  match e with Id s o | UId s o => if mem s TOKENS then None else Some (s, o) | _ => None end.
Definition binders_of (l : list sx) : list ident :=
  flat_map (fun e => match ident_of e with Some b => [b] | None => [] end) l.

(* every variable occurrence with the binders in scope (innermost first); core forms lambda, let,
   named let, internal define (scope: the rest of the body), quote *)
(* scope a body form contributes to the forms after it (internal define) *)
Definition def_scope (g : list ident) (x : sx) : list ident :=
  match x with
  | SL ((Id h _ | UId h _) :: nm :: _) _ =>
      if mem h DEFINES then
        match nm with
        | SL (f :: _) _ => binders_of [f] ++ g
        | _ => binders_of [nm] ++ g
        end
      else g
  | _ => g
  end.
Definition occs_seq (oc : list ident -> sx -> list (ident * list ident)) : list ident -> list sx -> list (ident * list ident) :=
  fix sq (g : list ident) (l : list sx) {struct l} : list (ident * list ident) :=
    match l with
    | [] => []
    | x :: r => let g' := def_scope g x in oc g' x ++ sq g' r
    end.
Definition occs_inits (oc : list ident -> sx -> list (ident * list ident)) (g : list ident) : list sx -> list (ident * list ident) :=
  fix ini (l : list sx) {struct l} : list (ident * list ident) :=
    match l with
    | [] => []
    | SL (_ :: v :: _) _ :: r => oc g v ++ ini r
    | _ :: r => ini r
    end.
Fixpoint let_names (l : list sx) : list sx :=
  match l with
  | [] => []
  | SL (nm :: _) _ :: r => nm :: let_names r
  | _ :: r => let_names r
  end.

Fixpoint occs (g : list ident) (e : sx) {struct e} : list (ident * list ident) :=
  match e with
  | SL xs imp =>
      match xs with
      | (Id h _ | UId h _) :: args =>
          if String.eqb h "quote" then []
          else if mem h LAMBDAS then
            match args with
            | SL ps _ :: body => occs_seq occs (binders_of ps ++ g) body
            | p :: body => occs_seq occs (binders_of [p] ++ g) body
            | [] => []
            end
          else if mem h LETS then
            match args with
            | SL prs _ :: body => occs_inits occs g prs ++ occs_seq occs (binders_of (let_names prs) ++ g) body
            | nm :: SL prs _ :: body =>
                occs_inits occs g prs ++ occs_seq occs (binders_of (let_names prs) ++ binders_of [nm] ++ g) body
            | _ => []
            end
          else if mem h DEFINES then
            match args with
            | SL (f :: ps) _ :: body => occs_seq occs (binders_of ps ++ g) body
            | _ :: body => occs_seq occs g body
            | [] => []
            end
          else occs_seq occs g xs
      | _ => occs_seq occs g xs
      end
  | _ => match ident_of e with Some v => [(v, g)] | None => [] end
  end.

Definition same_sp (v b : ident) : bool := String.eqb (fst v) (fst b).
Definition same_id (v b : ident) : bool := String.eqb (fst v) (fst b) && Nat.eqb (snd v) (snd b).

Fixpoint index_of (f : ident -> bool) (g : list ident) : option nat :=
  match g with [] => None | b :: r => if f b then Some 0 else option_map S (index_of f r) end.

(* which binder (index in the scope, None = global) an occurrence refers to *)
Definition resolve_name (o : ident * list ident) : option nat := index_of (same_sp (fst o)) (snd o).
Definition resolve_mark (o : ident * list ident) : option nat := index_of (same_id (fst o)) (snd o).

Definition resolution_engine (e : sx) : list (option nat) := map resolve_name (occs [] e).
Definition resolution_hygienic (e : sx) : list (option nat) := map resolve_mark (occs [] e).

(* KnownClass: some occurrence whose nearest enclosing binder of the same spelling has another origin.
   Kinds (findings of known_findings.d/C13.json):
     both origins are macro instantiations            -> c13_nested_same_spelling
     occurrence from a template, binder from the user -> c13_use_site_shadowing
     occurrence from the user, binder from a template -> c13_unrenamed_binder *)
Definition captured (o : ident * list ident) : bool :=
  match find (same_sp (fst o)) (snd o) with
  | Some b => negb (Nat.eqb (snd b) (snd (fst o)))
  | None => false
  end.
Definition known_class (e : sx) : bool := existsb captured (occs [] e).

Definition capture_kind (o : ident * list ident) : string :=
  match find (same_sp (fst o)) (snd o) with
  | Some b =>
      if Nat.eqb (snd b) (snd (fst o)) then "none"
      else match snd (fst o), snd b with
           | O, _ => "unrenamed_binder"
           | _, O => "use_site_shadowing"
           | _, _ => "nested_same_spelling"
           end
  | None => "none"
  end.

(* a syntactic sufficient condition on the expanded program: every binder that comes from a template
   carries the ## prefix, no user identifier does, template-free identifiers are never bound by the
   user, and a ##-spelling belongs to one instantiation only *)
Definition has_pfx (s : string) : bool := String.prefix "##" s.
Definition syntactic_ok (o : ident * list ident) : bool :=
  let v := fst o in
  forallb (fun b : ident =>
    negb (same_sp v b) ||
    (* same spelling: *)
    (if has_pfx (fst v) then negb (Nat.eqb (snd v) 0) && Nat.eqb (snd b) (snd v)
     else Nat.eqb (snd v) 0 && Nat.eqb (snd b) 0)) (snd o).

(* ------------------------------------------------------------------ rendering (for the correspondence) *)
Fixpoint join (sep : string) (l : list string) : string :=
  match l with [] => "" | [x] => x | x :: r => String.append x (String.append sep (join sep r)) end.

Fixpoint show (e : sx) : string :=
  match e with
  | Id s _ | UId s _ | Lit s => s
  | SL xs imp =>
      let parts := map show xs in
      if imp then
        String.append "(" (String.append (join " " (removelast' parts))
          (String.append " . " (String.append (match last_opt parts with Some p => p | None => "" end) ")")))
      else String.append "(" (String.append (join " " parts) ")")
  end.

Definition show_res (r : res sx) : string :=
  match r with Ok e => show e | Err k => String.append "E:" k | OutOfFuel => "OUT-OF-FUEL" end.

Definition show_env (r : cres) : string :=
  match r with
  | Ok (b, _) => join " " (map (fun '(x, v) => String.append "[" (String.append x (String.append " " (String.append (show v) "]")))) b)
  | Err k => String.append "E:" k
  | OutOfFuel => "OUT-OF-FUEL"
  end.

Fixpoint digits (fuel n : nat) (acc : string) : string :=
  match fuel with
  | O => acc
  | S f => let d := String (ascii_of_nat (48 + n mod 10)) acc in
           if n / 10 =? 0 then d else digits f (n / 10) d
  end.
Definition nat_str (n : nat) : string := digits 20 n "".
Definition show_resolution (l : list (option nat)) : string :=
  join " " (map (fun o => match o with Some k => nat_str k | None => "g" end) l).

(* a macro use evaluated in isolation: match + collect + instantiate (what the engine does for one use) *)
Definition use_case (lits : list string) (ps : list pat) (tmpl : sx) (args : list sx) (imp : bool) : string :=
  let c := mk_case lits ps tmpl in
  if match_list (fun _ => false) (c_pats c) args imp then
    match collect (c_pats c) args imp with
    | Ok (b, kinds) => show_res (inst (fun _ => false) (fun _ => false) kinds INST_FUEL b [] (c_tmpl c))
    | Err k => String.append "E:" k
    | OutOfFuel => "OUT-OF-FUEL"
    end
  else "NOMATCH".

(* ------------------------------------------------------------------ specification side of matching *)
(* The standard reading of "instantiate the pattern itself as a template": structural on the pattern, no
   fuel, no quirks.  Used only in the statement of C13_match_sound_complete. *)
Definition proj (j : nat) (vars : list string) (s : env) : env :=
  map (fun x => (x, match lookup x s with Some (SL l _) => nth j l (Lit "") | _ => Lit "" end)) vars ++ s.

Fixpoint seq_opt {A} (l : list (option A)) : option (list A) :=
  match l with
  | [] => Some []
  | Some a :: r => match seq_opt r with Some r' => Some (a :: r') | None => None end
  | None :: _ => None
  end.

(* items followed by an optional dotted tail; `( . t)` is t *)
Definition combine_tail (items : list sx) (tl : option sx) : sx :=
  match tl with
  | None => SL items false
  | Some (SL l imp') => SL (items ++ l) imp'
  | Some t => match items with [] => t | _ => SL (items ++ [t]) true end
  end.

Definition pinst_go_gen (pi : pat -> env -> option sx) (s : env) : list pat -> option (list sx * option sx) :=
  fix go (ps : list pat) {struct ps} : option (list sx * option sx) :=
    match ps with
    | [] => Some ([], None)
    | p :: ps' =>
        match p with
        | PRest r => match pi r s with Some t => Some ([], Some t) | None => None end
        | PMany q =>
            match pvars q with
            | [] => None
            | x :: _ =>
                match lookup x s with
                | Some (SL l _) =>
                    match seq_opt (map (fun j => pi q (proj j (pvars q) s)) (seq 0 (List.length l))), go ps' with
                    | Some reps, Some (its, tl) => Some (reps ++ its, tl)
                    | _, _ => None
                    end
                | _ => None
                end
            end
        | _ => match pi p s, go ps' with
               | Some e, Some (its, tl) => Some (e :: its, tl)
               | _, _ => None
               end
        end
    end.

Fixpoint pinst (p : pat) (s : env) {struct p} : option sx :=
  match p with
  | PSingle v => lookup v s
  | PSyntax x => Some (Id x 0)
  | PLit l => Some (Lit l)
  | PNested ps => match pinst_go_gen pinst s ps with
                  | Some (its, tl) => Some (combine_tail its tl)
                  | None => None
                  end
  | _ => None
  end.

(* the class of patterns covered: what MacroPattern::parse_from_list builds from a pattern whose dotted
   tails are variables - at most one ellipsis per list level, the ellipsis sub-pattern binds at least one
   variable, a dotted tail (Rest) is last and is a variable, no wildcard, pairwise distinct variables *)
Definition okvar (v : string) : bool := negb (String.eqb v "_") && negb (String.eqb v ELL).
Definition is_nil {A} (l : list A) : bool := match l with [] => true | _ => false end.

Definition wf_items_gen (w : pat -> bool) : bool -> list pat -> bool :=
  fix go (allow : bool) (ps : list pat) {struct ps} : bool :=
    match ps with
    | [] => true
    | p :: ps' =>
        match p with
        | PRest r => match r, ps' with PSingle v, [] => okvar v | _, _ => false end
        | PMany q => allow && w q && negb (is_nil (pvars q)) && go false ps'
        | _ => w p && go allow ps'
        end
    end.

Fixpoint wf1 (p : pat) : bool :=
  match p with
  | PSingle v => okvar v
  | PSyntax s => negb (String.eqb s ELL)
  | PLit _ => true
  | PNested ps => wf_items_gen wf1 true ps
  | _ => false
  end.

Fixpoint nodupb (l : list string) : bool :=
  match l with [] => true | x :: r => negb (mem x r) && nodupb r end.

Definition wf_pattern (ps : list pat) : bool :=
  wf_items_gen wf1 true ps && nodupb (flat_map pvars ps).

(* forms as the user writes them: origin 0, not flagged, no ellipsis token, dotted lists in reader normal
   form (at least one element before the dot, the tail is an atom) *)
Fixpoint plain (e : sx) : bool :=
  match e with
  | Id s o => Nat.eqb o 0 && negb (String.eqb s ELL)
  | UId _ _ => false
  | Lit _ => true
  | SL xs imp =>
      forallb plain xs &&
      (negb imp || (Nat.leb 2 (List.length xs) &&
                    match last_opt xs with Some (SL _ _) => false | _ => true end))
  end.

(* ellipsis depth of a variable in a pattern, and the shape of a binding of that depth *)
Definition vdepth_items_gen (vd : pat -> nat) (x : string) : list pat -> nat :=
  fix go (ps : list pat) {struct ps} : nat :=
    match ps with
    | [] => 0
    | p :: ps' => if mem x (pvars p) then vd p else go ps'
    end.
Fixpoint vdepth (x : string) (p : pat) {struct p} : nat :=
  match p with
  | PMany q => S (vdepth x q)
  | PRest q => vdepth x q
  | PNested ps => vdepth_items_gen (vdepth x) x ps
  | _ => 0
  end.
Fixpoint shape (d : nat) (v : sx) : Prop :=
  match d with
  | O => True
  | S d' => exists l, v = SL l false /\ Forall (shape d') l
  end.
