(* C14 — lemmas. *)
From Coq Require Import List Bool String Ascii Arith Lia.
From SV Require Import gen.Gen_C14 c14.Model_C14.
Import ListNotations.
Open Scope string_scope.

(* ------------------------------------------------------------------ strings *)
Lemma append_inv_head : forall p a b : string, p ++ a = p ++ b -> a = b.
Proof.
  induction p as [| c p IH]; intros a b H; cbn in H; [exact H |].
  injection H as H. apply IH. exact H.
Qed.

Lemma append_assoc_s : forall a b c : string, (a ++ b) ++ c = a ++ (b ++ c).
Proof. induction a as [| x a IH]; intros b c; cbn; [reflexivity | rewrite IH; reflexivity]. Qed.

Lemma starts_with_app : forall p s, starts_with p (p ++ s) = true.
Proof.
  induction p as [| c p IH]; intros s; cbn; [reflexivity |].
  rewrite Ascii.eqb_refl. cbn. apply IH.
Qed.

(* digits, then something that starts with a non-digit: the split point is determined *)
Lemma digits_split : forall i j (c : ascii) r1 r2,
  all_digits i = true -> all_digits j = true -> is_digit c = false ->
  i ++ String c r1 = j ++ String c r2 -> i = j /\ r1 = r2.
Proof.
  induction i as [| a i IH]; intros j c r1 r2 Hi Hj Hc H.
  - destruct j as [| b j]; cbn in H.
    + injection H as H. auto.
    + injection H as Hcb _. subst b. cbn in Hj. rewrite Hc in Hj. discriminate Hj.
  - destruct j as [| b j]; cbn in H.
    + injection H as Hac _. subst a. cbn in Hi. rewrite Hc in Hi. discriminate Hi.
    + injection H as Hab H. subst b. cbn in Hi, Hj.
      apply andb_true_iff in Hi. apply andb_true_iff in Hj.
      destruct (IH j c r1 r2 (proj2 Hi) (proj2 Hj) Hc H) as [E1 E2]. subst. auto.
Qed.

Lemma sep_shape : sep_ok = true ->
  exists c r, mangler_separator = String c r /\ is_digit c = false.
Proof.
  unfold sep_ok. destruct mangler_separator as [| c r]; intros H; [discriminate H |].
  exists c, r. split; [reflexivity |]. apply negb_true_iff. exact H.
Qed.

Lemma gen_sep_ok : sep_ok = true.
Proof. vm_compute. reflexivity. Qed.

Lemma gen_shapes : prefix_is_id_then_sep = true /\ mangler_prepends_prefix = true /\
                   snapshot_rollback = true /\ cache_hit_skips = true.
Proof. repeat split; reflexivity. Qed.

Lemma mangle_injective : forall i j x y,
  all_digits i = true -> all_digits j = true ->
  mangle i x = mangle j y -> i = j /\ x = y.
Proof.
  intros i j x y Hi Hj H. unfold mangle, module_prefix_of in H.
  rewrite !append_assoc_s in H. apply append_inv_head in H.
  destruct (sep_shape gen_sep_ok) as [c [r [Es Hc]]]. rewrite Es in H. cbn [append] in H.
  destruct (digits_split i j c (r ++ x) (r ++ y) Hi Hj Hc H) as [E1 E2].
  split; [exact E1 |]. apply append_inv_head in E2. exact E2.
Qed.

(* private definitions of different modules never coincide, even under the same spelling *)
Lemma private_disjoint : forall i j x y,
  all_digits i = true -> all_digits j = true -> i <> j -> mangle i x <> mangle j y.
Proof.
  intros i j x y Hi Hj Hne E. destruct (mangle_injective i j x y Hi Hj E) as [E1 _]. contradiction.
Qed.

(* ... nor with any identifier of the requiring program that does not start with the reserved prefix *)
Lemma main_disjoint : forall u i x, starts_with mangler_prefix u = false -> u <> mangle i x.
Proof.
  intros u i x H E. subst u. unfold mangle, module_prefix_of in H.
  rewrite !append_assoc_s in H. rewrite starts_with_app in H. discriminate H.
Qed.

(* ------------------------------------------------------------------ visible names *)
Lemma in_require_defines : forall ro provides v p,
  In (v, p) (require_defines ro provides) <->
  In p provides /\ selected ro p = true /\ v = visible_name ro p.
Proof.
  intros ro provides v p. unfold require_defines. rewrite in_map_iff. split.
  - intros [q [E Hq]]. inversion E; subst. apply filter_In in Hq. tauto.
  - intros [H1 [H2 H3]]. exists p. subst v. split; [reflexivity |]. apply filter_In. tauto.
Qed.

Lemma lookup_in : forall u env v, lookup u env = Some v -> In (u, v) env.
Proof.
  intros u env v H. unfold lookup in H.
  destruct (find (fun b => String.eqb (fst b) u) (rev env)) as [b |] eqn:E; [| discriminate H].
  inversion H; subst v. apply find_some in E. destruct E as [Hin Heq].
  apply String.eqb_eq in Heq. apply in_rev in Hin. destruct b as [k w]. cbn in *. subst k. exact Hin.
Qed.

(* nothing else of the module: whatever a program identifier (not of the reserved form) resolves to
   in the module is a provided, selected name under its modifiers *)
Lemma visible_sound : forall id defs ro provides main_defs u q,
  starts_with mangler_prefix u = false ->
  lookup u (program_env id defs ro provides main_defs) = Some (ModVal id q) ->
  In q provides /\ selected ro q = true /\ u = visible_name ro q.
Proof.
  intros id defs ro provides main_defs u q Hu H. apply lookup_in in H.
  unfold program_env in H. apply in_app_or in H. destruct H as [H | H].
  - unfold module_env in H. apply in_map_iff in H. destruct H as [x [E _]]. inversion E; subst.
    exfalso. exact (main_disjoint (mangle id q) id q Hu eq_refl).
  - apply in_app_or in H. destruct H as [H | H].
    + apply in_map_iff in H. destruct H as [[v p] [E Hin]]. cbn in E. inversion E; subst.
      apply in_require_defines in Hin. exact Hin.
    + apply in_map_iff in H. destruct H as [d [E _]]. discriminate E.
Qed.

Lemma find_rev_app_last : forall (A : Type) (f : A -> bool) l1 l2 b,
  find f (rev l2) = Some b -> find f (rev (l1 ++ l2)) = Some b.
Proof.
  intros A f l1 l2 b H. rewrite rev_app_distr.
  induction (rev l2) as [| a l IH]; cbn in *; [discriminate H |].
  destruct (f a); [exact H | apply IH; exact H].
Qed.

(* exactly the provides: every provided, selected name is reachable under its visible name (unless the
   program itself redefines that name), and what is reached is a provided name with the same visible
   spelling *)
Lemma visible_complete : forall id defs ro provides main_defs p,
  In p provides -> selected ro p = true -> ~ In (visible_name ro p) main_defs ->
  exists q, lookup (visible_name ro p) (program_env id defs ro provides main_defs) = Some (ModVal id q) /\
            In q provides /\ selected ro q = true /\ visible_name ro q = visible_name ro p.
Proof.
  intros id defs ro provides main_defs p Hp Hs Hm.
  set (u := visible_name ro p).
  set (rd := map (fun vp : string * string => (fst vp, ModVal id (snd vp))) (require_defines ro provides)).
  set (md := map (fun d : string => (d, MainVal d)) main_defs).
  assert (Hin : In (u, ModVal id p) rd).
  { unfold rd. apply in_map_iff. exists (u, p). split; [reflexivity |].
    apply in_require_defines. auto. }
  (* the last binding of u inside rd *)
  assert (Hf : exists b, find (fun b : string * gval => String.eqb (fst b) u) (rev rd) = Some b).
  { destruct (find (fun b : string * gval => String.eqb (fst b) u) (rev rd)) as [b |] eqn:E; [eauto |].
    exfalso. assert (Hn := find_none _ _ E (u, ModVal id p) (proj1 (in_rev rd _) Hin)).
    cbn in Hn. rewrite String.eqb_refl in Hn. discriminate Hn. }
  destruct Hf as [[k w] Hf].
  assert (Hk : k = u /\ In (k, w) rd).
  { apply find_some in Hf. destruct Hf as [H1 H2]. cbn in H2. apply String.eqb_eq in H2.
    split; [exact H2 | apply in_rev; exact H1]. }
  destruct Hk as [Hk Hkin]. subst k.
  unfold rd in Hkin. apply in_map_iff in Hkin. destruct Hkin as [[v q] [E Hq]]. cbn in E.
  inversion E; subst v w. apply in_require_defines in Hq. destruct Hq as [Hq1 [Hq2 Hq3]].
  exists q. split; [| auto].
  unfold lookup, program_env. fold rd md.
  assert (Hmd : find (fun b : string * gval => String.eqb (fst b) u) (rev md) = None).
  { destruct (find (fun b : string * gval => String.eqb (fst b) u) (rev md)) as [[k w] |] eqn:E2; [| reflexivity].
    exfalso. apply find_some in E2. destruct E2 as [H1 H2]. cbn in H2. apply String.eqb_eq in H2. subst k.
    apply in_rev in H1. unfold md in H1. apply in_map_iff in H1. destruct H1 as [d [Ed Hd]].
    inversion Ed; subst. exact (Hm Hd). }
  rewrite app_assoc, rev_app_distr.
  assert (Hgo : forall l1 l2 : list (string * gval),
             find (fun b => String.eqb (fst b) u) l1 = None ->
             find (fun b => String.eqb (fst b) u) (l1 ++ l2) = find (fun b => String.eqb (fst b) u) l2).
  { induction l1 as [| a l1 IH]; intros l2 Hn; cbn in *; [reflexivity |].
    destruct (String.eqb (fst a) u); [discriminate Hn | apply IH; exact Hn]. }
  rewrite (Hgo _ _ Hmd).
  rewrite (find_rev_app_last _ _ (module_env id defs) rd (u, ModVal id q) Hf). reflexivity.
Qed.

(* ------------------------------------------------------------------ once *)
Lemma NoDup_app_disjoint : forall (l1 l2 : list nat),
  NoDup l1 -> NoDup l2 -> (forall x, In x l2 -> ~ In x l1) -> NoDup (l1 ++ l2).
Proof.
  induction l1 as [| a l1 IH]; intros l2 H1 H2 Hd; cbn; [exact H2 |].
  inversion H1; subst. constructor.
  - intros Hin. apply in_app_or in Hin. destruct Hin as [Hin | Hin]; [contradiction |].
    apply (Hd a Hin). left. reflexivity.
  - apply IH; [assumption | assumption |]. intros x Hx Hx1. apply (Hd x Hx). right. exact Hx1.
Qed.

(* J t0 s: starting from table t0, s = (t0 plus the newly compiled modules, those new modules exactly
   once each in emission order) *)
Definition J (t0 : list nat) (s : cstate) : Prop :=
  NoDup (snd s) /\
  (forall m, In m (fst s) <-> In m t0 \/ In m (snd s)) /\
  (forall m, In m (snd s) -> ~ In m t0).

Lemma in_table_iff : forall m t, in_table m t = true <-> In m t.
Proof.
  intros m t. unfold in_table. rewrite existsb_exists. split.
  - intros [x [H1 H2]]. apply Nat.eqb_eq in H2. subst x. exact H1.
  - intros H. exists m. split; [exact H | apply Nat.eqb_refl].
Qed.

Lemma visit_J : forall fuel g m t0 s, J t0 s -> J t0 (visit fuel g m s).
Proof.
  induction fuel as [| f IH]; intros g m t0 s Hs; cbn [visit]; [exact Hs |].
  destruct (cache_hit_skips && in_table m (fst s)); [exact Hs |].
  assert (Hfold : forall ds s0, J t0 s0 -> J t0 (fold_left (fun a d => visit f g d a) ds s0)).
  { induction ds as [| d ds IHd]; intros s0 H0; cbn [fold_left]; [exact H0 |]. apply IHd. apply IH. exact H0. }
  specialize (Hfold (g m) s Hs).
  set (s' := fold_left (fun a d => visit f g d a) (g m) s) in *.
  destruct (in_table m (fst s')) eqn:E; [exact Hfold |].
  destruct Hfold as [Hnd [Hiff Hnew]].
  assert (Hnot : ~ In m (fst s')).
  { intros Hin. apply in_table_iff in Hin. congruence. }
  unfold J. cbn [fst snd]. repeat split.
  - apply NoDup_app_disjoint; [exact Hnd | constructor; [intros [] | constructor] |].
    intros x [Hx | []] Hin. subst x. apply Hnot. apply Hiff. right. exact Hin.
  - intros [H | H].
    + subst m0. right. apply in_or_app. right. left. reflexivity.
    + apply Hiff in H. destruct H as [H | H]; [left; exact H | right; apply in_or_app; left; exact H].
  - intros [H | H].
    + right. apply Hiff. left. exact H.
    + apply in_app_or in H. destruct H as [H | [H | []]].
      * right. apply Hiff. right. exact H.
      * left. exact H.
  - intros m0 H Ht. apply in_app_or in H. destruct H as [H | [H | []]].
    + exact (Hnew m0 H Ht).
    + subst m0. apply Hnot. apply Hiff. left. exact Ht.
Qed.

Definition W (w : world) : Prop :=
  NoDup (runs w) /\ forall m, In m (table w) <-> In m (runs w).

Lemma request_W : forall fuel g w r, W w -> W (request fuel g w r).
Proof.
  intros fuel g w r [Hnd Hiff]. unfold request.
  assert (Hfold : forall ms s0, J (table w) s0 -> J (table w) (fold_left (fun a m => visit fuel g m a) ms s0)).
  { induction ms as [| m ms IHm]; intros s0 H0; cbn [fold_left]; [exact H0 |]. apply IHm. apply visit_J. exact H0. }
  assert (H0 : J (table w) (table w, [])).
  { unfold J. cbn. repeat split; try tauto. constructor. }
  specialize (Hfold (fst r) _ H0).
  set (s := fold_left (fun a m => visit fuel g m a) (fst r) (table w, [])) in *.
  destruct Hfold as [Jnd [Jiff Jnew]].
  destruct (snd r).
  - unfold W. cbn [runs table]. split.
    + apply NoDup_app_disjoint; [exact Hnd | exact Jnd |].
      intros x Hx Hr. apply (Jnew x Hx). apply Hiff. exact Hr.
    + intros m. rewrite Jiff, in_app_iff, Hiff. tauto.
  - unfold snapshot_rollback. split; assumption.
Qed.

Lemma run_requests_W : forall fuel g h w, W w -> W (fold_left (request fuel g) h w).
Proof.
  induction h as [| r h IH]; intros w Hw; cbn [fold_left]; [exact Hw |].
  apply IH. apply request_W. exact Hw.
Qed.

(* each module body runs at most once per engine, whatever the graph, the order of requests and the
   failed compilations in between; the table lists exactly the modules whose body ran *)
Lemma once : forall fuel g h,
  NoDup (runs (run_requests fuel g h)) /\
  forall m, In m (table (run_requests fuel g h)) <-> In m (runs (run_requests fuel g h)).
Proof.
  intros fuel g h. apply run_requests_W. split; [constructor | tauto].
Qed.

(* ... and at least once: a module required directly by a program that compiles has run afterwards *)
Lemma visit_adds : forall f g m s, In m (fst (visit (S f) g m s)).
Proof.
  intros f g m s. cbn [visit].
  destruct (cache_hit_skips && in_table m (fst s)) eqn:E.
  - apply andb_true_iff in E. apply in_table_iff. exact (proj2 E).
  - set (s' := fold_left (fun a d => visit f g d a) (g m) s).
    destruct (in_table m (fst s')) eqn:E2; [apply in_table_iff; exact E2 | left; reflexivity].
Qed.

Lemma visit_mono : forall fuel g m s x, In x (fst s) -> In x (fst (visit fuel g m s)).
Proof.
  induction fuel as [| f IH]; intros g m s x Hx; cbn [visit]; [exact Hx |].
  destruct (cache_hit_skips && in_table m (fst s)); [exact Hx |].
  assert (Hfold : forall ds s0, In x (fst s0) -> In x (fst (fold_left (fun a d => visit f g d a) ds s0))).
  { induction ds as [| d ds IHd]; intros s0 H0; cbn [fold_left]; [exact H0 |]. apply IHd. apply IH. exact H0. }
  specialize (Hfold (g m) s Hx).
  destruct (in_table m (fst (fold_left (fun a d => visit f g d a) (g m) s))); [exact Hfold | right; exact Hfold].
Qed.

Lemma at_least_once : forall f g w ms m, W w -> In m ms ->
  In m (runs (request (S f) g w (ms, true))).
Proof.
  intros f g w ms m Hw Hm.
  destruct (request_W (S f) g w (ms, true) Hw) as [_ Hiff]. apply Hiff.
  unfold request. cbn [fst snd table].
  assert (Hfold : forall l s0, (In m l \/ In m (fst s0)) ->
            In m (fst (fold_left (fun a k => visit (S f) g k a) l s0))).
  { induction l as [| k l IHl]; intros s0 H; cbn [fold_left].
    - destruct H as [[] | H]; exact H.
    - apply IHl. destruct H as [[H | H] | H].
      + subst k. right. apply visit_adds.
      + left. exact H.
      + right. apply visit_mono. exact H. }
  apply Hfold. left. exact Hm.
Qed.

(* non-vacuity / regression witnesses *)
Lemma once_example :
  let g := fun m => match m with 2 => [0; 1] | 1 => [0] | 3 => [1; 2] | _ => [] end in
  runs (run_requests 8 g [([1], true); ([3; 9], false); ([2; 1], true); ([3], true); ([0; 3], true)]) = [0; 1; 2; 3].
Proof. vm_compute. reflexivity. Qed.

Lemma gen_facts : sep_ok = true /\ prefix_is_id_then_sep = true /\ mangler_prepends_prefix = true /\
  snapshot_rollback = true /\ cache_hit_skips = true.
Proof. repeat split; vm_compute; reflexivity. Qed.
