(* Compiled on every run of the C14 check: pins each statement and prints its assumptions. *)
From Coq Require Import List Bool String Ascii Arith.
From SV Require Import gen.Gen_C14 c14.Model_C14 c14.Proofs_C14 c14.Properties_C14.
Import ListNotations.

Check (C14_mangle_injective : forall i j x y,
  all_digits i = true -> all_digits j = true ->
  mangle i x = mangle j y -> i = j /\ x = y).
Check (C14_private_disjoint : forall i j x y,
  all_digits i = true -> all_digits j = true -> i <> j -> mangle i x <> mangle j y).
Check (C14_main_disjoint : forall u i x, starts_with mangler_prefix u = false -> u <> mangle i x).
Check (C14_visible_sound : forall id defs ro provides main_defs u q,
  starts_with mangler_prefix u = false ->
  lookup u (program_env id defs ro provides main_defs) = Some (ModVal id q) ->
  In q provides /\ selected ro q = true /\ u = visible_name ro q).
Check (C14_visible_complete : forall id defs ro provides main_defs p,
  In p provides -> selected ro p = true -> ~ In (visible_name ro p) main_defs ->
  exists q, lookup (visible_name ro p) (program_env id defs ro provides main_defs) = Some (ModVal id q) /\
            In q provides /\ selected ro q = true /\ visible_name ro q = visible_name ro p).
Check (C14_in_require_defines : forall ro provides v p,
  In (v, p) (require_defines ro provides) <->
  In p provides /\ selected ro p = true /\ v = visible_name ro p).
Check (C14_once : forall fuel g h,
  NoDup (runs (run_requests fuel g h)) /\
  forall m, In m (table (run_requests fuel g h)) <-> In m (runs (run_requests fuel g h))).
Check (C14_at_least_once : forall f g w ms m,
  (NoDup (runs w) /\ forall m, In m (table w) <-> In m (runs w)) -> In m ms ->
  In m (runs (request (S f) g w (ms, true)))).
Check (C14_gen_facts : sep_ok = true /\ prefix_is_id_then_sep = true /\ mangler_prepends_prefix = true /\
  snapshot_rollback = true /\ cache_hit_skips = true).
Check (C14_once_example : let g := fun m => match m with 2 => [0; 1] | 1 => [0] | 3 => [1; 2] | _ => [] end in
  runs (run_requests 8 g [([1], true); ([3; 9], false); ([2; 1], true); ([3], true); ([0; 3], true)]) = [0; 1; 2; 3]).

Check (eq_refl : mangle = fun id x => ((mangler_prefix ++ id ++ mangler_separator) ++ x)%string).
Check (eq_refl : visible_name = fun ro p => (ro_prefix ro ++ alias_of ro p)%string).

Print Assumptions C14_mangle_injective.
Print Assumptions C14_private_disjoint.
Print Assumptions C14_main_disjoint.
Print Assumptions C14_visible_sound.
Print Assumptions C14_visible_complete.
Print Assumptions C14_in_require_defines.
Print Assumptions C14_once.
Print Assumptions C14_at_least_once.
Print Assumptions C14_gen_facts.
Print Assumptions C14_once_example.
