(* C14 — property theorems only; statements are pinned in Pins_C14.v. *)
From Coq Require Import List Bool String Ascii Arith.
From SV Require Import gen.Gen_C14 c14.Model_C14 c14.Proofs_C14.
Import ListNotations.

(* the mangled global of (module id, name) determines both, for EVERY name x (ids are digit strings and
   the generated separator starts with a non-digit) *)
Theorem C14_mangle_injective : forall i j x y,
  all_digits i = true -> all_digits j = true ->
  mangle i x = mangle j y -> i = j /\ x = y.
Proof. exact mangle_injective. Qed.

(* private definitions of different modules never coincide, even when they share a spelling *)
Theorem C14_private_disjoint : forall i j x y,
  all_digits i = true -> all_digits j = true -> i <> j -> mangle i x <> mangle j y.
Proof. exact private_disjoint. Qed.

(* nor does any identifier of the requiring program, unless it starts with the reserved prefix (side
   condition explicit: spelling such a name is the known finding C14-MANGLED-SPELLING) *)
Theorem C14_main_disjoint : forall u i x, starts_with mangler_prefix u = false -> u <> mangle i x.
Proof. exact main_disjoint. Qed.

(* nothing else of the module: whatever an identifier resolves to inside the module is a provided name
   selected by the only-in list, under its alias and prefix *)
Theorem C14_visible_sound : forall id defs ro provides main_defs u q,
  starts_with mangler_prefix u = false ->
  lookup u (program_env id defs ro provides main_defs) = Some (ModVal id q) ->
  In q provides /\ selected ro q = true /\ u = visible_name ro q.
Proof. exact visible_sound. Qed.

(* exactly the provides: every provided, selected name is reachable under its visible name *)
Theorem C14_visible_complete : forall id defs ro provides main_defs p,
  In p provides -> selected ro p = true -> ~ In (visible_name ro p) main_defs ->
  exists q, lookup (visible_name ro p) (program_env id defs ro provides main_defs) = Some (ModVal id q) /\
            In q provides /\ selected ro q = true /\ visible_name ro q = visible_name ro p.
Proof. exact visible_complete. Qed.

(* the set of defines a require expands to = image of the provides under the modifiers *)
Theorem C14_in_require_defines : forall ro provides v p,
  In (v, p) (require_defines ro provides) <->
  In p provides /\ selected ro p = true /\ v = visible_name ro p.
Proof. exact in_require_defines. Qed.

(* for every module graph, every history of requests (successful or failing to compile): no module body
   runs twice, and the table holds exactly the modules whose body ran *)
Theorem C14_once : forall fuel g h,
  NoDup (runs (run_requests fuel g h)) /\
  forall m, In m (table (run_requests fuel g h)) <-> In m (runs (run_requests fuel g h)).
Proof. exact once. Qed.

(* a module required by a program that compiles has run (exactly once, by C14_once) *)
Theorem C14_at_least_once : forall f g w ms m,
  (NoDup (runs w) /\ forall m, In m (table w) <-> In m (runs w)) -> In m ms ->
  In m (runs (request (S f) g w (ms, true))).
Proof. exact at_least_once. Qed.

(* generated facts the theorems rest on *)
Theorem C14_gen_facts : sep_ok = true /\ prefix_is_id_then_sep = true /\ mangler_prepends_prefix = true /\
  snapshot_rollback = true /\ cache_hit_skips = true.
Proof. exact gen_facts. Qed.

(* non-vacuity: a diamond, a failed compilation in between *)
Theorem C14_once_example : let g := fun m => match m with 2 => [0; 1] | 1 => [0] | 3 => [1; 2] | _ => [] end in
  runs (run_requests 8 g [([1], true); ([3; 9], false); ([2; 1], true); ([3], true); ([0; 3], true)]) = [0; 1; 2; 3].
Proof. exact once_example. Qed.
