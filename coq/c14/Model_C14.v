(* C14 — modules: executable model of the mechanism in crates/steel-core/src/compiler/modules.rs
   (CompiledModule::new cached_prefix, ModuleManager::compile_main require -> define rewriting,
   RequireObject only-in / prefix-in / rename, ModuleBuilder::compile cache lookup),
   compiler/passes/mangle.rs (NameMangler) and compiler.rs compile_raw_program (snapshot / roll-back of
   the compiled-module table).  Constants and shape facts come from coq/gen/Gen_C14.v.
   Definitions only. *)
From Coq Require Import List Bool String Ascii Arith.
From SV Require Import gen.Gen_C14.
Import ListNotations.
Open Scope string_scope.

(* ------------------------------------------------------------------ name mangling *)
Definition is_digit (c : ascii) : bool := (48 <=? nat_of_ascii c)%nat && (nat_of_ascii c <=? 57)%nat.
Fixpoint all_digits (s : string) : bool :=
  match s with EmptyString => true | String c s' => is_digit c && all_digits s' end.

(* id is the decimal rendering of the interner id of the module's path (a digit string);
   modules.rs L1040-1066: base = MANGLER_PREFIX; push_str(id.to_string()); push_str(MANGLER_SEPARATOR);
   mangle.rs: mangled = prefix + name *)
Definition module_prefix_of (id : string) : string := mangler_prefix ++ id ++ mangler_separator.
Definition mangle (id x : string) : string := module_prefix_of id ++ x.

(* the separator starts with a character that cannot occur in an id *)
Definition sep_ok : bool :=
  match mangler_separator with String c _ => negb (is_digit c) | EmptyString => false end.

Fixpoint starts_with (p s : string) : bool :=
  match p, s with
  | EmptyString, _ => true
  | String a p', String b s' => Ascii.eqb a b && starts_with p' s'
  | String _ _, EmptyString => false
  end.

(* ------------------------------------------------------------------ requires *)
(* RequireObject: accumulated prefix ("" when there is no prefix-in) and the only-in list:
   (name, None) = plain identifier, (from, Some to) = renamed *)
Record require_obj := mk_ro { ro_prefix : string; ro_only : list (string * option string) }.

(* compile_main L406-425: explicit_requires is a hash map filled in list order: the last entry for a
   name wins *)
Definition only_entry (ro : require_obj) (p : string) : option (string * option string) :=
  find (fun e => String.eqb (fst e) p) (rev (ro_only ro)).
Definition selected (ro : require_obj) (p : string) : bool :=
  match ro_only ro with
  | [] => true
  | _ => match only_entry ro p with Some _ => true | None => false end
  end.
Definition alias_of (ro : require_obj) (p : string) : string :=
  match only_entry ro p with Some (_, Some a) => a | _ => p end.
(* alias first, then the prefix is prepended (L485-508 / L554-578) *)
Definition visible_name (ro : require_obj) (p : string) : string := ro_prefix ro ++ alias_of ro p.

(* the (define visible (%proto-hash-get% module 'p)) forms a require expands to, in provide order *)
Definition require_defines (ro : require_obj) (provides : list string) : list (string * string) :=
  map (fun p => (visible_name ro p, p)) (filter (selected ro) provides).

(* global environment after loading: what a global identifier denotes *)
Inductive gval :=
| ModVal (id name : string)      (* the value module id bound to its top-level name *)
| MainVal (name : string).       (* a definition of the requiring program *)

Definition module_env (id : string) (defs : list string) : list (string * gval) :=
  map (fun x => (mangle id x, ModVal id x)) defs.

(* one module (all of its top-level definitions, provided or private), one require of it, then the
   program's own definitions; later bindings shadow earlier ones *)
Definition program_env (id : string) (defs : list string) (ro : require_obj) (provides : list string)
           (main_defs : list string) : list (string * gval) :=
  (module_env id defs ++
   map (fun vp => (fst vp, ModVal id (snd vp))) (require_defines ro provides) ++
   map (fun d => (d, MainVal d)) main_defs)%list.

Definition lookup (u : string) (env : list (string * gval)) : option gval :=
  match find (fun b => String.eqb (fst b) u) (rev env) with Some b => Some (snd b) | None => None end.

(* ------------------------------------------------------------------ instantiate once *)
(* modules are numbered; g m = the modules m requires.  State of one compilation: the compiled-module
   table and the module bodies emitted (pending execution), in emission order. *)
Definition cstate := (list nat * list nat)%type.

Definition in_table (m : nat) (t : list nat) : bool := existsb (Nat.eqb m) t.

(* ModuleBuilder::compile for one require: a cached module is skipped; otherwise its requires are
   compiled first, then the module itself is compiled, entered in the table and its body emitted.
   The second table test stands for the `visited` circular-dependency stop. *)
Fixpoint visit (fuel : nat) (g : nat -> list nat) (m : nat) (s : cstate) : cstate :=
  match fuel with
  | O => s
  | S f =>
    if cache_hit_skips && in_table m (fst s) then s
    else
      let s' := fold_left (fun a d => visit f g d a) (g m) s in
      if in_table m (fst s') then s' else (m :: fst s', (snd s' ++ [m])%list)
  end.

Record world := mk_world { table : list nat; runs : list nat }.

(* one evaluation request: the modules the program requires directly, and whether the program as a
   whole compiles (a free identifier anywhere fails the whole unit before anything runs).
   Not modelled: the file_metadata (mtime) map, which engine.rs L1895 also rolls back after a failed unit
   and which by itself forces recompilation of a module whose table entry was kept; the model's
   [snapshot_rollback = false] branch is therefore more pessimistic than the engine. *)
Definition request (fuel : nat) (g : nat -> list nat) (w : world) (r : list nat * bool) : world :=
  let s := fold_left (fun a m => visit fuel g m a) (fst r) (table w, []) in
  if snd r then mk_world (fst s) (runs w ++ snd s)%list
  else if snapshot_rollback then w else mk_world (fst s) (runs w).

Definition run_requests (fuel : nat) (g : nat -> list nat) (h : list (list nat * bool)) : world :=
  fold_left (request fuel g) h (mk_world [] []).

(* ------------------------------------------------------------------ rendering *)
Definition render_defines (l : list (string * string)) : string :=
  String.concat ";" (map (fun vp => fst vp ++ "=" ++ snd vp) l).
Fixpoint nat_to_string_aux (fuel n : nat) (acc : string) : string :=
  match fuel with
  | O => acc
  | S f => let c := String (ascii_of_nat (48 + n mod 10)) EmptyString in
           if (n / 10 =? 0)%nat then c ++ acc else nat_to_string_aux f (n / 10) (c ++ acc)
  end.
Definition nat_to_string (n : nat) : string := nat_to_string_aux 20 n "".
Definition render_runs (l : list nat) : string := String.concat "," (map nat_to_string l).
