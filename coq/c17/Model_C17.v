(* Model_C17.v — interruption of a running evaluation (definitions only).
   vm.rs 2534-2535: the dispatch loop polls safepoint_or_interrupt at every instruction;
   vm.rs 1792-1804: paused && state = Interrupted => stop!(Generic "Interrupted by user") — an ordinary error,
     so it unwinds through nested `vm` activations (call_with_args from built-ins / transducers return the Err)
     and can be caught by a with-handler frame, whose handler closure then runs and polls again;
   vm.rs 868-877: the safepoint exit loop `while paused { if Interrupted { break } park }` must not park. *)
From Coq Require Import List Arith Lia Bool.
Import ListNotations.

Definition cid := nat.

Inductive instr :=
| INop                       (* an instruction completing in one dispatch *)
| IJmp (k : nat)             (* backward / forward jump: bytecode-level loops, self tail calls *)
| ITail (c : cid)            (* tail call: replace the frame *)
| ICall (c : cid)            (* bytecode call: push a frame *)
| ICallback (c : cid)        (* a built-in (map, foldl, transduce, for-each, dynamic-wind, sort) calling a closure:
                                a nested activation entered from native code *)
| IPrim (work : nat)         (* a built-in doing `work` steps of its own without polling (inside enter_safepoint) *)
| IHandle (h body : cid)     (* with-handler: run body with handler h installed on the new frame *)
| IRet.

Definition program := list (list instr).

Record frame := { code : cid; ip : nat; handler : option cid; native_boundary : bool }.
Record vm := { frames : list frame; busy : nat }.

Inductive result := Running (s : vm) | Finished | ErrInterrupted | ErrOther.

Definition fetch (p : program) (f : frame) : instr := nth (ip f) (nth (code f) p []) IRet.
Definition mk (c : cid) (h : option cid) (b : bool) : frame := {| code := c; ip := 0; handler := h; native_boundary := b |}.
Definition advance (f : frame) : frame := {| code := code f; ip := S (ip f); handler := handler f; native_boundary := native_boundary f |}.
Definition jump (k : nat) (f : frame) : frame := {| code := code f; ip := k; handler := handler f; native_boundary := native_boundary f |}.

(* raising an error: unwind to the innermost frame with a handler (across native boundaries: the built-in
   returns the Err); the handler closure runs in place of that frame *)
Fixpoint unwind (fs : list frame) : option (list frame) :=
  match fs with
  | [] => None
  | f :: r => match handler f with
              | Some h => Some (mk h None false :: r)
              | None => unwind r
              end
  end.

Definition handlers (fs : list frame) : nat :=
  length (filter (fun f => match handler f with Some _ => true | None => false end) fs).

(* one step; flag = the engine's ThreadStateController is (paused, Interrupted) *)
Definition vstep (p : program) (flag : bool) (s : vm) : result :=
  match busy s with
  | S b => Running {| frames := frames s; busy := b |}     (* inside a built-in: no poll; at the end the
                                                              safepoint exit breaks out instead of parking *)
  | 0 =>
      match frames s with
      | [] => Finished
      | f :: r =>
          if flag then                                     (* the poll at the head of the dispatch loop *)
            match unwind (f :: r) with
            | Some fs => Running {| frames := fs; busy := 0 |}
            | None => ErrInterrupted
            end
          else
            match fetch p f with
            | INop => Running {| frames := advance f :: r; busy := 0 |}
            | IJmp k => Running {| frames := jump k f :: r; busy := 0 |}
            | ITail c => Running {| frames := {| code := c; ip := 0; handler := handler f; native_boundary := native_boundary f |} :: r; busy := 0 |}
            | ICall c => Running {| frames := mk c None false :: advance f :: r; busy := 0 |}
            | ICallback c => Running {| frames := mk c None true :: advance f :: r; busy := 0 |}
            | IPrim w => Running {| frames := advance f :: r; busy := w |}
            | IHandle h b => Running {| frames := mk b (Some h) false :: advance f :: r; busy := 0 |}
            | IRet => Running {| frames := r; busy := 0 |}
            end
      end
  end.

Fixpoint vrun (p : program) (flag : bool) (n : nat) (s : vm) : result :=
  match n with
  | 0 => Running s
  | S k => match vstep p flag s with Running s' => vrun p flag k s' | r => r end
  end.

Definition start (c : cid) : vm := {| frames := [mk c None false]; busy := 0 |}.
Definition idle : vm := {| frames := []; busy := 0 |}.

(* the engine after an evaluation returned (Ok or Err): Engine::run resets the thread's frames and stack *)
Definition after (r : result) : vm := match r with Running s => s | _ => idle end.

(* example programs: loops that never terminate without an interrupt *)
Definition p_self_loop : program := [[INop; IJmp 0]].
Definition p_mutual : program := [[ITail 1]; [ITail 0]].
Definition p_callback_loop : program := [[ICallback 1; IRet]; [INop; IJmp 0]].
Definition p_handler_loop : program := [[IHandle 1 2; IRet]; [INop; IJmp 0]; [IPrim 3; IJmp 0]].
Definition p_nested : program := [[IHandle 3 1; IRet]; [ICallback 2; IRet]; [IHandle 3 4; IRet]; [INop; IRet]; [IPrim 5; IJmp 0]].
