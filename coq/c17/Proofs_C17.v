From Coq Require Import List Arith Lia Bool.
Import ListNotations.
From SV Require Import c17.Model_C17.

Lemma unwind_handlers : forall fs fs', unwind fs = Some fs' -> handlers fs' < handlers fs.
Proof.
  induction fs as [|f r IH]; simpl; intros fs' H; [discriminate|].
  unfold handlers in *. simpl. destruct (handler f) eqn:E.
  - inversion H; subst. simpl. lia.
  - apply IH in H. exact H.
Qed.

Lemma unwind_none_handlers : forall fs, unwind fs = None -> handlers fs = 0.
Proof.
  induction fs as [|f r IH]; simpl; intros H; auto.
  unfold handlers in *. simpl. destruct (handler f); [discriminate|auto].
Qed.

Lemma unwind_some : forall fs, 0 < handlers fs -> exists fs', unwind fs = Some fs'.
Proof.
  intros fs H. destruct (unwind fs) eqn:E; eauto. apply unwind_none_handlers in E. lia.
Qed.

(* with the flag set and no built-in in progress: one step per installed handler, then the error *)
Lemma latency_dispatch : forall p n fs, handlers fs <= n -> fs <> [] ->
  vrun p true (S n) {| frames := fs; busy := 0 |} = ErrInterrupted.
Proof.
  induction n as [|n IH]; intros fs Hh Hne.
  - destruct fs as [|f r]; [congruence|].
    change (vrun p true 1 {| frames := f :: r; busy := 0 |})
      with (match vstep p true {| frames := f :: r; busy := 0 |} with Running s' => Running s' | x => x end).
    unfold vstep. cbn [busy frames].
    destruct (unwind (f :: r)) eqn:E; [apply unwind_handlers in E; lia | reflexivity].
  - destruct fs as [|f r]; [congruence|].
    change (vrun p true (S (S n)) {| frames := f :: r; busy := 0 |})
      with (match vstep p true {| frames := f :: r; busy := 0 |} with Running s' => vrun p true (S n) s' | x => x end).
    unfold vstep. cbn [busy frames].
    destruct (unwind (f :: r)) as [fs'|] eqn:E; auto.
    apply IH.
    + apply unwind_handlers in E. lia.
    + clear -E. revert fs' E. generalize (f :: r). induction l as [|g t IHl]; simpl; intros fs' E; [discriminate|].
      destruct (handler g); [inversion E; discriminate|eauto].
Qed.

Lemma latency_busy : forall p b n fs, handlers fs <= n -> fs <> [] ->
  vrun p true (b + S n) {| frames := fs; busy := b |} = ErrInterrupted.
Proof.
  induction b as [|b IH]; intros n fs Hh Hne.
  - apply latency_dispatch; auto.
  - change (S b + S n) with (S (b + S n)). cbn [vrun vstep busy frames]. apply IH; auto.
Qed.

Lemma interrupt_latency_lemma : forall p s, frames s <> [] ->
  vrun p true (busy s + handlers (frames s) + 1) s = ErrInterrupted.
Proof.
  intros p [fs b] Hne. cbn [busy frames] in *.
  replace (b + handlers fs + 1) with (b + S (handlers fs)) by lia.
  apply latency_busy; auto.
Qed.

(* once the error is returned no more steps are needed: vrun is stable beyond the bound *)
Lemma vrun_stable : forall p flag n m s r, vrun p flag n s = r -> (forall s', r <> Running s') ->
  vrun p flag (n + m) s = r.
Proof.
  induction n as [|n IH]; intros m s r H Hr.
  - simpl in H. subst. exfalso. eapply Hr; eauto.
  - simpl in *. destruct (vstep p flag s); auto.
Qed.

Lemma interrupt_latency_any : forall p s k, frames s <> [] ->
  vrun p true (busy s + handlers (frames s) + 1 + k) s = ErrInterrupted.
Proof.
  intros. apply vrun_stable; [apply interrupt_latency_lemma; auto|discriminate].
Qed.

Lemma busy_bound_preserved : forall p s s' W,
  (forall c i w, nth i (nth c p []) IRet = IPrim w -> w <= W) ->
  busy s <= W -> vstep p false s = Running s' -> busy s' <= W.
Proof.
  intros p [fs b] s' W HW Hb H. unfold vstep in H. cbn [busy frames] in *.
  destruct b as [|b]; [|inversion H; subst; simpl; lia].
  destruct fs as [|f r]; [discriminate|].
  destruct (fetch p f) eqn:E; inversion H; subst; simpl; try lia.
  unfold fetch in E. eapply HW; eauto.
Qed.
