(* C17 — property theorems only (statements pinned in Pins_C17.v). *)
From Coq Require Import List Arith Lia Bool.
Import ListNotations.
From SV Require Import c17.Model_C17 c17.Proofs_C17 gen.Gen_C17.

(* For every program and every state of a running evaluation (any nesting of bytecode calls, callbacks
   from built-ins and handler frames): once the interrupt flag is set, the evaluation returns
   Err Interrupted after the remaining work of the built-in in progress (its non-polling region), one
   dispatch per installed handler frame (each catches the error once and its handler polls again), and
   one more dispatch — and stays there. *)
Theorem C17_interrupt_latency : forall p s k, frames s <> [] ->
  vrun p true (busy s + handlers (frames s) + 1 + k) s = ErrInterrupted.
Proof. exact interrupt_latency_any. Qed.

(* the non-polling region is bounded by the longest built-in of the program *)
Theorem C17_region_bounded : forall p s s' W,
  (forall c i w, nth i (nth c p []) IRet = IPrim w -> w <= W) ->
  busy s <= W -> vstep p false s = Running s' -> busy s' <= W.
Proof. exact busy_bound_preserved. Qed.

(* resume: the interrupted evaluation leaves the idle engine, on which a probe runs as on a fresh one *)
Theorem C17_resume_usable : forall p probe n,
  after ErrInterrupted = idle /\
  vrun p false n {| frames := [mk probe None false] ++ frames (after ErrInterrupted); busy := busy (after ErrInterrupted) |}
  = vrun p false n (start probe).
Proof. intros. split; reflexivity. Qed.

(* non-vacuity: these programs run forever without the flag and stop with it *)
Example C17_loops_run_forever :
  (exists s, vrun p_self_loop false 1000 (start 0) = Running s) /\
  (exists s, vrun p_mutual false 1000 (start 0) = Running s) /\
  (exists s, vrun p_callback_loop false 1000 (start 0) = Running s) /\
  (exists s, vrun p_handler_loop false 1000 (start 0) = Running s) /\
  (exists s, vrun p_nested false 1000 (start 0) = Running s).
Proof. repeat split; eexists; vm_compute; reflexivity. Qed.

Example C17_loops_interrupted :
  (exists s, vrun p_nested false 40 (start 0) = Running s /\ handlers (frames s) = 2 /\
             vrun p_nested true (busy s + 2 + 1) s = ErrInterrupted).
Proof. eexists. vm_compute. repeat split; reflexivity. Qed.

(* generated facts: the poll is at the head of the dispatch loop, raises on Interrupted, and the
   safepoint exit loops break on Interrupted *)
Theorem C17_source_polls : poll_facts = true.
Proof. exact poll_facts_ok. Qed.
