From Coq Require Import List Arith Lia Bool.
Import ListNotations.
From SV Require Import c17.Model_C17 c17.Proofs_C17 c17.Properties_C17 gen.Gen_C17.

Check (C17_interrupt_latency : forall p s k, frames s <> [] ->
  vrun p true (busy s + handlers (frames s) + 1 + k) s = ErrInterrupted).
Check (C17_region_bounded : forall p s s' W,
  (forall c i w, nth i (nth c p []) IRet = IPrim w -> w <= W) ->
  busy s <= W -> vstep p false s = Running s' -> busy s' <= W).
Check (C17_resume_usable : forall p probe n,
  after ErrInterrupted = idle /\
  vrun p false n {| frames := [mk probe None false] ++ frames (after ErrInterrupted); busy := busy (after ErrInterrupted) |}
  = vrun p false n (start probe)).
Check (C17_loops_run_forever :
  (exists s, vrun p_self_loop false 1000 (start 0) = Running s) /\
  (exists s, vrun p_mutual false 1000 (start 0) = Running s) /\
  (exists s, vrun p_callback_loop false 1000 (start 0) = Running s) /\
  (exists s, vrun p_handler_loop false 1000 (start 0) = Running s) /\
  (exists s, vrun p_nested false 1000 (start 0) = Running s)).
Check (C17_loops_interrupted :
  (exists s, vrun p_nested false 40 (start 0) = Running s /\ handlers (frames s) = 2 /\
             vrun p_nested true (busy s + 2 + 1) s = ErrInterrupted)).
Check (C17_source_polls : poll_facts = true).
Print Assumptions C17_interrupt_latency.
Print Assumptions C17_region_bounded.
Print Assumptions C17_resume_usable.
Print Assumptions C17_loops_run_forever.
Print Assumptions C17_loops_interrupted.
Print Assumptions C17_source_polls.
