(* C08 — property theorems only; statements are pinned in Pins_C08.v. *)
From Coq Require Import ZArith List Bool String Arith Lia.
From SV Require lib.Lang gen.Gen_C08 c08.Model_C08 c08.Proofs_C08 c08.Wind_C08.
Import ListNotations.

Module Mechanism.
Import Gen_C08 Model_C08 Proofs_C08.
(* for every reachable VM state (every sequence of pushes, pops, calls, returns, error unwinds, captures and
   invocations) and every continuation object still alive: lazy capture + reinstatement yields exactly the (stack,
   frames, ip, sp, pop_count, instructions) of the eager full copy taken at capture time, with the value pushed and
   ip advanced; the heap is untouched *)
Theorem C08_open_closed_equiv : forall ops s m v last w1 e,
  run init ops = Ok s -> lookup m (eager s) = Some e -> lookup m (marks s) <> None ->
  exists s', exec s (OInvoke m v last w1) = Ok s' /\ ctl6 s' = resume e v /\ heap s' = heap s.
Proof. exact open_closed_equiv. Qed.

(* the eager copy is the state in which call/cc ran *)
Theorem C08_capture_eager : forall ops s fn s',
  run init ops = Ok s -> exec s (OCapture fn) = Ok s' ->
  lookup (nextm s) (eager s') = Some (mkC (stack s) (frames s) (ip s) (sp s) (pc s) (ins s)) /\
  lookup (nextm s) (marks s') <> None.
Proof. exact capture_eager. Qed.

(* invoking the same continuation from any two later states gives identical resumptions; box contents are those of
   the invoking state (shared, not restored) *)
Theorem C08_reenter_many : forall ops1 ops2 s1 s2 m e v1 v2 l1 l2 w1 w2,
  run init ops1 = Ok s1 -> run s1 ops2 = Ok s2 ->
  lookup m (eager s1) = Some e -> lookup m (marks s1) <> None -> lookup m (marks s2) <> None ->
  exists t1 t2,
    exec s1 (OInvoke m v1 l1 w1) = Ok t1 /\ exec s2 (OInvoke m v2 l2 w2) = Ok t2 /\
    ctl6 t1 = resume e v1 /\ ctl6 t2 = resume e v2 /\ heap t1 = heap s1 /\ heap t2 = heap s2.
Proof. exact reenter_many. Qed.

(* no sequence of operations reaches panic!("Failed to find an open continuation on the stack") *)
Theorem C08_no_panic : forall ops, run init ops <> Panic.
Proof. exact no_panic. Qed.

(* the invariant behind the three theorems above: an open mark's frame is still on the frame stack and
   everything below its sp is unchanged since capture *)
Theorem C08_exec_inv : forall s o s', Inv s -> exec s o = Ok s' -> Inv s'.
Proof. exact exec_inv. Qed.

(* generated facts about vm.rs the model rests on *)
Theorem C08_gen_facts : unwind_closes_marks = true /\ reinstate_closes_when_shared = true /\
  capture_before_push = true /\ open_copies_from_sp = true /\ close_rebuilds = true /\
  pop_closes_before_truncate = true /\ open_reinstate_pops = true.
Proof. exact gen_facts. Qed.

(* before the repair: an error unwind left the mark open; the later invocation panics *)
Theorem C08_unwind_refuted : run_old false true init [OCapture 7; OUnwind; OInvoke 0 5 false true] = Panic.
Proof. exact unwind_refuted. Qed.

(* before the repair: a shared continuation invoked while open (weak_count <> 1) stayed open; the second invocation panics *)
Theorem C08_shared_refuted : run_old true false init [OCapture 7; OInvoke 0 1 false false; OInvoke 0 2 false false] = Panic.
Proof. exact shared_refuted. Qed.

(* non-vacuity *)
Theorem C08_repaired_example : match run init [OSetTop [11; 12]; OCapture 7; OSetTop [99]; OCall 0 3; OInvoke 0 1 false false; OSetTop [4; 5; 6];
                  OInvoke 0 2 false true] with
  | Ok s => ctl6 s = ([11; 12; 2], [], 1, 0, 1, 0)
  | _ => False
  end.
Proof. exact repaired_example. Qed.

End Mechanism.

Module Reference.
Import Lang Wind_C08.
(* every continuation jump, for all current and target winders: the scheduled thunks leave the extents not shared
   with the target (innermost first) and enter the target's (outermost first), each exactly once, well bracketed,
   ending exactly in the target's extents *)
Theorem C08_wind_once : forall cur w, apply_plan (map wind_id cur) (plan cur w) = Some (map wind_id w).
Proof. exact plan_brackets. Qed.

(* and that plan is what the reference machine executes *)
Theorem C08_jump_uses_plan : forall st k w v,
  apply_proc st (VCont k w) [v] = set_ck st (CRet VVoid) [FRewind (plan (winds st) w) k w v].
Proof. exact jump_uses_plan. Qed.

(* normal entry: once `before` has returned the extent is entered and the body runs *)
Theorem C08_wind_enter : forall st x b t a k,
  ctl st = CRet x -> kont st = FWindBody b t a :: k ->
  step st = inl (mkState (CApply t []) (FWindAfter a :: k) ((next st, VVoid) :: store st) (S (next st)) (genv st) (out st)
                         (Wind (next st) b a :: winds st)).
Proof. exact wind_enter_step. Qed.

(* normal exit: the extent is left, `after` runs, the body's value is kept *)
Theorem C08_wind_exit : forall st v a k,
  ctl st = CRet v -> kont st = FWindAfter a :: k ->
  step st = inl (mkState (CApply a []) (FWindRet v :: k) (store st) (next st) (genv st) (out st) (tl (winds st))).
Proof. exact wind_exit_step. Qed.

(* jump, leaving phase *)
Theorem C08_rewind_leave : forall st i b a r k w v x ws,
  ctl st = CRet x -> kont st = [FRewind ((false, Wind i b a) :: r) k w v] -> winds st = Wind i b a :: ws ->
  step st = inl (mkState (CApply a []) [FRewind r k w v] (store st) (next st) (genv st) (out st) ws).
Proof. exact rewind_leave_step. Qed.

(* jump, entering phase *)
Theorem C08_rewind_enter : forall st i b a r k w v x,
  ctl st = CRet x -> kont st = [FRewind ((true, Wind i b a) :: r) k w v] ->
  step st = inl (mkState (CApply b []) [FRewind r k w v] (store st) (next st) (genv st) (out st) (winds st)).
Proof. exact rewind_enter_step. Qed.

(* jump, installation of the captured continuation and winders *)
Theorem C08_rewind_done : forall st k w v x,
  ctl st = CRet x -> kont st = [FRewind [] k w v] ->
  step st = inl (mkState (CRet v) k (store st) (next st) (genv st) (out st) w).
Proof. exact rewind_done_step. Qed.

(* a raised error reaches the nearest enclosing handler with the continuation truncated to the with-handler's own;
   the extents entered inside it are left first, innermost first *)
Theorem C08_handler_unwinds : forall st e above h w k',
  ctl st = CRaise e -> kont st = (above ++ FHandler h w :: k')%list ->
  forallb (fun f => negb (is_handler f)) above = true ->
  step st =
  match firstn (List.length (winds st) - List.length w) (winds st) with
  | [] => inl (set_ck (set_winds st w) (CApply h [e]) k')
  | leaving => inl (set_ck st (CRet VVoid) [FRewind (map (fun x => (false, x)) leaving) (FFun [e] :: k') w h])
  end.
Proof. exact handler_unwinds. Qed.

(* then the handler procedure is applied to the error in that continuation *)
Theorem C08_handler_after_unwind : forall st x e k' w h,
  ctl st = CRet x -> kont st = [FRewind [] (FFun [e] :: k') w h] ->
  exists st1, step st = inl st1 /\
    step st1 = inl (mkState (CApply h [e]) k' (store st) (next st) (genv st) (out st) w).
Proof. exact handler_after_unwind. Qed.

(* an uncaught error leaves every entered extent before the evaluation fails *)
Theorem C08_uncaught_unwinds : forall st e, ctl st = CRaise e -> find_handler (kont st) = None ->
  step st = match winds st with
            | [] => inr (Failed e st)
            | ws => inl (set_ck st (CRet VVoid) [FRewind (map (fun x => (false, x)) ws) [FReraise e] [] VVoid])
            end.
Proof. exact uncaught_unwinds. Qed.

End Reference.
