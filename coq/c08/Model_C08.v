(* C08 — the VM mechanism of first-class continuations: LAZY capture.

   crates/steel-core/src/steel_vm/vm.rs:
     call_cc (L5601-5680)                      the continuation is built from the state BEFORE the receiver's frame
                                               is pushed; the mark is attached (weakly) to that new frame
     new_open_continuation_from_state (L1934)  Open mark: stack[sp..], ip, sp, pop_count, instructions
     new_closed_continuation_from_state (L1959) full copy of stack and frames
     ContinuationMark::close (L1325)           Closed := current frames, current stack truncated to open.sp ++ the
                                               saved values, ip / sp / pop_count / instructions of the mark
     handle_pop_pure(_value) (L4004-4130)      normal return: pop_count -= 1, pop the frame, close its mark, truncate
     SteelThread::execute / call_with_instructions_and_reset_state (L1194-1290, L2118-2200)   error unwind
     Continuation::set_state_from_continuation (L1403)   Open: pop frames down to the marked one (closing the marks
                                               of the frames above), then sp/ip/instructions of the mark and
                                               stack := stack[..open.sp] ++ saved values;  Closed: VmCore::
     VmCore::set_state_from_continuation (L2029) pop every frame, closing marks the target does not contain, then
                                               replace stack, frames, ip, sp, pop_count, instructions
     call_continuation (L5003)                 reinstate, ip += 1, push the passed value
     (make_thread and the end of execute also close marks; threads are outside this model)

   Values are opaque naturals; boxes live in [heap], which no continuation operation touches.  [eager] is
   a ghost component: the full copy an eager implementation would have taken at capture time.  Shape facts that
   the definitions depend on come from coq/gen/Gen_C08.v.  Definitions only. *)
From Coq Require Import List Bool Arith Lia.
From SV Require Import gen.Gen_C08.
Import ListNotations.

Definition mid := nat.

Record frame := mkF { f_sp : nat; f_ip : nat; f_ins : nat; f_mark : option mid }.

Record closed := mkC { c_stack : list nat; c_frames : list frame; c_ip : nat; c_sp : nat; c_pc : nat; c_ins : nat }.
Record openm := mkO { o_vals : list nat; o_ip : nat; o_sp : nat; o_pc : nat; o_ins : nat }.
Inductive mark := MOpen (o : openm) | MClosed (c : closed).

Record vm := mkVM {
  stack : list nat;                 (* bottom first *)
  frames : list frame;              (* top first *)
  ip : nat; sp : nat; pc : nat; ins : nat;
  marks : list (mid * mark);        (* continuation objects that can still be invoked; newest binding first *)
  eager : list (mid * closed);      (* ghost: eager full copies taken at capture *)
  nextm : mid;
  heap : list (nat * nat)
}.

Fixpoint lookup {A} (m : mid) (l : list (mid * A)) : option A :=
  match l with [] => None | (k, a) :: r => if Nat.eqb m k then Some a else lookup m r end.

Definition cur_sp (fs : list frame) : nat := match fs with [] => 0 | f :: _ => f_sp f end.

(* ContinuationMark::close in a context whose stack is [stk] and whose frame stack is [fs] *)
Definition close_in (stk : list nat) (fs : list frame) (mk : list (mid * mark)) (m : mid) : list (mid * mark) :=
  match lookup m mk with
  | Some (MOpen o) =>
      (m, MClosed (mkC (firstn (o_sp o) stk ++ o_vals o) fs (o_ip o) (o_sp o) (o_pc o) (o_ins o))) :: mk
  | _ => mk
  end.
Definition close_frame (stk : list nat) (fs : list frame) (mk : list (mid * mark)) (fr : frame) :=
  match f_mark fr with Some m => close_in stk fs mk m | None => mk end.

Definition has_mark (m : mid) (fr : frame) : bool :=
  match f_mark fr with Some k => Nat.eqb k m | None => false end.

(* VmCore::set_state_from_continuation: pop every frame; a frame whose mark the target does not contain is
   closed in the state "just popped" (stack truncated to its sp, frames = the rest) *)
Fixpoint pop_all (keep : mid -> bool) (stk : list nat) (fs : list frame) (mk : list (mid * mark)) : list (mid * mark) :=
  match fs with
  | [] => mk
  | fr :: rest =>
    match f_mark fr with
    | Some m => if keep m then pop_all keep stk rest mk
                else let stk' := firstn (f_sp fr) stk in pop_all keep stk' rest (close_in stk' rest mk m)
    | None => pop_all keep stk rest mk
    end
  end.

(* Continuation::set_state_from_continuation, open mark: pop frames down to the one carrying the mark *)
Fixpoint pop_to (m : mid) (stk : list nat) (fs : list frame) (mk : list (mid * mark)) (n : nat)
  : option (frame * list frame * list nat * list (mid * mark) * nat) :=
  match fs with
  | [] => None                                            (* panic!("Failed to find an open continuation on the stack") *)
  | fr :: rest =>
    if has_mark m fr then Some (fr, rest, stk, mk, S n)
    else let stk' := firstn (f_sp fr) stk in pop_to m stk' rest (close_frame stk' rest mk fr) (S n)
  end.

Inductive op :=
| OSetTop (l : list nat)            (* any change of the current frame's region: stack := stack[..sp] ++ l *)
| OJump (i : nat)                   (* ip := i *)
| OHeap (a v : nat)                 (* set-box! *)
| OCall (k fn : nat)                (* ordinary call: new frame with sp := sp + k (k values stay below as the caller's temporaries) *)
| OCapture (fn : nat)               (* call/cc with a closure receiver *)
| OReturn (v : nat)                 (* handle_pop_pure_value *)
| OUnwind                           (* an error unwinds the top frame (no handler attached to it) *)
| OInvoke (m : mid) (v : nat) (last w1 : bool)
                                    (* call_continuation; last: no other reference to the continuation object exists
                                       (strong_count = 1); w1: weak_count = 1 (consulted by the code before the repair) *).

Inductive res := Ok (s : vm) | Stuck | Panic.

Definition remove_mark (m : mid) (mk : list (mid * mark)) := filter (fun p => negb (Nat.eqb (fst p) m)) mk.

Definition resume (c : closed) (v : nat) : list nat * list frame * nat * nat * nat * nat :=
  (c_stack c ++ [v], c_frames c, S (c_ip c), c_sp c, c_pc c, c_ins c).
Definition ctl6 (s : vm) := (stack s, frames s, ip s, sp s, pc s, ins s).

Definition install (s : vm) (c : closed) (v : nat) (mk : list (mid * mark)) : vm :=
  mkVM (c_stack c ++ [v]) (c_frames c) (S (c_ip c)) (c_sp c) (c_pc c) (c_ins c) mk (eager s) (nextm s) (heap s).

Definition exec (s : vm) (o : op) : res :=
  match o with
  | OSetTop l =>
      Ok (mkVM (firstn (sp s) (stack s) ++ l) (frames s) (ip s) (sp s) (pc s) (ins s) (marks s) (eager s) (nextm s) (heap s))
  | OJump i => Ok (mkVM (stack s) (frames s) i (sp s) (pc s) (ins s) (marks s) (eager s) (nextm s) (heap s))
  | OHeap a v => Ok (mkVM (stack s) (frames s) (ip s) (sp s) (pc s) (ins s) (marks s) (eager s) (nextm s) ((a, v) :: heap s))
  | OCall k fn =>
      if Nat.leb (sp s + k) (length (stack s)) then
        Ok (mkVM (stack s) (mkF (sp s + k) (S (ip s)) (ins s) None :: frames s) 0 (sp s + k) (S (pc s)) fn
                 (marks s) (eager s) (nextm s) (heap s))
      else Stuck
  | OCapture fn =>
      let m := nextm s in
      let o := mkO (skipn (sp s) (stack s)) (ip s) (sp s) (pc s) (ins s) in
      let e := mkC (stack s) (frames s) (ip s) (sp s) (pc s) (ins s) in
      let n := length (stack s) in
      Ok (mkVM (stack s ++ [m]) (mkF n (S (ip s)) (ins s) (Some m) :: frames s) 0 n (S (pc s)) fn
               ((m, MOpen o) :: marks s) ((m, e) :: eager s) (S m) (heap s))
  | OReturn v =>
      match frames s with
      | [] => Stuck
      | fr :: rest =>
          let mk := close_frame (stack s) rest (marks s) fr in
          Ok (mkVM (firstn (f_sp fr) (stack s) ++ [v]) rest (f_ip fr) (cur_sp rest) (pred (pc s)) (f_ins fr)
                   mk (eager s) (nextm s) (heap s))
      end
  | OUnwind =>
      match frames s with
      | [] => Stuck
      | fr :: rest =>
          let stk := firstn (f_sp fr) (stack s) in
          let mk := if unwind_closes_marks then close_frame stk rest (marks s) fr else marks s in
          Ok (mkVM stk rest (f_ip fr) (cur_sp rest) (pred (pc s)) (f_ins fr) mk (eager s) (nextm s) (heap s))
      end
  | OInvoke m v last w1 =>
      match lookup m (marks s) with
      | None => Stuck
      | Some (MClosed c) =>
          let keep := fun k => existsb (has_mark k) (c_frames c) in
          let mk := pop_all keep (stack s) (frames s) (marks s) in
          Ok (install s c v (if last then remove_mark m mk else mk))
      | Some (MOpen o) =>
          match pop_to m (stack s) (frames s) (marks s) 0 with
          | None => Panic
          | Some (fr, rest, stk, mk, n) =>
              if negb last && (reinstate_closes_when_shared || w1) then
                (* strong_count > 1: close through the frame, then reinstate the closed copy *)
                let mk' := close_in stk rest mk m in
                match lookup m mk' with
                | Some (MClosed c) =>
                    let keep := fun k => existsb (has_mark k) (c_frames c) in
                    Ok (install s c v (pop_all keep stk rest mk'))
                | _ => Stuck
                end
              else
                let mk' := if last then remove_mark m mk else mk in
                Ok (mkVM ((firstn (o_sp o) stk ++ o_vals o) ++ [v]) rest (S (o_ip o)) (o_sp o) (pc s - n) (o_ins o)
                         mk' (eager s) (nextm s) (heap s))
          end
      end
  end.

Fixpoint run (s : vm) (ops : list op) : res :=
  match ops with
  | [] => Ok s
  | o :: r => match exec s o with Ok s' => run s' r | e => e end
  end.

Definition init : vm := mkVM [] [] 0 0 1 0 [] [] 0 [].

(* the behaviour before the repairs, for the refutation witnesses: same machine with the two facts false *)
Definition exec_old (closes shared : bool) (s : vm) (o : op) : res :=
  match o with
  | OUnwind =>
      match frames s with
      | [] => Stuck
      | fr :: rest =>
          let stk := firstn (f_sp fr) (stack s) in
          let mk := if closes then close_frame stk rest (marks s) fr else marks s in
          Ok (mkVM stk rest (f_ip fr) (cur_sp rest) (pred (pc s)) (f_ins fr) mk (eager s) (nextm s) (heap s))
      end
  | OInvoke m v last w1 =>
      match lookup m (marks s) with
      | Some (MOpen o) =>
          match pop_to m (stack s) (frames s) (marks s) 0 with
          | None => Panic
          | Some (fr, rest, stk, mk, n) =>
              if negb last && (shared || w1) then exec s (OInvoke m v last true)
              else Ok (mkVM ((firstn (o_sp o) stk ++ o_vals o) ++ [v]) rest (S (o_ip o)) (o_sp o) (pc s - n) (o_ins o)
                            (if last then remove_mark m mk else mk) (eager s) (nextm s) (heap s))
          end
      | _ => exec s o
      end
  | _ => exec s o
  end.
Fixpoint run_old (closes shared : bool) (s : vm) (ops : list op) : res :=
  match ops with
  | [] => Ok s
  | o :: r => match exec_old closes shared s o with Ok s' => run_old closes shared s' r | e => e end
  end.
