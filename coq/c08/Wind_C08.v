(* C08 — dynamic-wind and handlers over the reference machine coq/lib/Lang.v. *)
From Coq Require Import ZArith List Bool String Arith Lia.
From SV Require Import lib.Lang.
Import ListNotations.

(* the wind thunks a continuation jump schedules (Lang.apply_proc, VCont case) *)
Definition plan (cur w : list wind) : list (bool * wind) :=
  let n := common_suffix_len cur w in
  (map (fun x => (false, x)) (firstn (List.length cur - n) cur) ++
   map (fun x => (true, x)) (rev (firstn (List.length w - n) w)))%list.

(* executing a plan on the stack of entered extents (innermost first): an exit must concern the innermost
   entered extent, an entry pushes *)
Fixpoint apply_plan (stack : list nat) (p : list (bool * wind)) : option (list nat) :=
  match p with
  | [] => Some stack
  | (false, x) :: r => match stack with
                       | i :: s' => if Nat.eqb i (wind_id x) then apply_plan s' r else None
                       | [] => None
                       end
  | (true, x) :: r => apply_plan (wind_id x :: stack) r
  end.

Lemma common_prefix_firstn : forall a b,
  firstn (common_prefix_len a b) a = firstn (common_prefix_len a b) b /\
  common_prefix_len a b <= List.length a /\ common_prefix_len a b <= List.length b.
Proof.
  induction a as [| x a IH]; intros b; [cbn; repeat split; lia |].
  destruct b as [| y b]; [cbn; repeat split; lia |]. cbn [common_prefix_len].
  destruct (Nat.eqb_spec x y); [| cbn; repeat split; lia].
  subst y. destruct (IH b) as [H1 [H2 H3]]. cbn [firstn List.length]. rewrite H1. repeat split; lia.
Qed.

Lemma skipn_rev_firstn : forall (A : Type) (l : list A) n, n <= List.length l ->
  skipn (List.length l - n) l = rev (firstn n (rev l)).
Proof.
  intros A l n H. rewrite firstn_rev. rewrite rev_involutive. reflexivity.
Qed.

Lemma common_suffix_ids : forall a b, let n := common_suffix_len a b in
  map wind_id (skipn (List.length a - n) a) = map wind_id (skipn (List.length b - n) b) /\
  n <= List.length a /\ n <= List.length b.
Proof.
  intros a b n. unfold n, common_suffix_len.
  destruct (common_prefix_firstn (rev (map wind_id a)) (rev (map wind_id b))) as [H1 [H2 H3]].
  set (k := common_prefix_len (rev (map wind_id a)) (rev (map wind_id b))) in *.
  rewrite rev_length, map_length in H2, H3. split; [| split; assumption].
  rewrite <- !skipn_map.
  replace (List.length a) with (List.length (map wind_id a)) by apply map_length.
  replace (List.length b) with (List.length (map wind_id b)) by apply map_length.
  rewrite !skipn_rev_firstn by (rewrite map_length; assumption). rewrite H1. reflexivity.
Qed.

Lemma apply_plan_leave : forall l s r,
  apply_plan (map wind_id l ++ s) (map (fun x => (false, x)) l ++ r) = apply_plan s r.
Proof.
  induction l as [| x l IH]; intros s r; [reflexivity |]. cbn. rewrite Nat.eqb_refl. apply IH.
Qed.

Lemma apply_plan_enter : forall l s,
  apply_plan s (map (fun x => (true, x)) l) = Some (rev (map wind_id l) ++ s)%list.
Proof.
  induction l as [| x l IH]; intros s; [reflexivity |]. cbn [map apply_plan]. rewrite IH.
  cbn [map rev]. rewrite <- app_assoc. reflexivity.
Qed.

(* every continuation jump, whatever the current and the target winders: the scheduled thunks leave the
   extents not shared with the target, innermost first, then enter the target's, outermost first — each once,
   well bracketed, ending exactly in the target's extents *)
Lemma plan_brackets : forall cur w,
  apply_plan (map wind_id cur) (plan cur w) = Some (map wind_id w).
Proof.
  intros cur w. unfold plan. destruct (common_suffix_ids cur w) as [Hc [Ha Hb]].
  set (n := common_suffix_len cur w) in *.
  rewrite <- (firstn_skipn (List.length cur - n) cur) at 1. rewrite map_app, apply_plan_leave.
  rewrite apply_plan_enter. rewrite map_rev, rev_involutive, Hc, <- map_app, firstn_skipn. reflexivity.
Qed.

Lemma jump_uses_plan : forall st k w v,
  apply_proc st (VCont k w) [v] = set_ck st (CRet VVoid) [FRewind (plan (winds st) w) k w v].
Proof. intros. reflexivity. Qed.

(* the three phases of a jump, step by step *)
Lemma rewind_leave_step : forall st i b a r k w v x ws,
  ctl st = CRet x -> kont st = [FRewind ((false, Wind i b a) :: r) k w v] -> winds st = Wind i b a :: ws ->
  step st = inl (mkState (CApply a []) [FRewind r k w v] (store st) (next st) (genv st) (out st) ws).
Proof. intros st i b a r k w v x ws Hc Hk Hw. unfold step. rewrite Hc, Hk. cbn. rewrite Hw. reflexivity. Qed.

Lemma rewind_enter_step : forall st i b a r k w v x,
  ctl st = CRet x -> kont st = [FRewind ((true, Wind i b a) :: r) k w v] ->
  step st = inl (mkState (CApply b []) [FRewind r k w v] (store st) (next st) (genv st) (out st) (winds st)).
Proof. intros st i b a r k w v x Hc Hk. unfold step. rewrite Hc, Hk. reflexivity. Qed.

Lemma rewind_done_step : forall st k w v x,
  ctl st = CRet x -> kont st = [FRewind [] k w v] ->
  step st = inl (mkState (CRet v) k (store st) (next st) (genv st) (out st) w).
Proof. intros st k w v x Hc Hk. unfold step. rewrite Hc, Hk. reflexivity. Qed.

(* normal entry and exit of a dynamic-wind: before has returned -> the extent is entered (fresh stamp) and the
   body thunk runs; the body has returned v -> the extent is left and `after` runs; then v is returned *)
Lemma wind_enter_step : forall st x b t a k,
  ctl st = CRet x -> kont st = FWindBody b t a :: k ->
  step st = inl (mkState (CApply t []) (FWindAfter a :: k) ((next st, VVoid) :: store st) (S (next st)) (genv st) (out st)
                         (Wind (next st) b a :: winds st)).
Proof. intros st x b t a k Hc Hk. unfold step. rewrite Hc, Hk. reflexivity. Qed.

Lemma wind_exit_step : forall st v a k,
  ctl st = CRet v -> kont st = FWindAfter a :: k ->
  step st = inl (mkState (CApply a []) (FWindRet v :: k) (store st) (next st) (genv st) (out st) (tl (winds st))).
Proof. intros st v a k Hc Hk. unfold step. rewrite Hc, Hk. reflexivity. Qed.

Lemma wind_ret_step : forall st x v k,
  ctl st = CRet x -> kont st = FWindRet v :: k ->
  step st = inl (mkState (CRet v) k (store st) (next st) (genv st) (out st) (winds st)).
Proof. intros st x v k Hc Hk. unfold step. rewrite Hc, Hk. reflexivity. Qed.

(* ------------------------------------------------------------------ handlers *)
Definition is_handler (f : frame) : bool := match f with FHandler _ _ => true | _ => false end.

Fixpoint find_handler (k : list frame) : option (val * list wind * list frame) :=
  match k with
  | [] => None
  | FHandler h w :: r => Some (h, w, r)
  | _ :: r => find_handler r
  end.

Lemma find_handler_app : forall above h w k',
  forallb (fun f => negb (is_handler f)) above = true ->
  find_handler (above ++ FHandler h w :: k') = Some (h, w, k').
Proof.
  induction above as [| f above IH]; intros h w k' H; [reflexivity |].
  cbn in H. apply andb_true_iff in H. destruct H as [Hf H]. cbn [app find_handler].
  destruct f; try (apply IH; exact H). discriminate Hf.
Qed.

Lemma raise_step : forall st e,
  ctl st = CRaise e ->
  step st =
  match find_handler (kont st) with
  | Some (h, w, k') =>
      match firstn (List.length (winds st) - List.length w) (winds st) with
      | [] => inl (set_ck (set_winds st w) (CApply h [e]) k')
      | leaving => inl (set_ck st (CRet VVoid) [FRewind (map (fun x => (false, x)) leaving) (FFun [e] :: k') w h])
      end
  | None =>
      match winds st with
      | [] => inr (Failed e st)
      | ws => inl (set_ck st (CRet VVoid) [FRewind (map (fun x => (false, x)) ws) [FReraise e] [] VVoid])
      end
  end.
Proof.
  intros st e Hc. unfold step. rewrite Hc.
  change ((fix find (k : list frame) : option (val * list wind * list frame) :=
             match k with
             | [] => None
             | FHandler h w :: r => Some (h, w, r)
             | _ :: r => find r
             end) (kont st)) with (find_handler (kont st)).
  destruct (find_handler (kont st)) as [[[h w] k'] |]; [| reflexivity].
  destruct (firstn (List.length (winds st) - List.length w) (winds st)); reflexivity.
Qed.

(* a raised error reaches the NEAREST enclosing handler; the continuation is truncated to the with-handler's
   own continuation; the extents entered inside the with-handler are left, innermost first, before the
   handler procedure is applied to the error *)
Lemma handler_unwinds : forall st e above h w k',
  ctl st = CRaise e -> kont st = (above ++ FHandler h w :: k')%list ->
  forallb (fun f => negb (is_handler f)) above = true ->
  step st =
  match firstn (List.length (winds st) - List.length w) (winds st) with
  | [] => inl (set_ck (set_winds st w) (CApply h [e]) k')
  | leaving => inl (set_ck st (CRet VVoid) [FRewind (map (fun x => (false, x)) leaving) (FFun [e] :: k') w h])
  end.
Proof.
  intros st e above h w k' Hc Hk Ha. rewrite (raise_step st e Hc), Hk, (find_handler_app above h w k' Ha).
  reflexivity.
Qed.

(* ... and once those `after` thunks have run, the handler is applied in that continuation with the winders
   of the with-handler *)
Lemma handler_after_unwind : forall st x e k' w h,
  ctl st = CRet x -> kont st = [FRewind [] (FFun [e] :: k') w h] ->
  exists st1, step st = inl st1 /\
    step st1 = inl (mkState (CApply h [e]) k' (store st) (next st) (genv st) (out st) w).
Proof.
  intros st x e k' w h Hc Hk. eexists. split; [apply (rewind_done_step st _ w h x Hc Hk) |]. reflexivity.
Qed.

(* an uncaught error still leaves every entered extent before the evaluation fails *)
Lemma uncaught_unwinds : forall st e, ctl st = CRaise e -> find_handler (kont st) = None ->
  step st = match winds st with
            | [] => inr (Failed e st)
            | ws => inl (set_ck st (CRet VVoid) [FRewind (map (fun x => (false, x)) ws) [FReraise e] [] VVoid])
            end.
Proof. intros st e Hc Hn. rewrite (raise_step st e Hc), Hn. reflexivity. Qed.
