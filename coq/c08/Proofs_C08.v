(* C08 — lemmas about the mechanism model (Model_C08.v).  Property theorems are in Properties_C08.v. *)
From Coq Require Import List Bool Arith Lia.
From SV Require Import gen.Gen_C08 c08.Model_C08.
Import ListNotations.

(* ------------------------------------------------------------------ lists *)
Lemma firstn_le_eq : forall (A : Type) n k (a b : list A),
  firstn n a = firstn n b -> k <= n -> firstn k a = firstn k b.
Proof.
  intros A n k a b H Hk.
  assert (E : forall l : list A, firstn k l = firstn k (firstn n l)).
  { intros l. rewrite firstn_firstn. rewrite Nat.min_l by lia. reflexivity. }
  rewrite (E a), (E b), H. reflexivity.
Qed.

Lemma firstn_app_le : forall (A : Type) n (a b : list A), n <= length a -> firstn n (a ++ b) = firstn n a.
Proof.
  intros A n a b H. rewrite firstn_app. replace (n - length a) with 0 by lia. cbn. apply app_nil_r.
Qed.

Definition same_below (n : nat) (stk stk' : list nat) : Prop :=
  forall k, k <= n -> k <= length stk -> firstn k stk' = firstn k stk.

Lemma same_below_trunc_app : forall n stk l, same_below n stk (firstn n stk ++ l).
Proof.
  intros n stk l k Hk Hl.
  rewrite firstn_app_le by (rewrite firstn_length; lia).
  rewrite firstn_firstn. rewrite Nat.min_l by lia. reflexivity.
Qed.

Lemma same_below_trunc : forall n stk, same_below n stk (firstn n stk).
Proof.
  intros n stk k Hk Hl. rewrite firstn_firstn. rewrite Nat.min_l by lia. reflexivity.
Qed.

Lemma same_below_app : forall n stk l, same_below n stk (stk ++ l).
Proof. intros n stk l k Hk Hl. apply firstn_app_le. exact Hl. Qed.

Lemma same_below_weaken : forall n n' stk stk', same_below n stk stk' -> n' <= n -> same_below n' stk stk'.
Proof. intros n n' stk stk' H Hn k Hk Hl. apply H; lia. Qed.

Lemma prefix_len : forall k (a b : list nat), firstn k a = firstn k b -> k <= length b -> k <= length a.
Proof.
  intros k a b H Hb. assert (L : length (firstn k a) = length (firstn k b)) by (rewrite H; reflexivity).
  rewrite !firstn_length in L. lia.
Qed.

(* ------------------------------------------------------------------ lookup *)
Lemma lookup_cons_ne : forall (A : Type) m k (a : A) l, m <> k -> lookup m ((k, a) :: l) = lookup m l.
Proof. intros A m k a l H. cbn. destruct (Nat.eqb_spec m k); [contradiction | reflexivity]. Qed.
Lemma lookup_cons_eq : forall (A : Type) m (a : A) l, lookup m ((m, a) :: l) = Some a.
Proof. intros A m a l. cbn. rewrite Nat.eqb_refl. reflexivity. Qed.

(* ------------------------------------------------------------------ the frame-stack invariant *)
Definition entry_ok (stk : list nat) (below : list frame) (fr : frame) (eg : list (mid * closed)) : Prop :=
  match f_mark fr with
  | Some m' => forall e', lookup m' eg = Some e' ->
      c_frames e' = below /\ firstn (c_sp e') stk = firstn (c_sp e') (c_stack e') /\
      c_sp e' <= f_sp fr /\ c_sp e' <= length (c_stack e')
  | None => True
  end.

Fixpoint live_ok (stk : list nat) (fs : list frame) (eg : list (mid * closed)) : Prop :=
  match fs with
  | [] => True
  | fr :: below => entry_ok stk below fr eg /\ cur_sp below <= f_sp fr /\ live_ok stk below eg
  end.

Lemma live_ok_stack : forall eg fs stk stk' n,
  live_ok stk fs eg -> cur_sp fs <= n -> same_below n stk stk' -> live_ok stk' fs eg.
Proof.
  intros eg. induction fs as [| fr below IH]; intros stk stk' n H Hn Hs; [exact I |].
  cbn [live_ok] in *. destruct H as [He [Hsp Hl]]. cbn [cur_sp] in Hn. split; [| split].
  - unfold entry_ok in *. destruct (f_mark fr) as [m' |]; [| exact I].
    intros e' Hl'. destruct (He e' Hl') as [H1 [H2 [H3 H4]]]. repeat split; auto.
    rewrite <- H2. apply Hs; [lia |]. apply (prefix_len _ _ _ H2 H4).
  - exact Hsp.
  - apply (IH stk stk' n Hl); [lia | exact Hs].
Qed.

Definition marks_lt (fs : list frame) (n : mid) : Prop :=
  forall fr m, In fr fs -> f_mark fr = Some m -> m < n.

Lemma live_ok_eager_ext : forall stk fs eg m e,
  live_ok stk fs eg -> marks_lt fs m -> live_ok stk fs ((m, e) :: eg).
Proof.
  intros stk fs eg m e. induction fs as [| fr below IH]; intros H Hlt; [exact I |].
  cbn [live_ok] in *. destruct H as [He [Hsp Hl]]. split; [| split; [exact Hsp |]].
  - unfold entry_ok in *. destruct (f_mark fr) as [m' |] eqn:Em; [| exact I].
    intros e' Hl'. assert (m' < m) by (apply (Hlt fr m'); [left; reflexivity | exact Em]).
    rewrite lookup_cons_ne in Hl' by lia. exact (He e' Hl').
  - apply IH; [exact Hl |]. intros fr' m' Hin Hm. apply (Hlt fr' m'); [right; exact Hin | exact Hm].
Qed.
(* ------------------------------------------------------------------ marks *)
Definition agree (o : openm) (e : closed) : Prop :=
  c_ip e = o_ip o /\ c_sp e = o_sp o /\ c_pc e = o_pc o /\ c_ins e = o_ins o /\
  c_stack e = firstn (o_sp o) (c_stack e) ++ o_vals o.

Definition open_agree (mk : list (mid * mark)) (eg : list (mid * closed)) : Prop :=
  forall m o, lookup m mk = Some (MOpen o) -> exists e, lookup m eg = Some e /\ agree o e.
Definition closed_eager (mk : list (mid * mark)) (eg : list (mid * closed)) : Prop :=
  forall m c, lookup m mk = Some (MClosed c) -> lookup m eg = Some c.
Definition open_live (mk : list (mid * mark)) (fs : list frame) : Prop :=
  forall m o, lookup m mk = Some (MOpen o) -> exists fr, In fr fs /\ f_mark fr = Some m.

Lemma close_eq_eager : forall stk rest fr eg m o e,
  entry_ok stk rest fr eg -> f_mark fr = Some m -> lookup m eg = Some e -> agree o e ->
  mkC (firstn (o_sp o) stk ++ o_vals o) rest (o_ip o) (o_sp o) (o_pc o) (o_ins o) = e.
Proof.
  intros stk rest fr eg m o e He Hm Hl [A1 [A2 [A3 [A4 A5]]]].
  unfold entry_ok in He. rewrite Hm in He. destruct (He e Hl) as [H1 [H2 _]].
  destruct e as [cs cf ci csp cpc cins]. cbn in *. subst cf ci csp cpc cins. f_equal.
  rewrite H2. symmetry. exact A5.
Qed.

Lemma close_in_other : forall stk fs mk m k, k <> m -> lookup k (close_in stk fs mk m) = lookup k mk.
Proof.
  intros stk fs mk m k H. unfold close_in. destruct (lookup m mk) as [[o | c] |]; try reflexivity.
  apply lookup_cons_ne. exact H.
Qed.

Lemma close_in_self : forall stk fs mk m,
  lookup m (close_in stk fs mk m) =
  match lookup m mk with
  | Some (MOpen o) => Some (MClosed (mkC (firstn (o_sp o) stk ++ o_vals o) fs (o_ip o) (o_sp o) (o_pc o) (o_ins o)))
  | x => x
  end.
Proof.
  intros stk fs mk m. unfold close_in. destruct (lookup m mk) as [[o | c] |] eqn:E; try exact E.
  apply lookup_cons_eq.
Qed.

(* what closing a popped frame's mark does to the three mark invariants *)
Lemma close_frame_ok : forall stk rest fr eg mk,
  entry_ok stk rest fr eg -> open_agree mk eg -> closed_eager mk eg ->
  open_agree (close_frame stk rest mk fr) eg /\ closed_eager (close_frame stk rest mk fr) eg /\
  (forall k, f_mark fr <> Some k -> lookup k (close_frame stk rest mk fr) = lookup k mk) /\
  (forall k o, f_mark fr = Some k -> lookup k (close_frame stk rest mk fr) <> Some (MOpen o)).
Proof.
  intros stk rest fr eg mk He Ha Hc. unfold close_frame. destruct (f_mark fr) as [m |] eqn:Em.
  - repeat split.
    + intros k o Hk. destruct (Nat.eq_dec k m) as [-> | Hne].
      * rewrite close_in_self in Hk. destruct (lookup m mk) as [[o' | c'] |]; discriminate Hk.
      * rewrite close_in_other in Hk by exact Hne. exact (Ha k o Hk).
    + intros k c Hk. destruct (Nat.eq_dec k m) as [-> | Hne].
      * rewrite close_in_self in Hk. destruct (lookup m mk) as [[o' | c'] |] eqn:E.
        -- inversion Hk; subst c. destruct (Ha m o' E) as [e [Hl Hag]].
           rewrite (close_eq_eager stk rest fr eg m o' e He Em Hl Hag). exact Hl.
        -- apply Hc. rewrite E. exact Hk.
        -- discriminate Hk.
      * rewrite close_in_other in Hk by exact Hne. exact (Hc k c Hk).
    + intros k Hk. apply close_in_other. congruence.
    + intros k o Hk. inversion Hk; subst k. rewrite close_in_self.
      destruct (lookup m mk) as [[o' | c'] |]; discriminate.
  - split; [exact Ha |]. split; [exact Hc |]. split; [intros; reflexivity |].
    intros k o Hk. discriminate Hk.
Qed.

Lemma entry_ok_stack : forall eg stk stk' below fr n,
  entry_ok stk below fr eg -> f_sp fr <= n -> same_below n stk stk' -> entry_ok stk' below fr eg.
Proof.
  intros eg stk stk' below fr n He Hn Hs. unfold entry_ok in *. destruct (f_mark fr); [| exact I].
  intros e' Hl. destruct (He e' Hl) as [H1 [H2 [H3 H4]]]. repeat split; auto.
  rewrite <- H2. apply Hs; [lia |]. apply (prefix_len _ _ _ H2 H4).
Qed.

Lemma lookup_remove_other : forall mk m k, k <> m -> lookup k (remove_mark m mk) = lookup k mk.
Proof.
  induction mk as [| [a b] mk IH]; intros m k H; [reflexivity |]. cbn.
  destruct (Nat.eqb_spec a m); cbn.
  - subst a. destruct (Nat.eqb_spec k m); [contradiction |]. apply IH. exact H.
  - destruct (Nat.eqb k a); [reflexivity | apply IH; exact H].
Qed.
Lemma lookup_remove_self : forall mk m, lookup m (remove_mark m mk) = None.
Proof.
  induction mk as [| [a b] mk IH]; intros m; [reflexivity |]. cbn.
  destruct (Nat.eqb_spec a m); cbn; [apply IH |].
  destruct (Nat.eqb_spec m a); [congruence | apply IH].
Qed.

(* ------------------------------------------------------------------ pop_all *)
Lemma pop_all_ok : forall keep eg fs stk mk,
  live_ok stk fs eg -> open_agree mk eg -> closed_eager mk eg ->
  let mk' := pop_all keep stk fs mk in
  open_agree mk' eg /\ closed_eager mk' eg /\
  (forall k o, lookup k mk' = Some (MOpen o) -> lookup k mk = Some (MOpen o)) /\
  (forall k o fr, lookup k mk' = Some (MOpen o) -> In fr fs -> f_mark fr = Some k -> keep k = true) /\
  (forall k, (forall fr, In fr fs -> f_mark fr <> Some k) -> lookup k mk' = lookup k mk).
Proof.
  intros keep eg. induction fs as [| fr rest IH]; intros stk mk Hl Ha Hc; cbn [pop_all].
  - repeat split; auto; try (intros k o fr _ []).
  - cbn [live_ok] in Hl. destruct Hl as [He [Hsp Hl]].
    destruct (f_mark fr) as [m |] eqn:Em.
    + destruct (keep m) eqn:Ek.
      * destruct (IH stk mk Hl Ha Hc) as [I1 [I2 [I3 [I4 I5]]]]. repeat split; auto.
        -- intros k o fr' Hk [-> | Hin] Hm; [congruence | exact (I4 k o fr' Hk Hin Hm)].
        -- intros k Hk. apply I5. intros fr' Hin. apply Hk. right. exact Hin.
      * set (stk' := firstn (f_sp fr) stk).
        assert (He' : entry_ok stk' rest fr eg).
        { apply (entry_ok_stack eg stk stk' rest fr (f_sp fr) He); [lia | apply same_below_trunc]. }
        assert (Hl' : live_ok stk' rest eg).
        { apply (live_ok_stack eg rest stk stk' (f_sp fr) Hl Hsp). apply same_below_trunc. }
        destruct (close_frame_ok stk' rest fr eg mk He' Ha Hc) as [C1 [C2 [C3 C4]]].
        unfold close_frame in C1, C2, C3, C4. rewrite Em in C1, C2, C3, C4.
        destruct (IH stk' (close_in stk' rest mk m) Hl' C1 C2) as [I1 [I2 [I3 [I4 I5]]]].
        repeat split; auto.
        -- intros k o Hk. specialize (I3 k o Hk). destruct (Nat.eq_dec k m) as [-> | Hne].
           ++ exfalso. exact (C4 m o eq_refl I3).
           ++ rewrite C3 in I3 by congruence. exact I3.
        -- intros k o fr' Hk [-> | Hin] Hm.
           ++ exfalso. rewrite Em in Hm. inversion Hm; subst k. exact (C4 m o eq_refl (I3 m o Hk)).
           ++ exact (I4 k o fr' Hk Hin Hm).
        -- intros k Hk. rewrite I5 by (intros fr' Hin; apply Hk; right; exact Hin).
           apply C3. intros E. apply (Hk fr); [left; reflexivity |]. congruence.
    + destruct (IH stk mk Hl Ha Hc) as [I1 [I2 [I3 [I4 I5]]]]. repeat split; auto.
      * intros k o fr' Hk [-> | Hin] Hm; [congruence | exact (I4 k o fr' Hk Hin Hm)].
      * intros k Hk. apply I5. intros fr' Hin. apply Hk. right. exact Hin.
Qed.

Lemma pop_all_keep_all : forall keep fs stk mk,
  (forall fr m, In fr fs -> f_mark fr = Some m -> keep m = true) -> pop_all keep stk fs mk = mk.
Proof.
  intros keep. induction fs as [| fr rest IH]; intros stk mk H; [reflexivity |]. cbn [pop_all].
  assert (Hr : forall fr' m, In fr' rest -> f_mark fr' = Some m -> keep m = true)
    by (intros fr' m Hin; apply H; right; exact Hin).
  destruct (f_mark fr) as [m |] eqn:Em; [| apply IH; exact Hr].
  rewrite (H fr m (or_introl eq_refl) Em). apply IH. exact Hr.
Qed.
(* ------------------------------------------------------------------ pop_to *)
Lemma has_mark_iff : forall m fr, has_mark m fr = true <-> f_mark fr = Some m.
Proof.
  intros m fr. unfold has_mark. destruct (f_mark fr) as [k |]; [| split; discriminate].
  rewrite Nat.eqb_eq. split; congruence.
Qed.

Lemma pop_to_ok : forall eg m e fs stk mk n,
  live_ok stk fs eg -> open_agree mk eg -> closed_eager mk eg -> lookup m eg = Some e ->
  (exists fr, In fr fs /\ f_mark fr = Some m) ->
  exists fr rest stk' mk',
    pop_to m stk fs mk n = Some (fr, rest, stk', mk', n + (length fs - length rest)) /\
    f_mark fr = Some m /\ c_frames e = rest /\ firstn (c_sp e) stk' = firstn (c_sp e) (c_stack e) /\
    c_sp e <= length (c_stack e) /\ length rest < length fs /\
    live_ok stk' rest eg /\ open_agree mk' eg /\ closed_eager mk' eg /\
    lookup m mk' = lookup m mk /\
    (forall k o, lookup k mk' = Some (MOpen o) -> lookup k mk = Some (MOpen o)) /\
    (forall k o fr', lookup k mk' = Some (MOpen o) -> In fr' fs -> f_mark fr' = Some k -> In fr' (fr :: rest)).
Proof.
  intros eg m e. induction fs as [| fr rest IH]; intros stk mk n Hl Ha Hc He [fr0 [Hin Hm]]; [destruct Hin |].
  cbn [pop_to]. cbn [live_ok] in Hl. destruct Hl as [Hen [Hsp Hl]].
  destruct (has_mark m fr) eqn:Eh.
  - apply has_mark_iff in Eh. exists fr, rest, stk, mk.
    unfold entry_ok in Hen. rewrite Eh in Hen. destruct (Hen e He) as [H1 [H2 [H3 H4]]].
    repeat split; auto.
    all: try (cbn [length]; lia).
    all: try (f_equal; f_equal; cbn [length]; lia).
    all: try (intros k o fr' _ Hin' _; exact Hin').
  - assert (Hne : f_mark fr <> Some m).
    { intros E. apply has_mark_iff in E. congruence. }
    destruct Hin as [-> | Hin]; [contradiction |].
    set (stk' := firstn (f_sp fr) stk).
    assert (He' : entry_ok stk' rest fr eg).
    { apply (entry_ok_stack eg stk stk' rest fr (f_sp fr) Hen); [lia | apply same_below_trunc]. }
    assert (Hl' : live_ok stk' rest eg).
    { apply (live_ok_stack eg rest stk stk' (f_sp fr) Hl Hsp). apply same_below_trunc. }
    destruct (close_frame_ok stk' rest fr eg mk He' Ha Hc) as [C1 [C2 [C3 C4]]].
    destruct (IH stk' (close_frame stk' rest mk fr) (S n) Hl' C1 C2 He (ex_intro _ fr0 (conj Hin Hm)))
      as [fr1 [rest1 [stk1 [mk1 [P1 [P2 [P3 [P4 [P5 [P6 [P7 [P8 [P9 [P10 [P11 P12]]]]]]]]]]]]]]].
    exists fr1, rest1, stk1, mk1.
    split; [rewrite P1; f_equal; f_equal; cbn [length]; lia |].
    split; [exact P2 |]. split; [exact P3 |]. split; [exact P4 |]. split; [exact P5 |].
    split; [cbn [length]; lia |]. split; [exact P7 |]. split; [exact P8 |]. split; [exact P9 |].
    split; [rewrite P10; apply C3; exact Hne |]. split.
    + intros k o Hk. specialize (P11 k o Hk). destruct (f_mark fr) as [mf |] eqn:Emf.
      * destruct (Nat.eq_dec k mf) as [-> | Hk'].
        -- exfalso. exact (C4 mf o eq_refl P11).
        -- rewrite C3 in P11 by congruence. exact P11.
      * rewrite C3 in P11 by congruence. exact P11.
    + intros k o fr' Hk [-> | Hin'] Hm'.
      * exfalso. exact (C4 k o Hm' (P11 k o Hk)).
      * exact (P12 k o fr' Hk Hin' Hm').
Qed.

Lemma pop_to_none_panics : forall m fs stk mk n,
  (forall fr, In fr fs -> f_mark fr <> Some m) -> pop_to m stk fs mk n = None.
Proof.
  intros m. induction fs as [| fr rest IH]; intros stk mk n H; [reflexivity |]. cbn [pop_to].
  destruct (has_mark m fr) eqn:E.
  - apply has_mark_iff in E. exfalso. exact (H fr (or_introl eq_refl) E).
  - apply IH. intros fr' Hin. apply H. right. exact Hin.
Qed.

(* ------------------------------------------------------------------ the invariant *)
Definition copy_ok (eg : list (mid * closed)) (e : closed) : Prop :=
  live_ok (c_stack e) (c_frames e) eg /\ c_sp e = cur_sp (c_frames e) /\
  c_pc e = S (length (c_frames e)) /\ c_sp e <= length (c_stack e).

Record Inv (s : vm) : Prop := mkInv {
  i_live : live_ok (stack s) (frames s) (eager s);
  i_copies : forall m e, lookup m (eager s) = Some e ->
               copy_ok (eager s) e /\ marks_lt (c_frames e) (nextm s) /\ m < nextm s;
  i_agree : open_agree (marks s) (eager s);
  i_closed : closed_eager (marks s) (eager s);
  i_openlive : open_live (marks s) (frames s);
  i_sp : sp s = cur_sp (frames s);
  i_pc : pc s = S (length (frames s));
  i_len : sp s <= length (stack s);
  i_lt : marks_lt (frames s) (nextm s)
}.

Lemma inv_init : Inv init.
Proof.
  constructor; cbn; auto; try (intros ? ? H; discriminate H); try (intros ? ? [] ).
Qed.

Lemma marks_lt_weaken : forall fs n n', marks_lt fs n -> n <= n' -> marks_lt fs n'.
Proof. intros fs n n' H Hn fr m Hin Hm. specialize (H fr m Hin Hm). lia. Qed.

Lemma marks_lt_tail : forall fr fs n, marks_lt (fr :: fs) n -> marks_lt fs n.
Proof. intros fr fs n H fr' m Hin Hm. apply (H fr' m); [right; exact Hin | exact Hm]. Qed.

(* installing the eager copy e (with the passed value pushed) re-establishes the invariant *)
Lemma install_inv : forall s e m0 v mk,
  Inv s -> lookup m0 (eager s) = Some e ->
  open_agree mk (eager s) -> closed_eager mk (eager s) -> open_live mk (c_frames e) ->
  Inv (install s e v mk).
Proof.
  intros s e m0 v mk HI He Ha Hc Ho. destruct (i_copies s HI m0 e He) as [[C1 [C2 [C3 C4]]] [C5 C6]].
  constructor; cbn [install stack frames eager marks sp pc nextm]; auto.
  - apply (live_ok_stack (eager s) (c_frames e) (c_stack e) (c_stack e ++ [v]) (c_sp e) C1); [lia |].
    apply same_below_app.
  - exact (i_copies s HI).
  - rewrite app_length. lia.
Qed.

Lemma remove_mark_inv : forall mk m eg fs,
  open_agree mk eg -> closed_eager mk eg ->
  (forall k o, k <> m -> lookup k mk = Some (MOpen o) -> exists fr, In fr fs /\ f_mark fr = Some k) ->
  open_agree (remove_mark m mk) eg /\ closed_eager (remove_mark m mk) eg /\ open_live (remove_mark m mk) fs.
Proof.
  intros mk m eg fs Ha Hc Ho. repeat split.
  - intros k o Hk. destruct (Nat.eq_dec k m) as [-> | Hne].
    + rewrite lookup_remove_self in Hk. discriminate Hk.
    + rewrite lookup_remove_other in Hk by exact Hne. exact (Ha k o Hk).
  - intros k c Hk. destruct (Nat.eq_dec k m) as [-> | Hne].
    + rewrite lookup_remove_self in Hk. discriminate Hk.
    + rewrite lookup_remove_other in Hk by exact Hne. exact (Hc k c Hk).
  - intros k o Hk. destruct (Nat.eq_dec k m) as [-> | Hne].
    + rewrite lookup_remove_self in Hk. discriminate Hk.
    + rewrite lookup_remove_other in Hk by exact Hne. exact (Ho k o Hne Hk).
Qed.
(* ------------------------------------------------------------------ every operation preserves the invariant *)
Lemma open_live_mono : forall mk fs fr, open_live mk fs -> open_live mk (fr :: fs).
Proof. intros mk fs fr H m o Hm. destruct (H m o Hm) as [f [Hin Hf]]. exists f. split; [right; exact Hin | exact Hf]. Qed.

Lemma pop_frame_marks : forall s fr rest stk,
  Inv s -> frames s = fr :: rest -> same_below (f_sp fr) (stack s) stk ->
  let mk := close_frame stk rest (marks s) fr in
  open_agree mk (eager s) /\ closed_eager mk (eager s) /\ open_live mk rest.
Proof.
  intros s fr rest stk HI Hf Hs mk.
  pose proof (i_live s HI) as Hl. rewrite Hf in Hl. cbn [live_ok] in Hl. destruct Hl as [He [Hsp Hl]].
  assert (He' : entry_ok stk rest fr (eager s)).
  { apply (entry_ok_stack (eager s) (stack s) stk rest fr (f_sp fr) He); [lia | exact Hs]. }
  destruct (close_frame_ok stk rest fr (eager s) (marks s) He' (i_agree s HI) (i_closed s HI)) as [C1 [C2 [C3 C4]]].
  split; [exact C1 |]. split; [exact C2 |].
  intros k o Hk. destruct (f_mark fr) as [mf |] eqn:Emf.
  - destruct (Nat.eq_dec k mf) as [-> | Hne]; [exfalso; exact (C4 mf o eq_refl Hk) |].
    unfold mk in Hk. rewrite C3 in Hk by congruence.
    destruct (i_openlive s HI k o Hk) as [f [Hin Hm]]. rewrite Hf in Hin.
    destruct Hin as [<- | Hin]; [congruence |]. exists f. auto.
  - unfold mk in Hk. rewrite C3 in Hk by congruence.
    destruct (i_openlive s HI k o Hk) as [f [Hin Hm]]. rewrite Hf in Hin.
    destruct Hin as [<- | Hin]; [congruence |]. exists f. auto.
Qed.

Lemma close_eq_eager2 : forall stk rest o e,
  c_frames e = rest -> firstn (c_sp e) stk = firstn (c_sp e) (c_stack e) -> agree o e ->
  mkC (firstn (o_sp o) stk ++ o_vals o) rest (o_ip o) (o_sp o) (o_pc o) (o_ins o) = e.
Proof.
  intros stk rest o e H1 H2 [A1 [A2 [A3 [A4 A5]]]].
  destruct e as [cs cf ci csp cpc cins]. cbn in *. subst cf ci csp cpc cins. f_equal.
  rewrite H2. symmetry. exact A5.
Qed.

Lemma install_ctl : forall s e v mk, ctl6 (install s e v mk) = resume e v /\ heap (install s e v mk) = heap s.
Proof. intros. split; reflexivity. Qed.

(* the heart of the matter: whatever state the machine is in, invoking m yields the eager copy *)
Lemma invoke_spec : forall s m v last w1 e,
  Inv s -> lookup m (eager s) = Some e -> lookup m (marks s) <> None ->
  exists s', exec s (OInvoke m v last w1) = Ok s' /\ ctl6 s' = resume e v /\ heap s' = heap s /\ Inv s'.
Proof.
  intros s m v last w1 e HI He Hm. cbn [exec].
  destruct (lookup m (marks s)) as [[o | c] |] eqn:Em; [| | contradiction].
  - (* open mark *)
    destruct (i_agree s HI m o Em) as [e0 [He0 Hag]]. rewrite He in He0. inversion He0; subst e0. clear He0.
    destruct (pop_to_ok (eager s) m e (frames s) (stack s) (marks s) 0 (i_live s HI) (i_agree s HI) (i_closed s HI) He
                        (i_openlive s HI m o Em))
      as [fr [rest [stk [mk [P1 [P2 [P3 [P4 [P5 [P6 [P7 [P8 [P9 [P10 [P11 P12]]]]]]]]]]]]]]].
    rewrite P1. unfold reinstate_closes_when_shared. cbn [orb]. rewrite andb_true_r.
    assert (Hol : forall k o', k <> m -> lookup k mk = Some (MOpen o') -> exists f, In f rest /\ f_mark f = Some k).
    { intros k o' Hne Hk. destruct (i_openlive s HI k o' (P11 k o' Hk)) as [f [Hin Hf]].
      destruct (P12 k o' f Hk Hin Hf) as [<- | Hin']; [congruence | eauto]. }
    destruct (i_copies s HI m e He) as [[C1 [C2 [C3 C4]]] [C5 C6]].
    destruct Hag as [A1 [A2 [A3 [A4 A5]]]].
    assert (Hkeep : forall fr' k, In fr' rest -> f_mark fr' = Some k ->
                     existsb (has_mark k) (c_frames e) = true).
    { intros fr' k Hin Hf. rewrite P3. apply existsb_exists. exists fr'. split; [exact Hin |].
      apply has_mark_iff. exact Hf. }
    destruct last; cbn [negb].
    + (* nobody else holds the continuation: direct reinstatement, the object dies *)
      assert (Est : mkVM ((firstn (o_sp o) stk ++ o_vals o) ++ [v]) rest (S (o_ip o)) (o_sp o)
                         (pc s - (0 + (length (frames s) - length rest))) (o_ins o)
                         (remove_mark m mk) (eager s) (nextm s) (heap s)
                    = install s e v (remove_mark m mk)).
      { unfold install. rewrite <- A1, <- A2, <- A4, P3.
        assert (Hs : firstn (c_sp e) stk ++ o_vals o = c_stack e).
        { rewrite P4. rewrite A2. symmetry. exact A5. }
        rewrite Hs. f_equal. rewrite C3, P3, (i_pc s HI). lia. }
      cbn [andb]. rewrite Est. eexists. split; [reflexivity |]. split; [reflexivity |]. split; [reflexivity |].
      destruct (remove_mark_inv mk m (eager s) (c_frames e) P8 P9) as [R1 [R2 R3]].
      { intros k o' Hne Hk. rewrite P3. exact (Hol k o' Hne Hk). }
      apply (install_inv s e m v _ HI He R1 R2 R3).
    + (* shared: close through the frame, then reinstate the closed copy *)
      cbn [andb].
      assert (Hself : lookup m (close_in stk rest mk m) = Some (MClosed e)).
      { rewrite close_in_self, P10, Em. f_equal. f_equal.
        apply close_eq_eager2; [exact P3 | exact P4 | repeat split; assumption]. }
      rewrite Hself. rewrite (pop_all_keep_all _ rest stk _ Hkeep).
      eexists. split; [reflexivity |]. split; [reflexivity |]. split; [reflexivity |].
      apply (install_inv s e m v _ HI He).
      * intros k o' Hk. destruct (Nat.eq_dec k m) as [-> | Hne]; [rewrite Hself in Hk; discriminate Hk |].
        rewrite close_in_other in Hk by exact Hne. exact (P8 k o' Hk).
      * intros k c' Hk. destruct (Nat.eq_dec k m) as [-> | Hne].
        -- rewrite Hself in Hk. inversion Hk; subst c'. exact He.
        -- rewrite close_in_other in Hk by exact Hne. exact (P9 k c' Hk).
      * intros k o' Hk. destruct (Nat.eq_dec k m) as [-> | Hne]; [rewrite Hself in Hk; discriminate Hk |].
        rewrite close_in_other in Hk by exact Hne. rewrite P3. exact (Hol k o' Hne Hk).
  - (* closed mark: it is the eager copy *)
    pose proof (i_closed s HI m c Em) as Hc. rewrite He in Hc. inversion Hc; subst c. clear Hc.
    destruct (pop_all_ok (fun k => existsb (has_mark k) (c_frames e)) (eager s) (frames s) (stack s) (marks s)
                         (i_live s HI) (i_agree s HI) (i_closed s HI)) as [I1 [I2 [I3 [I4 I5]]]].
    set (mk1 := pop_all (fun k => existsb (has_mark k) (c_frames e)) (stack s) (frames s) (marks s)) in *.
    assert (Hlive1 : open_live mk1 (c_frames e)).
    { intros k o Hk. destruct (i_openlive s HI k o (I3 k o Hk)) as [f [Hin Hf]].
      pose proof (I4 k o f Hk Hin Hf) as Hex. cbn beta in Hex. apply existsb_exists in Hex.
      destruct Hex as [f' [Hin' Hm']]. apply has_mark_iff in Hm'. eauto. }
    eexists. split; [reflexivity |]. split; [reflexivity |]. split; [reflexivity |].
    destruct last.
    + destruct (remove_mark_inv mk1 m (eager s) (c_frames e) I1 I2) as [R1 [R2 R3]].
      { intros k o _ Hk. exact (Hlive1 k o Hk). }
      apply (install_inv s e m v _ HI He R1 R2 R3).
    + apply (install_inv s e m v _ HI He I1 I2 Hlive1).
Qed.

Lemma exec_inv : forall s o s', Inv s -> exec s o = Ok s' -> Inv s'.
Proof.
  intros s o s' HI E. destruct o as [l | i | a v | k fn | fn | v | | m v last w1]; cbn [exec] in E.
  - (* OSetTop *) inversion E; subst s'; clear E. destruct HI. constructor; cbn; auto.
    + apply (live_ok_stack (eager s) (frames s) (stack s) _ (sp s) i_live0); [lia |]. apply same_below_trunc_app.
    + rewrite app_length, firstn_length. lia.
  - (* OJump *) inversion E; subst s'; clear E. destruct HI. constructor; cbn; auto.
  - (* OHeap *) inversion E; subst s'; clear E. destruct HI. constructor; cbn; auto.
  - (* OCall *)
    destruct (Nat.leb (sp s + k) (length (stack s))) eqn:Ek; [| discriminate E].
    apply Nat.leb_le in Ek. inversion E; subst s'; clear E. destruct HI. constructor; cbn; auto.
    + split; [exact I |]. split; [lia | exact i_live0].
    + apply open_live_mono. exact i_openlive0.
    + intros fr m [<- | Hin] Hm; [discriminate Hm | exact (i_lt0 fr m Hin Hm)].
  - (* OCapture *)
    inversion E; subst s'; clear E.
    set (m := nextm s). set (e := mkC (stack s) (frames s) (ip s) (sp s) (pc s) (ins s)).
    pose proof HI as HI'. destruct HI.
    assert (Hlive' : live_ok (stack s ++ [m]) (frames s) ((m, e) :: eager s)).
    { apply live_ok_eager_ext; [| exact i_lt0].
      apply (live_ok_stack (eager s) (frames s) (stack s) _ (sp s) i_live0); [lia | apply same_below_app]. }
    assert (Hlive0 : live_ok (stack s) (frames s) ((m, e) :: eager s)).
    { apply live_ok_eager_ext; [exact i_live0 | exact i_lt0]. }
    constructor; cbn [stack frames eager marks sp pc nextm ip ins].
    + cbn [live_ok]. split; [| split; [cbn [f_sp]; lia | exact Hlive']].
      unfold entry_ok. cbn [f_mark]. intros e' He'. rewrite lookup_cons_eq in He'. inversion He'; subst e'.
      cbn [c_frames c_sp c_stack f_sp e]. repeat split; auto. apply firstn_app_le. exact i_len0.
    + intros m' e' He'. destruct (Nat.eq_dec m' m) as [-> | Hne].
      * rewrite lookup_cons_eq in He'. inversion He'; subst e'.
        split; [| split; [apply (marks_lt_weaken _ _ _ i_lt0); lia | lia]].
        unfold copy_ok. cbn [c_stack c_frames c_sp c_pc e]. auto.
      * rewrite lookup_cons_ne in He' by exact Hne.
        destruct (i_copies0 m' e' He') as [[C1 [C2 [C3 C4]]] [C5 C6]].
        split; [| split; [apply (marks_lt_weaken _ _ _ C5); lia | lia]].
        split; [| auto]. apply live_ok_eager_ext; [exact C1 | exact C5].
    + intros k o Hk. destruct (Nat.eq_dec k m) as [-> | Hne].
      * rewrite lookup_cons_eq in Hk. inversion Hk; subst o. exists e. split; [apply lookup_cons_eq |].
        unfold agree. cbn. repeat split; auto. symmetry. apply firstn_skipn.
      * rewrite lookup_cons_ne in Hk by exact Hne. destruct (i_agree0 k o Hk) as [e0 [H1 H2]].
        exists e0. split; [| exact H2]. rewrite lookup_cons_ne by exact Hne. exact H1.
    + intros k c Hk. destruct (Nat.eq_dec k m) as [-> | Hne].
      * rewrite lookup_cons_eq in Hk. discriminate Hk.
      * rewrite lookup_cons_ne in Hk by exact Hne. rewrite lookup_cons_ne by exact Hne. exact (i_closed0 k c Hk).
    + intros k o Hk. destruct (Nat.eq_dec k m) as [-> | Hne].
      * eexists. split; [left; reflexivity | reflexivity].
      * rewrite lookup_cons_ne in Hk by exact Hne. destruct (i_openlive0 k o Hk) as [f [Hin Hf]].
        exists f. split; [right; exact Hin | exact Hf].
    + reflexivity.
    + cbn [length]. rewrite i_pc0. reflexivity.
    + rewrite app_length. cbn. lia.
    + intros fr k [<- | Hin] Hk; [cbn in Hk; inversion Hk; lia |]. specialize (i_lt0 fr k Hin Hk). lia.
  - (* OReturn *)
    destruct (frames s) as [| fr rest] eqn:Ef; [discriminate E |]. inversion E; subst s'; clear E.
    destruct (pop_frame_marks s fr rest (stack s) HI Ef) as [M1 [M2 M3]].
    { intros k _ _. reflexivity. }
    pose proof HI as HI'. destruct HI. rewrite Ef in *. cbn [live_ok] in i_live0. destruct i_live0 as [He [Hsp Hl]].
    cbn [cur_sp] in i_sp0.
    constructor; cbn [stack frames eager marks sp pc nextm]; auto.
    + apply (live_ok_stack (eager s) rest (stack s) _ (f_sp fr) Hl Hsp). apply same_below_trunc_app.
    + rewrite i_pc0. reflexivity.
    + rewrite app_length, firstn_length. cbn. lia.
    + apply (marks_lt_tail fr). exact i_lt0.
  - (* OUnwind *)
    destruct (frames s) as [| fr rest] eqn:Ef; [discriminate E |]. inversion E; subst s'; clear E.
    unfold unwind_closes_marks.
    destruct (pop_frame_marks s fr rest (firstn (f_sp fr) (stack s)) HI Ef) as [M1 [M2 M3]].
    { apply same_below_trunc. }
    pose proof HI as HI'. destruct HI. rewrite Ef in *. cbn [live_ok] in i_live0. destruct i_live0 as [He [Hsp Hl]].
    cbn [cur_sp] in i_sp0.
    constructor; cbn [stack frames eager marks sp pc nextm]; auto.
    + apply (live_ok_stack (eager s) rest (stack s) _ (f_sp fr) Hl Hsp). apply same_below_trunc.
    + rewrite i_pc0. reflexivity.
    + rewrite firstn_length. lia.
    + apply (marks_lt_tail fr). exact i_lt0.
  - (* OInvoke *)
    assert (Hm : lookup m (marks s) <> None).
    { destruct (lookup m (marks s)) as [[o | c] |]; [discriminate | discriminate | discriminate E]. }
    assert (He : exists e, lookup m (eager s) = Some e).
    { destruct (lookup m (marks s)) as [[o | c] |] eqn:Em; [| | contradiction].
      - destruct (i_agree s HI m o Em) as [e [H1 _]]. eauto.
      - exists c. exact (i_closed s HI m c Em). }
    destruct He as [e He].
    destruct (invoke_spec s m v last w1 e HI He Hm) as [s1 [E1 [_ [_ HI1]]]].
    cbn [exec] in E1. rewrite E1 in E. inversion E; subst s'. exact HI1.
Qed.
(* ------------------------------------------------------------------ runs *)
Lemma run_inv : forall ops s s', Inv s -> run s ops = Ok s' -> Inv s'.
Proof.
  induction ops as [| o ops IH]; intros s s' HI E; cbn [run] in E.
  - inversion E; subst s'. exact HI.
  - destruct (exec s o) as [s1 | |] eqn:E1; try discriminate E.
    apply (IH s1 s' (exec_inv s o s1 HI E1) E).
Qed.

Lemma eager_stable : forall s o s' m e, exec s o = Ok s' -> Inv s -> lookup m (eager s) = Some e ->
  lookup m (eager s') = Some e.
Proof.
  intros s o s' m e E HI He.
  destruct o as [l | i | a v | k fn | fn | v | | m0 v last w1]; cbn [exec] in E.
  - inversion E; subst s'; exact He.
  - inversion E; subst s'; exact He.
  - inversion E; subst s'; exact He.
  - destruct (Nat.leb (sp s + k) (length (stack s))); [| discriminate E]. inversion E; subst s'; exact He.
  - inversion E; subst s'. cbn [eager].
    destruct (i_copies s HI m e He) as [_ [_ Hlt]]. rewrite lookup_cons_ne by lia. exact He.
  - destruct (frames s); [discriminate E |]. inversion E; subst s'; exact He.
  - destruct (frames s); [discriminate E |]. inversion E; subst s'; exact He.
  - destruct (lookup m0 (marks s)) as [[o | c] |] eqn:Em; [| | discriminate E].
    + destruct (pop_to m0 (stack s) (frames s) (marks s) 0) as [[[[[fr rest] stk] mk] n] |]; [| discriminate E].
      destruct (negb last && (reinstate_closes_when_shared || w1)).
      * destruct (lookup m0 (close_in stk rest mk m0)) as [[o' | c'] |]; try discriminate E.
        inversion E; subst s'; exact He.
      * inversion E; subst s'; exact He.
    + inversion E; subst s'; exact He.
Qed.

Lemma eager_stable_run : forall ops s s' m e, run s ops = Ok s' -> Inv s -> lookup m (eager s) = Some e ->
  lookup m (eager s') = Some e.
Proof.
  induction ops as [| o ops IH]; intros s s' m e E HI He; cbn [run] in E.
  - inversion E; subst s'. exact He.
  - destruct (exec s o) as [s1 | |] eqn:E1; try discriminate E.
    apply (IH s1 s' m e E (exec_inv s o s1 HI E1)). apply (eager_stable s o s1 m e E1 HI He).
Qed.

(* lazy capture + later reinstatement = eager full copy at capture time, for every reachable state *)
Lemma open_closed_equiv : forall ops s m v last w1 e,
  run init ops = Ok s -> lookup m (eager s) = Some e -> lookup m (marks s) <> None ->
  exists s', exec s (OInvoke m v last w1) = Ok s' /\ ctl6 s' = resume e v /\ heap s' = heap s.
Proof.
  intros ops s m v last w1 e E He Hm.
  destruct (invoke_spec s m v last w1 e (run_inv ops init s inv_init E) He Hm) as [s' [E1 [E2 [E3 _]]]].
  exists s'. auto.
Qed.

(* the eager copy of a capture is what the state was when call/cc ran *)
Lemma capture_eager : forall ops s fn s',
  run init ops = Ok s -> exec s (OCapture fn) = Ok s' ->
  lookup (nextm s) (eager s') = Some (mkC (stack s) (frames s) (ip s) (sp s) (pc s) (ins s)) /\
  lookup (nextm s) (marks s') <> None.
Proof.
  intros ops s fn s' _ E. cbn [exec] in E. inversion E; subst s'. cbn [eager marks].
  rewrite !lookup_cons_eq. split; [reflexivity | discriminate].
Qed.

(* invoking the same continuation from two different later states: identical resumptions; the heap is
   whatever it is at the time of each invocation (shared, not restored) *)
Lemma reenter_many : forall ops1 ops2 s1 s2 m e v1 v2 l1 l2 w1 w2,
  run init ops1 = Ok s1 -> run s1 ops2 = Ok s2 ->
  lookup m (eager s1) = Some e -> lookup m (marks s1) <> None -> lookup m (marks s2) <> None ->
  exists t1 t2,
    exec s1 (OInvoke m v1 l1 w1) = Ok t1 /\ exec s2 (OInvoke m v2 l2 w2) = Ok t2 /\
    ctl6 t1 = resume e v1 /\ ctl6 t2 = resume e v2 /\ heap t1 = heap s1 /\ heap t2 = heap s2.
Proof.
  intros ops1 ops2 s1 s2 m e v1 v2 l1 l2 w1 w2 E1 E2 He Hm1 Hm2.
  pose proof (run_inv ops1 init s1 inv_init E1) as HI1.
  pose proof (run_inv ops2 s1 s2 HI1 E2) as HI2.
  pose proof (eager_stable_run ops2 s1 s2 m e E2 HI1 He) as He2.
  destruct (invoke_spec s1 m v1 l1 w1 e HI1 He Hm1) as [t1 [A1 [A2 [A3 _]]]].
  destruct (invoke_spec s2 m v2 l2 w2 e HI2 He2 Hm2) as [t2 [B1 [B2 [B3 _]]]].
  exists t1, t2. auto 10.
Qed.

(* no reachable state panics on an invocation *)
Lemma no_panic : forall ops, run init ops <> Panic.
Proof.
  intros ops. assert (G : forall ops s, Inv s -> run s ops <> Panic).
  { induction ops0 as [| o ops0 IH]; intros s HI; cbn [run]; [discriminate |].
    destruct (exec s o) as [s1 | |] eqn:E1.
    - apply IH. exact (exec_inv s o s1 HI E1).
    - discriminate.
    - exfalso. destruct o as [l | i | a v | k fn | fn | v | | m v last w1]; cbn [exec] in E1;
        try discriminate E1.
      + destruct (Nat.leb (sp s + k) (length (stack s))); discriminate E1.
      + destruct (frames s); discriminate E1.
      + destruct (frames s); discriminate E1.
      + destruct (lookup m (marks s)) as [[o | c] |] eqn:Em; try discriminate E1.
        destruct (i_agree s HI m o Em) as [e [He _]].
        assert (Hm : lookup m (marks s) <> None) by (rewrite Em; discriminate).
        destruct (invoke_spec s m v last w1 e HI He Hm) as [s' [E' _]]. cbn [exec] in E'. rewrite Em in E'.
        rewrite E' in E1. discriminate E1. }
  apply G. exact inv_init.
Qed.

Lemma gen_facts : unwind_closes_marks = true /\ reinstate_closes_when_shared = true /\
  capture_before_push = true /\ open_copies_from_sp = true /\ close_rebuilds = true /\
  pop_closes_before_truncate = true /\ open_reinstate_pops = true.
Proof. repeat split; reflexivity. Qed.

(* ------------------------------------------------------------------ the code before the repairs *)
(* an error unwinds the frame carrying an open mark without closing it; invoking the continuation panics *)
Lemma unwind_refuted : run_old false true init [OCapture 7; OUnwind; OInvoke 0 5 false true] = Panic.
Proof. vm_compute. reflexivity. Qed.

(* a continuation invoked while open with weak_count <> 1 stays open although its frame is gone; the second
   invocation panics *)
Lemma shared_refuted : run_old true false init [OCapture 7; OInvoke 0 1 false false; OInvoke 0 2 false false] = Panic.
Proof. vm_compute. reflexivity. Qed.

(* the same sequences on the repaired machine resume the eager copy both times *)
Lemma repaired_example :
  match run init [OSetTop [11; 12]; OCapture 7; OSetTop [99]; OCall 0 3; OInvoke 0 1 false false; OSetTop [4; 5; 6];
                  OInvoke 0 2 false true] with
  | Ok s => ctl6 s = ([11; 12; 2], [], 1, 0, 1, 0)
  | _ => False
  end.
Proof. vm_compute. reflexivity. Qed.
