(* C16: channel values are received per sender in the order sent, each at most once. *)
From Coq Require Import List Arith Lia Bool.
Import ListNotations.
From SV Require Import c15.Conc c15.Model_C15 c15.Proofs_C15_Base c16.Model_C16.

Definition fifo_inv (s : shared) : Prop :=
  forall c from, sent_seq s c from = recv_seq s c from ++ queue_seq s c from.

Inductive sh_change (t : tid) (s s' : shared) : Prop :=
| sc_same : s' = s -> sh_change t s s'
| sc_send : forall c v,
    s' = {| chans := chan_upd c (chans s c ++ [(t, v)]) (chans s); sent := (c, t, v) :: sent s;
            recvd := recvd s; taken := taken s; deliv := deliv s |} -> sh_change t s s'
| sc_recv : forall c from v q, chans s c = (from, v) :: q ->
    s' = {| chans := chan_upd c q (chans s); sent := sent s; recvd := (c, from, v, t) :: recvd s;
            taken := taken s; deliv := deliv s |} -> sh_change t s s'
| sc_other : chans s' = chans s -> sent s' = sent s -> recvd s' = recvd s -> sh_change t s s'.

Lemma step_sh_change : forall cfg t w w', wstep cfg t w = Some w' -> sh_change t (sh w) (sh w').
Proof.
  intros cfg t w w' H. step_cases H; autorewrite with world.
  all: repeat match goal with |- context [if ?b then _ else _] => destruct b end; autorewrite with world.
  all: try solve [apply sc_same; reflexivity].
  all: try solve [eapply sc_send; reflexivity].
  all: try solve [eapply sc_recv; [eassumption|reflexivity]].
  all: try solve [apply sc_other; reflexivity].
Qed.

Lemma fifo_step : forall t s s', fifo_inv s -> sh_change t s s' -> fifo_inv s'.
Proof.
  intros t s s' HI Hc c0 from0. specialize (HI c0 from0).
  destruct Hc as [E | c v E | c from v q Hq E | E1 E2 E3].
  - subst. exact HI.
  - subst s'. unfold sent_seq, recv_seq, queue_seq in *. cbn [sent recvd chans fst snd filter].
    unfold chan_upd. destruct (Nat.eqb_spec c0 c) as [->|Hne].
    + rewrite Nat.eqb_refl. cbn [andb]. rewrite filter_app, map_app. cbn [filter fst].
      destruct (Nat.eqb_spec t from0) as [->|Hnf].
      * cbn [map rev snd]. rewrite HI. rewrite app_assoc. reflexivity.
      * cbn [map]. rewrite app_nil_r. exact HI.
    + assert (Hb : Nat.eqb c c0 = false) by (apply Nat.eqb_neq; congruence).
      rewrite Hb. cbn [andb]. exact HI.
  - subst s'. unfold sent_seq, recv_seq, queue_seq in *. cbn [sent recvd chans fst snd filter].
    unfold chan_upd. destruct (Nat.eqb_spec c0 c) as [->|Hne].
    + rewrite Nat.eqb_refl. cbn [andb]. rewrite Hq in HI. cbn [filter fst] in HI.
      destruct (Nat.eqb_spec from from0) as [->|Hnf].
      * cbn [map rev snd fst]. cbn [map snd] in HI. rewrite HI. rewrite <- app_assoc. reflexivity.
      * exact HI.
    + assert (Hb : Nat.eqb c c0 = false) by (apply Nat.eqb_neq; congruence).
      rewrite Hb. cbn [andb]. exact HI.
  - unfold sent_seq, recv_seq, queue_seq in *. rewrite E1, E2, E3. exact HI.
Qed.

Lemma fifo_sh0 : fifo_inv sh0.
Proof. intros c from. reflexivity. Qed.

Lemma fifo_run : forall cfg sched w, fifo_inv (sh w) -> fifo_inv (sh (run cfg sched w)).
Proof.
  intros cfg sched w H. unfold run.
  apply (invariant_run world (wstep cfg) (fun w => fifo_inv (sh w))); auto.
  intros t s s' Hs Hstep. eapply fifo_step; eauto. eapply step_sh_change; eauto.
Qed.

Lemma channel_fifo_init : forall cfg progs sched c from,
  let s := sh (run cfg sched (init progs)) in
  sent_seq s c from = recv_seq s c from ++ queue_seq s c from.
Proof. intros. apply fifo_run. apply fifo_sh0. Qed.
