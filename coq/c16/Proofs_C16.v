(* C16: no runtime deadlock in the repaired handshake; witnesses of the two deadlocks of the code as it was. *)
From Coq Require Import List Arith Lia Bool.
Import ListNotations.
From SV Require Import c15.Conc c15.Model_C15 c15.Proofs_C15_Base c15.Proofs_C15_Inv c16.Model_C16.

Lemma holds_tmx_heap : forall x, holds_tmx x = true -> holds_heap x = true.
Proof. intros x. unfold holds_tmx, holds_heap. destruct (pc x); try discriminate. auto. Qed.

Lemma tmx_free_unless : forall w h, Inv w -> heap w = Some h -> holds_tmx (th w h) = false -> tmx w = None.
Proof.
  intros w h HI Hh Hn. destruct (tmx w) as [u|] eqn:E; auto.
  pose proof (I_tmx w HI u E) as Hu.
  pose proof (proj1 (I_heap w HI u) (holds_tmx_heap _ Hu)) as Hu2.
  rewrite Hh in Hu2. inversion Hu2; subst. congruence.
Qed.

Lemma tmx_free_noheap : forall w, Inv w -> heap w = None -> tmx w = None.
Proof.
  intros w HI Hh. destruct (tmx w) as [u|] eqn:E; auto.
  pose proof (I_tmx w HI u E) as Hu.
  pose proof (proj1 (I_heap w HI u) (holds_tmx_heap _ Hu)) as Hu2. congruence.
Qed.

Lemma not_paused_unless_stw : forall w u, Inv w ->
  (forall h s, heap w = Some h -> pc (th w h) = Stw s -> False) -> paused (th w u) = false.
Proof.
  intros w u HI Hn. destruct (paused (th w u)) eqn:E; auto.
  pose proof (I_paused w HI u E) as Hs. unfold stopper_ok in Hs.
  destruct (heap w) as [h|] eqn:Hh; [|contradiction].
  destruct (pc (th w h)) eqn:Ep; try contradiction. exfalso. eapply Hn; eauto.
Qed.

Lemma in_range_of_pc : forall w u, pc (th w u) <> Done -> u < nthreads w.
Proof.
  intros w u H. destruct (lt_dec u (nthreads w)); auto.
  rewrite th_out_of_range in H by lia. now elim H.
Qed.

Ltac some_tac :=
  repeat match goal with
         | |- exists _, Some _ = Some _ => eexists; reflexivity
         | |- exists _, (match ?x with _ => _ end) = Some _ => destruct x eqn:?
         | |- exists _, (if ?x then _ else _) = Some _ => destruct x eqn:?
         end.

(* a thread that is registered, not finished and not published always has an enabled step *)
Lemma unpublished_enabled : forall w k h, Inv w -> heap w = Some h -> k <> h ->
  reg (th w k) = true -> is_done (pc (th w k)) = false -> published (pc (th w k)) = false ->
  exists w', wstep cfg_fixed k w = Some w'.
Proof.
  intros w k h HI Hh Hk Hr Hd Hp.
  assert (Hlt : k < nthreads w) by (apply in_range_of_pc; intro E; rewrite E in Hd; discriminate).
  apply Nat.ltb_lt in Hlt.
  pose proof (I_reg w HI k Hr) as Hns. pose proof (I_nolock w HI k) as Hnl.
  pose proof (I_heap w HI k) as Hhk.
  unfold wstep. rewrite Hlt. cbv zeta. simpl jit_box_safepoint.
  destruct (pc (th w k)) eqn:E; try discriminate; try congruence; some_tac.
  all: unfold holds_heap in Hhk; rewrite E in Hhk; exfalso; apply Hk;
    assert (heap w = Some k) by (apply Hhk; reflexivity); congruence.
Qed.

Lemma holder_or_waited_enabled : forall w h, Inv w -> heap w = Some h ->
  exists t w', wstep cfg_fixed t w = Some w'.
Proof.
  intros w h HI Hh.
  pose proof (proj2 (I_heap w HI h) Hh) as Hhold.
  assert (Hlt : h < nthreads w).
  { apply in_range_of_pc. intro E. unfold holds_heap in Hhold. rewrite E in Hhold. discriminate. }
  apply Nat.ltb_lt in Hlt.
  destruct (pc (th w h)) eqn:E; unfold holds_heap in Hhold; rewrite E in Hhold; try discriminate.
  - (* SpReg *)
    exists h. unfold wstep. rewrite Hlt. cbv zeta. rewrite E.
    rewrite (tmx_free_unless w h HI Hh); [|unfold holds_tmx; now rewrite E].
    destruct (head (th w h)) eqn:Ea; some_tac.
  - (* SpParked *)
    exists h. unfold wstep. rewrite Hlt. cbv zeta. rewrite E.
    rewrite (not_paused_unless_stw w h HI); [eexists; reflexivity|].
    intros h' s' H1 H2. assert (h' = h) by congruence. subst. congruence.
  - exists h. unfold wstep. rewrite Hlt. cbv zeta. rewrite E. some_tac.
  - exists h. unfold wstep. rewrite Hlt. cbv zeta. rewrite E. simpl keep_guard. some_tac.
  - (* Stw *)
    destruct s.
    + exists h. unfold wstep. rewrite Hlt. cbv zeta. rewrite E. unfold stw_step. some_tac.
    + exists h. unfold wstep. rewrite Hlt. cbv zeta. rewrite E. unfold stw_step.
      rewrite (tmx_free_unless w h HI Hh); [eexists; reflexivity|]. unfold holds_tmx. now rewrite E.
    + exists h. unfold wstep. rewrite Hlt. cbv zeta. rewrite E. unfold stw_step. cbv zeta. some_tac.
    + exists h. unfold wstep. rewrite Hlt. cbv zeta. rewrite E. unfold stw_step.
      rewrite (tmx_free_unless w h HI Hh); [eexists; reflexivity|]. unfold holds_tmx. now rewrite E.
    + (* SWait p k *)
      destruct (k <? nthreads w) eqn:Hk.
      * destruct (negb (reg (th w k)) || Nat.eqb k h || is_done (pc (th w k))) eqn:Hskip.
        -- exists h. unfold wstep. rewrite Hlt. cbv zeta. rewrite E. unfold stw_step. cbv zeta.
           rewrite Hk, Hskip. eexists; reflexivity.
        -- destruct (published (pc (th w k))) eqn:Hpub.
           ++ exists h. unfold wstep. rewrite Hlt. cbv zeta. rewrite E. unfold stw_step. cbv zeta.
              rewrite Hk, Hskip, Hpub. eexists; reflexivity.
           ++ apply orb_false_iff in Hskip. destruct Hskip as [Hs1 Hs3].
              apply orb_false_iff in Hs1. destruct Hs1 as [Hs1 Hs2].
              apply negb_false_iff in Hs1. apply Nat.eqb_neq in Hs2.
              exists k. eapply unpublished_enabled; eauto.
      * exists h. unfold wstep. rewrite Hlt. cbv zeta. rewrite E. unfold stw_step. cbv zeta.
        rewrite Hk. some_tac.
    + exists h. unfold wstep. rewrite Hlt. cbv zeta. rewrite E. unfold stw_step. cbv zeta. some_tac.
    + exists h. unfold wstep. rewrite Hlt. cbv zeta. rewrite E. unfold stw_step. cbv zeta. some_tac.
    + exists h. unfold wstep. rewrite Hlt. cbv zeta. rewrite E. unfold stw_step. cbv zeta. some_tac.
    + exists h. unfold wstep. rewrite Hlt. cbv zeta. rewrite E. unfold stw_step.
      rewrite (tmx_free_unless w h HI Hh); [eexists; reflexivity|]. unfold holds_tmx. now rewrite E.
    + exists h. unfold wstep. rewrite Hlt. cbv zeta. rewrite E. unfold stw_step. cbv zeta. some_tac.
  - exists h. unfold wstep. rewrite Hlt. cbv zeta. rewrite E. some_tac.
Qed.

Lemma free_heap_enabled : forall w i, Inv w -> heap w = None ->
  live (th w i) = true -> script_blocked w i = false ->
  exists w', wstep cfg_fixed i w = Some w'.
Proof.
  intros w i HI Hh Hl Hb.
  assert (Hlt : i < nthreads w).
  { apply in_range_of_pc. intro E. unfold live in Hl. rewrite E in Hl. discriminate. }
  apply Nat.ltb_lt in Hlt.
  assert (Hnp : paused (th w i) = false).
  { apply not_paused_unless_stw; auto. intros h s H1. congruence. }
  pose proof (I_heap w HI i) as Hhi. pose proof (tmx_free_noheap w HI Hh) as Htm.
  unfold wstep. rewrite Hlt. cbv zeta. simpl jit_box_safepoint. simpl keep_guard.
  unfold live in Hl. unfold script_blocked in Hb. unfold holds_heap in Hhi.
  destruct (pc (th w i)) eqn:E; try discriminate; rewrite ?Hnp, ?Hh.
  all: try solve [some_tac].
  - (* SpPub *) unfold sp_closure. cbv zeta. rewrite Hh, Htm.
    destruct (head (th w i)) eqn:Ea; some_tac; try discriminate.
  - (* SpJoin *) destruct (head (th w i)) eqn:Ea; some_tac; simpl in Hb; try discriminate.
  - (* SpReg *) rewrite Htm. destruct (head (th w i)) eqn:Ea; some_tac.
  - exfalso; assert (heap w = Some i) by (apply Hhi; reflexivity); congruence.
Qed.

Lemma enabled_if_live : forall w, Inv w ->
  (exists i, live (th w i) = true /\ script_blocked w i = false) ->
  exists t w', wstep cfg_fixed t w = Some w'.
Proof.
  intros w HI [i [Hl Hb]]. destruct (heap w) as [h|] eqn:Hh.
  - eapply holder_or_waited_enabled; eauto.
  - exists i. eapply free_heap_enabled; eauto.
Qed.

Lemma no_runtime_deadlock_init : forall progs sched,
  let w := run cfg_fixed sched (init progs) in
  (exists i, live (th w i) = true /\ script_blocked w i = false) ->
  exists t w', wstep cfg_fixed t w = Some w'.
Proof. intros progs sched w H. apply enabled_if_live; auto. apply Inv_run. apply Inv_init. Qed.

Lemma no_runtime_deadlock_init_all : forall progs sched,
  let w := run cfg_fixed sched (init_all progs) in
  (exists i, live (th w i) = true /\ script_blocked w i = false) ->
  exists t w', wstep cfg_fixed t w = Some w'.
Proof. intros progs sched w H. apply enabled_if_live; auto. apply Inv_run. apply Inv_init_all. Qed.

(* ------------------------------------------------------------------ refutations for the old code *)
Lemma f18_deadlock : deadlocked cfg_old (run cfg_old f18_sched (init_all f18_progs)).
Proof.
  split.
  - intros [|[|t]]; vm_compute; reflexivity.
  - exists 0. vm_compute. auto.
Qed.

Lemma f23_deadlock : deadlocked cfg_guard_only (run cfg_guard_only f23_sched (init_all f23_progs)).
Proof.
  split.
  - intros [|[|t]]; vm_compute; reflexivity.
  - exists 0. vm_compute. auto.
Qed.

(* the same two schedules complete under the repaired handshake *)
Lemma f18_fixed_completes :
  all_done (run cfg_fixed (f18_sched ++ rounds 80) (init_all f18_progs)) = true.
Proof. vm_compute. reflexivity. Qed.
Lemma f23_fixed_completes :
  all_done (run cfg_fixed (f23_sched ++ rounds 80) (init_all f23_progs)) = true.
Proof. vm_compute. reflexivity. Qed.
