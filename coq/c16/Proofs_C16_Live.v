(* C16: stop_terminates — under weak fairness every stop-the-world section of the repaired handshake ends
   (scripts that spawn included: starting and registering a thread happen under the heap guard, which a section holds).
   Variant: (D+1) * (remaining steps of the stopper's own protocol) + sum over threads of
   (flagged: bound on the steps left before the thread is parked / blocked published; not flagged: D),
   i.e. a refinement of "number of threads not yet published". *)
From Coq Require Import List Arith Lia Bool.
Import ListNotations.
From SV Require Import c15.Conc c15.Model_C15 c15.Proofs_C15_Base c15.Proofs_C15_Inv c15.Proofs_C15_Excl c16.Model_C16 c16.Proofs_C16.


(* ------------------------------------------------------------------ no thread will spawn *)
Definition no_spawn (w : world) : Prop := forall t, existsb is_spawn (prog (th w t)) = false.

Lemma head_not_spawn : forall w t j, no_spawn w -> head (th w t) <> ASpawn j.
Proof.
  intros w t j H E. specialize (H t). unfold head in E.
  destruct (prog (th w t)) as [|a r]; simpl in *; [discriminate|]. subst a. simpl in H. discriminate.
Qed.

Lemma existsb_tl : forall (l : list act), existsb is_spawn l = false -> existsb is_spawn (tl l) = false.
Proof. intros [|a r] H; simpl in *; auto. apply orb_false_iff in H. tauto. Qed.

Ltac kill_spawn :=
  try solve [exfalso; match goal with Hns : no_spawn ?w, H : head (th ?w ?t) = ASpawn ?j |- _ =>
                                       exact (head_not_spawn w t j Hns H) end].

Lemma no_spawn_step : forall t w w', no_spawn w -> wstep cfg_fixed t w = Some w' -> no_spawn w'.
Proof.
  intros t w w' Hns H u. pose proof (Hns u) as Hu. pose proof (Hns t) as Ht.
  step_cases_fixed H; kill_spawn.
  all: prep.
  all: try solve [auto using existsb_tl].
  all: try (match goal with Hk : no_spawn _ |- existsb is_spawn (prog (th _ ?k)) = false => apply Hk end).
Qed.

(* while another thread holds the heap guard (in particular during a stop-the-world section) a step of a thread
   touches no other thread: starting and registering a thread happen under the guard *)
Lemma not_holder : forall w t h, Inv w -> heap w = Some h -> t <> h -> holds_heap (th w t) = false.
Proof.
  intros w t h HI Hh Hne. destruct (holds_heap (th w t)) eqn:E; auto. apply (I_heap w HI t) in E. congruence.
Qed.

Lemma frame_step : forall t w w' u h, Inv w -> heap w = Some h -> t <> h -> wstep cfg_fixed t w = Some w' ->
  u <> t -> th w' u = th w u.
Proof.
  intros t w w' u h HI Hh Hth H Hne.
  pose proof (not_holder w t h HI Hh Hth) as Hnh. unfold holds_heap in Hnh.
  step_cases_fixed H.
  all: prep; try congruence; try reflexivity; try discriminate.
Qed.

Lemma nthreads_step : forall cfg t w w', wstep cfg t w = Some w' -> nthreads w' = nthreads w.
Proof.
  intros cfg t w w' H. step_cases H.
  all: autorewrite with world; try reflexivity.
  all: repeat match goal with |- context [if ?b then _ else _] => destruct b end; autorewrite with world; reflexivity.
Qed.

Lemma step_in_range : forall cfg t w w', wstep cfg t w = Some w' -> t < nthreads w.
Proof.
  intros cfg t w w' H. unfold wstep in H. destruct (t <? nthreads w) eqn:E; [|discriminate].
  now apply Nat.ltb_lt.
Qed.


(* the converse flag invariant: once the stopper has passed a thread in stop_threads, that thread's
   pause flag stays set until the stopper's resume_threads clears it *)
Definition flagged_ok (w : world) (h : tid) (s : spc) : Prop :=
  match s with
  | SOwnFlag | SStopLock => True
  | SSetFlag k => forall t, t < k -> t <> h -> reg (th w t) = true -> paused (th w t) = true
  | SResume k => forall t, k <= t -> t <> h -> reg (th w t) = true -> paused (th w t) = true
  | _ => forall t, t <> h -> reg (th w t) = true -> paused (th w t) = true
  end.

Definition Flagged (w : world) : Prop := forall h s, pc (th w h) = Stw s -> flagged_ok w h s.

Lemma stw_unique : forall w a b x y, Inv w -> pc (th w a) = Stw x -> pc (th w b) = Stw y -> a = b.
Proof.
  intros w a b x y HI Ha Hb.
  assert (heap w = Some a) by (apply (I_heap w HI a); unfold holds_heap; now rewrite Ha).
  assert (heap w = Some b) by (apply (I_heap w HI b); unfold holds_heap; now rewrite Hb).
  congruence.
Qed.

Lemma reg_in_range : forall w t, reg (th w t) = true -> t < nthreads w.
Proof.
  intros w t H. destruct (lt_dec t (nthreads w)); auto. rewrite th_out_of_range in H by lia. discriminate.
Qed.

(* steps outside a section leave flags and registrations alone *)
Lemma nonstw_step_keeps : forall t w w' h, Inv w -> heap w = Some h -> t <> h -> wstep cfg_fixed t w = Some w' ->
  paused (th w' t) = paused (th w t) /\ reg (th w' t) = reg (th w t).
Proof.
  intros t w w' h HI Hh Hth H.
  pose proof (not_holder w t h HI Hh Hth) as Hnh. unfold holds_heap in Hnh.
  step_cases_fixed H.
  all: prep; try rewrite Nat.eqb_refl; simpl; auto; try congruence; try discriminate.
Qed.

(* a stopper's step changes neither pc nor registration of any other thread *)
Lemma stw_step_frame : forall t w w' s0 u, pc (th w t) = Stw s0 -> wstep cfg_fixed t w = Some w' ->
  u <> t -> pc (th w' u) = pc (th w u) /\ reg (th w' u) = reg (th w u) /\ prog (th w' u) = prog (th w u).
Proof.
  intros t w w' s0 u Ept H Hne.
  unfold wstep in H. destruct (t <? nthreads w) eqn:Hlt; [|discriminate]. cbv zeta in H. rewrite Ept in H.
  unfold stw_step in H. cbv zeta in H. destr_match H; inversion H; subst; clear H.
  all: prep; auto; try congruence.
Qed.

Lemma Flagged_step : forall t w w', Inv w -> Flagged w ->
  wstep cfg_fixed t w = Some w' -> Flagged w'.
Proof.
  intros t w w' HI HF H h s Hpc.
  assert (HI' : Inv w') by (eapply Inv_step; eauto).
  destruct (pc (th w t)) eqn:Ept.
  all: try (
    (* t is not inside a section *)
    assert (Hnot : forall x, pc (th w t) <> Stw x) by (intros x E; rewrite Ept in E; discriminate);
    destruct (Nat.eq_dec h t) as [->|Hne];
    [ (* t itself became a stopper: only Held -> Stw SOwnFlag *)
      destruct (nonstw_own2 t w w' H Hnot) as (_ & _ & _ & _ & Hos); rewrite (Hos s Hpc); exact I
    | assert (Hpcw : pc (th w h) = Stw s)
        by (destruct (nonstw_frame2 t w w' h H Hnot Hne) as (_ & _ & [E|[E1 E2]] & _);
            [congruence | rewrite E2 in Hpc; discriminate]);
      assert (Hh : heap w = Some h) by (apply (I_heap w HI h); unfold holds_heap; now rewrite Hpcw);
      assert (Hth : t <> h) by auto;
      pose proof (HF h s Hpcw) as Hold;
      assert (Hsame : forall u, paused (th w' u) = paused (th w u) /\ reg (th w' u) = reg (th w u));
      [ intro u; destruct (Nat.eq_dec u t) as [->|Hu];
        [ eapply nonstw_step_keeps; eauto | rewrite (frame_step t w w' u h HI Hh Hth H Hu); auto ]
      | destruct s; simpl in *; auto; intros u; destruct (Hsame u) as [-> ->]; auto ] ]).
  (* t is the stopper *)
  assert (h = t).
  { destruct (Nat.eq_dec h t) as [|Hne]; auto.
    destruct (stw_step_frame t w w' s0 h Ept H Hne) as [Hp _]. rewrite Hp in Hpc.
    exact (stw_unique w h t s s0 HI Hpc Ept). }
  subst h. pose proof (HF t s0 Ept) as Hold.
  unfold wstep in H. destruct (t <? nthreads w) eqn:Hlt; [|discriminate]. cbv zeta in H. rewrite Ept in H.
  unfold stw_step in H. cbv zeta in H. revert Hpc. destr_match H; inversion H; subst; clear H.
  all: prep; rewrite ?Nat.eqb_refl; simpl; intro Hpc; try discriminate; inversion Hpc; subst; simpl in *; auto.
  all: intros u; prep; rewrite ?Nat.eqb_refl in *; simpl in *; intros; try congruence.
  all: repeat match goal with H : (_ <? _) = false |- _ => apply Nat.ltb_ge in H end.
  all: repeat match goal with H : reg (th _ _) = true |- _ => pose proof (reg_in_range _ _ H); revert H end; intros.
  all: try solve [apply Hold; auto; lia].
  all: try solve [destruct (Nat.eq_dec u k); [subst; congruence | apply Hold; auto; lia]].
  all: try lia.
Qed.


(* ------------------------------------------------------------------ the variant *)
Definition D : nat := 6.
(* upper bound on the number of own steps a thread whose pause flag is set can still take before it is
   parked / blocked inside a primitive / finished *)
Definition dist (x : thd) : nat :=
  match pc x with
  | Run => 2 | PollSeenPaused => 1 | PollExitChecked => 6 | Exec => 5
  | SpPub => 4 | SpJoin => 3 | SpExitChecked => 3 | _ => 0
  end.
Definition contrib (x : thd) : nat := if paused x then dist x else D.
Definition csum (w : world) : nat := list_sum (map contrib (ths w)).

Definition rank (n : nat) (s : spc) : nat :=
  let base2 := n + 3 in
  let base1 := base2 + 2 * n + 4 in
  match s with
  | SResume k => n - k + 1
  | SResumeLock => n + 2
  | SOwnResume => base2
  | SWait p k => (if p =? 1 then base1 else base2) + 2 * (n - k) + 2
  | SAccess p k => (if p =? 1 then base1 else base2) + 2 * (n - S k) + 3
  | SWaitLock p => (if p =? 1 then base1 else base2) + 2 * n + 3
  | SThunk => base1
  | SSetFlag k => base1 + 2 * n + 4 + (n - k)
  | SStopLock => base1 + 3 * n + 5
  | SOwnFlag => base1 + 3 * n + 6
  end.


Definition rk (h : tid) (w : world) : nat :=
  match pc (th w h) with Stw s => rank (nthreads w) s | _ => 0 end.
Definition M (h : tid) (w : world) : nat := (D + 1) * rk h w + csum w.

Lemma contrib_le : forall x, contrib x <= D.
Proof. intros x. unfold contrib, dist, D. destruct (paused x); [destruct (pc x); lia|lia]. Qed.

(* sums of a per-thread quantity when at most one thread's value changed *)
Lemma sum_pointwise : forall (g : thd -> nat) (l l' : list thd) k,
  length l' = length l ->
  (forall u, u <> k -> g (nth u l' dflt) = g (nth u l dflt)) ->
  list_sum (map g l') + g (nth k l dflt) = list_sum (map g l) + g (nth k l' dflt).
Proof.
  intros g l. induction l as [|x r IH]; intros l' k Hlen Hpt.
  - destruct l'; [|discriminate]. destruct k; simpl; lia.
  - destruct l' as [|x' r']; [discriminate|]. simpl in Hlen. injection Hlen as Hlen.
    destruct k as [|k].
    + simpl. assert (E : list_sum (map g r') = list_sum (map g r)).
      { clear -Hlen Hpt. revert r' Hlen Hpt. induction r as [|y r IH]; intros [|y' r'] Hlen Hpt; try discriminate; auto.
        simpl in *. injection Hlen as Hlen.
        pose proof (Hpt 1 ltac:(lia)) as H1. simpl in H1. rewrite H1.
        f_equal. apply IH; auto. intros u Hu. destruct u as [|u]; [lia|].
        destruct u as [|u].
        - pose proof (Hpt 2 ltac:(lia)) as H2. simpl in H2.
          (* shift by one *) exact (Hpt 2 ltac:(lia)).
        - exact (Hpt (S (S (S u))) ltac:(lia)). }
      lia.
    + simpl. pose proof (Hpt 0 ltac:(lia)) as H0. simpl in H0. rewrite H0.
      specialize (IH r' k Hlen). 
      assert (Hpt' : forall u, u <> k -> g (nth u r' dflt) = g (nth u r dflt)).
      { intros u Hu. exact (Hpt (S u) ltac:(lia)). }
      specialize (IH Hpt'). lia.
Qed.


Lemma csum_pointwise : forall w w' k, nthreads w' = nthreads w ->
  (forall u, u <> k -> contrib (th w' u) = contrib (th w u)) ->
  csum w' + contrib (th w k) = csum w + contrib (th w' k).
Proof. intros w w' k Hn Hpt. unfold csum, th. apply sum_pointwise; auto. Qed.

(* ---- the stopper's own steps *)
Lemma stopper_step_rank : forall h w w' s s', pc (th w h) = Stw s -> wstep cfg_fixed h w = Some w' ->
  pc (th w' h) = Stw s' -> rank (nthreads w) s' < rank (nthreads w) s.
Proof.
  intros h w w' s s' Ept H Hpc.
  unfold wstep in H. destruct (h <? nthreads w) eqn:Hlt; [|discriminate]. cbv zeta in H. rewrite Ept in H.
  unfold stw_step in H. cbv zeta in H. revert Hpc. destr_match H; inversion H; subst; clear H.
  all: prep; rewrite ?Nat.eqb_refl; simpl; intro Hpc; try discriminate; inversion Hpc; subst.
  all: repeat match goal with H : (_ <? _) = true |- _ => apply Nat.ltb_lt in H | H : (_ <? _) = false |- _ => apply Nat.ltb_ge in H end.
  all: unfold rank; cbv zeta; cbn [Nat.eqb]; repeat match goal with |- context [if ?b then _ else _] => destruct b eqn:? end; try lia.
Qed.

Lemma stopper_step_contrib : forall h w w' s, pc (th w h) = Stw s -> wstep cfg_fixed h w = Some w' ->
  is_stw (pc (th w' h)) = true ->
  exists k, forall u, u <> k -> contrib (th w' u) = contrib (th w u).
Proof.
  intros h w w' s Ept H Hpc.
  unfold wstep in H. destruct (h <? nthreads w) eqn:Hlt; [|discriminate]. cbv zeta in H. rewrite Ept in H.
  unfold stw_step in H. cbv zeta in H. revert Hpc. destr_match H; inversion H; subst; clear H.
  all: intro Hpc.
  (* the thread whose flag may change: the index k of the phase, or the stopper itself *)
  all: try (match goal with Hk : (?k <? nthreads _) = true |- _ => exists k end;
            intros u Hu;
            match goal with |- contrib (th ?W u) = _ =>
              assert (E : paused (th W u) = paused (th w u) /\ dist (th W u) = dist (th w u));
              [ unfold dist; prep; rewrite ?Nat.eqb_refl; simpl; split; try congruence; try reflexivity
              | destruct E as [E1 E2]; unfold contrib; rewrite E1, E2; reflexivity ] end).
  all: exists h; intros u Hu;
            match goal with |- contrib (th ?W u) = _ =>
              assert (E : paused (th W u) = paused (th w u) /\ dist (th W u) = dist (th w u));
              [ unfold dist; prep; rewrite ?Nat.eqb_refl; simpl; split; try congruence; try reflexivity
              | destruct E as [E1 E2]; unfold contrib; rewrite E1, E2; reflexivity ] end.
Qed.


Lemma is_stw_inv : forall p, is_stw p = true -> exists s, p = Stw s.
Proof. intros [] H; try discriminate. eauto. Qed.

Lemma M_stopper_step : forall h w w',
  is_stw (pc (th w h)) = true -> wstep cfg_fixed h w = Some w' -> is_stw (pc (th w' h)) = true ->
  M h w' < M h w.
Proof.
  intros h w w' Ha H Ha'.
  destruct (is_stw_inv _ Ha) as [s Es]. destruct (is_stw_inv _ Ha') as [s' Es'].
  pose proof (stopper_step_rank h w w' s s' Es H Es') as Hr.
  destruct (stopper_step_contrib h w w' s Es H Ha') as [k Hk].
  pose proof (nthreads_step _ _ _ _ H) as Hn.
  pose proof (csum_pointwise w w' k Hn Hk) as Hs.
  pose proof (contrib_le (th w' k)). pose proof (contrib_le (th w k)).
  unfold M, rk. rewrite Es, Es', Hn. unfold D in *. lia.
Qed.

(* ---- steps of the other threads *)
Lemma dist_step : forall u h w w', Inv w -> heap w = Some h -> u <> h ->
  paused (th w u) = true -> wstep cfg_fixed u w = Some w' -> dist (th w' u) < dist (th w u).
Proof.
  intros u h w w' HI Hh Hne Hp H.
  pose proof (I_nolock w HI u) as Hnl.
  assert (Hnh : holds_heap (th w u) = false).
  { destruct (holds_heap (th w u)) eqn:E; auto. apply (I_heap w HI u) in E. congruence. }
  unfold holds_heap in Hnh.
  step_cases_fixed H; try congruence.
  all: unfold dist; prep; rewrite ?Nat.eqb_refl; simpl; try congruence; try lia; try discriminate.
Qed.

Lemma M_other_step : forall u h w w', Inv w -> is_stw (pc (th w h)) = true -> u <> h ->
  wstep cfg_fixed u w = Some w' ->
  is_stw (pc (th w' h)) = true /\
  (if paused (th w u) then M h w' < M h w else M h w' = M h w).
Proof.
  intros u h w w' HI Ha Hne H.
  destruct (is_stw_inv _ Ha) as [s Es].
  assert (Hh : heap w = Some h) by (apply (I_heap w HI h); unfold holds_heap; now rewrite Es).
  assert (Hnot : forall x, pc (th w u) <> Stw x).
  { intros x E. apply Hne. eapply stw_unique; eauto. }
  pose proof (nthreads_step _ _ _ _ H) as Hn.
  assert (Hfr : forall t, t <> u -> th w' t = th w t) by (intros; eapply (frame_step u w w' t h); eauto).
  assert (Hsum : csum w' + contrib (th w u) = csum w + contrib (th w' u)).
  { apply csum_pointwise; auto. intros t Ht. now rewrite Hfr. }
  destruct (nonstw_step_keeps u w w' h HI Hh Hne H) as [Hp _].
  assert (Ehh : th w' h = th w h) by (apply Hfr; auto).
  split; [now rewrite Ehh|].
  assert (Erk : rk h w' = rk h w) by (unfold rk; now rewrite Ehh, Hn).
  unfold M. rewrite Erk. unfold contrib in Hsum. rewrite Hp in Hsum.
  destruct (paused (th w u)) eqn:Epu.
  - pose proof (dist_step u h w w' HI Hh Hne Epu H). lia.
  - lia.
Qed.


Definition blocked_on (w : world) (h : tid) (s : spc) (k : tid) : Prop :=
  (exists p, s = SWait p k) /\ k < nthreads w /\ reg (th w k) = true /\ k <> h /\
  is_done (pc (th w k)) = false /\ published (pc (th w k)) = false.

Lemma stopper_progress : forall w h s, Inv w -> pc (th w h) = Stw s ->
  (exists w', wstep cfg_fixed h w = Some w') \/ (exists k, blocked_on w h s k).
Proof.
  intros w h s HI E.
  assert (Hh : heap w = Some h) by (apply (I_heap w HI h); unfold holds_heap; now rewrite E).
  assert (Hlt : h < nthreads w).
  { apply in_range_of_pc. rewrite E. discriminate. }
  apply Nat.ltb_lt in Hlt.
  destruct s.
  1,3,6,7,8,10: left; unfold wstep; rewrite Hlt; cbv zeta; rewrite E; unfold stw_step; cbv zeta; some_tac.
  1,2,4: left; unfold wstep; rewrite Hlt; cbv zeta; rewrite E; unfold stw_step;
         rewrite (tmx_free_unless w h HI Hh); [eexists; reflexivity|]; unfold holds_tmx; now rewrite E.
  destruct (k <? nthreads w) eqn:Hk.
  - destruct (negb (reg (th w k)) || Nat.eqb k h || is_done (pc (th w k))) eqn:Hskip.
    + left. unfold wstep. rewrite Hlt. cbv zeta. rewrite E. unfold stw_step. cbv zeta.
      rewrite Hk, Hskip. eexists; reflexivity.
    + destruct (published (pc (th w k))) eqn:Hpub.
      * left. unfold wstep. rewrite Hlt. cbv zeta. rewrite E. unfold stw_step. cbv zeta.
        rewrite Hk, Hskip, Hpub. eexists; reflexivity.
      * right. exists k. apply orb_false_iff in Hskip. destruct Hskip as [Hs1 Hs3].
        apply orb_false_iff in Hs1. destruct Hs1 as [Hs1 Hs2].
        apply negb_false_iff in Hs1. apply Nat.eqb_neq in Hs2. apply Nat.ltb_lt in Hk.
        unfold blocked_on. repeat split; eauto.
  - left. unfold wstep. rewrite Hlt. cbv zeta. rewrite E. unfold stw_step. cbv zeta. rewrite Hk. some_tac.
Qed.

Lemma blocked_not_enabled : forall w h s k, pc (th w h) = Stw s -> blocked_on w h s k ->
  wstep cfg_fixed h w = None.
Proof.
  intros w h s k E [[p ->] [Hk [Hr [Hne [Hd Hp]]]]].
  unfold wstep. destruct (h <? nthreads w); [|reflexivity]. cbv zeta. rewrite E. unfold stw_step. cbv zeta.
  apply Nat.ltb_lt in Hk. rewrite Hk, Hr, Hd, Hp. apply Nat.eqb_neq in Hne. rewrite Hne. reflexivity.
Qed.

Section Live.
  Variable h : tid.
  Variable n : nat.

  Definition LInv (w : world) : Prop := Inv w /\ Flagged w /\ nthreads w = n.
  Definition Active (w : world) : Prop := is_stw (pc (th w h)) = true.
  Definition helpful (t : tid) (w : world) : Prop :=
    (t = h /\ exists w', wstep cfg_fixed h w = Some w') \/
    (t <> h /\ t < nthreads w /\ paused (th w t) = true /\ reg (th w t) = true /\
     is_done (pc (th w t)) = false /\ published (pc (th w t)) = false).

  Lemma LInv_step : forall t w w', LInv w -> wstep cfg_fixed t w = Some w' -> LInv w'.
  Proof.
    intros t w w' (HI & HF & Hn) H. split; [|split].
    - eapply Inv_step; eauto.
    - eapply Flagged_step; eauto.
    - rewrite <- Hn. eapply nthreads_step; eauto.
  Qed.

  Lemma active_dec : forall w, Active w \/ ~ Active w.
  Proof. intros w. unfold Active. destruct (is_stw (pc (th w h))); auto. Qed.

  Lemma step_measure : forall t w w', LInv w -> Active w -> wstep cfg_fixed t w = Some w' -> Active w' ->
    (if Nat.eqb t h || paused (th w t) then M h w' < M h w else M h w' = M h w).
  Proof.
    intros t w w' (HI & HF & Hn) Ha H Ha'.
    destruct (Nat.eqb_spec t h) as [->|Hne]; simpl.
    - apply M_stopper_step; auto.
    - destruct (M_other_step t h w w' HI Ha Hne H) as [_ Hm]. exact Hm.
  Qed.

  Lemma non_increase : forall t w w', LInv w -> Active w -> wstep cfg_fixed t w = Some w' -> Active w' ->
    M h w' <= M h w.
  Proof.
    intros t w w' HL Ha H Ha'. pose proof (step_measure t w w' HL Ha H Ha') as Hm.
    destruct (Nat.eqb t h || paused (th w t)); lia.
  Qed.

  Lemma some_helpful : forall w, LInv w -> Active w -> exists t, t < n /\ helpful t w.
  Proof.
    intros w (HI & HF & Hn) Ha. destruct (is_stw_inv _ Ha) as [s Es].
    destruct (stopper_progress w h s HI Es) as [He | [k Hb]].
    - exists h. split.
      + rewrite <- Hn. apply in_range_of_pc. rewrite Es. discriminate.
      + left. auto.
    - destruct Hb as [[p ->] [Hk [Hr [Hne [Hd Hp]]]]]. exists k. split; [lia|]. right.
      repeat split; auto. exact (HF h _ Es k Hne Hr).
  Qed.

  Lemma helpful_step : forall t w, LInv w -> Active w -> helpful t w ->
    exists w', wstep cfg_fixed t w = Some w' /\ (Active w' -> M h w' < M h w).
  Proof.
    intros t w HL Ha [[-> [w' He]] | (Hne & Hlt & Hp & Hr & Hd & Hpub)].
    - exists w'. split; auto. intro Ha'. pose proof (step_measure h w w' HL Ha He Ha') as Hm.
      rewrite Nat.eqb_refl in Hm. exact Hm.
    - destruct HL as (HI & HF & Hn). destruct (is_stw_inv _ Ha) as [s Es].
      assert (Hh : heap w = Some h) by (apply (I_heap w HI h); unfold holds_heap; now rewrite Es).
      destruct (unpublished_enabled w t h HI Hh Hne Hr Hd Hpub) as [w' He].
      exists w'. split; auto. intro Ha'.
      pose proof (step_measure t w w' (conj HI (conj HF Hn)) Ha He Ha') as Hm.
      rewrite Hp, orb_true_r in Hm. exact Hm.
  Qed.

  Lemma helpful_stable : forall t u w w', LInv w -> Active w -> helpful t w ->
    wstep cfg_fixed u w = Some w' -> Active w' -> M h w' = M h w -> helpful t w'.
  Proof.
    intros t u w w' HL Ha Hh H Ha' HM.
    pose proof (step_measure u w w' HL Ha H Ha') as Hm.
    destruct (Nat.eqb_spec u h) as [->|Hune]; simpl in Hm; [lia|].
    destruct (paused (th w u)) eqn:Epu; [lia|].
    pose proof (LInv_step u w w' HL H) as HL'.
    destruct HL as (HI & HF & Hn). destruct (is_stw_inv _ Ha) as [s Es].
    assert (Hnot : forall x, pc (th w u) <> Stw x).
    { intros x E. apply Hune. eapply stw_unique; eauto. }
    assert (Hhp : heap w = Some h) by (apply (I_heap w HI h); unfold holds_heap; now rewrite Es).
    assert (Hfr : forall v, v <> u -> th w' v = th w v) by (intros; eapply (frame_step u w w' v h); eauto).
    destruct Hh as [[-> [w1 He]] | (Hne & Hlt & Hp & Hr & Hd & Hpub)].
    - left. split; auto.
      assert (Es' : pc (th w' h) = Stw s) by (rewrite Hfr; auto).
      destruct HL' as (HI' & _).
      destruct (stopper_progress w' h s HI' Es') as [He' | [k Hb]]; auto.
      exfalso.
      destruct (stopper_progress w h s HI Es) as [_ | [k0 Hb0]].
      2:{ rewrite (blocked_not_enabled w h s k0 Es Hb0) in He. discriminate. }
      (* h was enabled in w; in w' it waits for k *)
      destruct Hb as [[p ->] [Hk [Hr [Hne [Hd Hp]]]]].
      destruct (Nat.eq_dec k u) as [->|Hku].
      + destruct (nonstw_step_keeps u w w' h HI Hhp Hune H) as [_ Hreg]. rewrite Hreg in Hr.
        pose proof (HF h _ Es u Hune Hr). congruence.
      + rewrite (Hfr k Hku) in *.
        assert (Hbw : blocked_on w h (SWait p k) k).
        { unfold blocked_on. rewrite <- (nthreads_step _ _ _ _ H). repeat split; eauto. }
        rewrite (blocked_not_enabled w h _ k Es Hbw) in He. discriminate.
    - right. assert (Htu : t <> u) by (intro; subst; congruence).
      rewrite (Hfr t Htu). rewrite (nthreads_step _ _ _ _ H). repeat split; auto.
  Qed.

  Theorem stop_terminates_from : forall w f, LInv w -> fair n f ->
    exists k, ~ Active (Conc.run_stream world (wstep cfg_fixed) f k w).
  Proof.
    intros w f HL Hf.
    eapply (variant_terminates world (wstep cfg_fixed) LInv Active (M h) n helpful
              active_dec LInv_step non_increase some_helpful helpful_step helpful_stable (M h w)); auto.
  Qed.
End Live.

(* ------------------------------------------------------------------ from the initial worlds *)
Lemma nth_map_prog : forall progs b t, prog (nth t (map (mk_thd b) progs) dflt) = nth t progs [].
Proof.
  induction progs as [|p r IH]; intros b [|t]; simpl; auto.
Qed.

Lemma no_spawn_init_all : forall progs, no_spawn_progs progs = true -> no_spawn (init_all progs).
Proof.
  intros progs H t. unfold th, init_all. cbn [ths]. rewrite nth_map_prog.
  unfold no_spawn_progs in H. rewrite forallb_forall in H.
  destruct (lt_dec t (length progs)) as [L|L].
  - specialize (H (nth t progs []) (nth_In _ _ L)). now apply negb_true_iff in H.
  - rewrite nth_overflow by lia. reflexivity.
Qed.

Lemma pc_init_all : forall progs t,
  pc (nth t (map (mk_thd true) progs) dflt) = Run \/ pc (nth t (map (mk_thd true) progs) dflt) = Done.
Proof. induction progs as [|p r IH]; intros [|t]; simpl; auto. Qed.

Lemma Flagged_init_all : forall progs, Flagged (init_all progs).
Proof.
  intros progs h s E. exfalso. unfold th, init_all in E. cbn [ths] in E.
  destruct (pc_init_all progs h) as [E1|E1]; rewrite E1 in E; discriminate.
Qed.

Lemma LInv_run : forall n sched w, LInv n w -> LInv n (run cfg_fixed sched w).
Proof.
  intros n sched w H. unfold run. apply (invariant_run world (wstep cfg_fixed) (LInv n)); auto.
  intros. eapply LInv_step; eauto.
Qed.

Lemma stop_terminates_init_all_spawning : forall progs sched h f,
  let w := run cfg_fixed sched (init_all progs) in
  is_stw (pc (th w h)) = true ->
  fair (length progs) f ->
  exists k, is_stw (pc (th (run_stream cfg_fixed f k w) h)) = false.
Proof.
  intros progs sched h f w Ha Hf.
  assert (HL : LInv (length progs) w).
  { apply LInv_run. split; [|split].
    - apply Inv_init_all.
    - apply Flagged_init_all.
    - unfold nthreads, init_all. cbn [ths]. apply map_length. }
  destruct (stop_terminates_from h (length progs) w f HL Hf) as [k Hk].
  exists k. unfold Active in Hk. unfold run_stream.
  destruct (is_stw (pc (th (Conc.run_stream world (wstep cfg_fixed) f k w) h))); auto. now elim Hk.
Qed.

Lemma stop_terminates_init_all : forall progs sched h f,
  no_spawn_progs progs = true ->
  let w := run cfg_fixed sched (init_all progs) in
  is_stw (pc (th w h)) = true ->
  fair (length progs) f ->
  exists k, is_stw (pc (th (run_stream cfg_fixed f k w) h)) = false.
Proof. intros progs sched h f _. apply stop_terminates_init_all_spawning. Qed.

(* from the real initial world (only the main thread started), scripts that spawn included *)
Lemma Flagged_init : forall progs, Flagged (init progs).
Proof.
  intros progs h s E. exfalso. destruct (pc_init_cases progs h) as [A|[A|A]]; rewrite A in E; discriminate.
Qed.

Lemma nthreads_init : forall progs, nthreads (init progs) = length progs.
Proof. intros [|p r]; unfold nthreads, init; cbn [ths]; simpl; auto. now rewrite map_length. Qed.

Lemma stop_terminates_init : forall progs sched h f,
  let w := run cfg_fixed sched (init progs) in
  is_stw (pc (th w h)) = true ->
  fair (length progs) f ->
  exists k, is_stw (pc (th (run_stream cfg_fixed f k w) h)) = false.
Proof.
  intros progs sched h f w Ha Hf.
  assert (HL : LInv (length progs) w).
  { apply LInv_run. split; [|split].
    - apply Inv_init.
    - apply Flagged_init.
    - apply nthreads_init. }
  destruct (stop_terminates_from h (length progs) w f HL Hf) as [k Hk].
  exists k. unfold Active in Hk. unfold run_stream.
  destruct (is_stw (pc (th (Conc.run_stream world (wstep cfg_fixed) f k w) h))); auto. now elim Hk.
Qed.

(* non-vacuity: a fair schedule, a world with an active section, and the step at which it has ended *)
Lemma rr3_fair : fair 3 rr3.
Proof.
  intros t k Ht. exists (3 * k + t). split; [lia|]. unfold rr3.
  rewrite Nat.add_comm, Nat.mul_comm, Nat.mod_add by lia. apply Nat.mod_small. exact Ht.
Qed.

Lemma live_example :
  no_spawn_progs live_progs = true /\
  is_stw (pc (th (run cfg_fixed live_sched (init_all live_progs)) 0)) = true /\
  is_stw (pc (th (run_stream cfg_fixed rr3 60 (run cfg_fixed live_sched (init_all live_progs))) 0)) = false.
Proof. vm_compute. auto. Qed.

Lemma spawning_example :
  let w := run cfg_fixed spawning_sched (init spawning_progs) in
  pc (th w 0) = Stw SStopLock /\ reg (th w 1) = true /\ pc (th w 2) = NotStarted /\
  is_stw (pc (th (run_stream cfg_fixed rr3 75 w) 0)) = false /\
  (let w' := run_stream cfg_fixed rr3 120 w in pc (th w' 0) = Done /\ pc (th w' 1) = Done /\ pc (th w' 2) = Done).
Proof. vm_compute. auto 10. Qed.

(* the hypothesis was needed for the tree before 56291059 (spawn_locked = false): a thread registered after
   stop_threads has passed is never flagged, and the stopper stays blocked for as long as that thread runs without
   entering a safepoint.  With thread creation under the heap guard no registration falls inside a section
   (Proofs_C15_Spawn) and stop_terminates_init above covers scripts that spawn. *)
Lemma late_registration_delays :
  let w := run cfg_pre_spawn_fix late_sched (init late_progs) in
  pc (th w 2) = Stw (SWait 1 1) /\ reg (th w 1) = true /\ paused (th w 1) = false /\
  wstep cfg_pre_spawn_fix 2 w = None /\
  wstep cfg_pre_spawn_fix 2 (run cfg_pre_spawn_fix (repeat 1 20) w) = None /\ prog (th (run cfg_pre_spawn_fix (repeat 1 20) w) 1) <> [].
Proof. cbv zeta. repeat split; try (vm_compute; reflexivity). vm_compute. discriminate. Qed.
