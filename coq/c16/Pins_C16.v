(* Compiled on every run of the C16 check: pins each statement and prints its assumptions. *)
From Coq Require Import List Arith Bool.
From SV Require Import c15.Conc c15.Model_C15 c16.Model_C16 c16.Proofs_C16 c16.Properties_C16 gen.Gen_C16.
Import ListNotations.

Check (C16_no_runtime_deadlock : forall progs sched,
  let w := run cfg_fixed sched (init progs) in
  (exists i, live (th w i) = true /\ script_blocked w i = false) ->
  exists t w', wstep cfg_fixed t w = Some w').
Check (C16_no_runtime_deadlock_all_started : forall progs sched,
  let w := run cfg_fixed sched (init_all progs) in
  (exists i, live (th w i) = true /\ script_blocked w i = false) ->
  exists t w', wstep cfg_fixed t w = Some w').
Check (C16_deadlock_refuted_global_update :
  deadlocked cfg_old (run cfg_old f18_sched (init_all f18_progs))).
Check (C16_deadlock_refuted_native_box :
  deadlocked cfg_guard_only (run cfg_guard_only f23_sched (init_all f23_progs))).
Check (C16_repaired_f18_completes :
  all_done (run cfg_fixed (f18_sched ++ rounds 80) (init_all f18_progs)) = true).
Check (C16_repaired_f23_completes :
  all_done (run cfg_fixed (f23_sched ++ rounds 80) (init_all f23_progs)) = true).
Check (C16_channel_fifo_per_sender : forall cfg progs sched c from,
  let s := sh (run cfg sched (init progs)) in
  sent_seq s c from = recv_seq s c from ++ queue_seq s c from).
Check (C16_stop_terminates : forall progs sched h f,
  no_spawn_progs progs = true ->
  let w := run cfg_fixed sched (init_all progs) in
  is_stw (pc (th w h)) = true ->
  fair (length progs) f ->
  exists k, is_stw (pc (th (run_stream cfg_fixed f k w) h)) = false).
Check (C16_stop_terminates_nonvacuous :
  fair 3 rr3 /\ no_spawn_progs live_progs = true /\
  is_stw (pc (th (run cfg_fixed live_sched (init_all live_progs)) 0)) = true /\
  is_stw (pc (th (run_stream cfg_fixed rr3 60 (run cfg_fixed live_sched (init_all live_progs))) 0)) = false).
Check (C16_stop_delayed_by_late_registration :
  let w := run cfg_pre_spawn_fix late_sched (init late_progs) in
  pc (th w 2) = Stw (SWait 1 1) /\ reg (th w 1) = true /\ paused (th w 1) = false /\
  wstep cfg_pre_spawn_fix 2 w = None /\
  wstep cfg_pre_spawn_fix 2 (run cfg_pre_spawn_fix (repeat 1 20) w) = None /\ prog (th (run cfg_pre_spawn_fix (repeat 1 20) w) 1) <> []).
Check (C16_join_once : forall cfg progs sched,
  let w := run cfg sched (init progs) in
  NoDup (map snd (deliv (sh w))) /\
  (forall joiner j, In (joiner, j) (deliv (sh w)) -> pc (th w j) = Done /\ In j (taken (sh w))) /\
  (forall u j, pc (th w u) = SpJoin -> head (th w u) = AJoin j ->
     ~ In j (map snd (deliv (sh w))) /\ forall u', pc (th w u') = SpJoin -> head (th w u') = AJoin j -> u' = u)).
Check (C16_join_delivery_enabled : forall cfg w u j, u < nthreads w -> pc (th w u) = SpJoin -> head (th w u) = AJoin j ->
  pc (th w j) = Done -> exists w', wstep cfg u w = Some w' /\ deliv (sh w') = (u, j) :: deliv (sh w)).
Check (eq_refl : fair = fun n f => forall t k, t < n -> exists m, k <= m /\ f m = t).
Check (eq_refl : run_stream = fun cfg f n w => Conc.run_stream world (wstep cfg) f n w).
Check (eq_refl : no_spawn_progs = fun progs => forallb (fun p => negb (existsb is_spawn p)) progs).
Check (C16_source_config_is_fixed : gen_config = cfg_fixed).
Check (C16_every_region_published : regions_ok = true).

(* definitions the statements rest on *)
Check (eq_refl : deadlocked = fun cfg w =>
  (forall t, wstep cfg t w = None) /\ (exists i, live (th w i) = true /\ script_blocked w i = false)).
Check (eq_refl : cfg_fixed = {| keep_guard := true; jit_box_safepoint := true; spawn_locked := true |}).
Check (eq_refl : cfg_old = {| keep_guard := false; jit_box_safepoint := false; spawn_locked := false |}).
Check (eq_refl : run = fun cfg sched w => Conc.run world (wstep cfg) sched w).
Check (eq_refl : live = fun x => negb (is_done (pc x)) && negb (is_notstarted (pc x))).
Check (eq_refl : f18_progs = [[AUpdate]; [AUpdate]]).
Check (eq_refl : f23_progs = [[AAlloc true]; [AAllocJit false]]).

Check (C16_stop_terminates_spawning : forall progs sched h f,
  let w := run cfg_fixed sched (init progs) in
  is_stw (pc (th w h)) = true ->
  fair (length progs) f ->
  exists k, is_stw (pc (th (run_stream cfg_fixed f k w) h)) = false).
Check (C16_stop_terminates_spawning_nonvacuous :
  fair 3 rr3 /\
  (let w := run cfg_fixed spawning_sched (init spawning_progs) in
   pc (th w 0) = Stw SStopLock /\ reg (th w 1) = true /\ pc (th w 2) = NotStarted /\
   is_stw (pc (th (run_stream cfg_fixed rr3 75 w) 0)) = false /\
   (let w' := run_stream cfg_fixed rr3 120 w in pc (th w' 0) = Done /\ pc (th w' 1) = Done /\ pc (th w' 2) = Done))).
Check (eq_refl : spawning_progs = [[ASpawn 1; AUpdate; ASpawn 2]; [ACompute; APrim; ACompute]; [APrim; ACompute]]).
Print Assumptions C16_no_runtime_deadlock.
Print Assumptions C16_no_runtime_deadlock_all_started.
Print Assumptions C16_deadlock_refuted_global_update.
Print Assumptions C16_deadlock_refuted_native_box.
Print Assumptions C16_repaired_f18_completes.
Print Assumptions C16_repaired_f23_completes.
Print Assumptions C16_channel_fifo_per_sender.
Print Assumptions C16_stop_terminates.
Print Assumptions C16_stop_terminates_nonvacuous.
Print Assumptions C16_stop_delayed_by_late_registration.
Print Assumptions C16_join_once.
Print Assumptions C16_join_delivery_enabled.
Print Assumptions C16_source_config_is_fixed.
Print Assumptions C16_every_region_published.
Print Assumptions C16_stop_terminates_spawning.
Print Assumptions C16_stop_terminates_spawning_nonvacuous.
