(* Compiled on every run of the C16 check: pins each statement and prints its assumptions. *)
From Coq Require Import List Arith Bool.
From SV Require Import c15.Conc c15.Model_C15 c16.Model_C16 c16.Proofs_C16 c16.Properties_C16 gen.Gen_C16.
Import ListNotations.

Check (C16_no_runtime_deadlock : forall progs sched,
  let w := run cfg_fixed sched (init progs) in
  (exists i, live (th w i) = true /\ script_blocked w i = false) ->
  exists t w', wstep cfg_fixed t w = Some w').
Check (C16_no_runtime_deadlock_all_started : forall progs sched,
  let w := run cfg_fixed sched (init_all progs) in
  (exists i, live (th w i) = true /\ script_blocked w i = false) ->
  exists t w', wstep cfg_fixed t w = Some w').
Check (C16_deadlock_refuted_global_update :
  deadlocked cfg_old (run cfg_old f18_sched (init_all f18_progs))).
Check (C16_deadlock_refuted_native_box :
  deadlocked cfg_guard_only (run cfg_guard_only f23_sched (init_all f23_progs))).
Check (C16_repaired_f18_completes :
  all_done (run cfg_fixed (f18_sched ++ rounds 80) (init_all f18_progs)) = true).
Check (C16_repaired_f23_completes :
  all_done (run cfg_fixed (f23_sched ++ rounds 80) (init_all f23_progs)) = true).
Check (C16_channel_fifo_per_sender : forall cfg progs sched c from,
  let s := sh (run cfg sched (init progs)) in
  sent_seq s c from = recv_seq s c from ++ queue_seq s c from).
Check (C16_source_config_is_fixed : gen_config = cfg_fixed).
Check (C16_every_region_published : regions_ok = true).

(* definitions the statements rest on *)
Check (eq_refl : deadlocked = fun cfg w =>
  (forall t, wstep cfg t w = None) /\ (exists i, live (th w i) = true /\ script_blocked w i = false)).
Check (eq_refl : cfg_fixed = {| keep_guard := true; jit_box_safepoint := true |}).
Check (eq_refl : cfg_old = {| keep_guard := false; jit_box_safepoint := false |}).
Check (eq_refl : run = fun cfg sched w => Conc.run world (wstep cfg) sched w).
Check (eq_refl : live = fun x => negb (is_done (pc x)) && negb (is_notstarted (pc x))).
Check (eq_refl : f18_progs = [[AUpdate]; [AUpdate]]).
Check (eq_refl : f23_progs = [[AAlloc true]; [AAllocJit false]]).

Print Assumptions C16_no_runtime_deadlock.
Print Assumptions C16_no_runtime_deadlock_all_started.
Print Assumptions C16_deadlock_refuted_global_update.
Print Assumptions C16_deadlock_refuted_native_box.
Print Assumptions C16_repaired_f18_completes.
Print Assumptions C16_repaired_f23_completes.
Print Assumptions C16_channel_fifo_per_sender.
Print Assumptions C16_source_config_is_fixed.
Print Assumptions C16_every_region_published.
