(* C16: a joined thread's result is delivered at most once, to the thread that took the handle, and only
   after the joined thread finished. *)
From Coq Require Import List Arith Lia Bool.
Import ListNotations.
From SV Require Import c15.Conc c15.Model_C15 c15.Proofs_C15_Base c15.Proofs_C15_Inv c16.Model_C16.

Definition pend (w : world) (u j : tid) : Prop := pc (th w u) = SpJoin /\ head (th w u) = AJoin j.

Lemma mem_false_notin : forall j l, mem j l = false -> ~ In j l.
Proof.
  intros j l H Hin. unfold mem in H. assert (existsb (Nat.eqb j) l = true).
  { apply existsb_exists. exists j. split; auto. apply Nat.eqb_refl. }
  congruence.
Qed.

Inductive join_change (t : tid) (w w' : world) : Prop :=
| jc_none : taken (sh w') = taken (sh w) -> deliv (sh w') = deliv (sh w) ->
    (forall u j, pend w' u j -> pend w u j) -> join_change t w w'
| jc_take : forall j, mem j (taken (sh w)) = false -> taken (sh w') = j :: taken (sh w) ->
    deliv (sh w') = deliv (sh w) ->
    (forall u j', pend w' u j' -> (u = t /\ j' = j) \/ pend w u j') -> join_change t w w'
| jc_deliver : forall j, pend w t j -> is_done (pc (th w j)) = true ->
    taken (sh w') = taken (sh w) -> deliv (sh w') = (t, j) :: deliv (sh w) ->
    (forall u j', pend w' u j' -> u <> t /\ pend w u j') -> join_change t w w'.

Ltac pend_fin :=
  let E1 := fresh "EA" in let E2 := fresh "EB" in
  intros [E1 E2]; try discriminate E1; try discriminate E2;
  try (injection E2 as E2; subst); try tauto; auto;
  try solve [left; split; reflexivity]; try solve [right; split; assumption];
  try solve [split; [assumption | split; assumption]].

Ltac simp_sh := autorewrite with world; repeat (match goal with |- context [if ?b then _ else _] => destruct b end; autorewrite with world).

Lemma step_join_change : forall cfg t w w', wstep cfg t w = Some w' -> join_change t w w'.
Proof.
  intros cfg t w w' H. step_cases H.
  all: try match goal with
    | Hm : mem ?j (taken (sh _)) = false |- _ =>
        apply (jc_take _ _ _ j); [exact Hm | simp_sh; reflexivity | simp_sh; reflexivity |
          intros u j'; unfold pend; prep; pend_fin ]
    | Hd : is_done (pc (th _ ?j)) = true, Hp : pc (th _ _) = SpJoin |- _ =>
        apply (jc_deliver _ _ _ j); [split; assumption | exact Hd | simp_sh; reflexivity | simp_sh; reflexivity |
          intros u j'; unfold pend; prep; pend_fin ]
    end.
  all: apply jc_none; [ simp_sh; reflexivity | simp_sh; reflexivity | intros u j'; unfold pend; prep; pend_fin ].
Qed.

Lemma done_stable : forall cfg t w w' u, wstep cfg t w = Some w' -> pc (th w u) = Done -> pc (th w' u) = Done.
Proof.
  intros cfg t w w' u H Hd. step_cases H.
  all: prep; try reflexivity; try discriminate; try assumption.
Qed.

Record JInv (w : world) : Prop := {
  J_nodup : NoDup (map snd (deliv (sh w)));
  J_taken : forall p, In p (deliv (sh w)) -> In (snd p) (taken (sh w));
  J_done : forall p, In p (deliv (sh w)) -> pc (th w (snd p)) = Done;
  J_pend : forall u j, pend w u j ->
      In j (taken (sh w)) /\ ~ In j (map snd (deliv (sh w))) /\
      (forall u', pend w u' j -> u' = u)
}.

Lemma JInv_step : forall cfg t w w', JInv w -> wstep cfg t w = Some w' -> JInv w'.
Proof.
  intros cfg t w w' [Hnd Htk Hdn Hpd] H.
  pose proof (done_stable cfg t w w') as Hst.
  destruct (step_join_change cfg t w w' H) as [Et Ed Hp | j Hm Et Ed Hp | j Hpj Hdj Et Ed Hp].
  - constructor; rewrite ?Et, ?Ed.
    + exact Hnd.
    + exact Htk.
    + intros p Hin. eapply Hst; eauto.
    + intros u j Hpu. destruct (Hpd u j (Hp u j Hpu)) as (A & B & C). split; [|split]; auto.
  - constructor; rewrite ?Et, ?Ed.
    + exact Hnd.
    + intros p Hin. right. auto.
    + intros p Hin. eapply Hst; eauto.
    + intros u j0 Hpu. destruct (Hp u j0 Hpu) as [[-> ->] | Hold].
      * split; [left; reflexivity|]. split.
        -- intros Hin. apply in_map_iff in Hin. destruct Hin as [p [<- Hin]].
           apply (mem_false_notin _ _ Hm). auto.
        -- intros u' Hpu'. destruct (Hp u' j Hpu') as [[-> _] | Hold']; auto.
           exfalso. apply (mem_false_notin _ _ Hm). apply (Hpd u' j Hold').
      * destruct (Hpd u j0 Hold) as (A & B & C). split; [right; auto|]. split; auto.
        intros u' Hpu'. destruct (Hp u' j0 Hpu') as [[-> ->] | Hold']; auto.
        exfalso. apply (mem_false_notin _ _ Hm). exact A.
  - destruct (Hpd t j Hpj) as (A & B & C).
    constructor; rewrite ?Et, ?Ed.
    + simpl. constructor; auto.
    + intros p [<- | Hin]; simpl; auto.
    + intros p [<- | Hin]; simpl.
      * eapply Hst; eauto. destruct (pc (th w j)); try discriminate; reflexivity.
      * eapply Hst; eauto.
    + intros u j0 Hpu. destruct (Hp u j0 Hpu) as [Hne Hold].
      destruct (Hpd u j0 Hold) as (A' & B' & C'). split; auto. split.
      * simpl. intros [E | Hin]; auto. subst j0. apply Hne. symmetry. apply C'. exact Hpj.
      * intros u' Hpu'. destruct (Hp u' j0 Hpu') as [_ Hold']. auto.
Qed.

Lemma pc_init_not_spjoin : forall l b t, pc (nth t (map (mk_thd b) l) dflt) <> SpJoin.
Proof. induction l as [|p r IH]; intros b [|t]; simpl; try discriminate; auto. destruct b; discriminate. Qed.

Lemma JInv_init : forall progs, JInv (init progs).
Proof.
  intros progs. constructor.
  - simpl. constructor.
  - simpl. tauto.
  - simpl. tauto.
  - intros u j [Hp _]. exfalso. unfold th, init in Hp. cbn [ths] in Hp.
    destruct progs as [|p r]; [destruct u; simpl in Hp; discriminate|].
    destruct u as [|u]; simpl in Hp; [discriminate|]. eapply pc_init_not_spjoin; eauto.
Qed.

Lemma JInv_run : forall cfg sched w, JInv w -> JInv (run cfg sched w).
Proof.
  intros cfg sched w H. unfold run. apply (invariant_run world (wstep cfg) JInv); auto.
  intros. eapply JInv_step; eauto.
Qed.

Lemma join_once_init : forall cfg progs sched,
  let w := run cfg sched (init progs) in
  NoDup (map snd (deliv (sh w))) /\
  (forall joiner j, In (joiner, j) (deliv (sh w)) -> pc (th w j) = Done /\ In j (taken (sh w))) /\
  (forall u j, pc (th w u) = SpJoin -> head (th w u) = AJoin j ->
     ~ In j (map snd (deliv (sh w))) /\ forall u', pc (th w u') = SpJoin -> head (th w u') = AJoin j -> u' = u).
Proof.
  intros cfg progs sched w. assert (HJ : JInv w) by (apply JInv_run; apply JInv_init).
  destruct HJ as [Hnd Htk Hdn Hpd]. split; auto. split.
  - intros joiner j Hin. split; [exact (Hdn _ Hin) | exact (Htk _ Hin)].
  - intros u j E1 E2. destruct (Hpd u j (conj E1 E2)) as (_ & B & C). split; auto.
    intros u' E1' E2'. apply C. split; auto.
Qed.

(* the delivery itself is never blocked by the runtime: once the joined thread finished, the joiner's step is enabled *)
Lemma join_delivery_enabled : forall cfg w u j, u < nthreads w -> pc (th w u) = SpJoin -> head (th w u) = AJoin j ->
  pc (th w j) = Done -> exists w', wstep cfg u w = Some w' /\ deliv (sh w') = (u, j) :: deliv (sh w).
Proof.
  intros cfg w u j Hlt E1 E2 Hd. unfold wstep. apply Nat.ltb_lt in Hlt. rewrite Hlt. cbv zeta.
  rewrite E1, E2, Hd. simpl. eexists. split; [reflexivity|]. autorewrite with world. reflexivity.
Qed.
