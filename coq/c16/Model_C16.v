(* C16 — executable observables of the handshake model for the correspondence (definitions only). *)
From Coq Require Import List Arith Bool String Ascii.
From Coq Require Import Numbers.DecimalString Numbers.DecimalNat.
From SV Require Import c15.Conc c15.Model_C15.
Import ListNotations.
Open Scope string_scope.

Definition show_nat (n : nat) : string := NilEmpty.string_of_uint (Nat.to_uint n).

(* k rounds of round-robin over n threads: a fair schedule prefix *)
Fixpoint round_robin (n k : nat) : list tid :=
  match k with 0 => [] | S k' => seq 0 n ++ round_robin n k' end.

Definition show_recv (r : nat * tid * nat * tid) : string :=
  let '(c, s, v, t) := r in show_nat c ++ ":" ++ show_nat s ++ ":" ++ show_nat v ++ ":" ++ show_nat t.
Definition show_deliv (d : tid * tid) : string := show_nat (fst d) ++ ">" ++ show_nat (snd d).

Fixpoint join_with (sep : string) (l : list string) : string :=
  match l with [] => "" | [x] => x | x :: r => x ++ sep ++ join_with sep r end.

(* observables: did every thread finish; received messages oldest first; joins oldest first;
   completed global updates; does every finished/started thread hold the latest global table *)
Definition render_world (w : world) : string :=
  "done=" ++ (if all_done w then "1" else "0") ++
  ";recv=" ++ join_with "," (map show_recv (rev (recvd (sh w)))) ++
  ";deliv=" ++ join_with "," (map show_deliv (rev (deliv (sh w)))) ++
  ";gen=" ++ show_nat (env_gen w) ++
  ";stoppers=" ++ show_nat (stoppers w).

Definition run_rr (cfg : config) (progs : list (list act)) (rounds : nat) : world :=
  run cfg (round_robin (List.length progs) rounds) (init progs).

(* ------------------------------------------------------------------ witnesses for the code as it was *)
Definition cfg_guard_only : config := {| keep_guard := true; jit_box_safepoint := false; spawn_locked := false |}.

(* F18: two concurrent global updates *)
Definition f18_progs : list (list act) := [[AUpdate]; [AUpdate]].
Definition f18_sched : list tid := [0;0;0;0;0;0; 1;1;1;1;1;1;1; 0;0;0;0;0;0;0].
(* F23: a collection while another thread allocates a box in native code *)
Definition f23_progs : list (list act) := [[AAlloc true]; [AAllocJit false]].
Definition f23_sched : list tid := [0;0;0;0;0;0; 1;1;1; 0;0;0;0;0;0;0;0;0;0;0;0].

Definition deadlocked (cfg : config) (w : world) : Prop :=
  (forall t, wstep cfg t w = None) /\
  (exists i, live (th w i) = true /\ script_blocked w i = false).

Definition rounds (k : nat) : list tid := List.concat (List.repeat [0; 1] k).

(* ------------------------------------------------------------------ channel observables *)
(* values sent on channel c by thread `from`, received from it, and still queued — oldest first *)
Definition sent_seq (s : shared) (c : nat) (from : tid) : list nat :=
  rev (map (fun x => snd x) (filter (fun x => Nat.eqb (fst (fst x)) c && Nat.eqb (snd (fst x)) from) (sent s))).
Definition recv_seq (s : shared) (c : nat) (from : tid) : list nat :=
  rev (map (fun x => snd (fst x)) (filter (fun x => Nat.eqb (fst (fst (fst x))) c && Nat.eqb (snd (fst (fst x))) from) (recvd s))).
Definition queue_seq (s : shared) (c : nat) (from : tid) : list nat :=
  map snd (filter (fun x => Nat.eqb (fst x) from) (chans s c)).


(* ------------------------------------------------------------------ liveness vocabulary *)
Definition is_spawn (a : act) : bool := match a with ASpawn _ => true | _ => false end.
Definition is_stw (p : tpc) : bool := match p with Stw _ => true | _ => false end.
(* no script contains a spawn: the set of registered threads is fixed *)
Definition no_spawn_progs (progs : list (list act)) : bool := forallb (fun p => negb (existsb is_spawn p)) progs.
(* round robin over three threads, as an infinite schedule *)
Definition rr3 : nat -> tid := fun i => i mod 3.
Definition live_progs : list (list act) := [[AAlloc true]; [ACompute; APrim; ACompute]; [APrim; ACompute]].
Definition live_sched : list tid := [1; 0;0;0;0;0;0;0;0].
(* a script that spawns before and after its global update (non-vacuity of the termination theorem with spawns) *)
Definition spawning_progs : list (list act) := [[ASpawn 1; AUpdate; ASpawn 2]; [ACompute; APrim; ACompute]; [APrim; ACompute]].
Definition spawning_sched : list tid := List.repeat 0 17.
Definition late_progs : list (list act) := [[ASpawn 2; ASpawn 1; APrim]; List.repeat ACompute 12; [AAlloc true]].
Definition late_sched : list tid := [0;0;0;0;0; 0;0] ++ List.repeat 2 12 ++ [0] ++ List.repeat 2 5.
