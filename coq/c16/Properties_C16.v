(* C16 — property theorems only (statements pinned in Pins_C16.v). *)
From Coq Require Import List Arith Bool.
From SV Require Import c15.Conc c15.Model_C15 c16.Model_C16 c16.Proofs_C16 c16.Proofs_C16_Fifo c16.Proofs_C16_Live c16.Proofs_C16_Join gen.Gen_C16.
Import ListNotations.

(* For every number of threads, every script and every schedule of the repaired handshake: if some
   thread is neither finished nor blocked by the script's own logic, some step is enabled. *)
Theorem C16_no_runtime_deadlock : forall progs sched,
  let w := run cfg_fixed sched (init progs) in
  (exists i, live (th w i) = true /\ script_blocked w i = false) ->
  exists t w', wstep cfg_fixed t w = Some w'.
Proof. exact no_runtime_deadlock_init. Qed.

Theorem C16_no_runtime_deadlock_all_started : forall progs sched,
  let w := run cfg_fixed sched (init_all progs) in
  (exists i, live (th w i) = true /\ script_blocked w i = false) ->
  exists t w', wstep cfg_fixed t w = Some w'.
Proof. exact no_runtime_deadlock_init_all. Qed.

(* The code as it was: two concurrent global updates deadlock (F18) ... *)
Theorem C16_deadlock_refuted_global_update :
  deadlocked cfg_old (run cfg_old f18_sched (init_all f18_progs)).
Proof. exact f18_deadlock. Qed.

(* ... and so do a collection and a native-code box allocation, even with the guard kept (F23). *)
Theorem C16_deadlock_refuted_native_box :
  deadlocked cfg_guard_only (run cfg_guard_only f23_sched (init_all f23_progs)).
Proof. exact f23_deadlock. Qed.

(* non-vacuity: under the repaired handshake the same two scripts run to completion *)
Example C16_repaired_f18_completes :
  all_done (run cfg_fixed (f18_sched ++ rounds 80) (init_all f18_progs)) = true.
Proof. exact f18_fixed_completes. Qed.
Example C16_repaired_f23_completes :
  all_done (run cfg_fixed (f23_sched ++ rounds 80) (init_all f23_progs)) = true.
Proof. exact f23_fixed_completes. Qed.

(* Channels (any lock discipline, any schedule): what has been received from a sender on a channel, followed
   by what is still queued from it, is exactly what it sent, in order — every value at most once, none lost. *)
Theorem C16_channel_fifo_per_sender : forall cfg progs sched c from,
  let s := sh (run cfg sched (init progs)) in
  sent_seq s c from = recv_seq s c from ++ queue_seq s c from.
Proof. exact channel_fifo_init. Qed.

(* Liveness.  Fairness: an infinite schedule f : nat -> tid in which every thread id below the thread count occurs
   infinitely often (Conc.fair); a scheduled thread that has no enabled step is skipped, so this is weak fairness of
   the system.  For every number of threads, every spawn-free script (the set of registered threads is fixed),
   every reachable world in which thread h is inside a stop-the-world section, and every fair schedule, the section
   ends.  Variant: 7 * (remaining protocol steps of the stopper) + sum over threads of (flag set: steps left before
   the thread is parked or blocked published; flag not set: 6). *)
Theorem C16_stop_terminates : forall progs sched h f,
  no_spawn_progs progs = true ->
  let w := run cfg_fixed sched (init_all progs) in
  is_stw (pc (th w h)) = true ->
  fair (length progs) f ->
  exists k, is_stw (pc (th (run_stream cfg_fixed f k w) h)) = false.
Proof. exact stop_terminates_init_all. Qed.

Example C16_stop_terminates_nonvacuous :
  fair 3 rr3 /\ no_spawn_progs live_progs = true /\
  is_stw (pc (th (run cfg_fixed live_sched (init_all live_progs)) 0)) = true /\
  is_stw (pc (th (run_stream cfg_fixed rr3 60 (run cfg_fixed live_sched (init_all live_progs))) 0)) = false.
Proof. split; [exact rr3_fair | exact live_example]. Qed.

(* With thread creation under the heap guard the set of registered threads cannot change during a section, and the
   same variant works for scripts that spawn: for every number of threads, EVERY script, every world reachable from
   the real initial world (only the main thread started) in which thread h is inside a stop-the-world section, and
   every fair schedule, the section ends. *)
Theorem C16_stop_terminates_spawning : forall progs sched h f,
  let w := run cfg_fixed sched (init progs) in
  is_stw (pc (th w h)) = true ->
  fair (length progs) f ->
  exists k, is_stw (pc (th (run_stream cfg_fixed f k w) h)) = false.
Proof. exact stop_terminates_init. Qed.

Example C16_stop_terminates_spawning_nonvacuous :
  fair 3 rr3 /\
  (let w := run cfg_fixed spawning_sched (init spawning_progs) in
   pc (th w 0) = Stw SStopLock /\ reg (th w 1) = true /\ pc (th w 2) = NotStarted /\
   is_stw (pc (th (run_stream cfg_fixed rr3 75 w) 0)) = false /\
   (let w' := run_stream cfg_fixed rr3 120 w in pc (th w' 0) = Done /\ pc (th w' 1) = Done /\ pc (th w' 2) = Done)).
Proof. split; [exact rr3_fair | exact spawning_example]. Qed.

(* The spawn-free hypothesis was needed for the tree before 56291059 (spawn_locked = false): a thread registered
   after stop_threads has passed is never flagged, and the stopper stays blocked for as long as that thread runs
   without entering a safepoint.  On the current tree no registration falls inside a section
   (C15_no_unregistered_runner_during_section) and C16_stop_terminates_spawning needs no such hypothesis. *)
Theorem C16_stop_delayed_by_late_registration :
  let w := run cfg_pre_spawn_fix late_sched (init late_progs) in
  pc (th w 2) = Stw (SWait 1 1) /\ reg (th w 1) = true /\ paused (th w 1) = false /\
  wstep cfg_pre_spawn_fix 2 w = None /\
  wstep cfg_pre_spawn_fix 2 (run cfg_pre_spawn_fix (repeat 1 20) w) = None /\ prog (th (run cfg_pre_spawn_fix (repeat 1 20) w) 1) <> [].
Proof. exact late_registration_delays. Qed.

(* Join handles (any lock discipline, any number of threads and joins, any schedule): a thread's result is delivered
   at most once, only after that thread finished, only to a thread that took the handle; while a joiner waits nobody
   else waits for or has received the same result; and once the joined thread finished the delivery step is enabled. *)
Theorem C16_join_once : forall cfg progs sched,
  let w := run cfg sched (init progs) in
  NoDup (map snd (deliv (sh w))) /\
  (forall joiner j, In (joiner, j) (deliv (sh w)) -> pc (th w j) = Done /\ In j (taken (sh w))) /\
  (forall u j, pc (th w u) = SpJoin -> head (th w u) = AJoin j ->
     ~ In j (map snd (deliv (sh w))) /\ forall u', pc (th w u') = SpJoin -> head (th w u') = AJoin j -> u' = u).
Proof. exact join_once_init. Qed.

Theorem C16_join_delivery_enabled : forall cfg w u j, u < nthreads w -> pc (th w u) = SpJoin -> head (th w u) = AJoin j ->
  pc (th w j) = Done -> exists w', wstep cfg u w = Some w' /\ deliv (sh w') = (u, j) :: deliv (sh w).
Proof. exact join_delivery_enabled. Qed.

(* generated facts (coq/gen/Gen_C16.v, regenerated from /repo on every run): the lock discipline the
   source has NOW is the one the theorems above are about, and every heap-lock acquisition / blocking
   built-in reachable from a script thread is inside a safepoint *)
Theorem C16_source_config_is_fixed : gen_config = cfg_fixed.
Proof. exact gen_config_is_fixed. Qed.
Theorem C16_every_region_published : regions_ok = true.
Proof. exact regions_all_ok. Qed.
