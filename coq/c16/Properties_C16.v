(* C16 — property theorems only (statements pinned in Pins_C16.v). *)
From Coq Require Import List Arith Bool.
From SV Require Import c15.Conc c15.Model_C15 c16.Model_C16 c16.Proofs_C16 c16.Proofs_C16_Fifo gen.Gen_C16.
Import ListNotations.

(* For every number of threads, every script and every schedule of the repaired handshake: if some
   thread is neither finished nor blocked by the script's own logic, some step is enabled. *)
Theorem C16_no_runtime_deadlock : forall progs sched,
  let w := run cfg_fixed sched (init progs) in
  (exists i, live (th w i) = true /\ script_blocked w i = false) ->
  exists t w', wstep cfg_fixed t w = Some w'.
Proof. exact no_runtime_deadlock_init. Qed.

Theorem C16_no_runtime_deadlock_all_started : forall progs sched,
  let w := run cfg_fixed sched (init_all progs) in
  (exists i, live (th w i) = true /\ script_blocked w i = false) ->
  exists t w', wstep cfg_fixed t w = Some w'.
Proof. exact no_runtime_deadlock_init_all. Qed.

(* The code as it was: two concurrent global updates deadlock (F18) ... *)
Theorem C16_deadlock_refuted_global_update :
  deadlocked cfg_old (run cfg_old f18_sched (init_all f18_progs)).
Proof. exact f18_deadlock. Qed.

(* ... and so do a collection and a native-code box allocation, even with the guard kept (F23). *)
Theorem C16_deadlock_refuted_native_box :
  deadlocked cfg_guard_only (run cfg_guard_only f23_sched (init_all f23_progs)).
Proof. exact f23_deadlock. Qed.

(* non-vacuity: under the repaired handshake the same two scripts run to completion *)
Example C16_repaired_f18_completes :
  all_done (run cfg_fixed (f18_sched ++ rounds 80) (init_all f18_progs)) = true.
Proof. exact f18_fixed_completes. Qed.
Example C16_repaired_f23_completes :
  all_done (run cfg_fixed (f23_sched ++ rounds 80) (init_all f23_progs)) = true.
Proof. exact f23_fixed_completes. Qed.

(* Channels (any lock discipline, any schedule): what has been received from a sender on a channel, followed
   by what is still queued from it, is exactly what it sent, in order — every value at most once, none lost. *)
Theorem C16_channel_fifo_per_sender : forall cfg progs sched c from,
  let s := sh (run cfg sched (init progs)) in
  sent_seq s c from = recv_seq s c from ++ queue_seq s c from.
Proof. exact channel_fifo_init. Qed.

(* generated facts (coq/gen/Gen_C16.v, regenerated from /repo on every run): the lock discipline the
   source has NOW is the one the theorems above are about, and every heap-lock acquisition / blocking
   built-in reachable from a script thread is inside a safepoint *)
Theorem C16_source_config_is_fixed : gen_config = cfg_fixed.
Proof. exact gen_config_is_fixed. Qed.
Theorem C16_every_region_published : regions_ok = true.
Proof. exact regions_all_ok. Qed.
