(* C10 — property theorems only.  Each is closed by [exact lemma]; statements are pinned in
   Pins_C10.v (compiled on every run together with Print Assumptions). *)
From Coq Require Import ZArith List QArith Qabs.
From SV Require Import c10.Model_C10 c10.Proofs_C10.
Import ListNotations.

(* On canonical operands every exact operation succeeds (no Panic, no spurious error), returns a
   canonical value, and that value denotes the mathematically exact result. *)
Theorem C10_add_exact : forall a b, canonical a -> canonical b ->
  exists v, add_two a b = Ok v /\ canonical v /\ (denote v == denote a + denote b)%Q.
Proof. exact add_two_Q. Qed.

Theorem C10_mul_exact : forall a b, canonical a -> canonical b ->
  exists v, multiply_two a b = Ok v /\ canonical v /\ (denote v == denote a * denote b)%Q.
Proof. exact multiply_two_Q. Qed.

Theorem C10_neg_exact : forall a, canonical a ->
  exists v, negate a = Ok v /\ canonical v /\ (denote v == - denote a)%Q.
Proof. exact negate_Q. Qed.

Theorem C10_abs_exact : forall a, canonical a ->
  exists v, abs a = Ok v /\ canonical v /\ (denote v == Qabs (denote a))%Q.
Proof. exact abs_Q. Qed.

Theorem C10_recip_exact : forall a, canonical a -> ~ (denote a == 0)%Q ->
  exists v, recip a = Ok v /\ canonical v /\ (denote v == / denote a)%Q.
Proof. exact recip_Q. Qed.

Theorem C10_recip_zero : forall a, canonical a -> numer a = 0 -> recip a = ErrDivZero.
Proof. exact recip_zero. Qed.

(* variadic front ends, any number of operands *)
Theorem C10_add_variadic : forall l, all_canonical l ->
  exists v, add_n l = Ok v /\ canonical v /\ (denote v == qsum l)%Q.
Proof. exact add_n_Q. Qed.

Theorem C10_mul_variadic : forall l, all_canonical l ->
  exists v, mul_n l = Ok v /\ canonical v /\ (denote v == qprod l)%Q.
Proof. exact mul_n_Q. Qed.

Theorem C10_sub_variadic : forall x ys, canonical x -> all_canonical ys ->
  exists r, sub_n (x :: ys) = Some r /\
    ExactQ r (match ys with [] => - denote x | _ => denote x - qsum ys end)%Q.
Proof. exact sub_n_Q. Qed.

Theorem C10_div_variadic : forall x ys, canonical x -> all_canonical ys ->
  exists r, div_n (x :: ys) = Some r /\
    match ys with
    | [] => if Qeq_bool (denote x) 0 then r = ErrDivZero else ExactQ r (/ denote x)
    | _ => if Qeq_bool (qprod ys) 0 then r = ErrDivZero else ExactQ r (denote x / qprod ys)
    end.
Proof. exact div_n_Q. Qed.

(* comparison is consistent with the exact values; canonical forms are unique, so the
   representation-based `=` of the implementation is the mathematical one *)
Theorem C10_eq_correct : forall a b, canonical a -> canonical b ->
  (num_eq a b = true <-> (denote a == denote b)%Q).
Proof. exact num_eq_correct. Qed.

Theorem C10_cmp_correct : forall a b, canonical a -> canonical b ->
  num_cmp a b = (denote a ?= denote b)%Q.
Proof. exact num_cmp_correct. Qed.

Theorem C10_canonical_unique : forall a b, canonical a -> canonical b ->
  (denote a == denote b)%Q -> a = b.
Proof. exact canonical_unique. Qed.

(* integer division family: exact for integers of any magnitude (fixnum and bignum operands in every
   combination), division by zero is an error value, never a panic *)
Theorem C10_quotient_exact : forall a b, canonical a -> canonical b -> is_integer a -> is_integer b ->
  if (numer b =? 0)%Z then quotient a b = ErrDivZero
  else exists v, quotient a b = Ok v /\ canonical v /\ is_integer v /\ numer v = Z.quot (numer a) (numer b).
Proof. exact quotient_spec. Qed.

Theorem C10_remainder_exact : forall a b, canonical a -> canonical b -> is_integer a -> is_integer b ->
  if (numer b =? 0)%Z then remainder a b = ErrDivZero
  else exists v, remainder a b = Ok v /\ canonical v /\ is_integer v /\ numer v = Z.rem (numer a) (numer b).
Proof. exact remainder_spec. Qed.

Theorem C10_modulo_exact : forall a b, canonical a -> canonical b -> is_integer a -> is_integer b ->
  if (numer b =? 0)%Z then modulo a b = ErrDivZero
  else exists v, modulo a b = Ok v /\ canonical v /\ is_integer v /\ numer v = Z.modulo (numer a) (numer b).
Proof. exact modulo_spec. Qed.

(* gcd as the library defines it (Euclid over modulo) is the mathematical gcd; the fuel bound is explicit *)
Theorem C10_gcd_exact : forall fuel a b, canonical a -> canonical b -> is_integer a -> is_integer b ->
  (Z.to_nat (Z.abs (numer b)) < fuel)%nat ->
  exists v, gcd_loop fuel a b = Some (Ok v) /\ canonical v /\ is_integer v /\
            numer v = Z.gcd (numer a) (numer b).
Proof. exact gcd_loop_spec. Qed.

Theorem C10_exact_integer_sqrt : forall a, canonical a -> is_integer a -> (0 <= numer a)%Z ->
  exists s r, exact_integer_sqrt a = Some (s, r) /\ canonical s /\ canonical r /\
              (numer s * numer s + numer r = numer a)%Z /\
              (numer s * numer s <= numer a < (numer s + 1) * (numer s + 1))%Z /\ (0 <= numer s)%Z.
Proof. exact exact_integer_sqrt_spec. Qed.

(* non-vacuity: the hypotheses are met by boundary values of every representation *)
Example C10_nonvacuous :
  canonical (IntV isize_max) /\ canonical (BigNum (isize_max + 1)) /\
  canonical (Rat32 (i32_min + 1) 3) /\ canonical (BigRat i32_min 3) /\
  canonical (BigRat 1 (i32_max + 1)).
Proof. repeat split; vm_compute; congruence. Qed.
