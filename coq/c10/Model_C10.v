(* C10 — exact arithmetic and the numeric tower: executable model of the *mechanism* in
   crates/steel-core/src/primitives/numbers.rs (add_two, multiply_two, negate, subtract_primitive,
   divide_primitive/recip, abs), src/primitives.rs (the IntoSteelVal demotion chain) and
   src/rvals.rs (number_equality, PartialOrd), together with the num-rational 0.4.2 / num-integer
   routines they call on 32-bit components (Ratio::new/reduce, checked_add/sub/mul, recip, Neg, abs).

   Machine integers are Z plus explicit range tests; every place where the Rust code or the library
   can panic (debug overflow checks, `panic!`) is an explicit [Panic] result — nothing is totalised
   away.  Definitions only: proofs are in Proofs_C10.v so the model still runs when a proof breaks. *)
From Coq Require Import ZArith List Bool Ascii String.
Import ListNotations.
Open Scope Z_scope.

Definition i32_min : Z := -2147483648.
Definition i32_max : Z := 2147483647.
Definition isize_min : Z := -9223372036854775808.
Definition isize_max : Z := 9223372036854775807.
Definition fits32 (z : Z) : bool := (i32_min <=? z) && (z <=? i32_max).
Definition fits_isize (z : Z) : bool := (isize_min <=? z) && (z <=? isize_max).

(* SteelVal's exact numeric variants *)
Inductive num :=
| IntV (z : Z)            (* isize *)
| BigNum (z : Z)          (* Gc<BigInt> *)
| Rat32 (n d : Z)         (* Rational32 = Ratio<i32> *)
| BigRat (n d : Z).       (* Gc<BigRational> *)

Inductive res :=
| Ok (v : num)
| ErrDivZero               (* stop!(Generic => "/: division by zero") *)
| ErrType                  (* TypeMismatch: e.g. quotient of a non-integer *)
| Panic (site : string).   (* a Rust panic: overflow check, library panic!, unreachable! *)

Definition bind (r : res) (f : num -> res) : res :=
  match r with Ok v => f v | e => e end.

(* ---------------------------------------------------------------- library: i32 checked ops *)
Definition chk32 (z : Z) : option Z := if fits32 z then Some z else None.
Definition chk_isize (z : Z) : option Z := if fits_isize z then Some z else None.

(* num-integer gcd on i32: mathematically Z.gcd, except that the result 2^31 is not representable:
   (m|n).abs() / (1<<shift).abs() overflow  =>  panic under overflow checks. *)
Definition gcd32 (m n : Z) : option Z := chk32 (Z.gcd m n).

(* Ratio::<i32>::new(n, d) = new_raw + reduce (lib.rs L135-169); None = panic *)
Definition rat32_new (n d : Z) : option (Z * Z) :=
  if d =? 0 then None
  else if n =? 0 then Some (0, 1)
  else if n =? d then Some (1, 1)
  else match gcd32 n d with
       | None => None
       | Some g =>
         let n' := Z.quot n g in
         let d' := Z.quot d g in
         if d' <? 0
         then match chk32 (0 - n'), chk32 (0 - d') with
              | Some n'', Some d'' => Some (n'', d'')
              | _, _ => None
              end
         else Some (n', d')
       end.

(* Ratio::<BigInt>::new — same algorithm, no overflow *)
Definition bigrat_new (n d : Z) : option (Z * Z) :=
  if d =? 0 then None
  else if n =? 0 then Some (0, 1)
  else if n =? d then Some (1, 1)
  else let g := Z.gcd n d in
       let n' := Z.quot n g in
       let d' := Z.quot d g in
       if d' <? 0 then Some (0 - n', 0 - d') else Some (n', d').

(* ---------------------------------------------------------------- IntoSteelVal demotion chain *)
(* impl IntoSteelVal for BigInt: to_isize() ? IntV : BigNum *)
Definition of_bigint (z : Z) : num := if fits_isize z then IntV z else BigNum z.

(* impl IntoSteelVal for Rational32: integers become IntV; a numerator equal to i32::MIN is kept
   out of the 32-bit representation (its negation does not exist) *)
Definition of_rat32 (n d : Z) : num :=
  if d =? 1 then IntV n
  else if n =? i32_min then BigRat n d
  else Rat32 n d.

(* impl IntoSteelVal for BigRational *)
Definition of_bigrat (n d : Z) : res :=
  if d =? 1 then Ok (of_bigint n)
  else if fits32 n && fits32 d && negb (n =? i32_min)
       then match rat32_new n d with
            | Some (n', d') => Ok (of_rat32 n' d')
            | None => Panic "Rational32::new in BigRational::into_steelval"
            end
       else Ok (BigRat n d).

Definition of_bigrat_new (n d : Z) : res :=
  match bigrat_new n d with
  | Some (n', d') => of_bigrat n' d'
  | None => Panic "BigRational::new: denominator == 0"
  end.

(* ---------------------------------------------------------------- Ratio<i32> checked arithmetic *)
Definition omul32 (a b : Z) : option Z := chk32 (a * b).
Definition obind {A B} (o : option A) (f : A -> option B) : option B :=
  match o with Some a => f a | None => None end.

Inductive chk := COverflow | CPanic | CVal (n d : Z).

(* checked_arith_impl! (lib.rs L858-871) for op in {add, sub} *)
Definition rat32_checked_addsub (sub : bool) (n1 d1 n2 d2 : Z) : chk :=
  match gcd32 d1 d2 with
  | None => CPanic
  | Some g =>
    match omul32 (Z.quot d1 g) d2 with
    | None => COverflow
    | Some lcm =>
      match omul32 (Z.quot lcm d1) n1, omul32 (Z.quot lcm d2) n2 with
      | Some l, Some r =>
        match chk32 (if sub then l - r else l + r) with
        | None => COverflow
        | Some s => match rat32_new s lcm with Some (n, d) => CVal n d | None => CPanic end
        end
      | _, _ => COverflow
      end
    end
  end.

(* CheckedMul (lib.rs L799-807) *)
Definition rat32_checked_mul (n1 d1 n2 d2 : Z) : chk :=
  match gcd32 n1 d2, gcd32 d1 n2 with
  | Some gad, Some gbc =>
    match omul32 (Z.quot n1 gad) (Z.quot n2 gbc), omul32 (Z.quot d1 gbc) (Z.quot d2 gad) with
    | Some n, Some d => match rat32_new n d with Some (n', d') => CVal n' d' | None => CPanic end
    | _, _ => COverflow
    end
  | _, _ => CPanic
  end.

(* ---------------------------------------------------------------- numbers.rs *)

(* the BigRational fall-back arithmetic: exact, then BigRational::into_steelval *)
Definition big_add (n1 d1 n2 d2 : Z) : res := of_bigrat_new (n1 * d2 + n2 * d1) (d1 * d2).
Definition big_mul (n1 d1 n2 d2 : Z) : res := of_bigrat_new (n1 * n2) (d1 * d2).

Definition add_rat32 (n1 d1 n2 d2 : Z) : res :=
  match rat32_checked_addsub false n1 d1 n2 d2 with
  | CVal n d => Ok (of_rat32 n d)
  | COverflow => big_add n1 d1 n2 d2
  | CPanic => Panic "Rational32::checked_add"
  end.

Definition mul_rat32 (n1 d1 n2 d2 : Z) : res :=
  match rat32_checked_mul n1 d1 n2 d2 with
  | CVal n d => Ok (of_rat32 n d)
  | COverflow => big_mul n1 d1 n2 d2
  | CPanic => Panic "Rational32::checked_mul"
  end.

(* add_two (numbers.rs L2449-2546), exact variants *)
Definition add_two (x y : num) : res :=
  match x, y with
  | IntV a, IntV b =>
      match chk_isize (a + b) with
      | Some r => Ok (IntV r)
      | None => Ok (of_bigint (a + b))
      end
  | Rat32 n1 d1, Rat32 n2 d2 => add_rat32 n1 d1 n2 d2
  | Rat32 n d, IntV i | IntV i, Rat32 n d =>
      if fits32 i
      then match rat32_new i 1 with
           | Some (i', one) => add_rat32 n d i' one
           | None => Panic "Rational32::new(y, 1)"
           end
      else big_add n d i 1
  | Rat32 n d, BigNum b | BigNum b, Rat32 n d => big_add n d b 1
  | BigRat n1 d1, BigRat n2 d2 => big_add n1 d1 n2 d2
  | BigRat n1 d1, Rat32 n2 d2 | Rat32 n2 d2, BigRat n1 d1 => big_add n1 d1 n2 d2
  | BigRat n d, IntV i | IntV i, BigRat n d => big_add n d i 1
  | BigRat n d, BigNum b | BigNum b, BigRat n d => big_add n d b 1
  | BigNum a, BigNum b => Ok (of_bigint (a + b))
  | BigNum a, IntV b | IntV b, BigNum a => Ok (of_bigint (a + b))
  end.

(* multiply_two (numbers.rs L2303-2390), exact variants *)
Definition multiply_two (x y : num) : res :=
  match x, y with
  | IntV a, IntV b =>
      match chk_isize (a * b) with
      | Some r => Ok (IntV r)
      | None => Ok (of_bigint (a * b))
      end
  | IntV a, BigNum b | BigNum b, IntV a => Ok (of_bigint (b * a))
  | IntV i, Rat32 n d | Rat32 n d, IntV i =>
      if fits32 i
      then match rat32_new i 1 with
           | Some (i', one) => mul_rat32 n d i' one
           | None => Panic "Rational32::new(x, 1)"
           end
      else big_mul n d i 1
  | IntV i, BigRat n d | BigRat n d, IntV i => big_mul n d i 1
  | Rat32 n1 d1, Rat32 n2 d2 => mul_rat32 n1 d1 n2 d2
  | Rat32 n d, BigNum b | BigNum b, Rat32 n d => big_mul n d b 1
  | BigRat n1 d1, BigRat n2 d2 => big_mul n1 d1 n2 d2
  | BigRat n d, BigNum b | BigNum b, BigRat n d => big_mul n d b 1
  | BigNum a, BigNum b => Ok (of_bigint (a * b))
  | BigRat n1 d1, Rat32 n2 d2 | Rat32 n2 d2, BigRat n1 d1 => big_mul n1 d1 n2 d2
  end.

(* negate (numbers.rs L2424-2444) *)
Definition negate (x : num) : res :=
  match x with
  | IntV a => match chk_isize (0 - a) with
              | Some r => Ok (IntV r)
              | None => Ok (of_bigint (0 - a))
              end
  | Rat32 n d => match chk32 (0 - n) with
                 | Some n' => match rat32_new n' d with
                              | Some (a, b) => Ok (of_rat32 a b)
                              | None => Panic "Rational32::new in negate"
                              end
                 | None => of_bigrat_new (0 - n) d
                 end
  | BigRat n d => of_bigrat (0 - n) d
  | BigNum a => Ok (of_bigint (0 - a))
  end.

(* the closure `recip` of divide_primitive (numbers.rs L1115-1135) *)
Definition recip (x : num) : res :=
  match x with
  | IntV n =>
      if fits32 n
      then if n =? 0 then ErrDivZero
           else if n =? i32_min then of_bigrat_new 1 n
           else match rat32_new 1 n with
                | Some (a, b) => Ok (of_rat32 a b)
                | None => Panic "Rational32::new(1, n)"
                end
      else of_bigrat_new 1 n
  | Rat32 n d =>
      (* Ratio::recip: new_raw(d, n) or new_raw(0 - d, 0 - n) — i32 subtraction *)
      if n =? 0 then Panic "Ratio::recip: division by zero"
      else if 0 <? n then Ok (of_rat32 d n)
      else match chk32 (0 - d), chk32 (0 - n) with
           | Some d', Some n' => Ok (of_rat32 d' n')
           | _, _ => Panic "Ratio::recip: i32 negation"
           end
  | BigRat n d =>
      if n =? 0 then Panic "Ratio::recip: division by zero"
      else if 0 <? n then of_bigrat d n else of_bigrat (0 - d) (0 - n)
  | BigNum n => of_bigrat_new 1 n
  end.

(* abs (numbers.rs L1335-1344) *)
Definition abs (x : num) : res :=
  match x with
  | IntV a => match chk_isize (Z.abs a) with
              | Some r => Ok (IntV r)
              | None => Ok (of_bigint (Z.abs a))
              end
  | Rat32 n d => if n <? 0
                 then match chk32 (0 - n) with
                      | Some n' => Ok (of_rat32 n' d)
                      | None => Panic "Ratio::<i32>::neg in abs"
                      end
                 else Ok (of_rat32 n d)
  | BigRat n d => of_bigrat (Z.abs n) d
  | BigNum a => Ok (of_bigint (Z.abs a))
  end.

(* variadic front ends: add_primitive / multiply_primitive_impl / subtract_primitive /
   divide_primitive *)
Fixpoint fold_res (f : num -> num -> res) (acc : num) (l : list num) : res :=
  match l with
  | [] => Ok acc
  | z :: zs => bind (f acc z) (fun r => fold_res f r zs)
  end.

Definition add_n (args : list num) : res :=
  match args with [] => Ok (IntV 0) | x :: ys => fold_res add_two x ys end.
Definition mul_n (args : list num) : res :=
  match args with [] => Ok (IntV 1) | x :: ys => fold_res multiply_two x ys end.
Definition sub_n (args : list num) : option res :=
  match args with
  | [] => None                                    (* ArityMismatch *)
  | [x] => Some (negate x)
  | x :: ys => Some (bind (add_n ys) (fun s => bind (negate s) (fun y => add_two x y)))
  end.
Definition div_n (args : list num) : option res :=
  match args with
  | [] => None
  | [x] => Some (recip x)
  | [x; y] => Some (bind (recip y) (fun r => multiply_two x r))
  | x :: ys => Some (bind (mul_n ys) (fun d => bind (recip d) (fun r => multiply_two x r)))
  end.

(* number_equality (rvals.rs L2719-2751), exact variants: mixed representations are *defined* unequal,
   which is only right on canonical values — hence the canonicity theorems. *)
Definition num_eq (x y : num) : bool :=
  match x, y with
  | IntV a, IntV b => a =? b
  | Rat32 n1 d1, Rat32 n2 d2 => (n1 * d2 =? n2 * d1)     (* Ratio::eq is cmp == Equal: cross-compare *)
  | BigNum a, BigNum b => a =? b
  | BigRat n1 d1, BigRat n2 d2 => (n1 * d2 =? n2 * d1)
  | _, _ => false
  end.

(* PartialOrd for SteelVal (rvals.rs L2753-), exact variants: every mixed pair is promoted exactly *)
Definition numer (x : num) : Z := match x with IntV a | BigNum a => a | Rat32 n _ | BigRat n _ => n end.
Definition denom (x : num) : Z := match x with IntV _ | BigNum _ => 1 | Rat32 _ d | BigRat _ d => d end.
Definition num_cmp (x y : num) : comparison := (numer x * denom y ?= numer y * denom x).
Definition num_lt (x y : num) : bool := match num_cmp x y with Lt => true | _ => false end.


(* ---------------------------------------------------------------- integer division family
   truncate_quotient / truncate_remainder / floor_remainder (numbers.rs L444-730): `quotient`,
   `remainder`, `modulo`.  IntV/IntV uses machine division (the overflowing pair isize::MIN / -1 is
   special-cased through BigInt), every pair involving a BigNum goes through BigInt. *)
Definition int_of (v : num) : option Z :=
  match v with IntV a | BigNum a => Some a | _ => None end.

Definition int_div_op (f : Z -> Z -> Z) (site : string) (x y : num) : res :=
  match x, y with
  | IntV l, IntV r =>
      if r =? 0 then ErrDivZero
      else if (l =? isize_min) && (r =? -1) then Ok (of_bigint (f l r))
      else match chk_isize (f l r) with
           | Some q => Ok (IntV q)
           | None => Panic site
           end
  | _, _ =>
      match int_of x, int_of y with
      | Some l, Some r => if r =? 0 then ErrDivZero else Ok (of_bigint (f l r))
      | _, _ => ErrType
      end
  end.

Definition quotient (x y : num) : res := int_div_op Z.quot "isize division overflow" x y.
Definition remainder (x y : num) : res := int_div_op Z.rem "isize remainder overflow" x y.
Definition modulo (x y : num) : res := int_div_op Z.modulo "isize mod_floor overflow" x y.

(* gcd (scheme/stdlib.scm L1139-1142): (define (gcd a b) (cond [(= b 0) (abs a)] [else (gcd b (modulo a b))])) *)
Fixpoint gcd_loop (fuel : nat) (a b : num) : option res :=
  match fuel with
  | O => None
  | S f =>
    match int_of b with
    | Some 0 => Some (abs a)
    | Some _ => match modulo a b with
                | Ok m => gcd_loop f b m
                | e => Some e
                end
    | None => Some ErrType
    end
  end.

(* exact-integer-sqrt (numbers.rs L2050-2076): (values s r) with s = floor(sqrt n), r = n - s*s *)
Definition exact_integer_sqrt (x : num) : option (num * num) :=
  match int_of x with
  | Some n => if n <? 0 then None
              else let s := Z.sqrt n in Some (of_bigint s, of_bigint (n - s * s))
  | None => None
  end.

(* ---------------------------------------------------------------- rendering for the correspondence *)
Definition zs (z : Z) : string :=
  (* decimal rendering without depending on the (slow) stdlib string-of-Z *)
  let fix digits (fuel : nat) (p : Z) (acc : string) : string :=
    match fuel with
    | O => acc
    | S f => let d := p mod 10 in
             let c := Ascii.ascii_of_nat (48 + Z.to_nat d) in
             let acc' := String c acc in
             if p / 10 =? 0 then acc' else digits f (p / 10) acc'
    end in
  if z =? 0 then "0"%string
  else let s := digits (S (Z.to_nat (Z.log2 (Z.abs z)))) (Z.abs z) ""%string in
       if z <? 0 then String "-"%char s else s.

Definition render_num (v : num) : string :=
  match v with
  | IntV z => "I" ++ zs z
  | BigNum z => "B" ++ zs z
  | Rat32 n d => "R" ++ zs n ++ "/" ++ zs d
  | BigRat n d => "Q" ++ zs n ++ "/" ++ zs d
  end%string.

Definition render (r : res) : string :=
  match r with
  | Ok v => render_num v
  | ErrDivZero => "E:divzero"
  | ErrType => "E:TypeMismatch"
  | Panic s => "P:" ++ s
  end%string.

Definition render_opt (r : option res) : string :=
  match r with Some r => render r | None => "E:arity"%string end.
Definition render_bool (b : bool) : string := if b then "#t"%string else "#f"%string.
