(* Compiled on every run of the C10 check: pins each statement and prints its assumptions. *)
From Coq Require Import ZArith List QArith Qabs.
From SV Require Import c10.Model_C10 c10.Proofs_C10 c10.Properties_C10.
Import ListNotations.

Check (C10_add_exact : forall a b, canonical a -> canonical b ->
  exists v, add_two a b = Ok v /\ canonical v /\ (denote v == denote a + denote b)%Q).
Check (C10_mul_exact : forall a b, canonical a -> canonical b ->
  exists v, multiply_two a b = Ok v /\ canonical v /\ (denote v == denote a * denote b)%Q).
Check (C10_neg_exact : forall a, canonical a ->
  exists v, negate a = Ok v /\ canonical v /\ (denote v == - denote a)%Q).
Check (C10_abs_exact : forall a, canonical a ->
  exists v, abs a = Ok v /\ canonical v /\ (denote v == Qabs (denote a))%Q).
Check (C10_recip_exact : forall a, canonical a -> ~ (denote a == 0)%Q ->
  exists v, recip a = Ok v /\ canonical v /\ (denote v == / denote a)%Q).
Check (C10_recip_zero : forall a, canonical a -> numer a = 0 -> recip a = ErrDivZero).
Check (C10_add_variadic : forall l, all_canonical l ->
  exists v, add_n l = Ok v /\ canonical v /\ (denote v == qsum l)%Q).
Check (C10_mul_variadic : forall l, all_canonical l ->
  exists v, mul_n l = Ok v /\ canonical v /\ (denote v == qprod l)%Q).
Check (C10_sub_variadic : forall x ys, canonical x -> all_canonical ys ->
  exists r, sub_n (x :: ys) = Some r /\
    ExactQ r (match ys with [] => - denote x | _ => denote x - qsum ys end)%Q).
Check (C10_div_variadic : forall x ys, canonical x -> all_canonical ys ->
  exists r, div_n (x :: ys) = Some r /\
    match ys with
    | [] => if Qeq_bool (denote x) 0 then r = ErrDivZero else ExactQ r (/ denote x)
    | _ => if Qeq_bool (qprod ys) 0 then r = ErrDivZero else ExactQ r (denote x / qprod ys)
    end).
Check (C10_eq_correct : forall a b, canonical a -> canonical b ->
  (num_eq a b = true <-> (denote a == denote b)%Q)).
Check (C10_cmp_correct : forall a b, canonical a -> canonical b ->
  num_cmp a b = (denote a ?= denote b)%Q).
Check (C10_canonical_unique : forall a b, canonical a -> canonical b ->
  (denote a == denote b)%Q -> a = b).
Check (C10_nonvacuous :
  canonical (IntV isize_max) /\ canonical (BigNum (isize_max + 1)) /\
  canonical (Rat32 (i32_min + 1) 3) /\ canonical (BigRat i32_min 3) /\
  canonical (BigRat 1 (i32_max + 1))).

Check (C10_quotient_exact : forall a b, canonical a -> canonical b -> is_integer a -> is_integer b ->
  if (numer b =? 0)%Z then quotient a b = ErrDivZero
  else exists v, quotient a b = Ok v /\ canonical v /\ is_integer v /\ numer v = Z.quot (numer a) (numer b)).
Check (C10_remainder_exact : forall a b, canonical a -> canonical b -> is_integer a -> is_integer b ->
  if (numer b =? 0)%Z then remainder a b = ErrDivZero
  else exists v, remainder a b = Ok v /\ canonical v /\ is_integer v /\ numer v = Z.rem (numer a) (numer b)).
Check (C10_modulo_exact : forall a b, canonical a -> canonical b -> is_integer a -> is_integer b ->
  if (numer b =? 0)%Z then modulo a b = ErrDivZero
  else exists v, modulo a b = Ok v /\ canonical v /\ is_integer v /\ numer v = Z.modulo (numer a) (numer b)).
Check (C10_gcd_exact : forall fuel a b, canonical a -> canonical b -> is_integer a -> is_integer b ->
  (Z.to_nat (Z.abs (numer b)) < fuel)%nat ->
  exists v, gcd_loop fuel a b = Some (Ok v) /\ canonical v /\ is_integer v /\
            numer v = Z.gcd (numer a) (numer b)).
Check (C10_exact_integer_sqrt : forall a, canonical a -> is_integer a -> (0 <= numer a)%Z ->
  exists s r, exact_integer_sqrt a = Some (s, r) /\ canonical s /\ canonical r /\
              (numer s * numer s + numer r = numer a)%Z /\
              (numer s * numer s <= numer a < (numer s + 1) * (numer s + 1))%Z /\ (0 <= numer s)%Z).

(* the definitions the statements rest on, pinned too *)
Check (eq_refl : canonical = fun v => match v with
  | IntV z => fits_isize z = true
  | BigNum z => fits_isize z = false
  | Rat32 n d => (1 < d /\ d <= i32_max /\ i32_min < n /\ n <= i32_max /\ Z.gcd n d = 1)%Z
  | BigRat n d => (1 < d)%Z /\ Z.gcd n d = 1%Z /\ (fits32 n && fits32 d && negb (n =? i32_min)%Z)%bool = false
  end).
Check (eq_refl : denote = fun v => Qmake (numer v) (Z.to_pos (denom v))).

Print Assumptions C10_add_exact.
Print Assumptions C10_mul_exact.
Print Assumptions C10_neg_exact.
Print Assumptions C10_abs_exact.
Print Assumptions C10_recip_exact.
Print Assumptions C10_recip_zero.
Print Assumptions C10_add_variadic.
Print Assumptions C10_mul_variadic.
Print Assumptions C10_sub_variadic.
Print Assumptions C10_div_variadic.
Print Assumptions C10_eq_correct.
Print Assumptions C10_cmp_correct.
Print Assumptions C10_canonical_unique.
Print Assumptions C10_nonvacuous.
Print Assumptions C10_quotient_exact.
Print Assumptions C10_remainder_exact.
Print Assumptions C10_modulo_exact.
Print Assumptions C10_gcd_exact.
Print Assumptions C10_exact_integer_sqrt.
