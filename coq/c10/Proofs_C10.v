(* C10 — lemmas.  The property theorems themselves are in Properties_C10.v. *)
From Coq Require Import ZArith List Bool String Lia QArith Qabs Znumtheory.
From SV Require Import c10.Model_C10.
Import ListNotations.
Open Scope Z_scope.

(* ------------------------------------------------------------------ canonical form and meaning *)
Definition canonical (v : num) : Prop :=
  match v with
  | IntV z => fits_isize z = true
  | BigNum z => fits_isize z = false
  | Rat32 n d => 1 < d /\ d <= i32_max /\ i32_min < n /\ n <= i32_max /\ Z.gcd n d = 1
  | BigRat n d => 1 < d /\ Z.gcd n d = 1 /\ (fits32 n && fits32 d && negb (n =? i32_min)) = false
  end.

Definition denote (v : num) : Q := Qmake (numer v) (Z.to_pos (denom v)).

(* r is a successful, canonical result whose value is N/D *)
Definition Exact (r : res) (N D : Z) : Prop :=
  exists v, r = Ok v /\ canonical v /\ numer v * D = N * denom v.

Lemma canonical_denom_pos v : canonical v -> 0 < denom v.
Proof. destruct v; simpl; intros; lia. Qed.

Lemma canonical_reduced v : canonical v -> Z.gcd (numer v) (denom v) = 1.
Proof.
  destruct v; simpl; intros H; try (apply Z.gcd_1_r); intuition.
Qed.

(* ------------------------------------------------------------------ exact division facts *)
Lemma quot_exact g n : g <> 0 -> (g | n) -> n = g * (n ÷ g).
Proof. intros Hg Hd. apply Z.quot_exact; auto. apply Z.rem_divide; auto. Qed.

Lemma cross1 n d g n' d' : n = g * n' -> d = g * d' -> n' * d = n * d'.
Proof. intros -> ->. ring. Qed.
Lemma cross2 n d g n' d' : n = g * n' -> d = g * d' -> (0 - n') * d = n * (0 - d').
Proof. intros -> ->. ring. Qed.

Lemma reduce_core n d :
  d <> 0 ->
  let g := Z.gcd n d in
  0 < g /\ n = g * (n ÷ g) /\ d = g * (d ÷ g) /\ Z.gcd (n ÷ g) (d ÷ g) = 1.
Proof.
  intros Hd g.
  assert (Hg : 0 < g).
  { pose proof (Z.gcd_nonneg n d). subst g.
    destruct (Z.eq_dec (Z.gcd n d) 0) as [E|E]; [apply Z.gcd_eq_0_r in E; congruence | lia]. }
  assert (Hn : n = g * (n ÷ g)) by (apply quot_exact; [lia | apply Z.gcd_divide_l]).
  assert (Hd' : d = g * (d ÷ g)) by (apply quot_exact; [lia | apply Z.gcd_divide_r]).
  repeat split; auto.
  assert (En : n ÷ g = n / g) by (apply Z.div_unique_exact; [lia | exact Hn]).
  assert (Ed : d ÷ g = d / g) by (apply Z.div_unique_exact; [lia | exact Hd']).
  rewrite En, Ed. apply Z.gcd_div_gcd; [lia | reflexivity].
Qed.

(* two reduced fractions with positive denominators that denote the same rational are identical *)
Lemma reduced_unique n1 d1 n2 d2 :
  0 < d1 -> 0 < d2 -> Z.gcd n1 d1 = 1 -> Z.gcd n2 d2 = 1 -> n1 * d2 = n2 * d1 ->
  n1 = n2 /\ d1 = d2.
Proof.
  intros H1 H2 G1 G2 E.
  assert (D12 : (d1 | d2)).
  { apply Z.gauss with n1; [exists n2; lia |]. rewrite Z.gcd_comm. exact G1. }
  assert (D21 : (d2 | d1)).
  { apply Z.gauss with n2; [exists n1; lia |]. rewrite Z.gcd_comm. exact G2. }
  assert (d1 = d2).
  { apply Z.divide_antisym_nonneg; auto; lia. }
  subst. split; auto. nia.
Qed.

(* ------------------------------------------------------------------ range facts *)
Lemma fits32_spec z : fits32 z = true <-> i32_min <= z <= i32_max.
Proof. unfold fits32. rewrite andb_true_iff, !Z.leb_le. tauto. Qed.
Lemma fits_isize_spec z : fits_isize z = true <-> isize_min <= z <= isize_max.
Proof. unfold fits_isize. rewrite andb_true_iff, !Z.leb_le. tauto. Qed.
Lemma fits32_isize z : fits32 z = true -> fits_isize z = true.
Proof. rewrite fits32_spec, fits_isize_spec. unfold i32_min, i32_max, isize_min, isize_max. lia. Qed.
Lemma chk32_some z : fits32 z = true -> chk32 z = Some z.
Proof. unfold chk32. now intros ->. Qed.
Lemma chk32_inv z r : chk32 z = Some r -> r = z /\ fits32 z = true.
Proof. unfold chk32. destruct (fits32 z); intros H; inversion H; auto. Qed.

(* ------------------------------------------------------------------ the demotion chain *)
Lemma of_bigint_spec z : canonical (of_bigint z) /\ numer (of_bigint z) = z /\ denom (of_bigint z) = 1.
Proof. unfold of_bigint. destruct (fits_isize z) eqn:E; simpl; auto. Qed.

Lemma of_rat32_spec n d :
  0 < d -> Z.gcd n d = 1 -> fits32 n = true -> fits32 d = true ->
  canonical (of_rat32 n d) /\ numer (of_rat32 n d) = n /\ denom (of_rat32 n d) = d.
Proof.
  intros Hd G Fn Fd. unfold of_rat32.
  destruct (d =? 1) eqn:E1.
  - apply Z.eqb_eq in E1. subst. simpl. auto using fits32_isize.
  - apply Z.eqb_neq in E1. destruct (n =? i32_min) eqn:E2; simpl.
    + apply Z.eqb_eq in E2. repeat split; auto; try lia;
        try (rewrite Fn, Fd; subst n; reflexivity).
    + apply Z.eqb_neq in E2. apply fits32_spec in Fn, Fd. repeat split; auto; lia.
Qed.

(* Ratio::<i32>::new on an already reduced pair with positive denominator is the identity *)
Lemma rat32_new_reduced n d :
  1 < d -> Z.gcd n d = 1 -> fits32 n = true -> fits32 d = true -> rat32_new n d = Some (n, d).
Proof.
  intros Hd G Fn Fd. unfold rat32_new.
  destruct (d =? 0) eqn:E0; [apply Z.eqb_eq in E0; lia|].
  destruct (n =? 0) eqn:E1.
  { apply Z.eqb_eq in E1. subst. rewrite Z.gcd_0_l in G. lia. }
  destruct (n =? d) eqn:E2.
  { apply Z.eqb_eq in E2. subst. rewrite Z.gcd_diag in G. lia. }
  unfold gcd32. rewrite G. simpl. rewrite !Z.quot_1_r.
  destruct (d <? 0) eqn:E3; [apply Z.ltb_lt in E3; lia | reflexivity].
Qed.

Lemma of_bigrat_spec n d :
  0 < d -> Z.gcd n d = 1 ->
  exists v, of_bigrat n d = Ok v /\ canonical v /\ numer v = n /\ denom v = d.
Proof.
  intros Hd G. unfold of_bigrat.
  destruct (d =? 1) eqn:E1.
  - apply Z.eqb_eq in E1. subst. exists (of_bigint n). split; auto. apply of_bigint_spec.
  - apply Z.eqb_neq in E1.
    destruct (fits32 n && fits32 d && negb (n =? i32_min)) eqn:F.
    + apply andb_true_iff in F as [F F3]. apply andb_true_iff in F as [F1 F2].
      rewrite rat32_new_reduced by (auto; lia).
      exists (of_rat32 n d). split; auto. apply of_rat32_spec; auto.
    + exists (BigRat n d). simpl. repeat split; auto. lia.
Qed.

Lemma bigrat_new_spec n d :
  d <> 0 ->
  exists n' d', bigrat_new n d = Some (n', d') /\ 0 < d' /\ Z.gcd n' d' = 1 /\ n' * d = n * d'.
Proof.
  intros Hd. unfold bigrat_new.
  destruct (d =? 0) eqn:E0; [apply Z.eqb_eq in E0; congruence|].
  destruct (n =? 0) eqn:E1.
  { apply Z.eqb_eq in E1. subst. exists 0, 1. repeat split; auto; lia. }
  destruct (n =? d) eqn:E2.
  { apply Z.eqb_eq in E2. subst. exists 1, 1. repeat split; auto; lia. }
  destruct (reduce_core n d Hd) as [Hg [Hn [Hdd G]]].
  set (g := Z.gcd n d) in *. set (n' := n ÷ g) in *. set (d' := d ÷ g) in *.
  destruct (d' <? 0) eqn:E3.
  - apply Z.ltb_lt in E3. exists (0 - n'), (0 - d').
    split; [reflexivity|]. split; [lia|]. split.
    + replace (0 - n') with (- n') by lia. replace (0 - d') with (- d') by lia.
      rewrite Z.gcd_opp_l, Z.gcd_opp_r. exact G.
    + apply (cross2 _ _ g); assumption.
  - apply Z.ltb_ge in E3. exists n', d'.
    split; [reflexivity|]. split; [nia|]. split; [exact G|].
    apply (cross1 _ _ g); assumption.
Qed.

Lemma of_bigrat_new_exact n d : d <> 0 -> Exact (of_bigrat_new n d) n d.
Proof.
  intros Hd. unfold of_bigrat_new.
  destruct (bigrat_new_spec n d Hd) as [n' [d' [E [Hp [G X]]]]]. rewrite E.
  destruct (of_bigrat_spec n' d' Hp G) as [v [Ev [Cv [Nv Dv]]]].
  exists v. repeat split; auto. rewrite Nv, Dv. exact X.
Qed.

(* Ratio::<i32>::new: when the denominator is positive it cannot panic, and it reduces exactly *)
Lemma rat32_new_pos n d :
  0 < d -> fits32 n = true -> fits32 d = true ->
  exists n' d', rat32_new n d = Some (n', d') /\ 0 < d' /\ Z.gcd n' d' = 1 /\ n' * d = n * d' /\
                fits32 n' = true /\ fits32 d' = true.
Proof.
  intros Hd Fn Fd. unfold rat32_new.
  destruct (d =? 0) eqn:E0; [apply Z.eqb_eq in E0; lia|].
  destruct (n =? 0) eqn:E1.
  { apply Z.eqb_eq in E1. subst. exists 0, 1. repeat split; auto; lia. }
  destruct (n =? d) eqn:E2.
  { apply Z.eqb_eq in E2. subst. exists 1, 1. repeat split; auto; lia. }
  assert (Hd0 : d <> 0) by lia.
  destruct (reduce_core n d Hd0) as [Hg [Hn [Hdd G]]].
  set (g := Z.gcd n d) in *.
  assert (Hgd : g <= d) by (apply Z.divide_pos_le; [lia | apply Z.gcd_divide_r]).
  apply fits32_spec in Fn, Fd.
  assert (Fg : fits32 g = true) by (apply fits32_spec; unfold i32_min in *; lia).
  unfold gcd32. fold g. rewrite (chk32_some _ Fg).
  set (n' := n ÷ g) in *. set (d' := d ÷ g) in *.
  assert (0 < d') by nia.
  destruct (d' <? 0) eqn:E3; [apply Z.ltb_lt in E3; lia|].
  exists n', d'.
  split; [reflexivity|]. split; [assumption|]. split; [exact G|].
  split; [apply (cross1 _ _ g); assumption|].
  split; apply fits32_spec; unfold i32_min, i32_max in *; nia.
Qed.

(* ------------------------------------------------------------------ Ratio<i32> checked ops *)
Lemma gcd32_pos_r a d : 0 < d -> fits32 d = true -> gcd32 a d = Some (Z.gcd a d).
Proof.
  intros Hd Fd. unfold gcd32. apply chk32_some. apply fits32_spec in Fd. apply fits32_spec.
  assert (Z.gcd a d <= d) by (apply Z.divide_pos_le; [lia | apply Z.gcd_divide_r]).
  pose proof (Z.gcd_nonneg a d). unfold i32_min in *. lia.
Qed.
Lemma gcd32_pos_l d a : 0 < d -> fits32 d = true -> gcd32 d a = Some (Z.gcd d a).
Proof. intros. unfold gcd32. rewrite Z.gcd_comm. apply gcd32_pos_r; auto. Qed.

Lemma omul32_inv a b r : omul32 a b = Some r -> r = a * b /\ fits32 (a * b) = true.
Proof. apply chk32_inv. Qed.

Lemma lcm_fact g q1 q2 d1 d2 lcm :
  d1 = g * q1 -> d2 = g * q2 -> lcm = q1 * d2 ->
  lcm = q2 * d1 /\ lcm = q1 * d2 /\ lcm * g = d1 * d2.
Proof. intros -> -> ->. repeat split; ring. Qed.

Lemma final_fact n' d' lcm s g P E :
  n' * lcm = s * d' -> lcm * g = P -> s * g = E -> n' * P = E * d'.
Proof.
  intros X <- <-. replace (n' * (lcm * g)) with (n' * lcm * g) by ring. rewrite X. ring.
Qed.

Lemma sum_fact (sub : bool) g q1 q2 d1 d2 n1 n2 l r s :
  d1 = g * q1 -> d2 = g * q2 -> l = q2 * n1 -> r = q1 * n2 ->
  s = (if sub then l - r else l + r) ->
  s * g = (if sub then n1 * d2 - n2 * d1 else n1 * d2 + n2 * d1).
Proof. intros -> -> -> -> ->. destruct sub; ring. Qed.

Lemma addsub_spec sub n1 d1 n2 d2 :
  0 < d1 -> 0 < d2 -> fits32 d1 = true -> fits32 d2 = true ->
  match rat32_checked_addsub sub n1 d1 n2 d2 with
  | CPanic => False
  | COverflow => True
  | CVal n d => 0 < d /\ Z.gcd n d = 1 /\ fits32 n = true /\ fits32 d = true /\
                n * (d1 * d2) = (if sub then n1 * d2 - n2 * d1 else n1 * d2 + n2 * d1) * d
  end.
Proof.
  intros H1 H2 F1 F2. unfold rat32_checked_addsub.
  rewrite (gcd32_pos_r d1 d2 H2 F2).
  assert (Hd2 : d2 <> 0) by lia.
  destruct (reduce_core d1 d2 Hd2) as [Hg [Ha [Hb _]]].
  remember (Z.gcd d1 d2) as g eqn:Eg. clear Eg.
  remember (d1 ÷ g) as q1 eqn:E1. remember (d2 ÷ g) as q2 eqn:E2. clear E1 E2.
  destruct (omul32 q1 d2) as [lcm|] eqn:EL; [|exact I].
  apply omul32_inv in EL as [EL FL].
  assert (Hq1 : 0 < q1) by nia. assert (Hq2 : 0 < q2) by nia.
  assert (Hl : 0 < lcm) by nia.
  destruct (lcm_fact g q1 q2 d1 d2 lcm Ha Hb EL) as [La [Lb LG]].
  assert (L1 : lcm ÷ d1 = q2) by (rewrite La; apply Z.quot_mul; lia).
  assert (L2 : lcm ÷ d2 = q1) by (rewrite Lb; apply Z.quot_mul; lia).
  rewrite L1, L2.
  destruct (omul32 q2 n1) as [l|] eqn:El; [|exact I].
  destruct (omul32 q1 n2) as [r|] eqn:Er; [|exact I].
  apply omul32_inv in El as [El _]. apply omul32_inv in Er as [Er _].
  destruct (chk32 (if sub then l - r else l + r)) as [s|] eqn:Es; [|exact I].
  apply chk32_inv in Es as [Es Fs]. rewrite <- Es in Fs. rewrite <- EL in FL.
  destruct (rat32_new_pos s lcm Hl Fs FL) as [n' [d' [E [Hp [G [X [Fn Fd]]]]]]].
  rewrite E.
  split; [assumption|]. split; [assumption|]. split; [assumption|]. split; [assumption|].
  eapply final_fact; [exact X | exact LG |].
  eapply sum_fact; eauto.
Qed.

Lemma prod_fact gad gbc a1 b1 a2 b2 n1 d1 n2 d2 n d :
  n1 = gad * a1 -> d2 = gad * b1 -> n2 = gbc * a2 -> d1 = gbc * b2 ->
  n = a1 * a2 -> d = b2 * b1 -> n * (d1 * d2) = n1 * n2 * d.
Proof. intros -> -> -> -> -> ->. ring. Qed.

Lemma mul_spec n1 d1 n2 d2 :
  0 < d1 -> 0 < d2 -> fits32 d1 = true -> fits32 d2 = true ->
  match rat32_checked_mul n1 d1 n2 d2 with
  | CPanic => False
  | COverflow => True
  | CVal n d => 0 < d /\ Z.gcd n d = 1 /\ fits32 n = true /\ fits32 d = true /\
                n * (d1 * d2) = (n1 * n2) * d
  end.
Proof.
  intros H1 H2 F1 F2. unfold rat32_checked_mul.
  rewrite (gcd32_pos_r n1 d2 H2 F2), (gcd32_pos_l d1 n2 H1 F1).
  assert (Hd2 : d2 <> 0) by lia. assert (Hd1 : d1 <> 0) by lia.
  destruct (reduce_core n1 d2 Hd2) as [Hg1 [Ha1 [Hb1 _]]].
  rewrite (Z.gcd_comm d1 n2).
  destruct (reduce_core n2 d1 Hd1) as [Hg2 [Ha2 [Hb2 _]]].
  remember (Z.gcd n1 d2) as gad eqn:E1. remember (Z.gcd n2 d1) as gbc eqn:E2. clear E1 E2.
  remember (n1 ÷ gad) as a1 eqn:E1. remember (d2 ÷ gad) as b1 eqn:E2.
  remember (n2 ÷ gbc) as a2 eqn:E3. remember (d1 ÷ gbc) as b2 eqn:E4. clear E1 E2 E3 E4.
  destruct (omul32 a1 a2) as [n|] eqn:En; [|exact I].
  destruct (omul32 b2 b1) as [d|] eqn:Ed; [|exact I].
  apply omul32_inv in En as [En Fn]. apply omul32_inv in Ed as [Ed Fd].
  assert (0 < b2) by nia. assert (0 < b1) by nia.
  assert (Hd : 0 < d) by nia.
  rewrite <- En in Fn. rewrite <- Ed in Fd.
  destruct (rat32_new_pos n d Hd Fn Fd) as [n' [d' [E [Hp [G [X [Fn' Fd']]]]]]].
  rewrite E.
  split; [assumption|]. split; [assumption|]. split; [assumption|]. split; [assumption|].
  assert (P : n * (d1 * d2) = n1 * n2 * d) by (eapply prod_fact; eauto).
  assert (d <> 0) by lia.
  apply Z.mul_reg_r with d; auto.
  replace (n' * (d1 * d2) * d) with (n' * d * (d1 * d2)) by ring. rewrite X.
  replace (n * d' * (d1 * d2)) with (n * (d1 * d2) * d') by ring. rewrite P. ring.
Qed.

(* ------------------------------------------------------------------ helpers for Exact *)
Lemma exact_ok v N D : canonical v -> numer v * D = N * denom v -> Exact (Ok v) N D.
Proof. intros. exists v. auto. Qed.

Lemma exact_scale r N D N' D' :
  Exact r N D -> D <> 0 -> D' <> 0 -> N * D' = N' * D -> Exact r N' D'.
Proof.
  intros [v [E [C X]]] HD HD' H. exists v. repeat split; auto.
  apply Z.mul_reg_r with D; auto.
  replace (numer v * D' * D) with (numer v * D * D') by ring. rewrite X.
  replace (N' * denom v * D) with (N' * D * denom v) by ring. rewrite <- H. ring.
Qed.

Lemma canon_rat32_fits n d : canonical (Rat32 n d) -> fits32 n = true /\ fits32 d = true /\ 0 < d.
Proof.
  simpl. intros [A [B [C [D _]]]]. rewrite !fits32_spec. unfold i32_min, i32_max in *. lia.
Qed.

Lemma add_rat32_exact n1 d1 n2 d2 :
  0 < d1 -> 0 < d2 -> fits32 d1 = true -> fits32 d2 = true ->
  Exact (add_rat32 n1 d1 n2 d2) (n1 * d2 + n2 * d1) (d1 * d2).
Proof.
  intros H1 H2 F1 F2. unfold add_rat32.
  pose proof (addsub_spec false n1 d1 n2 d2 H1 H2 F1 F2) as S.
  destruct (rat32_checked_addsub false n1 d1 n2 d2) as [| |n d]; [| contradiction |].
  - unfold big_add. apply of_bigrat_new_exact. nia.
  - destruct S as [Hp [G [Fn [Fd X]]]].
    destruct (of_rat32_spec n d Hp G Fn Fd) as [C [Nn Dn]].
    apply exact_ok; auto. rewrite Nn, Dn. exact X.
Qed.

Lemma mul_rat32_exact n1 d1 n2 d2 :
  0 < d1 -> 0 < d2 -> fits32 d1 = true -> fits32 d2 = true ->
  Exact (mul_rat32 n1 d1 n2 d2) (n1 * n2) (d1 * d2).
Proof.
  intros H1 H2 F1 F2. unfold mul_rat32.
  pose proof (mul_spec n1 d1 n2 d2 H1 H2 F1 F2) as S.
  destruct (rat32_checked_mul n1 d1 n2 d2) as [| |n d]; [| contradiction |].
  - unfold big_mul. apply of_bigrat_new_exact. nia.
  - destruct S as [Hp [G [Fn [Fd X]]]].
    destruct (of_rat32_spec n d Hp G Fn Fd) as [C [Nn Dn]].
    apply exact_ok; auto. rewrite Nn, Dn. exact X.
Qed.

Lemma rat32_new_int i : fits32 i = true -> rat32_new i 1 = Some (i, 1).
Proof.
  intros F. unfold rat32_new. simpl.
  destruct (i =? 0) eqn:E0; [apply Z.eqb_eq in E0; subst; reflexivity|].
  destruct (i =? 1) eqn:E1; [apply Z.eqb_eq in E1; subst; reflexivity|].
  unfold gcd32. rewrite Z.gcd_1_r. simpl. now rewrite !Z.quot_1_r.
Qed.

Lemma gcd_m1_l x : Z.gcd (-1) x = 1.
Proof. change (-1) with (Z.opp 1). rewrite Z.gcd_opp_l. apply Z.gcd_1_l. Qed.

Lemma rat32_new_one_over a : fits32 a = true -> a <> 0 -> a <> i32_min ->
  rat32_new 1 a = Some (if a <? 0 then (-1, 0 - a) else (1, a)).
Proof.
  intros F H0 Hm. unfold rat32_new.
  destruct (a =? 0) eqn:E0; [apply Z.eqb_eq in E0; congruence|].
  change (1 =? 0) with false. cbv iota.
  destruct (1 =? a) eqn:E1.
  { apply Z.eqb_eq in E1. subst a. reflexivity. }
  unfold gcd32. rewrite Z.gcd_1_l. change (chk32 1) with (Some 1). cbv iota beta.
  rewrite !Z.quot_1_r.
  destruct (a <? 0) eqn:E3; [|reflexivity].
  apply fits32_spec in F.
  assert (F' : fits32 (0 - a) = true) by (apply fits32_spec; unfold i32_min, i32_max in *; lia).
  rewrite (chk32_some _ F'). reflexivity.
Qed.

Lemma of_bigint_exact z : Exact (Ok (of_bigint z)) z 1.
Proof. destruct (of_bigint_spec z) as [C [N D]]. apply exact_ok; auto. rewrite N, D. ring. Qed.

Ltac big_case := (unfold big_add, big_mul; eapply exact_scale;
                   [apply of_bigrat_new_exact | | | ]; try nia; try ring).

(* ------------------------------------------------------------------ add_two / multiply_two *)
Lemma add_two_exact a b :
  canonical a -> canonical b ->
  Exact (add_two a b) (numer a * denom b + numer b * denom a) (denom a * denom b).
Proof.
  intros Ca Cb.
  pose proof (canonical_denom_pos a Ca) as Pa. pose proof (canonical_denom_pos b Cb) as Pb.
  destruct a as [a|a|n1 d1|n1 d1], b as [b|b|n2 d2|n2 d2]; cbn [add_two numer denom] in *.
  - (* Int Int *)
    unfold chk_isize. destruct (fits_isize (a + b)) eqn:F.
    + apply exact_ok; simpl; auto; try ring.
    + eapply exact_scale; [apply of_bigint_exact | lia | lia | ring].
  - eapply exact_scale; [apply of_bigint_exact | lia | lia | ring].
  - destruct (canon_rat32_fits _ _ Cb) as [Fn [Fd Hp]].
    destruct (fits32 a) eqn:Fa.
    + rewrite rat32_new_int by auto.
      eapply exact_scale; [apply add_rat32_exact; auto; try lia; reflexivity | nia | nia | ring].
    + big_case.
  - big_case.
  - eapply exact_scale; [apply of_bigint_exact | lia | lia | ring].
  - eapply exact_scale; [apply of_bigint_exact | lia | lia | ring].
  - big_case.
  - big_case.
  - destruct (canon_rat32_fits _ _ Ca) as [Fn [Fd Hp]].
    destruct (fits32 b) eqn:Fb.
    + rewrite rat32_new_int by auto.
      eapply exact_scale; [apply add_rat32_exact; auto; try lia; reflexivity | nia | nia | ring].
    + big_case.
  - big_case.
  - destruct (canon_rat32_fits _ _ Ca) as [Fn [Fd Hp]].
    destruct (canon_rat32_fits _ _ Cb) as [Fn' [Fd' Hp']].
    apply add_rat32_exact; auto.
  - big_case.
  - big_case.
  - big_case.
  - big_case.
  - big_case.
Qed.

Lemma multiply_two_exact a b :
  canonical a -> canonical b ->
  Exact (multiply_two a b) (numer a * numer b) (denom a * denom b).
Proof.
  intros Ca Cb.
  pose proof (canonical_denom_pos a Ca) as Pa. pose proof (canonical_denom_pos b Cb) as Pb.
  destruct a as [a|a|n1 d1|n1 d1], b as [b|b|n2 d2|n2 d2]; cbn [multiply_two numer denom] in *.
  - unfold chk_isize. destruct (fits_isize (a * b)) eqn:F.
    + apply exact_ok; simpl; auto; try ring.
    + eapply exact_scale; [apply of_bigint_exact | lia | lia | ring].
  - eapply exact_scale; [apply of_bigint_exact | lia | lia | ring].
  - destruct (canon_rat32_fits _ _ Cb) as [Fn [Fd Hp]].
    destruct (fits32 a) eqn:Fa.
    + rewrite rat32_new_int by auto.
      eapply exact_scale; [apply mul_rat32_exact; auto; try lia; reflexivity | nia | nia | ring].
    + big_case.
  - big_case.
  - eapply exact_scale; [apply of_bigint_exact | lia | lia | ring].
  - eapply exact_scale; [apply of_bigint_exact | lia | lia | ring].
  - big_case.
  - big_case.
  - destruct (canon_rat32_fits _ _ Ca) as [Fn [Fd Hp]].
    destruct (fits32 b) eqn:Fb.
    + rewrite rat32_new_int by auto.
      eapply exact_scale; [apply mul_rat32_exact; auto; try lia; reflexivity | nia | nia | ring].
    + big_case.
  - big_case.
  - destruct (canon_rat32_fits _ _ Ca) as [Fn [Fd Hp]].
    destruct (canon_rat32_fits _ _ Cb) as [Fn' [Fd' Hp']].
    apply mul_rat32_exact; auto.
  - big_case.
  - big_case.
  - big_case.
  - big_case.
  - big_case.
Qed.

(* ------------------------------------------------------------------ negate / abs / recip *)
Lemma negate_exact a : canonical a -> Exact (negate a) (- numer a) (denom a).
Proof.
  intros Ca. pose proof (canonical_denom_pos a Ca) as Pa.
  destruct a as [a|a|n d|n d]; cbn [negate numer denom] in *.
  - unfold chk_isize. destruct (fits_isize (0 - a)) eqn:F.
    + apply exact_ok; simpl; auto; try ring.
    + eapply exact_scale; [apply of_bigint_exact | lia | lia | ring].
  - eapply exact_scale; [apply of_bigint_exact | lia | lia | ring].
  - destruct (canon_rat32_fits _ _ Ca) as [Fn [Fd Hp]].
    simpl in Ca. destruct Ca as [A [B [C [D G]]]].
    assert (F : fits32 (0 - n) = true) by (apply fits32_spec; unfold i32_min, i32_max in *; lia).
    rewrite (chk32_some _ F).
    assert (G' : Z.gcd (0 - n) d = 1) by (replace (0 - n) with (- n) by lia; now rewrite Z.gcd_opp_l).
    rewrite rat32_new_reduced by auto.
    destruct (of_rat32_spec (0 - n) d Hp G' F Fd) as [Cv [Nv Dv]].
    apply exact_ok; auto. rewrite Nv, Dv. ring.
  - simpl in Ca. destruct Ca as [A [G _]].
    assert (G' : Z.gcd (0 - n) d = 1) by (replace (0 - n) with (- n) by lia; now rewrite Z.gcd_opp_l).
    destruct (of_bigrat_spec (0 - n) d Pa G') as [v [Ev [Cv [Nv Dv]]]].
    rewrite Ev. apply exact_ok; auto. rewrite Nv, Dv. ring.
Qed.

Lemma abs_exact a : canonical a -> Exact (abs a) (Z.abs (numer a)) (denom a).
Proof.
  intros Ca. pose proof (canonical_denom_pos a Ca) as Pa.
  destruct a as [a|a|n d|n d]; cbn [abs numer denom] in *.
  - unfold chk_isize. destruct (fits_isize (Z.abs a)) eqn:F.
    + apply exact_ok; simpl; auto; try ring.
    + eapply exact_scale; [apply of_bigint_exact | lia | lia | ring].
  - eapply exact_scale; [apply of_bigint_exact | lia | lia | ring].
  - destruct (canon_rat32_fits _ _ Ca) as [Fn [Fd Hp]].
    simpl in Ca. destruct Ca as [A [B [C [D G]]]].
    destruct (n <? 0) eqn:E.
    + apply Z.ltb_lt in E.
      assert (F : fits32 (0 - n) = true) by (apply fits32_spec; unfold i32_min, i32_max in *; lia).
      rewrite (chk32_some _ F).
      assert (G' : Z.gcd (0 - n) d = 1) by (replace (0 - n) with (- n) by lia; now rewrite Z.gcd_opp_l).
      destruct (of_rat32_spec (0 - n) d Hp G' F Fd) as [Cv [Nv Dv]].
      apply exact_ok; auto. rewrite Nv, Dv. lia.
    + apply Z.ltb_ge in E.
      destruct (of_rat32_spec n d Hp G Fn Fd) as [Cv [Nv Dv]].
      apply exact_ok; auto. rewrite Nv, Dv. lia.
  - simpl in Ca. destruct Ca as [A [G _]].
    assert (G' : Z.gcd (Z.abs n) d = 1) by now rewrite Z.gcd_abs_l.
    destruct (of_bigrat_spec (Z.abs n) d Pa G') as [v [Ev [Cv [Nv Dv]]]].
    rewrite Ev. apply exact_ok; auto. rewrite Nv, Dv. ring.
Qed.

Lemma recip_exact a :
  canonical a -> numer a <> 0 -> Exact (recip a) (denom a) (numer a).
Proof.
  intros Ca Nz. pose proof (canonical_denom_pos a Ca) as Pa.
  destruct a as [a|a|n d|n d]; cbn [recip numer denom] in *.
  - destruct (fits32 a) eqn:Fa.
    + destruct (a =? 0) eqn:E0; [apply Z.eqb_eq in E0; congruence|].
      destruct (a =? i32_min) eqn:E1; [apply of_bigrat_new_exact; auto|].
      apply Z.eqb_neq in E1.
      rewrite (rat32_new_one_over a Fa) by (auto; intros ->; discriminate).
      apply fits32_spec in Fa.
      destruct (a <? 0) eqn:E3.
      * apply Z.ltb_lt in E3.
        assert (F : fits32 (0 - a) = true) by (apply fits32_spec; unfold i32_min, i32_max in *; lia).
        assert (G : Z.gcd (-1) (0 - a) = 1) by apply gcd_m1_l.
        destruct (of_rat32_spec (-1) (0 - a)) as [Cv [Nv Dv]]; auto; try lia.
        apply exact_ok; auto. rewrite Nv, Dv. ring.
      * apply Z.ltb_ge in E3.
        assert (F : fits32 a = true) by (apply fits32_spec; lia).
        destruct (of_rat32_spec 1 a) as [Cv [Nv Dv]]; auto; try lia. apply Z.gcd_1_l.
        apply exact_ok; auto. rewrite Nv, Dv. ring.
    + apply of_bigrat_new_exact; auto.
  - apply of_bigrat_new_exact; auto.
  - destruct (canon_rat32_fits _ _ Ca) as [Fn [Fd Hp]].
    simpl in Ca. destruct Ca as [A [B [C [D G]]]].
    destruct (n =? 0) eqn:E0; [apply Z.eqb_eq in E0; congruence|].
    destruct (0 <? n) eqn:E1.
    + apply Z.ltb_lt in E1.
      destruct (of_rat32_spec d n) as [Cv [Nv Dv]]; auto. now rewrite Z.gcd_comm.
      apply exact_ok; auto. rewrite Nv, Dv. ring.
    + apply Z.ltb_ge in E1.
      assert (F1 : fits32 (0 - d) = true) by (apply fits32_spec; unfold i32_min, i32_max in *; lia).
      assert (F2 : fits32 (0 - n) = true) by (apply fits32_spec; unfold i32_min, i32_max in *; lia).
      rewrite (chk32_some _ F1), (chk32_some _ F2).
      assert (G' : Z.gcd (0 - d) (0 - n) = 1).
      { replace (0 - d) with (- d) by lia. replace (0 - n) with (- n) by lia.
        now rewrite Z.gcd_opp_l, Z.gcd_opp_r, Z.gcd_comm. }
      destruct (of_rat32_spec (0 - d) (0 - n)) as [Cv [Nv Dv]]; auto; try lia.
      apply exact_ok; auto. rewrite Nv, Dv. ring.
  - simpl in Ca. destruct Ca as [A [G _]].
    destruct (n =? 0) eqn:E0; [apply Z.eqb_eq in E0; congruence|].
    destruct (0 <? n) eqn:E1.
    + apply Z.ltb_lt in E1.
      destruct (of_bigrat_spec d n E1) as [v [Ev [Cv [Nv Dv]]]]. now rewrite Z.gcd_comm.
      rewrite Ev. apply exact_ok; auto. rewrite Nv, Dv. ring.
    + apply Z.ltb_ge in E1.
      assert (G' : Z.gcd (0 - d) (0 - n) = 1).
      { replace (0 - d) with (- d) by lia. replace (0 - n) with (- n) by lia.
        now rewrite Z.gcd_opp_l, Z.gcd_opp_r, Z.gcd_comm. }
      destruct (of_bigrat_spec (0 - d) (0 - n)) as [v [Ev [Cv [Nv Dv]]]]; auto; try lia.
      rewrite Ev. apply exact_ok; auto. rewrite Nv, Dv. ring.
Qed.

Lemma recip_zero a : canonical a -> numer a = 0 -> recip a = ErrDivZero.
Proof.
  intros Ca Nz. destruct a as [a|a|n d|n d]; cbn [recip numer] in *; subst.
  - reflexivity.
  - simpl in Ca. discriminate.
  - unfold canonical in Ca. destruct Ca as [A [_ [_ [_ G]]]]. rewrite Z.gcd_0_l in G. lia.
  - unfold canonical in Ca. destruct Ca as [A [G _]]. rewrite Z.gcd_0_l in G. lia.
Qed.

(* ------------------------------------------------------------------ meaning in Q *)
Lemma denote_cross v N D :
  canonical v -> D <> 0 -> numer v * D = N * denom v -> (denote v == inject_Z N / inject_Z D)%Q.
Proof.
  intros Cv HD X. pose proof (canonical_denom_pos v Cv) as Pv.
  unfold denote. rewrite Qmake_Qdiv. rewrite Z2Pos.id by auto.
  assert (HDq : ~ (inject_Z D == 0)%Q) by (unfold Qeq; simpl; lia).
  assert (Hdq : ~ (inject_Z (denom v) == 0)%Q) by (unfold Qeq; simpl; lia).
  apply Qmult_inj_r with (inject_Z D * inject_Z (denom v))%Q.
  - intros H. apply Qmult_integral in H. tauto.
  - transitivity (inject_Z (numer v * D)).
    + rewrite inject_Z_mult. field. exact Hdq.
    + rewrite X, inject_Z_mult. field. exact HDq.
Qed.

Lemma denote_inject v : canonical v ->
  (denote v == inject_Z (numer v) / inject_Z (denom v))%Q.
Proof. intros C. apply denote_cross; auto. pose proof (canonical_denom_pos v C). lia. Qed.

Definition ExactQ (r : res) (q : Q) : Prop :=
  exists v, r = Ok v /\ canonical v /\ (denote v == q)%Q.

Lemma Exact_Q r N D q :
  Exact r N D -> D <> 0 -> (inject_Z N / inject_Z D == q)%Q -> ExactQ r q.
Proof.
  intros [v [E [C X]]] HD H. exists v. repeat split; auto.
  rewrite <- H. apply denote_cross; auto.
Qed.

Lemma inj_den_nz v : canonical v -> ~ (inject_Z (denom v) == 0)%Q.
Proof. intros C. pose proof (canonical_denom_pos v C). unfold Qeq; simpl; lia. Qed.

Lemma add_two_Q a b : canonical a -> canonical b -> ExactQ (add_two a b) (denote a + denote b).
Proof.
  intros Ca Cb. pose proof (canonical_denom_pos a Ca). pose proof (canonical_denom_pos b Cb).
  eapply Exact_Q; [apply add_two_exact; auto | nia |].
  rewrite (denote_inject a Ca), (denote_inject b Cb).
  rewrite inject_Z_plus, !inject_Z_mult. field. split; apply inj_den_nz; auto.
Qed.

Lemma multiply_two_Q a b : canonical a -> canonical b -> ExactQ (multiply_two a b) (denote a * denote b).
Proof.
  intros Ca Cb. pose proof (canonical_denom_pos a Ca). pose proof (canonical_denom_pos b Cb).
  eapply Exact_Q; [apply multiply_two_exact; auto | nia |].
  rewrite (denote_inject a Ca), (denote_inject b Cb).
  rewrite !inject_Z_mult. field. split; apply inj_den_nz; auto.
Qed.

Lemma negate_Q a : canonical a -> ExactQ (negate a) (- denote a).
Proof.
  intros Ca. pose proof (canonical_denom_pos a Ca).
  eapply Exact_Q; [apply negate_exact; auto | lia |].
  rewrite (denote_inject a Ca). rewrite inject_Z_opp. field. apply inj_den_nz; auto.
Qed.

Lemma denote_zero a : canonical a -> (denote a == 0)%Q <-> numer a = 0.
Proof. intros C. unfold denote, Qeq. simpl. lia. Qed.

Lemma recip_Q a : canonical a -> ~ (denote a == 0)%Q -> ExactQ (recip a) (/ denote a).
Proof.
  intros Ca Nz. pose proof (canonical_denom_pos a Ca).
  assert (Hn : numer a <> 0) by (intros E; apply Nz; now apply denote_zero).
  eapply Exact_Q; [apply recip_exact; auto | auto |].
  rewrite (denote_inject a Ca). field.
  split; try (apply inj_den_nz; now auto); unfold Qeq; simpl; lia.
Qed.

Lemma abs_Q a : canonical a -> ExactQ (abs a) (Qabs (denote a)).
Proof.
  intros Ca. pose proof (canonical_denom_pos a Ca).
  destruct (abs_exact a Ca) as [v [E [C X]]]. exists v. repeat split; auto.
  pose proof (canonical_denom_pos v C).
  unfold denote, Qabs, Qeq. simpl. rewrite !Z2Pos.id by auto. lia.
Qed.

(* ------------------------------------------------------------------ variadic front ends *)
Fixpoint all_canonical (l : list num) : Prop :=
  match l with [] => True | x :: r => canonical x /\ all_canonical r end.

Fixpoint qsum (l : list num) : Q := match l with [] => 0%Q | x :: r => (denote x + qsum r)%Q end.
Fixpoint qprod (l : list num) : Q := match l with [] => 1%Q | x :: r => (denote x * qprod r)%Q end.

Lemma ExactQ_proper r q q' : (q == q')%Q -> ExactQ r q -> ExactQ r q'.
Proof. intros H [v [E [C X]]]. exists v. repeat split; auto. now rewrite X. Qed.

Lemma fold_add_Q l : forall acc, canonical acc -> all_canonical l ->
  ExactQ (fold_res add_two acc l) (denote acc + qsum l).
Proof.
  induction l as [|z zs IH]; intros acc Ca Cl; simpl.
  - exists acc. repeat split; auto. ring.
  - destruct Cl as [Cz Cl]. destruct (add_two_Q acc z Ca Cz) as [v [E [Cv X]]].
    rewrite E. simpl. eapply ExactQ_proper; [|apply IH; auto]. rewrite X. ring.
Qed.

Lemma fold_mul_Q l : forall acc, canonical acc -> all_canonical l ->
  ExactQ (fold_res multiply_two acc l) (denote acc * qprod l).
Proof.
  induction l as [|z zs IH]; intros acc Ca Cl; simpl.
  - exists acc. repeat split; auto. ring.
  - destruct Cl as [Cz Cl]. destruct (multiply_two_Q acc z Ca Cz) as [v [E [Cv X]]].
    rewrite E. simpl. eapply ExactQ_proper; [|apply IH; auto]. rewrite X. ring.
Qed.

Lemma add_n_Q l : all_canonical l -> ExactQ (add_n l) (qsum l).
Proof.
  destruct l as [|x ys]; simpl.
  - intros _. exists (IntV 0). repeat split; auto; reflexivity.
  - intros [Cx Cy]. apply fold_add_Q; auto.
Qed.

Lemma mul_n_Q l : all_canonical l -> ExactQ (mul_n l) (qprod l).
Proof.
  destruct l as [|x ys]; simpl.
  - intros _. exists (IntV 1). repeat split; auto; reflexivity.
  - intros [Cx Cy]. apply fold_mul_Q; auto.
Qed.

Lemma sub_n_Q x ys : canonical x -> all_canonical ys ->
  exists r, sub_n (x :: ys) = Some r /\
            ExactQ r (match ys with [] => - denote x | _ => denote x - qsum ys end)%Q.
Proof.
  intros Cx Cy. destruct ys as [|y ys'].
  - simpl. eexists; split; eauto. now apply negate_Q.
  - cbn [sub_n]. eexists; split; [reflexivity|].
    destruct (add_n_Q (y :: ys') Cy) as [s [Es [Cs Xs]]]. rewrite Es. cbn [bind].
    destruct (negate_Q s Cs) as [m [Em [Cm Xm]]]. rewrite Em. cbn [bind].
    eapply ExactQ_proper; [|apply add_two_Q; auto]. rewrite Xm, Xs. ring.
Qed.

Lemma div_n_Q x ys : canonical x -> all_canonical ys ->
  exists r, div_n (x :: ys) = Some r /\
    match ys with
    | [] => if Qeq_bool (denote x) 0 then r = ErrDivZero else ExactQ r (/ denote x)
    | _ => if Qeq_bool (qprod ys) 0 then r = ErrDivZero else ExactQ r (denote x / qprod ys)
    end.
Proof.
  intros Cx Cy.
  assert (R : forall d, canonical d ->
     if Qeq_bool (denote d) 0 then recip d = ErrDivZero else ExactQ (recip d) (/ denote d)).
  { intros d Cd. destruct (Qeq_bool (denote d) 0) eqn:E.
    - apply Qeq_bool_eq in E. apply recip_zero; auto. now apply denote_zero.
    - apply recip_Q; auto. intros H. apply Qeq_eq_bool in H. congruence. }
  assert (G : forall d, canonical d -> forall q, (denote d == q)%Q ->
     if Qeq_bool q 0 then bind (recip d) (fun r => multiply_two x r) = ErrDivZero
     else ExactQ (bind (recip d) (fun r => multiply_two x r)) (denote x / q)).
  { intros d Cd q Hq. specialize (R d Cd).
    assert (EB : Qeq_bool (denote d) 0 = Qeq_bool q 0).
    { destruct (Qeq_bool q 0) eqn:E.
      - apply Qeq_bool_eq in E. apply Qeq_eq_bool. now rewrite Hq.
      - destruct (Qeq_bool (denote d) 0) eqn:E'; auto. apply Qeq_bool_eq in E'.
        rewrite Hq in E'. apply Qeq_eq_bool in E'. congruence. }
    rewrite EB in R. destruct (Qeq_bool q 0).
    - now rewrite R.
    - destruct R as [v [Ev [Cv Xv]]]. rewrite Ev. cbn [bind].
      eapply ExactQ_proper; [|apply multiply_two_Q; auto]. rewrite Xv, Hq. reflexivity. }
  destruct ys as [|y ys'].
  - simpl. eexists; split; eauto. apply R; auto.
  - destruct ys' as [|z zs].
    + cbn [div_n]. eexists; split; [reflexivity|]. destruct Cy as [Cyy _].
      apply (G y Cyy). simpl. ring.
    + cbn [div_n]. eexists; split; [reflexivity|].
      destruct (mul_n_Q (y :: z :: zs) Cy) as [d [Ed [Cd Xd]]]. rewrite Ed. cbn [bind].
      apply (G d Cd). exact Xd.
Qed.

(* ------------------------------------------------------------------ comparison *)
Lemma num_eq_correct a b : canonical a -> canonical b ->
  (num_eq a b = true <-> (denote a == denote b)%Q).
Proof.
  intros Ca Cb.
  pose proof (canonical_denom_pos a Ca) as Pa. pose proof (canonical_denom_pos b Cb) as Pb.
  pose proof (canonical_reduced a Ca) as Ga. pose proof (canonical_reduced b Cb) as Gb.
  unfold denote, Qeq. simpl. rewrite !Z2Pos.id by auto.
  split.
  - destruct a, b; simpl in *; try discriminate; rewrite Z.eqb_eq; intros; subst; lia.
  - intros E. destruct (reduced_unique _ _ _ _ Pa Pb Ga Gb E) as [En Ed].
    destruct a, b; simpl in *; subst; try apply Z.eqb_refl; try lia.
    + (* Int / BigNum *) congruence.
    + congruence.
    + (* Rat32 / BigRat: excluded by canonicity *)
      destruct Ca as [A [B [C [D _]]]]. destruct Cb as [_ [_ F]].
      assert (fits32 n0 = true) by (apply fits32_spec; unfold i32_min, i32_max in *; lia).
      assert (fits32 d0 = true) by (apply fits32_spec; unfold i32_min, i32_max in *; lia).
      assert ((n0 =? i32_min) = false) by (apply Z.eqb_neq; lia).
      rewrite H, H0, H1 in F. discriminate.
    + destruct Cb as [A [B [C [D _]]]]. destruct Ca as [_ [_ F]].
      assert (fits32 n0 = true) by (apply fits32_spec; unfold i32_min, i32_max in *; lia).
      assert (fits32 d0 = true) by (apply fits32_spec; unfold i32_min, i32_max in *; lia).
      assert ((n0 =? i32_min) = false) by (apply Z.eqb_neq; lia).
      rewrite H, H0, H1 in F. discriminate.
Qed.

Lemma num_cmp_correct a b : canonical a -> canonical b ->
  num_cmp a b = (denote a ?= denote b)%Q.
Proof.
  intros Ca Cb.
  pose proof (canonical_denom_pos a Ca) as Pa. pose proof (canonical_denom_pos b Cb) as Pb.
  unfold num_cmp, denote, Qcompare. simpl. now rewrite !Z2Pos.id by auto.
Qed.

(* the canonical form of a rational is unique: equal values have equal representations *)
Lemma canonical_unique a b : canonical a -> canonical b -> (denote a == denote b)%Q -> a = b.
Proof.
  intros Ca Cb E. pose proof (proj2 (num_eq_correct a b Ca Cb) E) as H.
  pose proof (canonical_denom_pos a Ca) as Pa. pose proof (canonical_denom_pos b Cb) as Pb.
  pose proof (canonical_reduced a Ca) as Ga. pose proof (canonical_reduced b Cb) as Gb.
  unfold denote, Qeq in E. simpl in E. rewrite !Z2Pos.id in E by auto.
  destruct (reduced_unique _ _ _ _ Pa Pb Ga Gb E) as [En Ed].
  destruct a, b; simpl in *; try discriminate; subst; reflexivity.
Qed.

(* ------------------------------------------------------------------ integer division family *)
Definition is_integer (v : num) : Prop := match v with IntV _ | BigNum _ => True | _ => False end.

Lemma int_of_integer v : is_integer v -> int_of v = Some (numer v).
Proof. destruct v; simpl; intros H; try contradiction; reflexivity. Qed.

Lemma quot_abs_le a b : b <> 0 -> Z.abs (Z.quot a b) <= Z.abs a.
Proof.
  intros Hb. rewrite <- Z.quot_abs by auto.
  destruct (Z.eq_dec a 0) as [->|Ha]; [rewrite Z.quot_0_l by lia; simpl; lia|].
  apply Z.quot_le_upper_bound; try lia; nia.
Qed.

Lemma int_div_op_spec f site a b :
  (forall l r, r <> 0 -> fits_isize l = true -> fits_isize r = true ->
               ~ (l = isize_min /\ r = -1) -> fits_isize (f l r) = true) ->
  canonical a -> canonical b -> is_integer a -> is_integer b ->
  if numer b =? 0 then int_div_op f site a b = ErrDivZero
  else exists v, int_div_op f site a b = Ok v /\ canonical v /\ is_integer v /\
                 numer v = f (numer a) (numer b).
Proof.
  intros Hf Ca Cb Ia Ib.
  assert (G : forall z, canonical (of_bigint z) /\ is_integer (of_bigint z) /\ numer (of_bigint z) = z).
  { intros z. destruct (of_bigint_spec z) as [C [N _]]. repeat split; auto.
    unfold of_bigint. destruct (fits_isize z); exact I. }
  destruct a as [l|l|?|?], b as [r|r|?|?]; simpl in Ia, Ib; try contradiction;
    cbn [int_div_op int_of numer].
  - (* Int / Int *)
    destruct (r =? 0) eqn:E0; [reflexivity|]. apply Z.eqb_neq in E0.
    destruct ((l =? isize_min) && (r =? -1)) eqn:E1.
    + exists (of_bigint (f l r)). split; [reflexivity | apply G].
    + assert (H : ~ (l = isize_min /\ r = -1)).
      { intros [-> ->]. rewrite !Z.eqb_refl in E1. discriminate. }
      unfold chk_isize. rewrite (Hf l r E0 Ca Cb H).
      exists (IntV (f l r)). split; [reflexivity|]. split; [simpl; apply Hf; auto|]. split; [exact I | reflexivity].
  - destruct (r =? 0) eqn:E0; [reflexivity|]. exists (of_bigint (f l r)). split; [reflexivity | apply G].
  - destruct (r =? 0) eqn:E0; [reflexivity|]. exists (of_bigint (f l r)). split; [reflexivity | apply G].
  - destruct (r =? 0) eqn:E0; [reflexivity|]. exists (of_bigint (f l r)). split; [reflexivity | apply G].
Qed.

Lemma fits_quot l r : r <> 0 -> fits_isize l = true -> fits_isize r = true ->
  ~ (l = isize_min /\ r = -1) -> fits_isize (Z.quot l r) = true.
Proof.
  intros Hr Fl Fr Hn. apply fits_isize_spec in Fl, Fr. apply fits_isize_spec.
  pose proof (quot_abs_le l r Hr) as H.
  destruct (Z.eq_dec l isize_min) as [El|El].
  - (* |l| = 2^63: the quotient reaches 2^63 only for r = -1 *)
    subst l. assert (r <> -1) by tauto.
    destruct (Z.eq_dec r 1) as [->|R1]; [rewrite Z.quot_1_r; unfold isize_min, isize_max; lia|].
    assert (2 <= Z.abs r) by lia.
    assert (Z.abs (Z.quot isize_min r) <= 4611686018427387904).
    { rewrite <- Z.quot_abs by auto. apply Z.quot_le_upper_bound; try lia.
      unfold isize_min. change (Z.abs (-9223372036854775808)) with 9223372036854775808. lia. }
    unfold isize_min, isize_max in *. lia.
  - unfold isize_min, isize_max in *. lia.
Qed.

Lemma fits_rem l r : r <> 0 -> fits_isize l = true -> fits_isize r = true ->
  ~ (l = isize_min /\ r = -1) -> fits_isize (Z.rem l r) = true.
Proof.
  intros Hr Fl Fr _. apply fits_isize_spec in Fl, Fr. apply fits_isize_spec.
  pose proof (Z.rem_bound_abs l r Hr). unfold isize_min, isize_max in *. lia.
Qed.

Lemma fits_mod l r : r <> 0 -> fits_isize l = true -> fits_isize r = true ->
  ~ (l = isize_min /\ r = -1) -> fits_isize (Z.modulo l r) = true.
Proof.
  intros Hr Fl Fr _. apply fits_isize_spec in Fl, Fr. apply fits_isize_spec.
  destruct (Z_lt_le_dec 0 r).
  - pose proof (Z.mod_pos_bound l r). unfold isize_min, isize_max in *. lia.
  - pose proof (Z.mod_neg_bound l r). unfold isize_min, isize_max in *. lia.
Qed.

Lemma quotient_spec a b : canonical a -> canonical b -> is_integer a -> is_integer b ->
  if numer b =? 0 then quotient a b = ErrDivZero
  else exists v, quotient a b = Ok v /\ canonical v /\ is_integer v /\ numer v = Z.quot (numer a) (numer b).
Proof. apply int_div_op_spec. apply fits_quot. Qed.
Lemma remainder_spec a b : canonical a -> canonical b -> is_integer a -> is_integer b ->
  if numer b =? 0 then remainder a b = ErrDivZero
  else exists v, remainder a b = Ok v /\ canonical v /\ is_integer v /\ numer v = Z.rem (numer a) (numer b).
Proof. apply int_div_op_spec. apply fits_rem. Qed.
Lemma modulo_spec a b : canonical a -> canonical b -> is_integer a -> is_integer b ->
  if numer b =? 0 then modulo a b = ErrDivZero
  else exists v, modulo a b = Ok v /\ canonical v /\ is_integer v /\ numer v = Z.modulo (numer a) (numer b).
Proof. apply int_div_op_spec. apply fits_mod. Qed.

Lemma abs_integer a : canonical a -> is_integer a ->
  exists v, abs a = Ok v /\ canonical v /\ is_integer v /\ numer v = Z.abs (numer a).
Proof.
  intros Ca Ia. destruct (abs_exact a Ca) as [v [E [C X]]].
  destruct a as [z|z|?|?]; simpl in Ia; try contradiction; cbn [abs] in *.
  - unfold chk_isize in *. destruct (fits_isize (Z.abs z)) eqn:F.
    + inversion E; subst. exists (IntV (Z.abs z)). repeat split; auto.
    + inversion E; subst. eexists. split; eauto. destruct (of_bigint_spec (Z.abs z)) as [C' [N D]].
      repeat split; auto. unfold of_bigint. rewrite F. exact I.
  - inversion E; subst. eexists. split; eauto. destruct (of_bigint_spec (Z.abs z)) as [C' [N D]].
    repeat split; auto. unfold of_bigint. destruct (fits_isize (Z.abs z)); exact I.
Qed.

(* Euclid's algorithm as the library writes it computes the mathematical gcd, for operands of any size *)
Lemma gcd_loop_zero f a b : int_of b = Some 0 -> gcd_loop (S f) a b = Some (abs a).
Proof. intros H. cbn [gcd_loop]. now rewrite H. Qed.
Lemma gcd_loop_step f a b z : int_of b = Some z -> z <> 0 ->
  gcd_loop (S f) a b = match modulo a b with Ok m => gcd_loop f b m | e => Some e end.
Proof. intros H Hz. cbn [gcd_loop]. rewrite H. destruct z; [congruence| |]; reflexivity. Qed.

Lemma mod_abs_lt x d : d <> 0 -> Z.abs (x mod d) < Z.abs d.
Proof.
  intros Hd. destruct (Z_lt_le_dec 0 d).
  - pose proof (Z.mod_pos_bound x d). lia.
  - pose proof (Z.mod_neg_bound x d). lia.
Qed.

Lemma gcd_loop_spec : forall fuel a b, canonical a -> canonical b -> is_integer a -> is_integer b ->
  (Z.to_nat (Z.abs (numer b)) < fuel)%nat ->
  exists v, gcd_loop fuel a b = Some (Ok v) /\ canonical v /\ is_integer v /\
            numer v = Z.gcd (numer a) (numer b).
Proof.
  induction fuel as [|f IH]; intros a b Ca Cb Ia Ib Hf; [lia|].
  destruct (Z.eq_dec (numer b) 0) as [E|E].
  - rewrite gcd_loop_zero by (rewrite (int_of_integer b Ib), E; reflexivity).
    destruct (abs_integer a Ca Ia) as [v [Ev [Cv [Iv Nv]]]].
    exists v. rewrite Ev. repeat split; auto. rewrite Nv, E, Z.gcd_0_r. reflexivity.
  - rewrite (gcd_loop_step f a b (numer b)) by (auto using int_of_integer).
    pose proof (modulo_spec a b Ca Cb Ia Ib) as M.
    assert (Eb : (numer b =? 0) = false) by (apply Z.eqb_neq; auto). rewrite Eb in M.
    destruct M as [m [Em [Cm [Im Nm]]]]. rewrite Em.
    pose proof (mod_abs_lt (numer a) (numer b) E) as Hlt.
    destruct (IH b m Cb Cm Ib Im) as [v [Ev [Cv [Iv Nv]]]]; [rewrite Nm; lia|].
    exists v. repeat split; auto. rewrite Nv, Nm.
    rewrite Z.gcd_comm, Z.gcd_mod by auto. apply Z.gcd_comm.
Qed.

Lemma exact_integer_sqrt_spec a : canonical a -> is_integer a -> 0 <= numer a ->
  exists s r, exact_integer_sqrt a = Some (s, r) /\ canonical s /\ canonical r /\
              numer s * numer s + numer r = numer a /\
              numer s * numer s <= numer a < (numer s + 1) * (numer s + 1) /\ 0 <= numer s.
Proof.
  intros Ca Ia Hn. unfold exact_integer_sqrt. rewrite (int_of_integer a Ia).
  destruct (numer a <? 0) eqn:E; [apply Z.ltb_lt in E; lia|].
  set (n := numer a) in *. set (s := Z.sqrt n).
  destruct (of_bigint_spec s) as [Cs [Ns _]]. destruct (of_bigint_spec (n - s * s)) as [Cr [Nr _]].
  do 2 eexists. split; [reflexivity|]. rewrite Ns, Nr.
  pose proof (Z.sqrt_spec n Hn) as S. pose proof (Z.sqrt_nonneg n). fold s in S.
  repeat split; auto; unfold Z.succ in *; lia.
Qed.
