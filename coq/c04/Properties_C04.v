(* C04 -- property theorems only; statements pinned in Pins_C04.v. *)
From Coq Require Import String List Arith Bool ZArith NArith.
From SV Require Import gen.Gen_C04 c04.Model_C04 c04.Proofs_C04 c04.Proofs_C04_Queue.
Import ListNotations.

(* generated facts *)
Theorem visitors_cover : forall k, can_contain k = true -> marker_par k = true /\ marker_seq k = true.
Proof. exact visitors_cover_lemma. Qed.

Theorem visitors_sound : forall k, marker_par k = true \/ marker_seq k = true -> can_contain k = true.
Proof. exact visitors_sound_lemma. Qed.

Theorem roots_cover : forall s, In s marked_root_sets.
Proof. exact roots_cover_lemma. Qed.

(* the frames root set includes the exception handler installed on a live frame (generated fact; without it a box
   reachable only through a live call-with-exception-handler handler was reclaimed: DESIGN F49) *)
Theorem frame_handlers_are_roots : frame_handlers_rooted = true.
Proof. reflexivity. Qed.

Theorem recycler_restores : recycler_restores_marks = true.
Proof. exact recycler_restores_lemma. Qed.

(* after the mark phase of any full collection every slot reachable from any root set through any
   chain of containers is flagged *)
Theorem mark_complete : forall h r h' nb nv,
  mark marker_par (reset_marks h) r = Ok (h', nb, nv) ->
  forall x, reach h (all_roots r) x -> flagged h' x = true.
Proof. exact mark_complete_lemma. Qed.

(* marking changes no contents *)
Theorem mark_keeps_contents : forall h r h' nb nv,
  mark marker_par (reset_marks h) r = Ok (h', nb, nv) -> forall x, cont h' x = cont h x.
Proof. exact mark_cont_lemma. Qed.

Theorem mark_fuel_suffices : forall trav h r, mark trav h r <> OutOfFuel.
Proof. exact mark_never_out_of_fuel. Qed.

(* allocate writes only the slot at the cursor, which is flagged free, and leaves the cursor on a free slot *)
Theorem alloc_preserves_live : forall chunk v f a f',
  0 < chunk -> cursor_free f ->
  fl_allocate chunk v f = Ok (a, f') ->
  (exists s, nth_error (slots f) (cursor f) = Some s /\ live s = false /\ sid s = a /\
             nth_error (slots f') (cursor f) = Some {| sid := a; live := true; sval := v |}) /\
  (forall i, i <> cursor f -> i < length (slots f) -> nth_error (slots f') i = nth_error (slots f) i) /\
  cursor_free f'.
Proof. exact alloc_preserves_live_lemma. Qed.

(* collections never touch reachable storage: a forced full collection (reset, mark, recount, then
   grow or compact) keeps every slot the program can reach, with exactly its contents, and flagged --
   so that, with alloc_preserves_live, a reachable slot's contents change only by a store to it *)
Theorem Safe_collection : forall c h r h2,
  full_mark marker_par h r = Ok h2 ->
  forall x s, reach h (all_roots r) x -> lookup h x = Some s ->
  exists s',
    lookup {| boxes := if Nat.ltb (c_reset_limit c) (grow_cnt (boxes h2))
                       then fl_compact (c_chunk c) (boxes h2) else fl_grow (c_chunk c) (boxes h2);
              vecs := vecs h2; stale := stale h2 |} x = Some s' /\
    sval s' = sval s /\ live s' = true.
Proof. exact full_collection_keeps_reachable. Qed.

(* ---- the marker's bounded work queue (local queue of fixed capacity, overflow to a shared queue) *)
(* generated facts: both paths of push_back enqueue the pushed value, the drain loop empties both
   queues, every root is enqueued, the capacity is positive *)
Theorem marker_queue_facts :
  pq_spill gen_pq = true /\ pq_local gen_pq = true /\ pq_drain gen_pq = true /\ pq_roots gen_pq = true /\ 1 <= pq_cap gen_pq.
Proof. exact gen_pq_ok. Qed.

(* for every capacity >= 1 such a marker flags exactly what the unbounded work list flags *)
Theorem C04_mark_complete_bounded_queue : forall trav q, 1 <= pq_cap q ->
  pq_spill q = true -> pq_local q = true -> pq_drain q = true ->
  forall fuel1 fuel2 h wl h1 nb1 nv1 h2 nb2 nv2,
  (forall x, flagged h x = false) ->
  mark_pq trav q fuel1 h ([], wl) 0 0 = Ok (h1, nb1, nv1) ->
  mark_loop trav fuel2 h wl 0 0 = Ok (h2, nb2, nv2) ->
  forall x, flagged h1 x = flagged h2 x.
Proof. exact bounded_queue_equiv. Qed.

(* Heap::mark with the queue as the code has it (generated capacity and path facts): every reachable
   slot is flagged; and it never runs out of fuel *)
Theorem mark_complete_bounded : forall h r h' nb nv,
  mark_bounded marker_par gen_pq (reset_marks h) r = Ok (h', nb, nv) ->
  forall x, reach h (all_roots r) x -> flagged h' x = true.
Proof. exact mark_bounded_complete_lemma. Qed.

Theorem mark_bounded_fuel_suffices : forall trav q h r, mark_bounded trav q h r <> OutOfFuel.
Proof. exact mark_bounded_no_out_of_fuel. Qed.

(* a push_back that drops the value when the local queue is full loses reachable slots (capacity 2,
   four boxes behind one vector) *)
Theorem lossy_queue_refuted :
  exists st h' nb nv x,
    wide_state = Ok st /\
    mark_bounded marker_par lossy_pq (reset_marks (hp st)) (rt st) = Ok (h', nb, nv) /\
    reachb (hp st) (all_roots (rt st)) x = true /\ flagged h' x = false.
Proof. exact lossy_queue_refuted_lemma. Qed.

(* the recycler as it was before the repair violates the property in the model (replayed on the engine
   by the check: box held by thread-local storage) *)
Theorem recycle_old_refuted :
  exists fill st,
    (forall o, In o fill -> exists e, o = OAllocBox false RsStack 0 e) /\
    after_old_recycler [] = Ok st /\ ev st (RGet (RRoot RsTls 0) 0) = Some (VAtom 7) /\
    exists st', after_old_recycler fill = Ok st' /\
                reachb (hp st') (all_roots (rt st')) (HB 0) = true /\
                ev st' (RGet (RRoot RsTls 0) 0) = Some (VAtom 99).
Proof. exact recycle_old_refuted_lemma. Qed.
