(* C04 -- the marker's bounded work queue (local queue of fixed capacity + shared overflow queue):
   it flags exactly what the unbounded work list of Model_C04.mark_loop flags, provided every path
   of push_back enqueues the pushed value and the drain loop empties both queues. *)
From Coq Require Import String List Arith Lia Bool ZArith NArith.
From SV Require Import gen.Gen_C04 c04.Model_C04 c04.Proofs_C04.
Import ListNotations.

Definition app2 (ls : list href * list href) : list href := fst ls ++ snd ls.

Section Queue.
  Variable trav : kind -> bool.

  Lemma ur_incl : forall h wl wl' x, (forall y, In y wl -> In y wl') -> ur trav h wl x -> ur trav h wl' x.
  Proof.
    intros h wl wl' x Hi H. induction H as [x Hin Hx|y x _ IH Hin Hx].
    - apply ur_base; [apply Hi; exact Hin | exact Hx].
    - eapply ur_step; eassumption.
  Qed.

  (* pushes never invent work *)
  Lemma pq_push_sub : forall q ls x y, In y (app2 (pq_push q ls x)) -> y = x \/ In y (app2 ls).
  Proof.
    intros q [l s] x y. unfold pq_push, app2. cbn [fst snd].
    destruct (Nat.leb (pq_cap q) (length l)).
    - destruct (pq_spill q); cbn [fst snd]; [|tauto]. intro H. apply in_app_or in H. destruct H as [H|[H|H]].
      + right. apply in_or_app. tauto.
      + left. congruence.
      + right. apply in_or_app. tauto.
    - destruct (pq_local q); cbn [fst snd]; [|tauto]. intros [H|H]; [left; congruence | right; exact H].
  Qed.

  Lemma pq_push_all_sub : forall q xs ls y, In y (app2 (pq_push_all q xs ls)) -> In y xs \/ In y (app2 ls).
  Proof.
    intros q xs. unfold pq_push_all. induction xs as [|x t IH]; intros ls y H; cbn [fold_left] in H; [right; exact H|].
    destruct (IH _ _ H) as [H1|H1]; [left; right; exact H1|].
    destruct (pq_push_sub _ _ _ _ H1) as [->|H2]; [left; left; reflexivity | right; exact H2].
  Qed.

  (* and, when both paths of push_back enqueue, never lose any *)
  Lemma pq_push_sup : forall q ls x y, pq_spill q = true -> pq_local q = true ->
    y = x \/ In y (app2 ls) -> In y (app2 (pq_push q ls x)).
  Proof.
    intros q [l s] x y Hs Hl. unfold pq_push, app2. cbn [fst snd]. rewrite Hs, Hl.
    destruct (Nat.leb (pq_cap q) (length l)); cbn [fst snd]; intros [->|H].
    - apply in_or_app. right. left. reflexivity.
    - apply in_app_or in H. apply in_or_app. destruct H; [left|right; right]; assumption.
    - left. reflexivity.
    - right. exact H.
  Qed.

  Lemma pq_push_all_sup : forall q xs ls y, pq_spill q = true -> pq_local q = true ->
    In y xs \/ In y (app2 ls) -> In y (app2 (pq_push_all q xs ls)).
  Proof.
    intros q xs. unfold pq_push_all. induction xs as [|x t IH]; intros ls y Hs Hl H; cbn [fold_left].
    - destruct H as [[]|H]; exact H.
    - apply IH; try assumption. destruct H as [[->|H]|H].
      + right. apply pq_push_sup; auto.
      + left. exact H.
      + right. apply pq_push_sup; auto.
  Qed.

  Lemma pq_pop_some : forall q ls x ls', pq_pop q ls = Some (x, ls') -> app2 ls = x :: app2 ls'.
  Proof.
    intros q [[|a l] [|b s]] x ls' H; cbn [pq_pop] in H; try discriminate.
    - destruct (pq_drain q); [|discriminate]. injection H as <- <-. reflexivity.
    - injection H as <- <-. reflexivity.
    - injection H as <- <-. reflexivity.
  Qed.

  Lemma pq_pop_none : forall q ls, pq_drain q = true -> pq_pop q ls = None -> app2 ls = [].
  Proof.
    intros q [[|a l] [|b s]] Hd H; cbn [pq_pop] in H; try discriminate; [reflexivity|].
    rewrite Hd in H. discriminate.
  Qed.

  Lemma mark_pq_complete : forall (R : href -> Prop) q,
    pq_spill q = true -> pq_local q = true -> pq_drain q = true ->
    forall fuel h ls nb nv h' nb' nv',
    (forall x, R x -> flagged h x = true \/ ur trav h (app2 ls) x) ->
    mark_pq trav q fuel h ls nb nv = Ok (h', nb', nv') ->
    forall x, R x -> flagged h' x = true.
  Proof.
    intros R q Hs Hl Hd fuel. induction fuel as [|fuel IH]; intros h ls nb nv h' nb' nv' Hinv Hrun x HR; cbn [mark_pq] in Hrun; [discriminate|].
    destruct (pq_pop q ls) as [[x0 ls']|] eqn:Hp.
    - pose proof (pq_pop_some _ _ _ _ Hp) as Heq.
      destruct (lookup h x0) as [s|] eqn:Hlk; [|discriminate].
      destruct (live s) eqn:Hlv.
      + eapply IH; [|exact Hrun|exact HR]. intros z Hz. destruct (Hinv z Hz) as [H|H]; [left; exact H|right].
        rewrite Heq in H. eapply ur_pop_flagged; [|exact H]. unfold flagged. rewrite Hlk. exact Hlv.
      + eapply IH; [|exact Hrun|exact HR]. intros z Hz. destruct (Hinv z Hz) as [H|H].
        * left. apply flagged_set_live_mono. exact H.
        * rewrite Heq in H. destruct (ur_flag_step trav _ _ _ _ _ Hlk H) as [H1|H1]; [left; exact H1|right].
          eapply ur_incl; [|exact H1]. intros y Hy. apply pq_push_all_sup; try assumption.
          apply in_app_or in Hy. exact Hy.
    - injection Hrun as <- _ _. destruct (Hinv x HR) as [H|H]; [exact H|].
      rewrite (pq_pop_none _ _ Hd Hp) in H. destruct (ur_nil _ _ _ H).
  Qed.

  Lemma mark_pq_exact : forall (R : href -> Prop) q fuel h ls nb nv h' nb' nv',
    (forall y x, R y -> In x (hdls trav (cont h y)) -> R x) ->
    (forall x, flagged h x = true -> R x) ->
    (forall x, In x (app2 ls) -> R x) ->
    mark_pq trav q fuel h ls nb nv = Ok (h', nb', nv') ->
    forall x, flagged h' x = true -> R x.
  Proof.
    intros R q fuel. induction fuel as [|fuel IH]; intros h ls nb nv h' nb' nv' Hcl Hfl Hwl Hrun x Hx; cbn [mark_pq] in Hrun; [discriminate|].
    destruct (pq_pop q ls) as [[x0 ls']|] eqn:Hp.
    - pose proof (pq_pop_some _ _ _ _ Hp) as Heq.
      destruct (lookup h x0) as [s|] eqn:Hlk; [|discriminate].
      assert (Hx0 : R x0) by (apply Hwl; rewrite Heq; left; reflexivity).
      destruct (live s) eqn:Hlv.
      + eapply IH; [exact Hcl|exact Hfl| |exact Hrun|exact Hx]. intros z Hz. apply Hwl. rewrite Heq. right. exact Hz.
      + eapply IH; [| | |exact Hrun|exact Hx].
        * intros y z Hy Hz. rewrite cont_set_live in Hz. eapply Hcl; eassumption.
        * intros z Hz. destruct (href_dec x0 z) as [<-|Hn]; [exact Hx0|].
          rewrite flagged_set_live_other in Hz by assumption. apply Hfl. exact Hz.
        * intros z Hz. apply pq_push_all_sub in Hz. destruct Hz as [Hz|Hz].
          -- apply (Hcl x0 z Hx0). unfold cont. rewrite Hlk. exact Hz.
          -- apply Hwl. rewrite Heq. right. exact Hz.
    - injection Hrun as <- _ _. apply Hfl. exact Hx.
  Qed.

  (* what a marker has to flag: everything reachable from the work list through traversed contents *)
  Inductive mreach (h : heap) (wl : list href) : href -> Prop :=
  | mreach_base x : In x wl -> mreach h wl x
  | mreach_step y x : mreach h wl y -> In x (hdls trav (cont h y)) -> mreach h wl x.

  Lemma mreach_ur : forall h wl, (forall x, flagged h x = false) -> forall x, mreach h wl x -> ur trav h wl x.
  Proof.
    intros h wl Hz x H. induction H as [x Hin|y x _ IH Hin].
    - apply ur_base; [exact Hin | apply Hz].
    - eapply ur_step; [exact IH | exact Hin | apply Hz].
  Qed.

  (* the unbounded work list and the bounded queue flag the same slots: exactly the reachable ones *)
  Lemma mark_loop_flags : forall fuel h wl nb nv h' nb' nv',
    (forall x, flagged h x = false) ->
    mark_loop trav fuel h wl nb nv = Ok (h', nb', nv') ->
    forall x, flagged h' x = true <-> mreach h wl x.
  Proof.
    intros fuel h wl nb nv h' nb' nv' Hz Hrun x. split.
    - eapply (mark_loop_exact trav (mreach h wl)); [| | |exact Hrun].
      + intros y z Hy Hin. eapply mreach_step; eassumption.
      + intros z Hf. rewrite Hz in Hf. discriminate.
      + intros z Hin. apply mreach_base. exact Hin.
    - eapply (mark_loop_complete trav (mreach h wl)); [|exact Hrun]. intros z Hr. right. apply mreach_ur; assumption.
  Qed.

  Lemma mark_pq_flags : forall q fuel h wl nb nv h' nb' nv',
    pq_spill q = true -> pq_local q = true -> pq_drain q = true ->
    (forall x, flagged h x = false) ->
    mark_pq trav q fuel h ([], wl) nb nv = Ok (h', nb', nv') ->
    forall x, flagged h' x = true <-> mreach h wl x.
  Proof.
    intros q fuel h wl nb nv h' nb' nv' Hs Hl Hd Hz Hrun x. split.
    - eapply (mark_pq_exact (mreach h wl)); [| | |exact Hrun].
      + intros y z Hy Hin. eapply mreach_step; eassumption.
      + intros z Hf. rewrite Hz in Hf. discriminate.
      + intros z Hin. apply mreach_base. exact Hin.
    - eapply (mark_pq_complete (mreach h wl)); [exact Hs|exact Hl|exact Hd| |exact Hrun].
      intros z Hr. right. apply mreach_ur; assumption.
  Qed.

  Lemma bounded_queue_equiv : forall q, 1 <= pq_cap q ->
    pq_spill q = true -> pq_local q = true -> pq_drain q = true ->
    forall fuel1 fuel2 h wl h1 nb1 nv1 h2 nb2 nv2,
    (forall x, flagged h x = false) ->
    mark_pq trav q fuel1 h ([], wl) 0 0 = Ok (h1, nb1, nv1) ->
    mark_loop trav fuel2 h wl 0 0 = Ok (h2, nb2, nv2) ->
    forall x, flagged h1 x = flagged h2 x.
  Proof.
    intros q _ Hs Hl Hd fuel1 fuel2 h wl h1 nb1 nv1 h2 nb2 nv2 Hz H1 H2 x.
    pose proof (mark_pq_flags _ _ _ _ _ _ _ _ _ Hs Hl Hd Hz H1 x) as A.
    pose proof (mark_loop_flags _ _ _ _ _ _ _ _ Hz H2 x) as B.
    destruct (flagged h1 x) eqn:E1, (flagged h2 x) eqn:E2; try reflexivity.
    - assert (true = true) as T by reflexivity. apply A in T. apply B in T. discriminate.
    - assert (true = true) as T by reflexivity. apply B in T. apply A in T. discriminate.
  Qed.

  (* fuel *)
  Lemma pq_push_all_len : forall q xs ls,
    length (app2 (pq_push_all q xs ls)) <= length xs + length (app2 ls).
  Proof.
    intros q xs. unfold pq_push_all. induction xs as [|x t IH]; intro ls; cbn [fold_left length]; [lia|].
    specialize (IH (pq_push q ls x)).
    assert (length (app2 (pq_push q ls x)) <= S (length (app2 ls))).
    { destruct ls as [l s]. unfold pq_push, app2. cbn [fst snd].
      destruct (Nat.leb (pq_cap q) (length l)); [destruct (pq_spill q)|destruct (pq_local q)]; cbn [fst snd];
        rewrite ?app_length; cbn [length]; rewrite ?app_length; lia. }
    lia.
  Qed.

  Lemma mark_pq_fuel : forall q fuel h ls nb nv,
    length (app2 ls) + heap_weight trav h < fuel -> mark_pq trav q fuel h ls nb nv <> OutOfFuel.
  Proof.
    intros q fuel. induction fuel as [|fuel IH]; intros h ls nb nv Hlt; [lia|]. cbn [mark_pq].
    destruct (pq_pop q ls) as [[x ls']|] eqn:Hp; [|discriminate].
    pose proof (pq_pop_some _ _ _ _ Hp) as Heq. rewrite Heq in Hlt. cbn [length] in Hlt.
    destruct (lookup h x) as [s|] eqn:Hs; [|discriminate].
    destruct (live s) eqn:Hl.
    - apply IH. lia.
    - apply IH. pose proof (heap_weight_set_live trav h x s Hs Hl).
      pose proof (pq_push_all_len q (hdls trav (sval s)) ls'). lia.
  Qed.
End Queue.

(* ---------------------------------------------------------------- Heap::mark with the generated queue facts *)
Lemma gen_pq_ok : pq_spill gen_pq = true /\ pq_local gen_pq = true /\ pq_drain gen_pq = true /\ pq_roots gen_pq = true /\ 1 <= pq_cap gen_pq.
Proof. repeat split; try reflexivity. vm_compute. apply Nat.leb_le. reflexivity. Qed.

Lemma mark_bounded_complete_lemma : forall h r h' nb nv,
  mark_bounded marker_par gen_pq (reset_marks h) r = Ok (h', nb, nv) ->
  forall x, reach h (all_roots r) x -> flagged h' x = true.
Proof.
  intros h r h' nb nv Hm x Hx. unfold mark_bounded in Hm.
  destruct gen_pq_ok as [Hs [Hl [Hd [Hr _]]]]. rewrite Hr in Hm.
  eapply (mark_pq_complete marker_par (reach h (all_roots r)) gen_pq Hs Hl Hd); [|exact Hm|exact Hx].
  clear x Hx. intros x Hx. right. unfold app2. cbn [fst snd app].
  assert (Hsub : forall vs, incl (hdls can_contain vs) (hdls marker_par vs)).
  { intro vs. apply hdls_mono. intros k Hk. apply visitors_cover_lemma. exact Hk. }
  change {| boxes := boxes (reset_marks h); vecs := vecs (reset_marks h); stale := [] |} with (restale (reset_marks h) []).
  induction Hx as [x Hin|y x s _ IH Hs' Hin].
  - apply ur_base; [|apply flagged_reset].
    apply Hsub. eapply hdls_incl; [|exact Hin].
    apply roots_of_incl. intros s _. apply roots_cover_lemma.
  - eapply ur_step; [exact IH| |apply flagged_reset].
    rewrite cont_reset. unfold cont. rewrite Hs'. apply Hsub. exact Hin.
Qed.

Lemma mark_bounded_no_out_of_fuel : forall trav q h r, mark_bounded trav q h r <> OutOfFuel.
Proof.
  intros trav q h r. unfold mark_bounded. apply mark_pq_fuel. unfold mark_fuel, app2. cbn [fst snd app].
  destruct (pq_roots q); cbn [length]; lia.
Qed.

(* ---------------------------------------------------------------- a marker that drops on overflow *)
Definition lossy_pq : pq_cfg := {| pq_cap := 2; pq_spill := false; pq_local := true; pq_drain := true; pq_roots := true |}.

Definition wide_state : res state :=
  run c8 marker_par
    [OAllocBox false RsGlobals 0 (RAtom 0); OAllocBox false RsGlobals 1 (RAtom 1); OAllocBox false RsGlobals 2 (RAtom 2);
     OAllocBox false RsGlobals 3 (RAtom 3);
     OAllocVec false RsGlobals 4 [RRoot RsGlobals 0; RRoot RsGlobals 1; RRoot RsGlobals 2; RRoot RsGlobals 3];
     OSetRoot RsGlobals 0 (RAtom 0); OSetRoot RsGlobals 1 (RAtom 0); OSetRoot RsGlobals 2 (RAtom 0); OSetRoot RsGlobals 3 (RAtom 0)]
    (init_state 8).

(* four boxes reachable only through one vector; local queue of capacity 2; a push_back that drops the
   value when the local queue is full: two of the boxes stay unflagged although they are reachable *)
Lemma lossy_queue_refuted_lemma :
  exists st h' nb nv x,
    wide_state = Ok st /\
    mark_bounded marker_par lossy_pq (reset_marks (hp st)) (rt st) = Ok (h', nb, nv) /\
    reachb (hp st) (all_roots (rt st)) x = true /\ flagged h' x = false.
Proof.
  eexists. eexists. eexists. eexists. exists (HB 2%N).
  split; [vm_compute; reflexivity|]. split; [vm_compute; reflexivity|]. split; vm_compute; reflexivity.
Qed.
