(* Compiled on every run of the C04 check: pins each statement and prints its assumptions. *)
From Coq Require Import String List Arith Bool ZArith NArith.
From SV Require Import gen.Gen_C04 c04.Model_C04 c04.Proofs_C04 c04.Properties_C04.
Import ListNotations.

Check (visitors_cover : forall k, can_contain k = true -> marker_par k = true /\ marker_seq k = true).
Check (visitors_sound : forall k, marker_par k = true \/ marker_seq k = true -> can_contain k = true).
Check (roots_cover : forall s, In s marked_root_sets).
Check (recycler_restores : recycler_restores_marks = true).
Check (mark_complete : forall h r h' nb nv,
  mark marker_par (reset_marks h) r = Ok (h', nb, nv) ->
  forall x, reach h (all_roots r) x -> flagged h' x = true).
Check (mark_keeps_contents : forall h r h' nb nv,
  mark marker_par (reset_marks h) r = Ok (h', nb, nv) -> forall x, cont h' x = cont h x).
Check (mark_fuel_suffices : forall trav h r, mark trav h r <> OutOfFuel).
Check (alloc_preserves_live : forall chunk v f a f',
  0 < chunk -> cursor_free f ->
  fl_allocate chunk v f = Ok (a, f') ->
  (exists s, nth_error (slots f) (cursor f) = Some s /\ live s = false /\ sid s = a /\
             nth_error (slots f') (cursor f) = Some {| sid := a; live := true; sval := v |}) /\
  (forall i, i <> cursor f -> i < length (slots f) -> nth_error (slots f') i = nth_error (slots f) i) /\
  cursor_free f').
Check (Safe_collection : forall c h r h2,
  full_mark marker_par h r = Ok h2 ->
  forall x s, reach h (all_roots r) x -> lookup h x = Some s ->
  exists s',
    lookup {| boxes := if Nat.ltb (c_reset_limit c) (grow_cnt (boxes h2))
                       then fl_compact (c_chunk c) (boxes h2) else fl_grow (c_chunk c) (boxes h2);
              vecs := vecs h2; stale := stale h2 |} x = Some s' /\
    sval s' = sval s /\ live s' = true).
Check (recycle_old_refuted :
  exists fill st,
    (forall o, In o fill -> exists e, o = OAllocBox false RsStack 0 e) /\
    after_old_recycler [] = Ok st /\ ev st (RGet (RRoot RsTls 0) 0) = Some (VAtom 7) /\
    exists st', after_old_recycler fill = Ok st' /\
                reachb (hp st') (all_roots (rt st')) (HB 0) = true /\
                ev st' (RGet (RRoot RsTls 0) 0) = Some (VAtom 99)).
Print Assumptions visitors_cover.
Print Assumptions visitors_sound.
Print Assumptions roots_cover.
Print Assumptions recycler_restores.
Print Assumptions mark_complete.
Print Assumptions mark_keeps_contents.
Print Assumptions mark_fuel_suffices.
Print Assumptions alloc_preserves_live.
Print Assumptions Safe_collection.
Print Assumptions recycle_old_refuted.
