(* Compiled on every run of the C04 check: pins each statement and prints its assumptions. *)
From Coq Require Import String List Arith Bool ZArith NArith.
From SV Require Import gen.Gen_C04 c04.Model_C04 c04.Proofs_C04 c04.Proofs_C04_Queue c04.Properties_C04.
Import ListNotations.

Check (visitors_cover : forall k, can_contain k = true -> marker_par k = true /\ marker_seq k = true).
Check (visitors_sound : forall k, marker_par k = true \/ marker_seq k = true -> can_contain k = true).
Check (roots_cover : forall s, In s marked_root_sets).
Check (frame_handlers_are_roots : frame_handlers_rooted = true).
Check (recycler_restores : recycler_restores_marks = true).
Check (mark_complete : forall h r h' nb nv,
  mark marker_par (reset_marks h) r = Ok (h', nb, nv) ->
  forall x, reach h (all_roots r) x -> flagged h' x = true).
Check (mark_keeps_contents : forall h r h' nb nv,
  mark marker_par (reset_marks h) r = Ok (h', nb, nv) -> forall x, cont h' x = cont h x).
Check (mark_fuel_suffices : forall trav h r, mark trav h r <> OutOfFuel).
Check (alloc_preserves_live : forall chunk v f a f',
  0 < chunk -> cursor_free f ->
  fl_allocate chunk v f = Ok (a, f') ->
  (exists s, nth_error (slots f) (cursor f) = Some s /\ live s = false /\ sid s = a /\
             nth_error (slots f') (cursor f) = Some {| sid := a; live := true; sval := v |}) /\
  (forall i, i <> cursor f -> i < length (slots f) -> nth_error (slots f') i = nth_error (slots f) i) /\
  cursor_free f').
Check (Safe_collection : forall c h r h2,
  full_mark marker_par h r = Ok h2 ->
  forall x s, reach h (all_roots r) x -> lookup h x = Some s ->
  exists s',
    lookup {| boxes := if Nat.ltb (c_reset_limit c) (grow_cnt (boxes h2))
                       then fl_compact (c_chunk c) (boxes h2) else fl_grow (c_chunk c) (boxes h2);
              vecs := vecs h2; stale := stale h2 |} x = Some s' /\
    sval s' = sval s /\ live s' = true).
Check (marker_queue_facts : pq_spill gen_pq = true /\ pq_local gen_pq = true /\ pq_drain gen_pq = true /\ pq_roots gen_pq = true /\ 1 <= pq_cap gen_pq).
Check (C04_mark_complete_bounded_queue : forall trav q, 1 <= pq_cap q ->
  pq_spill q = true -> pq_local q = true -> pq_drain q = true ->
  forall fuel1 fuel2 h wl h1 nb1 nv1 h2 nb2 nv2,
  (forall x, flagged h x = false) ->
  mark_pq trav q fuel1 h ([], wl) 0 0 = Ok (h1, nb1, nv1) ->
  mark_loop trav fuel2 h wl 0 0 = Ok (h2, nb2, nv2) ->
  forall x, flagged h1 x = flagged h2 x).
Check (mark_complete_bounded : forall h r h' nb nv,
  mark_bounded marker_par gen_pq (reset_marks h) r = Ok (h', nb, nv) ->
  forall x, reach h (all_roots r) x -> flagged h' x = true).
Check (mark_bounded_fuel_suffices : forall trav q h r, mark_bounded trav q h r <> OutOfFuel).
Check (lossy_queue_refuted : exists st h' nb nv x,
    wide_state = Ok st /\
    mark_bounded marker_par lossy_pq (reset_marks (hp st)) (rt st) = Ok (h', nb, nv) /\
    reachb (hp st) (all_roots (rt st)) x = true /\ flagged h' x = false).
Check (recycle_old_refuted : exists fill st,
    (forall o, In o fill -> exists e, o = OAllocBox false RsStack 0 e) /\
    after_old_recycler [] = Ok st /\ ev st (RGet (RRoot RsTls 0) 0) = Some (VAtom 7) /\
    exists st', after_old_recycler fill = Ok st' /\
                reachb (hp st') (all_roots (rt st')) (HB 0) = true /\
                ev st' (RGet (RRoot RsTls 0) 0) = Some (VAtom 99)).
Print Assumptions visitors_cover.
Print Assumptions visitors_sound.
Print Assumptions roots_cover.
Print Assumptions frame_handlers_are_roots.
Print Assumptions recycler_restores.
Print Assumptions mark_complete.
Print Assumptions mark_keeps_contents.
Print Assumptions mark_fuel_suffices.
Print Assumptions alloc_preserves_live.
Print Assumptions Safe_collection.
Print Assumptions marker_queue_facts.
Print Assumptions C04_mark_complete_bounded_queue.
Print Assumptions mark_complete_bounded.
Print Assumptions mark_bounded_fuel_suffices.
Print Assumptions lossy_queue_refuted.
Print Assumptions recycle_old_refuted.
