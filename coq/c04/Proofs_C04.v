(* C04 / C19 -- lemmas about the heap model (Model_C04.v). *)
From Coq Require Import String List Arith Lia Bool ZArith.
From SV Require Import gen.Gen_C04 c04.Model_C04.
Import ListNotations.

(* ---------------------------------------------------------------- generated facts *)
Lemma all_kinds_complete : forall k, In k all_kinds.
Proof. destruct k; vm_compute; tauto. Qed.

(* every value kind that can hold values has a traversing arm in the parallel marker and in the
   sequential marker (breaks when an arm is removed from closed.rs) *)
Lemma visitors_cover_lemma : forall k, can_contain k = true -> marker_par k = true /\ marker_seq k = true.
Proof. destruct k; vm_compute; intros; try discriminate; split; reflexivity. Qed.

(* and the markers do not traverse anything else *)
Lemma visitors_sound_lemma : forall k, marker_par k = true \/ marker_seq k = true -> can_contain k = true.
Proof. destruct k; vm_compute; intros [H|H]; try discriminate; reflexivity. Qed.

Lemma roots_cover_lemma : forall s, In s marked_root_sets.
Proof. destruct s; vm_compute; tauto. Qed.

Lemma queue_cleared_lemma : mark_queue_cleared = true.
Proof. reflexivity. Qed.

Lemma recycler_restores_lemma : recycler_restores_marks = true.
Proof. reflexivity. Qed.

Lemma constants_lemma : 20 < init_slots /\ 20 < extend_chunk /\ 0 < reset_limit /\ full_pct = 95.
Proof. vm_compute. repeat split; try reflexivity; apply Nat.leb_le; reflexivity. Qed.

(* ---------------------------------------------------------------- values *)
Section ValInd.
  Variable P : val -> Prop.
  Hypothesis Hatom : forall n, P (VAtom n).
  Hypothesis Hbox : forall a, P (VBox a).
  Hypothesis Hvec : forall a, P (VVec a).
  Hypothesis Hnode : forall k cs, Forall P cs -> P (VNode k cs).
  Fixpoint val_ind' (v : val) : P v :=
    match v with
    | VAtom n => Hatom n
    | VBox a => Hbox a
    | VVec a => Hvec a
    | VNode k cs => Hnode k cs ((fix go (l : list val) : Forall P l :=
                                   match l with [] => Forall_nil P | x :: t => Forall_cons x (val_ind' x) (go t) end) cs)
    end.
End ValInd.

Lemma hdl_mono : forall (t1 t2 : kind -> bool), (forall k, t1 k = true -> t2 k = true) ->
  forall v, incl (hdl t1 v) (hdl t2 v).
Proof.
  intros t1 t2 Ht v. induction v as [n|a|a|k cs IH] using val_ind'; cbn [hdl].
  - apply incl_refl.
  - destruct (t1 KHeapAllocated) eqn:E; [rewrite (Ht _ E); apply incl_refl | apply incl_nil_l].
  - destruct (t1 KMutableVector) eqn:E; [rewrite (Ht _ E); apply incl_refl | apply incl_nil_l].
  - destruct (t1 k) eqn:E; [rewrite (Ht _ E) | apply incl_nil_l].
    induction IH as [|x t Hx _ IHt]; cbn [flat_map]; [apply incl_refl|].
    apply incl_app; [apply incl_appl; exact Hx | apply incl_appr; exact IHt].
Qed.

Lemma hdls_mono : forall (t1 t2 : kind -> bool), (forall k, t1 k = true -> t2 k = true) ->
  forall vs, incl (hdls t1 vs) (hdls t2 vs).
Proof.
  intros t1 t2 Ht vs. unfold hdls. induction vs as [|v t IH]; cbn [flat_map]; [apply incl_refl|].
  apply incl_app; [apply incl_appl; apply hdl_mono; exact Ht | apply incl_appr; exact IH].
Qed.

Lemma href_eqb_eq : forall x y, href_eqb x y = true <-> x = y.
Proof.
  intros [a|a] [b|b]; cbn [href_eqb]; split; intro H; try discriminate; try congruence;
    try (apply N.eqb_eq in H; congruence); try (apply N.eqb_eq; congruence).
Qed.

Lemma href_dec : forall x y : href, {x = y} + {x <> y}.
Proof. decide equality; apply N.eq_dec. Qed.

(* ---------------------------------------------------------------- lookup / set_live *)
Definition cont (h : heap) (x : href) : list val :=
  match lookup h x with Some s => sval s | None => [] end.
Definition flagged (h : heap) (x : href) : bool :=
  match lookup h x with Some s => live s | None => false end.

Lemma lookup_in_flag_in : forall l a b,
  lookup_in (flag_in l a) b =
  option_map (fun s => {| sid := sid s; live := live s || N.eqb a b; sval := sval s |}) (lookup_in l b).
Proof.
  intros l a b. unfold lookup_in, flag_in. induction l as [|s t IH]; cbn [map find option_map]; [reflexivity|].
  destruct (N.eqb (sid s) a) eqn:Ea; cbn [sid].
  - destruct (N.eqb (sid s) b) eqn:Eb; cbn [option_map].
    + apply N.eqb_eq in Ea. apply N.eqb_eq in Eb. subst a b. rewrite N.eqb_refl, orb_true_r. reflexivity.
    + exact IH.
  - destruct (N.eqb (sid s) b) eqn:Eb; cbn [option_map].
    + apply N.eqb_eq in Eb. subst b. rewrite N.eqb_sym, Ea, orb_false_r. destruct s; reflexivity.
    + exact IH.
Qed.

Lemma lookup_set_live : forall h x y,
  lookup (set_live h x) y =
  option_map (fun s => {| sid := sid s; live := live s || href_eqb x y; sval := sval s |}) (lookup h y).
Proof.
  intros h [a|a] [b|b]; cbn [set_live lookup boxes vecs with_slots slots href_eqb].
  - apply lookup_in_flag_in.
  - destruct (lookup_in (slots (vecs h)) b) as [[i l v]|]; cbn [option_map live sid sval]; [rewrite orb_false_r|]; reflexivity.
  - destruct (lookup_in (slots (boxes h)) b) as [[i l v]|]; cbn [option_map live sid sval]; [rewrite orb_false_r|]; reflexivity.
  - apply lookup_in_flag_in.
Qed.

Lemma cont_set_live : forall h x y, cont (set_live h x) y = cont h y.
Proof. intros. unfold cont. rewrite lookup_set_live. destruct (lookup h y); reflexivity. Qed.

Lemma flagged_set_live : forall h x y,
  flagged (set_live h x) y = match lookup h y with Some s => live s || href_eqb x y | None => false end.
Proof. intros. unfold flagged. rewrite lookup_set_live. destruct (lookup h y); reflexivity. Qed.

Lemma flagged_set_live_other : forall h x y, x <> y -> flagged (set_live h x) y = flagged h y.
Proof.
  intros h x y Hn. rewrite flagged_set_live. unfold flagged. destruct (lookup h y); [|reflexivity].
  destruct (href_eqb x y) eqn:E; [apply href_eqb_eq in E; contradiction | apply orb_false_r].
Qed.

Lemma flagged_set_live_mono : forall h x y, flagged h y = true -> flagged (set_live h x) y = true.
Proof.
  intros h x y H. rewrite flagged_set_live. unfold flagged in H. destruct (lookup h y); [|discriminate].
  rewrite H. reflexivity.
Qed.

Lemma flagged_set_live_same : forall h x s, lookup h x = Some s -> flagged (set_live h x) x = true.
Proof.
  intros h x s H. rewrite flagged_set_live, H. replace (href_eqb x x) with true; [apply orb_true_r|].
  symmetry. apply href_eqb_eq. reflexivity.
Qed.

(* ---------------------------------------------------------------- the marker *)
Section Marker.
  Variable trav : kind -> bool.

  (* x is reachable from the work list through slots that are not flagged yet *)
  Inductive ur (h : heap) (wl : list href) : href -> Prop :=
  | ur_base x : In x wl -> flagged h x = false -> ur h wl x
  | ur_step y x : ur h wl y -> In x (hdls trav (cont h y)) -> flagged h x = false -> ur h wl x.

  Lemma ur_unflagged : forall h wl x, ur h wl x -> flagged h x = false.
  Proof. intros h wl x H. destruct H; assumption. Qed.

  Lemma ur_nil : forall h x, ~ ur h [] x.
  Proof. intros h x H. induction H as [x Hin _|y x _ IH _ _]; [destruct Hin | exact IH]. Qed.

  Lemma ur_pop_flagged : forall h x0 wl x, flagged h x0 = true -> ur h (x0 :: wl) x -> ur h wl x.
  Proof.
    intros h x0 wl x Hf H. induction H as [x Hin Hx|y x _ IH Hin Hx].
    - destruct Hin as [->|Hin]; [rewrite Hf in Hx; discriminate | apply ur_base; assumption].
    - eapply ur_step; eassumption.
  Qed.

  Lemma ur_flag_step : forall h x0 wl s x, lookup h x0 = Some s ->
    ur h (x0 :: wl) x ->
    flagged (set_live h x0) x = true \/ ur (set_live h x0) (hdls trav (sval s) ++ wl) x.
  Proof.
    intros h x0 wl s x Hs H. induction H as [x Hin Hx|y x Hy IH Hin Hx].
    - destruct (href_dec x0 x) as [->|Hn].
      + left. eapply flagged_set_live_same; eassumption.
      + right. apply ur_base.
        * destruct Hin as [->|Hin]; [contradiction | apply in_or_app; right; exact Hin].
        * rewrite flagged_set_live_other; assumption.
    - destruct (href_dec x0 x) as [->|Hn].
      + left. eapply flagged_set_live_same; eassumption.
      + right. destruct IH as [Hfy|Hury].
        * (* y has just been flagged: it is x0 *)
          destruct (href_dec x0 y) as [->|Hny].
          -- apply ur_base.
             ++ apply in_or_app; left. unfold cont in Hin. rewrite Hs in Hin. exact Hin.
             ++ rewrite flagged_set_live_other; assumption.
          -- rewrite flagged_set_live_other in Hfy by assumption.
             rewrite (ur_unflagged _ _ _ Hy) in Hfy. discriminate.
        * eapply ur_step; [exact Hury | rewrite cont_set_live; exact Hin | rewrite flagged_set_live_other; assumption].
  Qed.

  (* completeness: whatever is flagged-or-grey before is flagged afterwards *)
  Lemma mark_loop_complete : forall (R : href -> Prop) fuel h wl nb nv h' nb' nv',
    (forall x, R x -> flagged h x = true \/ ur h wl x) ->
    mark_loop trav fuel h wl nb nv = Ok (h', nb', nv') ->
    forall x, R x -> flagged h' x = true.
  Proof.
    intros R fuel. induction fuel as [|fuel IH]; intros h wl nb nv h' nb' nv' Hinv Hrun x HR; cbn [mark_loop] in Hrun; [discriminate|].
    destruct wl as [|x0 wl].
    - injection Hrun as <- _ _. destruct (Hinv x HR) as [H|H]; [exact H | destruct (ur_nil _ _ H)].
    - destruct (lookup h x0) as [s|] eqn:Hs; [|discriminate].
      destruct (live s) eqn:Hl.
      + eapply IH; [|exact Hrun|exact HR]. intros z Hz. destruct (Hinv z Hz) as [H|H]; [left; exact H|right].
        eapply ur_pop_flagged; [|exact H]. unfold flagged. rewrite Hs. exact Hl.
      + eapply IH; [|exact Hrun|exact HR]. intros z Hz. destruct (Hinv z Hz) as [H|H].
        * left. apply flagged_set_live_mono. exact H.
        * eapply ur_flag_step; eassumption.
  Qed.

  (* exactness: nothing else gets flagged *)
  Lemma mark_loop_exact : forall (R : href -> Prop) fuel h wl nb nv h' nb' nv',
    (forall y x, R y -> In x (hdls trav (cont h y)) -> R x) ->
    (forall x, flagged h x = true -> R x) ->
    (forall x, In x wl -> R x) ->
    mark_loop trav fuel h wl nb nv = Ok (h', nb', nv') ->
    forall x, flagged h' x = true -> R x.
  Proof.
    intros R fuel. induction fuel as [|fuel IH]; intros h wl nb nv h' nb' nv' Hcl Hfl Hwl Hrun x Hx; cbn [mark_loop] in Hrun; [discriminate|].
    destruct wl as [|x0 wl].
    - injection Hrun as <- _ _. apply Hfl. exact Hx.
    - destruct (lookup h x0) as [s|] eqn:Hs; [|discriminate].
      destruct (live s) eqn:Hl.
      + eapply IH; [exact Hcl|exact Hfl| |exact Hrun|exact Hx]. intros z Hz. apply Hwl. right. exact Hz.
      + eapply IH; [| | |exact Hrun|exact Hx].
        * intros y z Hy Hz. rewrite cont_set_live in Hz. eapply Hcl; eassumption.
        * intros z Hz. destruct (href_dec x0 z) as [<-|Hn]; [apply Hwl; left; reflexivity|].
          rewrite flagged_set_live_other in Hz by assumption. apply Hfl. exact Hz.
        * intros z Hz. apply in_app_or in Hz. destruct Hz as [Hz|Hz]; [|apply Hwl; right; exact Hz].
          apply (Hcl x0 z); [apply Hwl; left; reflexivity|]. unfold cont. rewrite Hs. exact Hz.
  Qed.

  (* marking changes flags only *)
  Lemma mark_loop_cont : forall fuel h wl nb nv h' nb' nv',
    mark_loop trav fuel h wl nb nv = Ok (h', nb', nv') -> forall y, cont h' y = cont h y.
  Proof.
    induction fuel as [|fuel IH]; intros h wl nb nv h' nb' nv' Hrun y; cbn [mark_loop] in Hrun; [discriminate|].
    destruct wl as [|x0 wl]; [injection Hrun as <- _ _; reflexivity|].
    destruct (lookup h x0) as [s|] eqn:Hs; [|discriminate].
    destruct (live s); [eapply IH; exact Hrun|].
    rewrite (IH _ _ _ _ _ _ _ Hrun y). apply cont_set_live.
  Qed.

  Lemma mark_loop_flag_mono : forall fuel h wl nb nv h' nb' nv',
    mark_loop trav fuel h wl nb nv = Ok (h', nb', nv') -> forall y, flagged h y = true -> flagged h' y = true.
  Proof.
    induction fuel as [|fuel IH]; intros h wl nb nv h' nb' nv' Hrun y Hy; cbn [mark_loop] in Hrun; [discriminate|].
    destruct wl as [|x0 wl]; [injection Hrun as <- _ _; exact Hy|].
    destruct (lookup h x0) as [s|] eqn:Hs; [|discriminate].
    destruct (live s); [eapply IH; eassumption|].
    eapply IH; [exact Hrun|]. apply flagged_set_live_mono. exact Hy.
  Qed.
End Marker.

(* ---------------------------------------------------------------- Heap::mark after the reset *)
Lemma all_rsets_complete : forall s, In s all_rsets.
Proof. destruct s; vm_compute; tauto. Qed.

Lemma hdls_incl : forall t vs ws, incl vs ws -> incl (hdls t vs) (hdls t ws).
Proof.
  intros t vs ws H x Hx. unfold hdls in *. apply in_flat_map in Hx. destruct Hx as [v [Hv Hx]].
  apply in_flat_map. exists v. split; [apply H; exact Hv | exact Hx].
Qed.

Lemma roots_of_incl : forall r s1 s2, incl s1 s2 -> incl (roots_of s1 r) (roots_of s2 r).
Proof.
  intros r s1 s2 H v Hv. unfold roots_of in *. apply in_flat_map in Hv. destruct Hv as [s [Hs Hv]].
  apply in_flat_map. exists s. split; [apply H; exact Hs | exact Hv].
Qed.

Lemma lookup_in_reset : forall l a,
  lookup_in (map (fun s => {| sid := sid s; live := false; sval := sval s |}) l) a =
  option_map (fun s => {| sid := sid s; live := false; sval := sval s |}) (lookup_in l a).
Proof.
  intros l a. unfold lookup_in. induction l as [|s t IH]; cbn [map find option_map]; [reflexivity|].
  cbn [sid]. destruct (N.eqb (sid s) a); [reflexivity | exact IH].
Qed.

Lemma lookup_reset : forall h x,
  lookup (reset_marks h) x = option_map (fun s => {| sid := sid s; live := false; sval := sval s |}) (lookup h x).
Proof. intros h [a|a]; cbn [lookup reset_marks boxes vecs fl_reset with_slots slots]; apply lookup_in_reset. Qed.

Lemma lookup_stale : forall b v st x, lookup {| boxes := b; vecs := v; stale := st |} x = lookup {| boxes := b; vecs := v; stale := [] |} x.
Proof. intros b v st [a|a]; reflexivity. Qed.

Definition restale (h : heap) (st : list val) : heap := {| boxes := boxes h; vecs := vecs h; stale := st |}.

Lemma lookup_restale : forall h st x, lookup (restale h st) x = lookup h x.
Proof. intros h st [a|a]; reflexivity. Qed.

Lemma flagged_reset : forall h st x, flagged (restale (reset_marks h) st) x = false.
Proof.
  intros. unfold flagged. rewrite lookup_restale, lookup_reset. destruct (lookup h x); reflexivity.
Qed.

Lemma cont_reset : forall h st x, cont (restale (reset_marks h) st) x = cont h x.
Proof.
  intros. unfold cont. rewrite lookup_restale, lookup_reset. destruct (lookup h x); reflexivity.
Qed.

Lemma mark_unfold : forall trav h r,
  mark trav (reset_marks h) r =
  let wl := hdls trav (marked_roots r) in
  mark_loop trav (mark_fuel trav (restale (reset_marks h) []) wl) (restale (reset_marks h) []) wl 0 0.
Proof. intros. unfold mark. change mark_queue_cleared with true. reflexivity. Qed.

(* C04: after the mark phase of a full collection every slot the program can reach -- from any root
   set, through any chain of containers of any kind -- is flagged *)
Lemma mark_complete_lemma : forall h r h' nb nv,
  mark marker_par (reset_marks h) r = Ok (h', nb, nv) ->
  forall x, reach h (all_roots r) x -> flagged h' x = true.
Proof.
  intros h r h' nb nv Hm x Hx. rewrite mark_unfold in Hm. cbv zeta in Hm.
  eapply (mark_loop_complete marker_par (reach h (all_roots r))); [|exact Hm|exact Hx].
  clear x Hx. intros x Hx. right.
  assert (Hsub : forall vs, incl (hdls can_contain vs) (hdls marker_par vs)).
  { intro vs. apply hdls_mono. intros k Hk. apply visitors_cover_lemma. exact Hk. }
  induction Hx as [x Hin|y x s _ IH Hs Hin].
  - apply ur_base; [|apply flagged_reset].
    apply Hsub. eapply hdls_incl; [|exact Hin].
    apply roots_of_incl. intros s _. apply roots_cover_lemma.
  - eapply ur_step; [exact IH| |apply flagged_reset].
    rewrite cont_reset. unfold cont. rewrite Hs. apply Hsub. exact Hin.
Qed.

(* C19: ... and nothing else is: a slot that is flagged after the mark phase is reachable *)
Lemma mark_exact_lemma : forall h r h' nb nv,
  mark marker_par (reset_marks h) r = Ok (h', nb, nv) ->
  forall x, flagged h' x = true -> reach h (all_roots r) x.
Proof.
  intros h r h' nb nv Hm x Hx. rewrite mark_unfold in Hm. cbv zeta in Hm.
  assert (Hsub : forall vs, incl (hdls marker_par vs) (hdls can_contain vs)).
  { intro vs. apply hdls_mono. intros k Hk. apply visitors_sound_lemma. left. exact Hk. }
  eapply (mark_loop_exact marker_par (reach h (all_roots r))); [| | |exact Hm|exact Hx].
  - intros y z Hy Hz. rewrite cont_reset in Hz. unfold cont in Hz.
    destruct (lookup h y) as [s|] eqn:Hs; [|destruct Hz].
    eapply reach_step; [exact Hy|exact Hs|apply Hsub; exact Hz].
  - intros z Hz. rewrite flagged_reset in Hz. discriminate.
  - intros z Hz. apply reach_root. apply Hsub. eapply hdls_incl; [|exact Hz].
    apply roots_of_incl. intros s _. apply all_rsets_complete.
Qed.

Lemma mark_cont_lemma : forall h r h' nb nv,
  mark marker_par (reset_marks h) r = Ok (h', nb, nv) -> forall x, cont h' x = cont h x.
Proof.
  intros h r h' nb nv Hm x. rewrite mark_unfold in Hm. cbv zeta in Hm.
  rewrite (mark_loop_cont _ _ _ _ _ _ _ _ _ Hm x). apply cont_reset.
Qed.

(* ---------------------------------------------------------------- fuel *)
Lemma weight_flag_in : forall trav l a s,
  lookup_in l a = Some s -> live s = false ->
  list_sum (map (slot_weight trav) (flag_in l a)) + S (length (hdls trav (sval s))) <= list_sum (map (slot_weight trav) l).
Proof.
  intros trav l a s. unfold lookup_in, flag_in, list_sum. induction l as [|s0 t IH]; cbn [find map fold_right]; [discriminate|].
  intros Hf Hl. destruct (N.eqb (sid s0) a) eqn:E.
  - injection Hf as ->.
    replace (slot_weight trav {| sid := sid s; live := true; sval := sval s |}) with 0 by reflexivity.
    assert (Hw : slot_weight trav s = S (length (hdls trav (sval s)))) by (unfold slot_weight; rewrite Hl; reflexivity).
    assert (Hle : fold_right Nat.add 0 (map (slot_weight trav) (map (fun s1 => if N.eqb (sid s1) a then {| sid := sid s1; live := true; sval := sval s1 |} else s1) t))
                  <= fold_right Nat.add 0 (map (slot_weight trav) t)).
    { clear. induction t as [|s1 t IHt]; cbn [map fold_right]; [lia|].
      destruct (N.eqb (sid s1) a).
      - replace (slot_weight trav {| sid := sid s1; live := true; sval := sval s1 |}) with 0 by reflexivity. lia.
      - lia. }
    lia.
  - specialize (IH Hf Hl). lia.
Qed.

Lemma heap_weight_set_live : forall trav h x s,
  lookup h x = Some s -> live s = false ->
  heap_weight trav (set_live h x) + S (length (hdls trav (sval s))) <= heap_weight trav h.
Proof.
  intros trav h [a|a] s Hs Hl; unfold heap_weight; cbn [set_live boxes vecs with_slots slots lookup] in *.
  - pose proof (weight_flag_in trav _ _ _ Hs Hl). lia.
  - pose proof (weight_flag_in trav _ _ _ Hs Hl). lia.
Qed.

(* the marker never runs out of fuel when started with mark_fuel *)
Lemma mark_loop_fuel : forall trav fuel h wl nb nv,
  length wl + heap_weight trav h < fuel -> mark_loop trav fuel h wl nb nv <> OutOfFuel.
Proof.
  intros trav fuel. induction fuel as [|fuel IH]; intros h wl nb nv Hlt; [lia|]. cbn [mark_loop].
  destruct wl as [|x wl]; [discriminate|].
  destruct (lookup h x) as [s|] eqn:Hs; [|discriminate].
  destruct (live s) eqn:Hl.
  - apply IH. cbn [length] in Hlt. lia.
  - apply IH. pose proof (heap_weight_set_live trav h x s Hs Hl). rewrite app_length. cbn [length] in Hlt. lia.
Qed.

Lemma mark_never_out_of_fuel : forall trav h r, mark trav h r <> OutOfFuel.
Proof.
  intros trav h r. unfold mark. apply mark_loop_fuel. unfold mark_fuel. lia.
Qed.

(* ---------------------------------------------------------------- the allocator *)
Definition cursor_free (f : flist) : Prop :=
  exists s, nth_error (slots f) (cursor f) = Some s /\ live s = false.
Definition counted (f : flist) : Prop := free_cnt f = count_dead (slots f).

Lemma find_free_spec : forall l k, find_free l = Some k -> exists s, nth_error l k = Some s /\ live s = false.
Proof.
  induction l as [|s t IH]; intros k H; cbn [find_free] in H; [discriminate|].
  destruct (live s) eqn:E.
  - destruct (find_free t) as [j|]; [|discriminate]. injection H as <-. cbn [nth_error]. apply IH. reflexivity.
  - injection H as <-. exists s. split; [reflexivity | exact E].
Qed.

Lemma find_free_none : forall l, find_free l = None -> count_dead l = 0.
Proof.
  unfold count_dead. induction l as [|s t IH]; intro H; cbn [find_free filter] in *; [reflexivity|].
  destruct (live s) eqn:E; cbn [negb]; [|discriminate].
  destruct (find_free t); [discriminate|]. apply IH. reflexivity.
Qed.

Lemma nth_error_set_nth_same : forall l n s, n < length l -> nth_error (set_nth n s l) n = Some s.
Proof.
  induction l as [|x t IH]; intros n s H; cbn [length] in H; [lia|].
  destruct n; cbn [set_nth nth_error]; [reflexivity|]. apply IH. lia.
Qed.

Lemma nth_error_set_nth_other : forall l n m s, n <> m -> nth_error (set_nth n s l) m = nth_error l m.
Proof.
  induction l as [|x t IH]; intros n m s H; [destruct n; reflexivity|].
  destruct n, m; cbn [set_nth nth_error]; try reflexivity; [lia|]. apply IH. lia.
Qed.

Lemma length_set_nth : forall l n s, length (set_nth n s l) = length l.
Proof. induction l as [|x t IH]; intros [|n] s; cbn [set_nth length]; try reflexivity; rewrite IH; reflexivity. Qed.

Lemma nth_error_skipn' : forall (l : list slot) n k, nth_error (skipn n l) k = nth_error l (n + k).
Proof.
  induction l as [|x t IH]; intros [|n] k; cbn [skipn Nat.add nth_error]; try reflexivity.
  - destruct k; reflexivity.
  - apply IH.
Qed.

Lemma nth_error_fresh_0 : forall id n, 0 < n -> nth_error (fresh_slots id n) 0 = Some {| sid := id; live := false; sval := [] |}.
Proof. intros id [|n] H; [lia|reflexivity]. Qed.

Lemma fl_grow_by_cursor_free : forall amount f, 0 < Nat.max (length (slots f)) amount -> cursor_free (fl_grow_by amount f).
Proof.
  intros amount f H. unfold cursor_free, fl_grow_by. cbn [slots cursor].
  exists {| sid := next_id f; live := false; sval := [] |}. split; [|reflexivity].
  rewrite nth_error_app2 by lia. rewrite Nat.sub_diag. apply nth_error_fresh_0. exact H.
Qed.

(* C04 alloc_preserves_live: allocate writes exactly one slot, the one at the cursor, which is a
   slot that is flagged free; every other slot is left as it was; and the new cursor again points
   to a free slot *)
Lemma alloc_preserves_live_lemma : forall chunk v f a f',
  0 < chunk -> cursor_free f ->
  fl_allocate chunk v f = Ok (a, f') ->
  (exists s, nth_error (slots f) (cursor f) = Some s /\ live s = false /\ sid s = a /\
             nth_error (slots f') (cursor f) = Some {| sid := a; live := true; sval := v |}) /\
  (forall i, i <> cursor f -> i < length (slots f) -> nth_error (slots f') i = nth_error (slots f) i) /\
  cursor_free f'.
Proof.
  intros chunk v f a f' Hc [s [Hs Hl]] H. unfold fl_allocate in H. rewrite Hs in H.
  destruct (free_cnt f) as [|fc] eqn:Hfc; [discriminate|].
  assert (Hlt : cursor f < length (slots f)) by (apply nth_error_Some; rewrite Hs; discriminate).
  set (l := set_nth (cursor f) {| sid := sid s; live := true; sval := v |} (slots f)) in *.
  assert (Hsame : nth_error l (cursor f) = Some {| sid := sid s; live := true; sval := v |})
    by (apply nth_error_set_nth_same; exact Hlt).
  assert (Hother : forall i, i <> cursor f -> nth_error l i = nth_error (slots f) i)
    by (intros i Hi; apply nth_error_set_nth_other; lia).
  destruct (find_free (skipn (cursor f) l)) as [k|] eqn:Hk.
  - injection H as <- <-. cbn [slots with_cursor with_free with_slots cursor].
    split; [exists s; repeat split; assumption|]. split; [intros i Hi _; apply Hother; exact Hi|].
    apply find_free_spec in Hk. destruct Hk as [s' [Hs' Hl']]. exists s'. split; [|exact Hl'].
    cbn [slots cursor with_cursor with_free with_slots]. rewrite nth_error_skipn' in Hs'. exact Hs'.
  - destruct (Nat.eqb fc 0) eqn:Hz.
    + injection H as <- <-. unfold fl_grow.
      split; [exists s; repeat split; try assumption|].
      * cbn [fl_grow_by slots with_free with_slots]. rewrite nth_error_app1 by (unfold l; rewrite length_set_nth; exact Hlt). exact Hsame.
      * split.
        -- intros i Hi Hil. cbn [fl_grow_by slots with_free with_slots].
           rewrite nth_error_app1 by (unfold l; rewrite length_set_nth; exact Hil). apply Hother. exact Hi.
        -- apply fl_grow_by_cursor_free. lia.
    + destruct (find_free l) as [k|] eqn:Hk2; [|discriminate].
      injection H as <- <-. cbn [slots with_cursor with_free with_slots cursor].
      split; [exists s; repeat split; assumption|]. split; [intros i Hi _; apply Hother; exact Hi|].
      apply find_free_spec in Hk2. destruct Hk2 as [s' [Hs' Hl']]. exists s'. split; assumption.
Qed.

(* C19 reuse_before_growth: allocate extends the slot vector only when the slot it has just
   written was the last free one *)
Lemma reuse_before_growth_lemma : forall chunk v f a f',
  counted f -> fl_allocate chunk v f = Ok (a, f') ->
  length (slots f') = length (slots f) \/
  (count_dead (slots f) = 1 /\ f' = fl_grow chunk (with_free (with_slots f (set_nth (cursor f) {| sid := a; live := true; sval := v |} (slots f))) 0)).
Proof.
  intros chunk v f a f' Hcnt H. unfold fl_allocate in H.
  destruct (nth_error (slots f) (cursor f)) as [s|] eqn:Hs; [|discriminate].
  destruct (free_cnt f) as [|fc] eqn:Hfc; [discriminate|].
  destruct (find_free (skipn (cursor f) _)) as [k|].
  - injection H as <- <-. left. cbn [slots with_cursor with_free with_slots]. apply length_set_nth.
  - destruct (Nat.eqb fc 0) eqn:Hz.
    + injection H as <- <-. right. apply Nat.eqb_eq in Hz. subst fc. split; [|reflexivity].
      unfold counted in Hcnt. lia.
    + destruct (find_free _) as [k|]; [|discriminate]. injection H as <- <-. left.
      cbn [slots with_cursor with_free with_slots]. apply length_set_nth.
Qed.

(* ---------------------------------------------------------------- count bookkeeping *)
Lemma count_dead_app : forall l1 l2, count_dead (l1 ++ l2) = count_dead l1 + count_dead l2.
Proof. intros. unfold count_dead. rewrite filter_app, app_length. reflexivity. Qed.

Lemma count_dead_fresh : forall id n, count_dead (fresh_slots id n) = n.
Proof.
  intros id n. revert id. unfold count_dead. induction n as [|n IH]; intro id; cbn [fresh_slots filter live negb length]; [reflexivity|].
  rewrite IH. reflexivity.
Qed.

Lemma counted_grow_by : forall amount f, counted f -> counted (fl_grow_by amount f).
Proof.
  intros amount f H. unfold counted, fl_grow_by in *. cbn [free_cnt slots].
  rewrite count_dead_app, count_dead_fresh. lia.
Qed.

Lemma count_dead_set_nth : forall l n s s', nth_error l n = Some s -> live s = false -> live s' = true ->
  S (count_dead (set_nth n s' l)) = count_dead l.
Proof.
  unfold count_dead. induction l as [|x t IH]; intros n s s' H Hl Hl'; [destruct n; discriminate|].
  destruct n; cbn [nth_error set_nth filter] in *.
  - injection H as ->. rewrite Hl, Hl'. cbn [negb length]. reflexivity.
  - destruct (negb (live x)); cbn [length]; erewrite <- IH by eassumption; reflexivity.
Qed.

Lemma counted_allocate : forall chunk v f a f',
  cursor_free f -> counted f -> fl_allocate chunk v f = Ok (a, f') -> counted f'.
Proof.
  intros chunk v f a f' [s [Hs Hl]] Hcnt H. unfold fl_allocate in H. rewrite Hs in H.
  destruct (free_cnt f) as [|fc] eqn:Hfc; [discriminate|].
  assert (Hc : S (count_dead (set_nth (cursor f) {| sid := sid s; live := true; sval := v |} (slots f))) = count_dead (slots f))
    by (eapply count_dead_set_nth; [exact Hs|exact Hl|reflexivity]).
  unfold counted in Hcnt.
  destruct (find_free (skipn (cursor f) _)) as [k|].
  - injection H as _ <-. unfold counted. cbn [free_cnt slots with_cursor with_free with_slots]. lia.
  - destruct (Nat.eqb fc 0).
    + injection H as _ <-. apply counted_grow_by. unfold counted. cbn [free_cnt slots with_free with_slots]. lia.
    + destruct (find_free _) as [k|]; [|discriminate]. injection H as _ <-.
      unfold counted. cbn [free_cnt slots with_cursor with_free with_slots]. lia.
Qed.

Lemma counted_weak : forall held f, counted f -> counted (fl_weak held f).
Proof.
  intros held f H. unfold counted, fl_weak in *. cbn [free_cnt slots with_free with_slots]. rewrite H. clear H.
  unfold count_dead. induction (slots f) as [|s t IH]; cbn [map filter length]; [reflexivity|].
  destruct (held (sid s)) eqn:Eh; cbn [live negb andb].
  - rewrite andb_false_r. destruct (negb (live s)); cbn [length]; lia.
  - rewrite andb_true_r. destruct (live s); cbn [negb length]; lia.
Qed.

Lemma counted_recount : forall f, counted (fl_recount f).
Proof. intro f. reflexivity. Qed.

Lemma count_dead_filter_live : forall l, count_dead (filter live l) = 0.
Proof.
  unfold count_dead. induction l as [|s t IH]; cbn [filter]; [reflexivity|].
  destruct (live s) eqn:E; cbn [filter]; [rewrite E; cbn [negb]|]; exact IH.
Qed.

Lemma counted_compact : forall chunk f, counted (fl_compact chunk f).
Proof.
  intros chunk f. unfold fl_compact, fl_grow. apply counted_grow_by. unfold counted. cbn [free_cnt slots].
  symmetry. apply count_dead_filter_live.
Qed.

(* ---------------------------------------------------------------- growth policy *)
(* what value_collection does to (length, grow_count) of the box list after a full collection that
   flagged m slots, and what allocate can do in addition *)
Inductive size_op : Set := SGrow | SCompact (m : nat).

Definition size_step (chunk limit : nat) (o : size_op) (p : nat * nat) : nat * nat :=
  let '(len, gc) := p in
  match o with
  | SGrow => (len + Nat.max len chunk, S gc)
  | SCompact m => (m + Nat.max m chunk, 1)
  end.

Definition size_ok (limit L : nat) (o : size_op) (p : nat * nat) : Prop :=
  match o with
  | SGrow => snd p <= limit            (* the policy grows only while grow_count <= RESET_LIMIT *)
  | SCompact m => m <= L               (* a compaction keeps the flagged = reachable slots *)
  end.

Definition bound (init chunk limit L : nat) : nat :=
  Nat.max init (Nat.max (2 * L) (L + chunk)) * 2 ^ limit.

Lemma pow2_pos : forall n, 0 < 2 ^ n.
Proof. intro n. assert (2 ^ n <> 0) by (apply Nat.pow_nonzero; lia). lia. Qed.

Lemma size_inv_step : forall chunk limit L B o len gc,
  chunk <= B -> 2 * L <= B -> L + chunk <= B ->
  1 <= gc -> len <= B * 2 ^ (gc - 1) -> gc <= S limit ->
  size_ok limit L o (len, gc) ->
  let '(len', gc') := size_step chunk limit o (len, gc) in
  1 <= gc' /\ len' <= B * 2 ^ (gc' - 1) /\ gc' <= S limit.
Proof.
  intros chunk limit L B o len gc Hc H2 HL Hg Hlen Hgl Hok. destruct o as [|m]; cbn [size_step size_ok snd] in *.
  - split; [lia|]. split; [|lia].
    replace (S gc - 1) with (S (gc - 1)) by lia. rewrite Nat.pow_succ_r'.
    pose proof (pow2_pos (gc - 1)) as Hp.
    assert (chunk <= B * 2 ^ (gc - 1)) by nia.
    destruct (Nat.max_spec len chunk) as [[_ ->]|[_ ->]]; nia.
  - split; [lia|]. split; [|lia]. cbn [Nat.sub Nat.pow]. destruct (Nat.max_spec m chunk) as [[_ ->]|[_ ->]]; lia.
Qed.

(* C19 bounded_growth: along any sequence of policy steps in which compactions keep at most L
   slots, the slot vector never exceeds bound(L), whatever the number of steps *)
Lemma bounded_growth_lemma : forall init chunk limit L ops len gc,
  fold_left (fun p o => size_step chunk limit o p) ops (Nat.max 0 init, 1) = (len, gc) ->
  (forall pre o post, ops = pre ++ o :: post ->
     size_ok limit L o (fold_left (fun p o => size_step chunk limit o p) pre (Nat.max 0 init, 1))) ->
  len <= bound init chunk limit L.
Proof.
  intros init chunk limit L ops. set (B := Nat.max init (Nat.max (2 * L) (L + chunk))).
  assert (HB1 : chunk <= B) by (unfold B; lia). assert (HB2 : 2 * L <= B) by (unfold B; lia).
  assert (HB3 : L + chunk <= B) by (unfold B; lia). assert (HB0 : init <= B) by (unfold B; lia).
  assert (Hgen : forall ops p len gc,
             1 <= snd p -> fst p <= B * 2 ^ (snd p - 1) -> snd p <= S limit ->
             fold_left (fun p o => size_step chunk limit o p) ops p = (len, gc) ->
             (forall pre o post, ops = pre ++ o :: post ->
                size_ok limit L o (fold_left (fun p o => size_step chunk limit o p) pre p)) ->
             1 <= gc /\ len <= B * 2 ^ (gc - 1) /\ gc <= S limit).
  { clear ops. induction ops as [|o ops IH]; intros [l g] len gc H1 H2 H3 Hf Hok; cbn [fold_left fst snd] in *.
    - injection Hf as <- <-. repeat split; assumption.
    - pose proof (size_inv_step chunk limit L B o l g HB1 HB2 HB3 H1 H2 H3 (Hok [] o ops eq_refl)) as Hs.
      destruct (size_step chunk limit o (l, g)) as [l' g'] eqn:Es. destruct Hs as [Ha [Hb Hc]].
      eapply (IH (l', g')); cbn [fst snd]; try eassumption.
      intros pre o' post Heq. specialize (Hok (o :: pre) o' post). cbn [app fold_left] in Hok. rewrite Es in Hok.
      apply Hok. rewrite Heq. reflexivity. }
  intros len gc Hf Hok.
  destruct (Hgen ops (Nat.max 0 init, 1) len gc) as [Hg [Hl Hgl]]; cbn [fst snd]; try lia; try assumption.
  - cbn [Nat.sub Nat.pow]. lia.
  - unfold bound. fold B. assert (2 ^ (gc - 1) <= 2 ^ limit) by (apply Nat.pow_le_mono_r; lia). nia.
Qed.

(* ---------------------------------------------------------------- weak boxes *)
(* HeapRef::maybe_get_from_weak for the box inside a WeakBox (no other handle to it exists): the
   contents while the slot is flagged, nothing afterwards *)
Definition weak_value (h : heap) (a : N) : option (list val) :=
  match lookup h (HB a) with Some s => if live s then Some (sval s) else None | None => None end.

Lemma weak_box_clears_lemma : forall h r h' nb nv a,
  mark marker_par (reset_marks h) r = Ok (h', nb, nv) ->
  ~ reach h (all_roots r) (HB a) -> weak_value h' a = None.
Proof.
  intros h r h' nb nv a Hm Hn. unfold weak_value.
  destruct (lookup h' (HB a)) as [s|] eqn:Hs; [|reflexivity].
  destruct (live s) eqn:Hl; [|reflexivity].
  exfalso. apply Hn. eapply mark_exact_lemma; [exact Hm|]. unfold flagged. rewrite Hs. exact Hl.
Qed.

Lemma sweep_complete_lemma : forall h r h' nb nv,
  mark marker_par (reset_marks h) r = Ok (h', nb, nv) ->
  forall x, flagged h' x = true <-> (reach h (all_roots r) x).
Proof.
  intros h r h' nb nv Hm x. split; [eapply mark_exact_lemma; exact Hm | eapply mark_complete_lemma; exact Hm].
Qed.

(* ---------------------------------------------------------------- the recycler before the repair *)
Definition c8 : cfg := {| c_chunk := 8; c_reset_limit := reset_limit; c_full_pct := full_pct;
                          c_vec_weak_pct := vec_weak_pct; c_vec_weak_off_pct := vec_weak_off_pct; c_vec_full_pct := vec_full_pct |}.

Definition after_old_recycler (fill : list hop) : res state :=
  st1 <- run c8 marker_par [OAllocBox false RsTls 0 (RAtom 7)] (init_state 8) ;;
  h2 <- recycle_marks_old marker_par [] (hp st1) ;;
  run c8 marker_par fill {| hp := h2; rt := rt st1 |}.

(* a box held by thread-local storage; the old recycler (reset all bits, mark from the globals it
   visits, recount) runs; eight allocations later the box holds another value although nothing was
   stored into it *)
Lemma recycle_old_refuted_lemma :
  exists fill st,
    (forall o, In o fill -> exists e, o = OAllocBox false RsStack 0 e) /\
    after_old_recycler [] = Ok st /\ ev st (RGet (RRoot RsTls 0) 0) = Some (VAtom 7) /\
    exists st', after_old_recycler fill = Ok st' /\
                reachb (hp st') (all_roots (rt st')) (HB 0) = true /\
                ev st' (RGet (RRoot RsTls 0) 0) = Some (VAtom 99).
Proof.
  exists (repeat (OAllocBox false RsStack 0 (RAtom 99)) 8). eexists. split.
  - intros o Ho. apply repeat_spec in Ho. subst o. eexists. reflexivity.
  - split; [vm_compute; reflexivity|]. split; [vm_compute; reflexivity|].
    eexists. split; [vm_compute; reflexivity|]. split; vm_compute; reflexivity.
Qed.

(* ---------------------------------------------------------------- a full collection keeps what is reachable *)
Lemma lookup_in_app : forall l1 l2 a s, lookup_in l1 a = Some s -> lookup_in (l1 ++ l2) a = Some s.
Proof.
  unfold lookup_in. induction l1 as [|x t IH]; intros l2 a s H; cbn [find app] in *; [discriminate|].
  destruct (N.eqb (sid x) a); [exact H | apply IH; exact H].
Qed.

Lemma lookup_in_filter_live : forall l a s, lookup_in l a = Some s -> live s = true -> lookup_in (filter live l) a = Some s.
Proof.
  unfold lookup_in. induction l as [|x t IH]; intros a s H Hl; cbn [find filter] in *; [discriminate|].
  destruct (N.eqb (sid x) a) eqn:E.
  - injection H as ->. rewrite Hl. cbn [find]. rewrite E. reflexivity.
  - destruct (live x); [cbn [find]; rewrite E|]; apply IH; assumption.
Qed.

Lemma policy_keeps_flagged : forall chunk (b : bool) f a s,
  lookup_in (slots f) a = Some s -> live s = true ->
  lookup_in (slots (if b then fl_compact chunk f else fl_grow chunk f)) a = Some s.
Proof.
  intros chunk b f a s H Hl. destruct b; unfold fl_compact, fl_grow, fl_grow_by; cbn [slots].
  - apply lookup_in_app. apply lookup_in_filter_live; assumption.
  - apply lookup_in_app. exact H.
Qed.

(* C04, collections: a forced full collection of the box list (reset, mark, recount, then grow or
   compact) keeps every slot the program can reach, with its contents, and leaves it flagged *)
Lemma full_collection_keeps_reachable : forall c h r h2,
  full_mark marker_par h r = Ok h2 ->
  forall x s, reach h (all_roots r) x -> lookup h x = Some s ->
  exists s',
    lookup {| boxes := if Nat.ltb (c_reset_limit c) (grow_cnt (boxes h2))
                       then fl_compact (c_chunk c) (boxes h2) else fl_grow (c_chunk c) (boxes h2);
              vecs := vecs h2; stale := stale h2 |} x = Some s' /\
    sval s' = sval s /\ live s' = true.
Proof.
  intros c h r h2 Hf x s Hx Hs. unfold full_mark in Hf.
  destruct (mark marker_par (reset_marks h) r) as [[[h1 nb] nv]| |w] eqn:Hm; cbn [bind] in Hf; try discriminate.
  injection Hf as <-.
  pose proof (mark_complete_lemma _ _ _ _ _ Hm x Hx) as Hfl.
  pose proof (mark_cont_lemma _ _ _ _ _ Hm x) as Hc.
  unfold flagged in Hfl. unfold cont in Hc. rewrite Hs in Hc.
  destruct (lookup h1 x) as [s1|] eqn:H1; [|discriminate].
  exists s1. split; [|split; [exact Hc | exact Hfl]].
  destruct x as [a|a]; cbn [lookup boxes vecs with_free slots grow_cnt] in *.
  - apply policy_keeps_flagged; assumption.
  - exact H1.
Qed.
