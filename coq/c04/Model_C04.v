(* C04 / C19 -- model of the mark-and-sweep heap of crates/steel-core/src/values/closed.rs
   (definitions only; proofs in Proofs_C04*.v).

   closed.rs                                         here
   ------------------------------------------------  -------------------------------------------
   HeapAllocated{reachable, value}                   slot{live, sval}  (+ sid: the identity of the
                                                     Arc allocation; a HeapRef is a Weak pointer to it)
   FreeList{elements,cursor,alloc_count,grow_count,  flist{slots,cursor,free_cnt,grow_cnt,run_weak}
            should_run_weak}
   Heap{memory_free_list, vector_free_list,          heap{boxes, vecs, stale}
        mark_and_sweep_queue}
   FreeList::grow_by / grow / allocate /             fl_grow_by / fl_grow / fl_allocate /
     weak_collection / mark_all_unreachable /          fl_weak / fl_reset / fl_compact / fl_recount
     compact / recount
   Heap::value_collection / vector_collection /      value_collection / vector_collection /
     allocate / allocate_vector / mark                 alloc_box / alloc_vec / mark
   GlobalSlotRecycler::recycle (use of mark bits)    recycle_marks
   The constants, the value kinds and the traversing arms of the markers come from gen/Gen_C04.v,
   regenerated from the sources by every run of the check. *)
From Coq Require Import String List Arith Lia Bool ZArith NArith.
From SV Require Import gen.Gen_C04.
Import ListNotations.

(* ---------------------------------------------------------------- values *)
(* identities of slots (the Arc allocations) are binary numbers *)
Inductive href : Set := HB (a : N) | HV (a : N).

Definition href_eqb (x y : href) : bool :=
  match x, y with
  | HB a, HB b => N.eqb a b
  | HV a, HV b => N.eqb a b
  | _, _ => false
  end.

(* A value: an atom, a handle (SteelVal::HeapAllocated / SteelVal::MutableVector hold a HeapRef), or
   an immutable reference-counted container of kind k (list, pair, closure with its captures,
   continuation with its stack, struct, hash map, ...) holding other values. *)
Inductive val : Set :=
| VAtom (n : Z)
| VBox (a : N)
| VVec (a : N)
| VNode (k : kind) (cs : list val).

(* The handles found in v by a traversal that descends exactly into the kinds selected by [trav]:
   one arm per value kind. *)
Fixpoint hdl (trav : kind -> bool) (v : val) : list href :=
  match v with
  | VAtom _ => []
  | VBox a => if trav KHeapAllocated then [HB a] else []
  | VVec a => if trav KMutableVector then [HV a] else []
  | VNode k cs => if trav k then flat_map (hdl trav) cs else []
  end.

Definition hdls (trav : kind -> bool) (vs : list val) : list href := flat_map (hdl trav) vs.

Definition everything (_ : kind) : bool := true.

(* ---------------------------------------------------------------- free lists *)
Record slot : Set := { sid : N; live : bool; sval : list val }.

Record flist : Set := {
  slots : list slot;
  cursor : nat;
  free_cnt : nat;      (* alloc_count: "available count" *)
  grow_cnt : nat;
  run_weak : bool;
  next_id : N          (* supply of identities for new Arc allocations *)
}.

Inductive res (A : Type) : Type := Ok (a : A) | OutOfFuel | Panic (why : string).
Arguments Ok {A} a.
Arguments OutOfFuel {A}.
Arguments Panic {A} why.

Definition bind {A B} (r : res A) (f : A -> res B) : res B :=
  match r with Ok a => f a | OutOfFuel => OutOfFuel | Panic w => Panic w end.
Notation "x <- r ;; k" := (bind r (fun x => k)) (at level 61, r at next level, right associativity).

Fixpoint fresh_slots (id : N) (n : nat) : list slot :=
  match n with
  | 0 => []
  | S m => {| sid := id; live := false; sval := [] |} :: fresh_slots (N.succ id) m
  end.

(* FreeList::grow_by (closed.rs sync impl) *)
Definition fl_grow_by (amount : nat) (f : flist) : flist :=
  let current := Nat.max (length (slots f)) amount in
  {| slots := slots f ++ fresh_slots (next_id f) current;
     cursor := length (slots f);
     free_cnt := free_cnt f + current;
     grow_cnt := S (grow_cnt f);
     run_weak := run_weak f;
     next_id := (next_id f + N.of_nat current)%N |}.

Definition fl_grow (chunk : nat) (f : flist) : flist := fl_grow_by chunk f.

(* FreeList::new: grow_by(init) on the empty list *)
Definition fl_new (init : nat) : flist :=
  fl_grow_by init {| slots := []; cursor := 0; free_cnt := 0; grow_cnt := 0; run_weak := true; next_id := 0%N |}.

Fixpoint find_free (l : list slot) : option nat :=
  match l with
  | [] => None
  | s :: t => if live s then option_map S (find_free t) else Some 0
  end.

Fixpoint set_nth (n : nat) (s : slot) (l : list slot) : list slot :=
  match l, n with
  | [], _ => []
  | _ :: t, 0 => s :: t
  | x :: t, S m => x :: set_nth m s t
  end.

Definition with_slots (f : flist) (l : list slot) : flist :=
  {| slots := l; cursor := cursor f; free_cnt := free_cnt f; grow_cnt := grow_cnt f;
     run_weak := run_weak f; next_id := next_id f |}.
Definition with_cursor (f : flist) (c : nat) : flist :=
  {| slots := slots f; cursor := c; free_cnt := free_cnt f; grow_cnt := grow_cnt f;
     run_weak := run_weak f; next_id := next_id f |}.
Definition with_free (f : flist) (c : nat) : flist :=
  {| slots := slots f; cursor := cursor f; free_cnt := c; grow_cnt := grow_cnt f;
     run_weak := run_weak f; next_id := next_id f |}.
Definition with_weak (f : flist) (b : bool) : flist :=
  {| slots := slots f; cursor := cursor f; free_cnt := free_cnt f; grow_cnt := grow_cnt f;
     run_weak := b; next_id := next_id f |}.

(* FreeList::allocate: write the slot at the cursor, alloc_count -= 1 (a debug-build panic on
   underflow), then move the cursor: next free slot at or after it, else grow when alloc_count = 0,
   else the first free slot from the start (unwrap). Returns the identity of the written slot. *)
Definition fl_allocate (chunk : nat) (v : list val) (f : flist) : res (N * flist) :=
  match nth_error (slots f) (cursor f) with
  | None => Panic "allocate: cursor out of bounds"
  | Some s =>
    match free_cnt f with
    | 0 => Panic "allocate: alloc_count underflow"
    | S fc =>
      let l := set_nth (cursor f) {| sid := sid s; live := true; sval := v |} (slots f) in
      let f1 := with_free (with_slots f l) fc in
      match find_free (skipn (cursor f) l) with
      | Some k => Ok (sid s, with_cursor f1 (cursor f + k))
      | None =>
        if Nat.eqb fc 0 then Ok (sid s, fl_grow chunk f1)
        else match find_free l with
             | Some k => Ok (sid s, with_cursor f1 k)
             | None => Panic "allocate: no free slot although alloc_count > 0"
             end
      end
    end
  end.

Definition count_dead (l : list slot) : nat := length (filter (fun s => negb (live s)) l).
Definition count_live (l : list slot) : nat := length (filter live l).

(* FreeList::weak_collection: a slot nobody holds a HeapRef to (weak_count = 0) is flagged free *)
Definition fl_weak (held : N -> bool) (f : flist) : flist :=
  let dropped := length (filter (fun s => live s && negb (held (sid s))) (slots f)) in
  with_free (with_slots f (map (fun s => if held (sid s) then s
                                         else {| sid := sid s; live := false; sval := sval s |}) (slots f)))
            (free_cnt f + dropped).

(* FreeList::mark_all_unreachable *)
Definition fl_reset (f : flist) : flist :=
  with_slots f (map (fun s => {| sid := sid s; live := false; sval := sval s |}) (slots f)).

Definition fl_recount (f : flist) : flist := with_free f (count_dead (slots f)).

(* FreeList::compact (sync build, no background dropper): keep the flagged slots, zero the counts,
   extend *)
Definition fl_compact (chunk : nat) (f : flist) : flist :=
  fl_grow chunk {| slots := filter live (slots f); cursor := cursor f; free_cnt := 0; grow_cnt := 0;
                   run_weak := run_weak f; next_id := next_id f |}.

(* FreeList<Vec>::calculate_slots_reachable: contents of unflagged vectors are cleared eagerly *)
Definition fl_clear_dead (f : flist) : flist :=
  with_slots f (map (fun s => if live s then s else {| sid := sid s; live := false; sval := [] |}) (slots f)).

(* percent_full() > p/100, in exact arithmetic (equal to the f64 comparison for lengths < 2^40) *)
Definition fuller_than (p : nat) (f : flist) : bool :=
  N.ltb (N.of_nat p * N.of_nat (length (slots f))) (100 * N.of_nat (length (slots f) - free_cnt f)).

Definition gt_limit (limit n : nat) : bool := Nat.ltb limit n.

(* ---------------------------------------------------------------- heap *)
Record heap : Set := { boxes : flist; vecs : flist; stale : list val }.

Definition lookup_in (l : list slot) (a : N) : option slot := find (fun s => N.eqb (sid s) a) l.
Definition lookup (h : heap) (x : href) : option slot :=
  match x with HB a => lookup_in (slots (boxes h)) a | HV a => lookup_in (slots (vecs h)) a end.

Definition flag_in (l : list slot) (a : N) : list slot :=
  map (fun s => if N.eqb (sid s) a then {| sid := sid s; live := true; sval := sval s |} else s) l.

Definition set_live (h : heap) (x : href) : heap :=
  match x with
  | HB a => {| boxes := with_slots (boxes h) (flag_in (slots (boxes h)) a); vecs := vecs h; stale := stale h |}
  | HV a => {| boxes := boxes h; vecs := with_slots (vecs h) (flag_in (slots (vecs h)) a); stale := stale h |}
  end.

(* The marker (MarkAndSweepContext::mark_heap_reference / mark_heap_vector + visit): pop a handle;
   a flagged slot is skipped; otherwise flag it, count it and push what its contents hold.
   A handle whose slot no longer exists makes strong_ptr() panic. *)
Fixpoint mark_loop (trav : kind -> bool) (fuel : nat) (h : heap) (wl : list href) (nb nv : nat)
  : res (heap * nat * nat) :=
  match fuel with
  | 0 => OutOfFuel
  | S fuel' =>
    match wl with
    | [] => Ok (h, nb, nv)
    | x :: wl' =>
      match lookup h x with
      | None => Panic "mark: handle to a dropped slot"
      | Some s =>
        if live s then mark_loop trav fuel' h wl' nb nv
        else mark_loop trav fuel' (set_live h x) (hdls trav (sval s) ++ wl')
                       (match x with HB _ => S nb | HV _ => nb end)
                       (match x with HB _ => nv | HV _ => S nv end)
      end
    end
  end.

(* fuel that always suffices: see mark_loop_fuel in the proofs *)
Definition slot_weight (trav : kind -> bool) (s : slot) : nat :=
  if live s then 0 else S (length (hdls trav (sval s))).
Definition heap_weight (trav : kind -> bool) (h : heap) : nat :=
  list_sum (map (slot_weight trav) (slots (boxes h))) + list_sum (map (slot_weight trav) (slots (vecs h))).
Definition mark_fuel (trav : kind -> bool) (h : heap) (wl : list href) : nat :=
  S (length wl + heap_weight trav h).

(* ---------------------------------------------------------------- roots *)
Record roots : Set := {
  r_pending : list val;       (* the value being allocated *)
  r_stack : list val;         (* operand stack of the allocating thread: locals, pending arguments, temporaries *)
  r_frames : list val;        (* captures of the functions of its frames *)
  r_globals : list val;
  r_tls : list val;
  r_host : list val;          (* GLOBAL_ROOTS: as_rooted *)
  r_tstack : list val;        (* other threads: stacks *)
  r_tframes : list val;       (* other threads: frames' and current frame's captures *)
  r_ttls : list val           (* other threads: thread-local storage *)
}.

Definition rsel (r : roots) (s : rset) : list val :=
  match s with
  | RsPending => r_pending r | RsStack => r_stack r | RsFrames => r_frames r | RsGlobals => r_globals r
  | RsTls => r_tls r | RsHost => r_host r | RsThreadStack => r_tstack r | RsThreadFrames => r_tframes r
  | RsThreadTls => r_ttls r
  end.

Definition roots_of (sets : list rset) (r : roots) : list val := flat_map (rsel r) sets.
Definition all_roots (r : roots) : list val := roots_of all_rsets r.
(* what Heap::mark pushes *)
Definition marked_roots (r : roots) : list val := roots_of marked_root_sets r.

(* Heap::mark (+ the accounting of value_collection / vector_collection): mark from the pushed roots
   -- and, when the root queue is not emptied, from everything pushed by earlier collections *)
Definition mark (trav : kind -> bool) (h : heap) (r : roots) : res (heap * nat * nat) :=
  let q := if mark_queue_cleared then marked_roots r else marked_roots r ++ stale h in
  let h0 := {| boxes := boxes h; vecs := vecs h; stale := if mark_queue_cleared then [] else q |} in
  let wl := hdls trav q in
  mark_loop trav (mark_fuel trav h0 wl) h0 wl 0 0.

Definition reset_marks (h : heap) : heap :=
  {| boxes := fl_reset (boxes h); vecs := fl_reset (vecs h); stale := stale h |}.

(* every HeapRef that exists anywhere: in a root, or in the contents of any slot (free slots keep
   their contents until they are written again) *)
Definition held_list (h : heap) (r : roots) : list href :=
  hdls everything (all_roots r) ++
  flat_map (fun s => hdls everything (sval s)) (slots (boxes h)) ++
  flat_map (fun s => hdls everything (sval s)) (slots (vecs h)).

Definition held_in (hl : list href) (x : href) : bool := existsb (href_eqb x) hl.
Definition held (h : heap) (r : roots) (x : href) : bool := held_in (held_list h r) x.

Record cfg : Set := { c_chunk : nat; c_reset_limit : nat; c_full_pct : nat;
                      c_vec_weak_pct : nat; c_vec_weak_off_pct : nat; c_vec_full_pct : nat }.
Definition std_cfg : cfg :=
  {| c_chunk := extend_chunk; c_reset_limit := reset_limit; c_full_pct := full_pct;
     c_vec_weak_pct := vec_weak_pct; c_vec_weak_off_pct := vec_weak_off_pct; c_vec_full_pct := vec_full_pct |}.

Definition sat_sub (a b : nat) : nat := a - b.

(* the full-collection part shared by both collections: reset all bits, mark, recompute both counts *)
Definition full_mark (trav : kind -> bool) (h : heap) (r : roots) : res heap :=
  m <- mark trav (reset_marks h) r ;;
  let '(h1, nb, nv) := m in
  Ok {| boxes := with_free (boxes h1) (sat_sub (length (slots (boxes h1))) nb);
        vecs := with_free (vecs h1) (sat_sub (length (slots (vecs h1))) nv);
        stale := stale h1 |}.

(* Heap::value_collection *)
Definition value_collection (c : cfg) (trav : kind -> bool) (force : bool) (h : heap) (r : roots) : res heap :=
  if fuller_than (c_full_pct c) (boxes h) || force then
    let hl := held_list h r in
    let h1 := {| boxes := fl_weak (fun a => held_in hl (HB a)) (boxes h); vecs := vecs h; stale := stale h |} in
    if fuller_than (c_full_pct c) (boxes h1) || force then
      h2 <- full_mark trav h1 r ;;
      Ok {| boxes := if Nat.ltb (c_reset_limit c) (grow_cnt (boxes h2))
                     then fl_compact (c_chunk c) (boxes h2) else fl_grow (c_chunk c) (boxes h2);
            vecs := vecs h2; stale := stale h2 |}
    else Ok h1
  else Ok h.

(* Heap::vector_collection *)
Definition vector_collection (c : cfg) (trav : kind -> bool) (force : bool) (h : heap) (r : roots) : res heap :=
  let h0 :=
    if fuller_than (c_vec_weak_pct c) (vecs h) && run_weak (vecs h) then
      let hl := held_list h r in
      let v1 := fl_weak (fun a => held_in hl (HV a)) (vecs h) in
      {| boxes := boxes h;
         vecs := if fuller_than (c_vec_weak_off_pct c) v1 then with_weak v1 false else v1;
         stale := stale h |}
    else h in
  if fuller_than (c_vec_full_pct c) (vecs h0) || force then
    let hl0 := held_list h0 r in
    let h1 := {| boxes := boxes h0;
                 vecs := fl_clear_dead (fl_weak (fun a => held_in hl0 (HV a)) (vecs h0));
                 stale := stale h0 |} in
    if fuller_than (c_vec_full_pct c) (vecs h1) || force then
      h2 <- full_mark trav h1 r ;;
      Ok {| boxes := boxes h2;
            vecs := with_weak (if Nat.ltb (c_reset_limit c) (grow_cnt (vecs h2))
                               then fl_compact (c_chunk c) (vecs h2) else fl_grow (c_chunk c) (vecs h2)) true;
            stale := stale h2 |}
    else Ok h1
  else Ok h0.

(* Heap::allocate / Heap::allocate_vector; [r] has the new contents in r_pending *)
Definition alloc_box (c : cfg) (trav : kind -> bool) (force : bool) (v : val) (h : heap) (r : roots)
  : res (N * heap) :=
  h1 <- value_collection c trav force h r ;;
  p <- fl_allocate (c_chunk c) [v] (boxes h1) ;;
  Ok (fst p, {| boxes := snd p; vecs := vecs h1; stale := stale h1 |}).

Definition alloc_vec (c : cfg) (trav : kind -> bool) (force : bool) (vs : list val) (h : heap) (r : roots)
  : res (N * heap) :=
  h1 <- vector_collection c trav force h r ;;
  p <- fl_allocate (c_chunk c) vs (vecs h1) ;;
  Ok (fst p, {| boxes := boxes h1; vecs := snd p; stale := stale h1 |}).

(* GlobalSlotRecycler::recycle, as far as the heap is concerned.  [visited]: the global roots it
   traverses before its candidate set empties (a prefix-closed subset of the globals only).
   Old shape: reset all bits, mark from those, recount.  New shape: the bits are put back. *)
Definition recycle_marks (trav : kind -> bool) (visited : list val) (h : heap) : res heap :=
  if recycler_restores_marks then Ok h
  else
    let h0 := reset_marks h in
    let wl := hdls trav visited in
    m <- mark_loop trav (mark_fuel trav h0 wl) h0 wl 0 0 ;;
    let '(h1, _, _) := m in
    Ok {| boxes := fl_recount (boxes h1); vecs := fl_recount (vecs h1); stale := stale h1 |}.

(* the pre-repair recycler, kept for the refutation witness *)
Definition recycle_marks_old (trav : kind -> bool) (visited : list val) (h : heap) : res heap :=
  let h0 := reset_marks h in
  let wl := hdls trav visited in
  m <- mark_loop trav (mark_fuel trav h0 wl) h0 wl 0 0 ;;
  let '(h1, _, _) := m in
  Ok {| boxes := fl_recount (boxes h1); vecs := fl_recount (vecs h1); stale := stale h1 |}.

(* ---------------------------------------------------------------- programs *)
(* expressions over the roots *)
Inductive rv : Set :=
| RAtom (n : Z)
| RRoot (s : rset) (k : nat)
| RNode (kd : kind) (cs : list rv)
| RGet (e : rv) (i : nat).           (* unbox / vector-ref *)

Record state : Set := { hp : heap; rt : roots }.

Fixpoint ev (st : state) (e : rv) : option val :=
  match e with
  | RAtom n => Some (VAtom n)
  | RRoot s k => Some (nth k (rsel (rt st) s) (VAtom 0))
  | RNode kd cs =>
    option_map (VNode kd)
      (fold_right (fun c acc => match ev st c, acc with Some v, Some l => Some (v :: l) | _, _ => None end)
                  (Some []) cs)
  | RGet e' i =>
    match ev st e' with
    | Some (VBox a) => match lookup (hp st) (HB a) with Some s => nth_error (sval s) i | None => None end
    | Some (VVec a) => match lookup (hp st) (HV a) with Some s => nth_error (sval s) i | None => None end
    | _ => None
    end
  end.

Fixpoint set_nth_val (n : nat) (v : val) (l : list val) : list val :=
  match n, l with
  | 0, [] => [v]
  | 0, _ :: t => v :: t
  | S m, [] => VAtom 0 :: set_nth_val m v []
  | S m, x :: t => x :: set_nth_val m v t
  end.

Definition set_root (r : roots) (s : rset) (k : nat) (v : val) : roots :=
  let upd l := set_nth_val k v l in
  {| r_pending := if match s with RsPending => true | _ => false end then upd (r_pending r) else r_pending r;
     r_stack := if match s with RsStack => true | _ => false end then upd (r_stack r) else r_stack r;
     r_frames := if match s with RsFrames => true | _ => false end then upd (r_frames r) else r_frames r;
     r_globals := if match s with RsGlobals => true | _ => false end then upd (r_globals r) else r_globals r;
     r_tls := if match s with RsTls => true | _ => false end then upd (r_tls r) else r_tls r;
     r_host := if match s with RsHost => true | _ => false end then upd (r_host r) else r_host r;
     r_tstack := if match s with RsThreadStack => true | _ => false end then upd (r_tstack r) else r_tstack r;
     r_tframes := if match s with RsThreadFrames => true | _ => false end then upd (r_tframes r) else r_tframes r;
     r_ttls := if match s with RsThreadTls => true | _ => false end then upd (r_ttls r) else r_ttls r |}.

Definition with_pending (r : roots) (vs : list val) : roots :=
  {| r_pending := vs; r_stack := r_stack r; r_frames := r_frames r; r_globals := r_globals r;
     r_tls := r_tls r; r_host := r_host r; r_tstack := r_tstack r; r_tframes := r_tframes r; r_ttls := r_ttls r |}.

Definition store_in (l : list slot) (a : N) (i : nat) (v : val) : list slot :=
  map (fun s => if N.eqb (sid s) a then {| sid := sid s; live := live s; sval := set_nth_val i v (sval s) |} else s) l.

Definition store (h : heap) (x : href) (i : nat) (v : val) : heap :=
  match x with
  | HB a => {| boxes := with_slots (boxes h) (store_in (slots (boxes h)) a i v); vecs := vecs h; stale := stale h |}
  | HV a => {| boxes := boxes h; vecs := with_slots (vecs h) (store_in (slots (vecs h)) a i v); stale := stale h |}
  end.

(* heap operations; [force]: a full collection is forced before this allocation *)
Inductive hop : Set :=
| OAllocBox (force : bool) (dst : rset) (k : nat) (e : rv)
| OAllocVec (force : bool) (dst : rset) (k : nat) (es : list rv)
| OStore (cell : rv) (i : nat) (e : rv)
| OSetRoot (dst : rset) (k : nat) (e : rv)
| OCollect                                    (* #%gc-collect: Heap::collection(force_full = true) *)
| ORecycle (n : nat).                         (* recycler run that visits the first n globals *)

Fixpoint evs (st : state) (es : list rv) : option (list val) :=
  match es with
  | [] => Some []
  | e :: t => match ev st e, evs st t with Some v, Some l => Some (v :: l) | _, _ => None end
  end.

Definition step (c : cfg) (trav : kind -> bool) (o : hop) (st : state) : res state :=
  match o with
  | OAllocBox force dst k e =>
    match ev st e with
    | None => Panic "bad expression"
    | Some v =>
      p <- alloc_box c trav force v (hp st) (with_pending (rt st) [v]) ;;
      Ok {| hp := snd p; rt := set_root (with_pending (rt st) []) dst k (VBox (fst p)) |}
    end
  | OAllocVec force dst k es =>
    match evs st es with
    | None => Panic "bad expression"
    | Some vs =>
      p <- alloc_vec c trav force vs (hp st) (with_pending (rt st) vs) ;;
      Ok {| hp := snd p; rt := set_root (with_pending (rt st) []) dst k (VVec (fst p)) |}
    end
  | OStore cell i e =>
    match ev st cell, ev st e with
    | Some (VBox a), Some v => Ok {| hp := store (hp st) (HB a) 0 v; rt := rt st |}
    | Some (VVec a), Some v => Ok {| hp := store (hp st) (HV a) i v; rt := rt st |}
    | _, _ => Panic "bad expression"
    end
  | OSetRoot dst k e =>
    match ev st e with
    | Some v => Ok {| hp := hp st; rt := set_root (rt st) dst k v |}
    | None => Panic "bad expression"
    end
  | OCollect =>
    h <- value_collection c trav true (hp st) (with_pending (rt st) [VAtom 0]) ;;
    Ok {| hp := h; rt := rt st |}
  | ORecycle n =>
    h <- recycle_marks trav (firstn n (r_globals (rt st))) (hp st) ;;
    Ok {| hp := h; rt := rt st |}
  end.

Fixpoint run (c : cfg) (trav : kind -> bool) (ops : list hop) (st : state) : res state :=
  match ops with
  | [] => Ok st
  | o :: t => st' <- step c trav o st ;; run c trav t st'
  end.

Definition no_roots : roots :=
  {| r_pending := []; r_stack := []; r_frames := []; r_globals := []; r_tls := []; r_host := [];
     r_tstack := []; r_tframes := []; r_ttls := [] |}.

Definition init_heap (init : nat) : heap := {| boxes := fl_new init; vecs := fl_new init; stale := [] |}.
Definition init_state (init : nat) : state := {| hp := init_heap init; rt := no_roots |}.

(* the program-level notion: x can be reached from the roots through any chain of containers *)
Inductive reach (h : heap) (vs : list val) : href -> Prop :=
| reach_root x : In x (hdls can_contain vs) -> reach h vs x
| reach_step y x s : reach h vs y -> lookup h y = Some s -> In x (hdls can_contain (sval s)) -> reach h vs x.

(* executable reachability: the marker with one arm per kind that can hold values, run on a copy of
   the heap whose bits are all cleared; the fuel bound is mark_fuel *)
Definition reachb (h : heap) (vs : list val) (x : href) : bool :=
  let h0 := reset_marks h in
  let wl := hdls can_contain vs in
  match mark_loop can_contain (mark_fuel can_contain h0 wl) h0 wl 0 0 with
  | Ok (h1, _, _) => match lookup h1 x with Some s => live s | None => false end
  | _ => false
  end.

(* ---------------------------------------------------------------- observations (correspondence) *)
Local Open Scope string_scope.
Fixpoint nat_digits (fuel n : nat) (acc : string) : string :=
  match fuel with
  | 0 => acc
  | S f => let acc' := String (Ascii.ascii_of_nat (48 + n mod 10)) acc in
           if Nat.eqb (n / 10) 0 then acc' else nat_digits f (n / 10) acc'
  end.
Definition show_nat (n : nat) : string := nat_digits (S n) n "".
Definition show_Z (z : Z) : string :=
  match z with Z0 => "0" | Zpos p => show_nat (Pos.to_nat p) | Zneg p => "-" ++ show_nat (Pos.to_nat p) end.

(* contents as the scripts print them: atoms as numbers, a box as [..], a vector as <..>, an immutable
   container as (..); depth-bounded so that cycles print as "~" *)
Fixpoint show_val (d : nat) (h : heap) (v : val) : string :=
  match d with
  | 0 => "~"
  | S d' =>
    let many := fix many (l : list val) : string :=
                  match l with [] => "" | [x] => show_val d' h x | x :: t => show_val d' h x ++ " " ++ many t end in
    match v with
    | VAtom n => show_Z n
    | VBox a => match lookup h (HB a) with Some s => "[" ++ many (sval s) ++ "]" | None => "!" end
    | VVec a => match lookup h (HV a) with Some s => "<" ++ many (sval s) ++ ">" | None => "!" end
    | VNode _ cs => "(" ++ many cs ++ ")"
    end
  end.

Definition show_flist (f : flist) : string :=
  show_nat (length (slots f)) ++ " " ++ show_nat (count_dead (slots f)) ++ " " ++ show_nat (free_cnt f)
  ++ " " ++ show_nat (grow_cnt f).

(* total / unflagged / alloc_count / grow_count of both lists, then the printed contents of the
   listed root expressions *)
Definition observe (d : nat) (st : state) (es : list rv) : string :=
  show_flist (boxes (hp st)) ++ " | " ++ show_flist (vecs (hp st)) ++ " |" ++
  fold_right (fun e acc => " " ++ match ev st e with Some v => show_val d (hp st) v | None => "?" end ++ acc) "" es.

Definition show_res (d : nat) (r : res state) (es : list rv) : string :=
  match r with Ok st => observe d st es | OutOfFuel => "OUT-OF-FUEL" | Panic w => "PANIC " ++ w end.

(* observations at marked points of one run: (operations, expressions observed after them, operations) *)
Fixpoint run_trace (c : cfg) (trav : kind -> bool) (d : nat) (items : list (list hop * list rv * list hop)) (st : state) : string :=
  match items with
  | [] => ""
  | (pre, es, post) :: t =>
    match run c trav pre st with
    | Ok st1 => observe d st1 es ++ " ## " ++
                match run c trav post st1 with
                | Ok st2 => run_trace c trav d t st2
                | OutOfFuel => "OUT-OF-FUEL"
                | Panic w => "PANIC " ++ w
                end
    | OutOfFuel => "OUT-OF-FUEL"
    | Panic w => "PANIC " ++ w
    end
  end.

(* a state that agrees with statistics read from the engine: [nlive] engine-internal boxes / vectors
   (kept alive by a host root), the rest free *)
Fixpoint engine_slots (id : N) (n nlive : nat) : list slot :=
  match n with
  | 0 => []
  | S m => {| sid := id; live := negb (Nat.eqb nlive 0); sval := [] |} :: engine_slots (N.succ id) m (pred nlive)
  end.
Definition engine_flist (total nlive growc : nat) : flist :=
  {| slots := engine_slots 0%N total nlive; cursor := nlive; free_cnt := total - nlive; grow_cnt := growc;
     run_weak := true; next_id := N.of_nat total |}.
Definition engine_state (bt bl bg vt vl vg : nat) : state :=
  {| hp := {| boxes := engine_flist bt bl bg; vecs := engine_flist vt vl vg; stale := [] |};
     rt := set_root no_roots RsHost 0 (VNode KListV (map (fun i => VBox (N.of_nat i)) (seq 0 bl) ++ map (fun i => VVec (N.of_nat i)) (seq 0 vl))) |}.

(* ---------------------------------------------------------------- the marker's bounded work queue *)
(* MarkAndSweepContextRefQueue: a worker pushes on its local queue (a Vec with a fixed capacity) and,
   when that is full (len == capacity), on the shared queue; it pops the local queue first and the
   shared queue when the local one is empty; ParallelMarker::mark puts the roots on the shared queue.
   The booleans say what the code does on each path (generated: pq_* in Gen_C04.v). *)
Record pq_cfg : Set := { pq_cap : nat; pq_spill : bool; pq_local : bool; pq_drain : bool; pq_roots : bool }.

Definition gen_pq : pq_cfg :=
  {| pq_cap := pq_local_capacity; pq_spill := pq_spill_enqueues; pq_local := pq_local_enqueues;
     pq_drain := pq_drain_both; pq_roots := pq_roots_enqueued |}.

Definition pq_push (q : pq_cfg) (ls : list href * list href) (x : href) : list href * list href :=
  if Nat.leb (pq_cap q) (length (fst ls))
  then (if pq_spill q then (fst ls, x :: snd ls) else ls)
  else (if pq_local q then (x :: fst ls, snd ls) else ls).

Definition pq_push_all (q : pq_cfg) (xs : list href) (ls : list href * list href) : list href * list href :=
  fold_left (pq_push q) xs ls.

Definition pq_pop (q : pq_cfg) (ls : list href * list href) : option (href * (list href * list href)) :=
  match ls with
  | (x :: l, s) => Some (x, (l, s))
  | ([], x :: s) => if pq_drain q then Some (x, ([], s)) else None
  | ([], []) => None
  end.

Fixpoint mark_pq (trav : kind -> bool) (q : pq_cfg) (fuel : nat) (h : heap) (ls : list href * list href)
  (nb nv : nat) : res (heap * nat * nat) :=
  match fuel with
  | 0 => OutOfFuel
  | S fuel' =>
    match pq_pop q ls with
    | None => Ok (h, nb, nv)
    | Some (x, ls') =>
      match lookup h x with
      | None => Panic "mark: handle to a dropped slot"
      | Some s =>
        if live s then mark_pq trav q fuel' h ls' nb nv
        else mark_pq trav q fuel' (set_live h x) (pq_push_all q (hdls trav (sval s)) ls')
                     (match x with HB _ => S nb | HV _ => nb end)
                     (match x with HB _ => nv | HV _ => S nv end)
      end
    end
  end.

(* Heap::mark with that marker (after the reset of a full collection) *)
Definition mark_bounded (trav : kind -> bool) (q : pq_cfg) (h : heap) (r : roots) : res (heap * nat * nat) :=
  let h0 := {| boxes := boxes h; vecs := vecs h; stale := [] |} in
  let wl := hdls trav (marked_roots r) in
  mark_pq trav q (mark_fuel trav h0 wl) h0 ([], if pq_roots q then wl else []) 0 0.
