(* C15: the converse flag invariant for EVERY run (no window hypothesis): with thread creation under the heap guard
   every started, unfinished thread is registered while a section is in progress, so a thread the stopper has flagged
   stays flagged until the stopper's resume pass clears it. *)
From Coq Require Import List Arith Lia Bool.
Import ListNotations.
From SV Require Import c15.Conc c15.Model_C15 c15.Proofs_C15_Base c15.Proofs_C15_Inv c15.Proofs_C15 c15.Proofs_C15_Excl
  c15.Proofs_C15_Spawn.

Lemma Flagged2_step_all : forall t w w', Inv w -> Unreg w -> Flagged2 w ->
  wstep cfg_fixed t w = Some w' -> Flagged2 w'.
Proof.
  intros t w w' HI HU HF H h s Hpc.
  destruct (pc (th w t)) eqn:Ept.
  all: try (
    assert (Hnot : forall x, pc (th w t) <> Stw x) by (intros x E; rewrite Ept in E; discriminate);
    destruct (nonstw_own2 t w w' H Hnot) as (Hop & Hor & Hod & Hon & Hos);
    destruct (Nat.eq_dec h t) as [->|Hne];
    [ rewrite (Hos s Hpc); exact I
    | destruct (nonstw_frame2 t w w' h H Hnot Hne) as (_ & _ & Hhpc & _);
      assert (Hpcw : pc (th w h) = Stw s) by (destruct Hhpc as [E|[E1 E2]]; [congruence | rewrite E2 in Hpc; discriminate]);
      pose proof (HF h s Hpcw) as Hold;
      assert (Hcarry : forall u, u <> h -> reg (th w' u) = true -> is_done (pc (th w' u)) = false ->
                 paused (th w' u) = paused (th w u) /\ reg (th w u) = true /\ is_done (pc (th w u)) = false);
      [ intros u Huh Hr Hd; destruct (Nat.eq_dec u t) as [->|Hut];
        [ split; [exact Hop|]; split; [|exact Hod];
          apply (no_unregistered_runner_inv w h s t HI HU Hpcw); unfold live; rewrite Hod, Hon; reflexivity
        | destruct (nonstw_frame2 t w w' u H Hnot Hut) as (Ep & _ & Epc & Er);
          split; [exact Ep|];
          assert (Hdw : is_done (pc (th w u)) = false)
            by (destruct Epc as [E|[E1 E2]]; [rewrite <- E; exact Hd | rewrite E1; reflexivity]);
          split; [|exact Hdw];
          destruct Er as [E|(E1 & E2 & E3)]; [congruence|];
          apply (no_unregistered_runner_inv w h s u HI HU Hpcw); unfold live; rewrite Hdw, E2; reflexivity ]
      | destruct s; simpl in *; auto; intros u; intros;
        match goal with Hr : reg (th _ ?v) = true, Hd : is_done (pc (th _ ?v)) = false, Hn : ?v <> _ |- _ =>
          destruct (Hcarry v Hn Hr Hd) as (Ea & Eb & Ec); rewrite Ea; apply Hold; auto end ] ]).
  (* t is the stopper *)
  assert (h = t).
  { destruct (Nat.eq_dec h t) as [|Hne]; auto.
    destruct (stw_frame2 t w w' s0 h Ept H Hne) as [Hp _]. rewrite Hp in Hpc.
    exact (stw_unique2 w h t s s0 HI Hpc Ept). }
  subst h. pose proof (HF t s0 Ept) as Hold.
  unfold wstep in H. destruct (t <? nthreads w) eqn:Hlt; [|discriminate]. cbv zeta in H. rewrite Ept in H.
  unfold stw_step in H. cbv zeta in H. revert Hpc. destr_match H; inversion H; subst; clear H.
  all: prep; rewrite ?Nat.eqb_refl; simpl; intro Hpc; try discriminate; inversion Hpc; subst; simpl in *; auto.
  all: intros u; prep; rewrite ?Nat.eqb_refl in *; simpl in *; intros; try congruence.
  all: repeat match goal with H : (_ <? _) = false |- _ => apply Nat.ltb_ge in H end.
  all: repeat match goal with H : reg (th _ _) = true |- _ => pose proof (reg_in_range2 _ _ H); revert H end; intros.
  all: try solve [apply Hold; auto; lia].
  all: try solve [destruct (Nat.eq_dec u k); [subst; congruence | apply Hold; auto; lia]].
  all: try lia.
Qed.

Lemma Flagged2_init : forall progs, Flagged2 (init progs).
Proof.
  intros progs h s E. exfalso. destruct (pc_init_cases progs h) as [A|[A|A]]; rewrite A in E; discriminate.
Qed.

Record FInv (w : world) : Prop := { FI_inv : Inv w; FI_unreg : Unreg w; FI_flag : Flagged2 w }.

Lemma FInv_run : forall sched progs, FInv (run cfg_fixed sched (init progs)).
Proof.
  intros sched progs. unfold run. apply (invariant_run world (wstep cfg_fixed) FInv).
  - intros t w w' [HI HU HF] H. constructor;
      [eapply Inv_step; eauto | eapply Unreg_step; eauto | eapply Flagged2_step_all; eauto].
  - constructor; [apply Inv_init | apply Unreg_init | apply Flagged2_init].
Qed.

Lemma flagged_during_section_run : forall progs sched h s,
  let w := run cfg_fixed sched (init progs) in
  pc (th w h) = Stw s -> flagged2_ok w h s.
Proof. intros progs sched h s w Hpc. exact (FI_flag w (FInv_run sched progs) h s Hpc). Qed.
