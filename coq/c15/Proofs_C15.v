(* C15: what the handshake guarantees (serialised stop-the-world sections, pause flags only during a
   section) and the two windows in which exclusive access fails. *)
From Coq Require Import List Arith Lia Bool.
Import ListNotations.
From SV Require Import c15.Conc c15.Model_C15 c15.Proofs_C15_Base c15.Proofs_C15_Inv.

Lemma stw_holds_heap : forall w s x, Inv w -> pc (th w s) = Stw x -> heap w = Some s.
Proof.
  intros w s x HI H. apply (I_heap w HI s). unfold holds_heap. now rewrite H.
Qed.

Lemma single_stopper_inv : forall w s1 s2 x1 x2, Inv w ->
  pc (th w s1) = Stw x1 -> pc (th w s2) = Stw x2 -> s1 = s2.
Proof.
  intros w s1 s2 x1 x2 HI H1 H2.
  pose proof (stw_holds_heap _ _ _ HI H1). pose proof (stw_holds_heap _ _ _ HI H2). congruence.
Qed.

Lemma paused_only_during_stw_inv : forall w t, Inv w -> paused (th w t) = true ->
  exists s x, pc (th w s) = Stw x /\ heap w = Some s.
Proof.
  intros w t HI Hp. pose proof (I_paused w HI t Hp) as H. unfold stopper_ok in H.
  destruct (heap w) as [h|] eqn:Hh; [|contradiction].
  destruct (pc (th w h)) eqn:E; try contradiction. eauto.
Qed.

Lemma single_stopper_run : forall progs sched s1 s2 x1 x2,
  let w := run cfg_fixed sched (init progs) in
  pc (th w s1) = Stw x1 -> pc (th w s2) = Stw x2 -> s1 = s2 /\ heap w = Some s1.
Proof.
  intros progs sched s1 s2 x1 x2 w H1 H2.
  assert (HI : Inv w) by (apply Inv_run; apply Inv_init).
  split; [eapply single_stopper_inv; eauto | eapply stw_holds_heap; eauto].
Qed.

Lemma flags_cleared_run : forall progs sched t,
  let w := run cfg_fixed sched (init progs) in
  (forall s x, pc (th w s) <> Stw x) -> paused (th w t) = false.
Proof.
  intros progs sched t w Hn.
  assert (HI : Inv w) by (apply Inv_run; apply Inv_init).
  destruct (paused (th w t)) eqn:E; auto.
  destruct (paused_only_during_stw_inv w t HI E) as (s & x & Hs & _). exfalso. eapply Hn; eauto.
Qed.

(* parked threads are released: with no section in progress every parked thread has an enabled step *)
Lemma parked_released_run : forall progs sched t,
  let w := run cfg_fixed sched (init progs) in
  (forall s x, pc (th w s) <> Stw x) ->
  pc (th w t) = PollParked \/ pc (th w t) = SpParked ->
  exists w', wstep cfg_fixed t w = Some w'.
Proof.
  intros progs sched t w Hn Hp.
  pose proof (flags_cleared_run progs sched t Hn) as Hf. fold w in Hf.
  assert (Hlt : t < nthreads w).
  { destruct (lt_dec t (nthreads w)); auto. rewrite th_out_of_range in Hp by lia. simpl in Hp. destruct Hp; discriminate. }
  apply Nat.ltb_lt in Hlt. unfold wstep. rewrite Hlt. cbv zeta.
  destruct Hp as [E|E]; rewrite E, Hf; eexists; reflexivity.
Qed.

(* ------------------------------------------------------------------ refutations *)
(* F10: the stopper loads ctx = Some of a thread that has already read paused = false *)
Definition f10_progs : list (list act) := [[AAlloc true]; [APrim; ACompute]].
Definition f10_sched : list tid := [1;1;1;1; 0;0;0;0;0;0;0;0;0;0;0;0;0;0].

Lemma f10_refutes : ~ Excl15 (run cfg_fixed f10_sched (init_all f10_progs)).
Proof.
  intro H. specialize (H 0 1 1). vm_compute in H. specialize (H eq_refl). discriminate.
Qed.

(* ... and that thread then retracts its pointer and finishes its instruction while it is being read *)
Lemma f10_thread_runs :
  let w := run cfg_fixed f10_sched (init_all f10_progs) in
  pc (th w 0) = Stw (SAccess 1 1) /\
  exists w', wstep cfg_fixed 1 w = Some w' /\ pc (th w' 0) = Stw (SAccess 1 1) /\ pc (th w' 1) = Run /\
             prog (th w' 1) = [ACompute].
Proof.
  cbv zeta. split. { vm_compute. reflexivity. }
  eexists. split. { vm_compute. reflexivity. }
  vm_compute. auto.
Qed.

(* spawn window: a thread started but not yet registered is neither stopped nor given the new global
   table: after thread 2's update completed, thread 1 executes with the old table *)
Definition spawn_progs : list (list act) := [[ASpawn 2; ASpawn 1; APrim]; [ACompute; ACompute; ACompute]; [AUpdate]].
Definition spawn_sched : list tid := [0;0;0;0;0; 0;0] ++ repeat 2 60 ++ [1].

Lemma spawn_window_stale :
  let w := run cfg_pre_spawn_fix spawn_sched (init spawn_progs) in
  (forall s x, pc (th w s) <> Stw x) /\ pc (th w 2) = Done /\ env_gen w = 1 /\
  pc (th w 1) = Exec /\ seen (th w 1) = 0.
Proof.
  cbv zeta. split. { intros [|[|[|s]]] x; vm_compute; try (destruct s); intro E; inversion E. }
  vm_compute. auto.
Qed.
