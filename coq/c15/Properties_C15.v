(* C15 — property theorems only (statements pinned in Pins_C15.v). *)
From Coq Require Import List Arith Lia Bool.
Import ListNotations.
From SV Require Import c15.Conc c15.Model_C15 c15.Proofs_C15 c15.Proofs_C15_Excl c15.Proofs_C15_Spawn c15.Proofs_C15_Visible c15.Proofs_C15_Visible2 c15.Proofs_C15_Flags.

(* Serialisation (repaired lock discipline): for every number of threads, every script and every schedule,
   at most one thread is inside a stop-the-world section, and it owns the heap mutex. *)
Theorem C15_single_stopper : forall progs sched s1 s2 x1 x2,
  let w := run cfg_fixed sched (init progs) in
  pc (th w s1) = Stw x1 -> pc (th w s2) = Stw x2 -> s1 = s2 /\ heap w = Some s1.
Proof. exact single_stopper_run. Qed.

(* Pause flags are set only while a section is in progress: once it ended every flag is clear ... *)
Theorem C15_flags_cleared : forall progs sched t,
  let w := run cfg_fixed sched (init progs) in
  (forall s x, pc (th w s) <> Stw x) -> paused (th w t) = false.
Proof. exact flags_cleared_run. Qed.

(* ... and every thread parked at a safepoint can resume. *)
Theorem C15_parked_released : forall progs sched t,
  let w := run cfg_fixed sched (init progs) in
  (forall s x, pc (th w s) <> Stw x) ->
  pc (th w t) = PollParked \/ pc (th w t) = SpParked ->
  exists w', wstep cfg_fixed t w = Some w'.
Proof. exact parked_released_run. Qed.

(* Exclusive access is REFUTED for the code's publish / retract order (F10): the stopper reads thread 1's
   state while thread 1, having read paused = false, goes on to retract its pointer and finish its instruction. *)
Theorem C15_stw_refuted : ~ Excl15 (run cfg_fixed f10_sched (init_all f10_progs)).
Proof. exact f10_refutes. Qed.

Theorem C15_stw_refuted_thread_runs :
  let w := run cfg_fixed f10_sched (init_all f10_progs) in
  pc (th w 0) = Stw (SAccess 1 1) /\
  exists w', wstep cfg_fixed 1 w = Some w' /\ pc (th w' 0) = Stw (SAccess 1 1) /\ pc (th w' 1) = Run /\
             prog (th w' 1) = [ACompute].
Proof. exact f10_thread_runs. Qed.

(* Visibility of a completed global update WAS refuted for a thread in the window between its start and its
   registration (the tree before 56291059, spawn_locked = false): it executes an instruction with the old table after
   the update completed.  Kept as the failing history a reverted repair would bring back. *)
Theorem C15_global_visible_refuted_spawn_window :
  let w := run cfg_pre_spawn_fix spawn_sched (init spawn_progs) in
  (forall s x, pc (th w s) <> Stw x) /\ pc (th w 2) = Done /\ env_gen w = 1 /\ pc (th w 1) = Exec /\ seen (th w 1) = 0.
Proof. exact spawn_window_stale. Qed.

Theorem C15_unregistered_runner_before_fix :
  let w := run cfg_pre_spawn_fix spawn_overlap_sched (init spawn_progs) in
  exists s, pc (th w 2) = Stw s /\ live (th w 1) = true /\ reg (th w 1) = false.
Proof. exact unregistered_runner_before_fix. Qed.

(* With thread creation under the heap guard (spawn_locked = true, the current tree): for every number of threads,
   every script (spawns included) and EVERY schedule, while any stop-the-world section is in progress every thread
   that has been started and has not finished is registered - the section's passes reach it. *)
Theorem C15_no_unregistered_runner_during_section : forall progs sched h s t,
  let w := run cfg_fixed sched (init progs) in
  pc (th w h) = Stw s -> live (th w t) = true -> reg (th w t) = true.
Proof. exact no_unregistered_runner_run. Qed.

(* Exclusive access OUTSIDE the known windows.  known_window w (decidable): some thread is between its paused-load
   (which returned false) and ctx.store(None) while its flag has since been set, or some thread is running but not yet
   registered while a stop-the-world section is in progress.  For every number of threads, every script (spawns
   included) and every schedule none of whose worlds (from the initial one to the last) is in a known window: while
   a stopper reads / replaces thread k's state, k is parked or inside a primitive with its pause flag set. *)
Theorem C15_mutual_exclusion_outside_known : forall progs sched,
  window_free cfg_fixed sched (init progs) = true -> Excl15 (run cfg_fixed sched (init progs)).
Proof. exact mutual_exclusion_outside_known_lemma. Qed.

(* ... and from the end of the stopper's first pass until it resumes them, ALL registered unfinished threads are
   parked or inside a primitive: in particular, between the global update itself (SThunk) and the moment a thread
   has been handed the new table in the second pass, that thread executes no instruction. *)
Theorem C15_all_stopped_after_first_pass : forall progs sched h s t,
  window_free cfg_fixed sched (init progs) = true ->
  let w := run cfg_fixed sched (init progs) in
  pc (th w h) = Stw s -> covered s t = true -> t <> h -> reg (th w t) = true -> is_done (pc (th w t)) = false ->
  safe_to_access (th w t) = true.
Proof. exact all_stopped_after_first_pass_lemma. Qed.

Example C15_window_free_nonvacuous :
  window_free cfg_fixed wf_sched (init wf_progs) = true /\
  pc (th (run cfg_fixed (firstn 27 wf_sched) (init wf_progs)) 0) = Stw (SAccess 1 1) /\
  pc (th (run cfg_fixed (firstn 33 wf_sched) (init wf_progs)) 0) = Stw (SAccess 2 1) /\
  window_free cfg_fixed (firstn 33 wf_sched) (init wf_progs) = true /\
  env_gen (run cfg_fixed wf_sched (init wf_progs)) = 1.
Proof. exact window_free_example. Qed.

(* Hence only the exit window is left: exclusive access along every run none of whose worlds has a thread between its
   paused-load (which returned false) and ctx.store(None) with its flag since set (exit_window, decidable) ... *)
Theorem C15_mutual_exclusion_outside_exit_window : forall progs sched,
  exit_window_free cfg_fixed sched (init progs) = true -> Excl15 (run cfg_fixed sched (init progs)).
Proof. exact mutual_exclusion_outside_exit_window_lemma. Qed.

(* ... and every started, unfinished thread the stopper's first pass has passed is parked or inside a primitive until
   the stopper resumes it (no registration premise any more). *)
Theorem C15_all_stopped_outside_exit_window : forall progs sched h s t,
  exit_window_free cfg_fixed sched (init progs) = true ->
  let w := run cfg_fixed sched (init progs) in
  pc (th w h) = Stw s -> covered s t = true -> t <> h -> live (th w t) = true ->
  safe_to_access (th w t) = true.
Proof. exact all_stopped_outside_exit_window_lemma. Qed.

Example C15_exit_window_free_nonvacuous :
  exit_window_free cfg_fixed wf_sched (init wf_progs) = true /\
  (let w := run cfg_fixed (firstn 6 wf_sched) (init wf_progs) in
   pc (th w 0) = SpReg /\ pc (th w 1) = Run /\ reg (th w 1) = false /\ heap w = Some 0) /\
  (let w := run cfg_fixed (firstn 10 wf_sched) (init wf_progs) in reg (th w 1) = true /\ heap w = None) /\
  pc (th (run cfg_fixed (firstn 27 wf_sched) (init wf_progs)) 0) = Stw (SAccess 1 1).
Proof. exact exit_window_free_example. Qed.

(* Visibility of completed global updates.  seen x = generation of the global table thread x holds, env_gen w = number
   of completed updates.  For every number of threads, every script and EVERY schedule: while the second pass of an
   update is at position k (upd_pos), the stopper and the started, unfinished threads from k on hold the previous
   table and those below k the new one; at all other times every started, unfinished thread holds the current table
   (a new thread copies its spawner's table under the heap guard). *)
Theorem C15_table_generations : forall progs sched,
  let w := run cfg_fixed sched (init progs) in
  (forall h s k, pc (th w h) = Stw s -> upd_pos s = Some k -> vis_at w h k) /\
  ((forall h s, pc (th w h) = Stw s -> upd_pos s = None) ->
   forall t, live (th w t) = true -> seen (th w t) = env_gen w).
Proof.
  intros progs sched w. pose proof (generations_run progs sched) as HV. fold w in HV.
  split; [exact (V_upd w HV) | exact (V_idle w HV)].
Qed.

(* Hence, along every run that avoids the exit window, a thread that executes an instruction holds the current
   global table: a completed definition / assignment is seen by every instruction executed afterwards. *)
Theorem C15_global_visible : forall progs sched t,
  exit_window_free cfg_fixed sched (init progs) = true ->
  let w := run cfg_fixed sched (init progs) in
  pc (th w t) = Exec -> seen (th w t) = env_gen w.
Proof. exact global_visible_lemma. Qed.

Example C15_global_visible_nonvacuous :
  exit_window_free cfg_fixed vis_sched (init wf_progs) = true /\
  (let w := run cfg_fixed vis_sched (init wf_progs) in
   pc (th w 1) = Exec /\ env_gen w = 1 /\ seen (th w 1) = 1 /\ seen (th w 0) = 1).
Proof. exact global_visible_example. Qed.

(* The pause flags during a section, for EVERY schedule (no window hypothesis): once the stopper's stop_threads pass
   has gone past a registered, unfinished thread, that thread's flag stays set until the stopper's resume pass clears
   it (flagged2_ok: below position k during SSetFlag k, everyone from the end of that pass to SResumeLock, from
   position k on during SResume k). *)
Theorem C15_flagged_until_resumed : forall progs sched h s,
  let w := run cfg_fixed sched (init progs) in
  pc (th w h) = Stw s -> flagged2_ok w h s.
Proof. exact flagged_during_section_run. Qed.
