(* Basic facts about the world representation and a case-analysis tactic for [wstep]. *)
From Coq Require Import List Arith Lia Bool.
Import ListNotations.
From SV Require Import c15.Model_C15.

Lemma upd_length : forall A i (x : A) l, length (upd i x l) = length l.
Proof. intros A i x l. revert i. induction l; destruct i; simpl; auto. Qed.

Lemma nth_upd : forall A (l : list A) i j x d,
    nth j (upd i x l) d = if (j =? i) && (i <? length l) then x else nth j l d.
Proof.
  induction l as [|y r IH]; intros i j x d.
  - destruct i, j; simpl; rewrite ?andb_false_r; reflexivity.
  - destruct i, j; simpl; auto.
    rewrite IH. reflexivity.
Qed.

Lemma th_set_th : forall t x w u,
    th (set_th t x w) u = if (u =? t) && (t <? nthreads w) then x else th w u.
Proof. intros. unfold th, set_th, nthreads. simpl. apply nth_upd. Qed.

Lemma th_goto : forall t p w u,
    th (goto t p w) u = if (u =? t) && (t <? nthreads w) then with_pc p (th w t) else th w u.
Proof. intros. unfold goto. apply th_set_th. Qed.

Lemma th_set_paused : forall k b w u,
    th (set_paused k b w) u = if (u =? k) && (k <? nthreads w) then with_paused b (th w k) else th w u.
Proof. intros. unfold set_paused. apply th_set_th. Qed.

Lemma nthreads_set_th : forall t x w, nthreads (set_th t x w) = nthreads w.
Proof. intros. unfold nthreads, set_th. simpl. apply upd_length. Qed.
Lemma nthreads_goto : forall t p w, nthreads (goto t p w) = nthreads w.
Proof. intros. apply nthreads_set_th. Qed.
Lemma nthreads_set_paused : forall t p w, nthreads (set_paused t p w) = nthreads w.
Proof. intros. apply nthreads_set_th. Qed.
Lemma nthreads_set_heap : forall h w, nthreads (set_heap h w) = nthreads w. Proof. reflexivity. Qed.
Lemma nthreads_set_tmx : forall h w, nthreads (set_tmx h w) = nthreads w. Proof. reflexivity. Qed.
Lemma nthreads_set_gen : forall h w, nthreads (set_gen h w) = nthreads w. Proof. reflexivity. Qed.
Lemma nthreads_set_sh : forall h w, nthreads (set_sh h w) = nthreads w. Proof. reflexivity. Qed.

Lemma th_set_heap : forall h w u, th (set_heap h w) u = th w u. Proof. reflexivity. Qed.
Lemma th_set_tmx : forall h w u, th (set_tmx h w) u = th w u. Proof. reflexivity. Qed.
Lemma th_set_gen : forall h w u, th (set_gen h w) u = th w u. Proof. reflexivity. Qed.
Lemma th_set_sh : forall h w u, th (set_sh h w) u = th w u. Proof. reflexivity. Qed.

Lemma heap_set_th : forall t x w, heap (set_th t x w) = heap w. Proof. reflexivity. Qed.
Lemma heap_goto : forall t x w, heap (goto t x w) = heap w. Proof. reflexivity. Qed.
Lemma heap_set_paused : forall t x w, heap (set_paused t x w) = heap w. Proof. reflexivity. Qed.
Lemma heap_set_heap : forall h w, heap (set_heap h w) = h. Proof. reflexivity. Qed.
Lemma heap_set_tmx : forall h w, heap (set_tmx h w) = heap w. Proof. reflexivity. Qed.
Lemma heap_set_gen : forall h w, heap (set_gen h w) = heap w. Proof. reflexivity. Qed.
Lemma heap_set_sh : forall h w, heap (set_sh h w) = heap w. Proof. reflexivity. Qed.

Lemma tmx_set_th : forall t x w, tmx (set_th t x w) = tmx w. Proof. reflexivity. Qed.
Lemma tmx_goto : forall t x w, tmx (goto t x w) = tmx w. Proof. reflexivity. Qed.
Lemma tmx_set_paused : forall t x w, tmx (set_paused t x w) = tmx w. Proof. reflexivity. Qed.
Lemma tmx_set_heap : forall h w, tmx (set_heap h w) = tmx w. Proof. reflexivity. Qed.
Lemma tmx_set_tmx : forall h w, tmx (set_tmx h w) = h. Proof. reflexivity. Qed.
Lemma tmx_set_gen : forall h w, tmx (set_gen h w) = tmx w. Proof. reflexivity. Qed.
Lemma tmx_set_sh : forall h w, tmx (set_sh h w) = tmx w. Proof. reflexivity. Qed.

Lemma sh_set_th : forall t x w, sh (set_th t x w) = sh w. Proof. reflexivity. Qed.
Lemma sh_goto : forall t x w, sh (goto t x w) = sh w. Proof. reflexivity. Qed.
Lemma sh_set_paused : forall t x w, sh (set_paused t x w) = sh w. Proof. reflexivity. Qed.
Lemma sh_set_heap : forall h w, sh (set_heap h w) = sh w. Proof. reflexivity. Qed.
Lemma sh_set_tmx : forall h w, sh (set_tmx h w) = sh w. Proof. reflexivity. Qed.
Lemma sh_set_gen : forall h w, sh (set_gen h w) = sh w. Proof. reflexivity. Qed.
Lemma sh_set_sh : forall h w, sh (set_sh h w) = h. Proof. reflexivity. Qed.

Lemma gen_set_th : forall t x w, env_gen (set_th t x w) = env_gen w. Proof. reflexivity. Qed.
Lemma gen_goto : forall t x w, env_gen (goto t x w) = env_gen w. Proof. reflexivity. Qed.
Lemma gen_set_paused : forall t x w, env_gen (set_paused t x w) = env_gen w. Proof. reflexivity. Qed.
Lemma gen_set_heap : forall h w, env_gen (set_heap h w) = env_gen w. Proof. reflexivity. Qed.
Lemma gen_set_tmx : forall h w, env_gen (set_tmx h w) = env_gen w. Proof. reflexivity. Qed.
Lemma gen_set_gen : forall h w, env_gen (set_gen h w) = h. Proof. reflexivity. Qed.
Lemma gen_set_sh : forall h w, env_gen (set_sh h w) = env_gen w. Proof. reflexivity. Qed.

Global Hint Rewrite th_set_th th_goto th_set_paused nthreads_set_th nthreads_goto nthreads_set_paused
  nthreads_set_heap nthreads_set_tmx nthreads_set_gen nthreads_set_sh
  th_set_heap th_set_tmx th_set_gen th_set_sh
  heap_set_th heap_goto heap_set_paused heap_set_heap heap_set_tmx heap_set_gen heap_set_sh
  tmx_set_th tmx_goto tmx_set_paused tmx_set_heap tmx_set_tmx tmx_set_gen tmx_set_sh
  sh_set_th sh_goto sh_set_paused sh_set_heap sh_set_tmx sh_set_gen sh_set_sh
  gen_set_th gen_goto gen_set_paused gen_set_heap gen_set_tmx gen_set_gen gen_set_sh : world.

Lemma th_out_of_range : forall w t, nthreads w <= t -> th w t = dflt.
Proof. intros w t H. unfold th. apply nth_overflow. exact H. Qed.

(* projections of the record updaters *)
Lemma pc_with_pc : forall p x, pc (with_pc p x) = p. Proof. reflexivity. Qed.
Lemma head_with_pc : forall p x, head (with_pc p x) = head x. Proof. reflexivity. Qed.
Lemma paused_with_pc : forall p x, paused (with_pc p x) = paused x. Proof. reflexivity. Qed.
Lemma reg_with_pc : forall p x, reg (with_pc p x) = reg x. Proof. reflexivity. Qed.
Lemma prog_with_pc : forall p x, prog (with_pc p x) = prog x. Proof. reflexivity. Qed.
Lemma seen_with_pc : forall p x, seen (with_pc p x) = seen x. Proof. reflexivity. Qed.
Lemma pc_with_paused : forall p x, pc (with_paused p x) = pc x. Proof. reflexivity. Qed.
Lemma head_with_paused : forall p x, head (with_paused p x) = head x. Proof. reflexivity. Qed.
Lemma paused_with_paused : forall p x, paused (with_paused p x) = p. Proof. reflexivity. Qed.
Lemma reg_with_paused : forall p x, reg (with_paused p x) = reg x. Proof. reflexivity. Qed.
Lemma prog_with_paused : forall p x, prog (with_paused p x) = prog x. Proof. reflexivity. Qed.
Lemma seen_with_paused : forall p x, seen (with_paused p x) = seen x. Proof. reflexivity. Qed.
Lemma pc_with_reg : forall p x, pc (with_reg p x) = pc x. Proof. reflexivity. Qed.
Lemma head_with_reg : forall p x, head (with_reg p x) = head x. Proof. reflexivity. Qed.
Lemma paused_with_reg : forall p x, paused (with_reg p x) = paused x. Proof. reflexivity. Qed.
Lemma reg_with_reg : forall p x, reg (with_reg p x) = p. Proof. reflexivity. Qed.
Lemma prog_with_reg : forall p x, prog (with_reg p x) = prog x. Proof. reflexivity. Qed.
Lemma seen_with_reg : forall p x, seen (with_reg p x) = seen x. Proof. reflexivity. Qed.
Lemma pc_with_seen : forall p x, pc (with_seen p x) = pc x. Proof. reflexivity. Qed.
Lemma head_with_seen : forall p x, head (with_seen p x) = head x. Proof. reflexivity. Qed.
Lemma paused_with_seen : forall p x, paused (with_seen p x) = paused x. Proof. reflexivity. Qed.
Lemma reg_with_seen : forall p x, reg (with_seen p x) = reg x. Proof. reflexivity. Qed.
Lemma prog_with_seen : forall p x, prog (with_seen p x) = prog x. Proof. reflexivity. Qed.
Lemma seen_with_seen : forall p x, seen (with_seen p x) = p. Proof. reflexivity. Qed.
Lemma pc_pop : forall x, pc (pop x) = Run. Proof. reflexivity. Qed.
Lemma paused_pop : forall x, paused (pop x) = paused x. Proof. reflexivity. Qed.
Lemma reg_pop : forall x, reg (pop x) = reg x. Proof. reflexivity. Qed.
Lemma prog_pop : forall x, prog (pop x) = tl (prog x). Proof. reflexivity. Qed.
Lemma seen_pop : forall x, seen (pop x) = seen x. Proof. reflexivity. Qed.

Global Hint Rewrite pc_with_pc head_with_pc paused_with_pc reg_with_pc prog_with_pc seen_with_pc
  pc_with_paused head_with_paused paused_with_paused reg_with_paused prog_with_paused seen_with_paused
  pc_with_reg head_with_reg paused_with_reg reg_with_reg prog_with_reg seen_with_reg
  pc_with_seen head_with_seen paused_with_seen reg_with_seen prog_with_seen seen_with_seen
  pc_pop paused_pop reg_pop prog_pop seen_pop : world.

(* Case analysis of a step: every way [wstep cfg t w] can return [Some w'].  Leaves one goal per
   case with w' replaced by its defining expression and the branch conditions as hypotheses. *)
Ltac destr_match H :=
  repeat match type of H with
         | context [match ?x with _ => _ end] =>
             match x with
             | context [match _ with _ => _ end] => fail 1
             | _ => destruct x eqn:?; try discriminate H
             end
         | context [if ?x then _ else _] =>
             match x with
             | context [if _ then _ else _] => fail 1
             | context [match _ with _ => _ end] => fail 1
             | _ => destruct x eqn:?; try discriminate H
             end
         end.

Ltac step_cases H :=
  unfold wstep in H; cbv zeta in H;
  destr_match H;
  try (unfold sp_closure in H; cbv zeta in H; destr_match H);
  try (unfold stw_step in H; cbv zeta in H; destr_match H);
  try discriminate H;
  inversion H; subst; clear H.
