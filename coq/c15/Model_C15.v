(* Model_C15.v — the safepoint / stop-the-world handshake of steel_vm/vm.rs as an interleaving system
   (definitions only).  Shared by C15 (exclusive access), C16 (progress).  DESIGN.md Appendix A.4.

   Source lines (crates/steel-core/src at the pinned tree, before the fix: commits of this round):
     vm.rs  463-492  ThreadStateController {paused, state}: pause_for_safepoint / resume
     vm.rs  590-631  Synchronizer::call_per_ctx      (holds `threads`, spins until ctx = Some)
     vm.rs  633-715  Synchronizer::enumerate_stacks  (holds `threads`, spins until ctx = Some)
     vm.rs  719-730  stop_threads   (own flag; lock `threads`; flag every registered thread; unlock)
     vm.rs  732-744  resume_threads (own flag; lock `threads`; clear flag + unpark each; unlock)
     vm.rs  811-843  with_locked_env (stop; call_per_ctx default_env; thunk; call_per_ctx update_env; resume)
     vm.rs  853-888  enter_safepoint (ctx.store(Some); closure; while paused {park}; ctx.store(None))
     vm.rs  941-953, 4115-4136, 4621-4638  insert_binding / handle_set / handle_bind:
                      `let _ = enter_safepoint(|t| t.heap.lock_arc())`  — guard dropped at once
     vm.rs 1776-1821 park_thread_while_paused / safepoint_or_interrupt (the poll at every dispatch, 2535)
     vm.rs 1823-1884 make_box / make_mutable_vector / gc_collect: heap guard taken in a safepoint and
                      kept for the allocation, including a collection (closed.rs mark: stop_threads,
                      enumerate_stacks, ..., resume_threads at closed.rs 2018)
     vm/jit.rs 639-650 box_handler_c: `this.thread.heap.lock()` with no safepoint
     vm/threads.rs 1062-1151 spawn_native_thread: thread started, THEN registered (lock `threads`
                      inside enter_safepoint); 114-123 thread_join_impl (handle taken, then join)
   Three switches select the code as it was / as repaired:
     keep_guard        = false : global updates drop the heap guard immediately (`let _ =`)
     jit_box_safepoint = false : the native box helper blocks on the heap mutex unpublished
     spawn_locked      = false : spawn-native-thread starts the thread, then registers it, holding no lock in
                                 between (before 56291059); true: it takes the heap guard in a safepoint BEFORE it
                                 copies its state and starts the thread, registers the thread in a second safepoint
                                 and only then drops the guard (threads.rs spawn_native_thread, stop_the_world_guard) *)
From Coq Require Import List Arith Lia Bool.
From SV Require Import c15.Conc.
Import ListNotations.

Definition tid := nat.

Record config := { keep_guard : bool; jit_box_safepoint : bool; spawn_locked : bool }.
Definition cfg_old : config := {| keep_guard := false; jit_box_safepoint := false; spawn_locked := false |}.
(* the lock discipline repaired, thread creation still unprotected (the tree before 56291059) *)
Definition cfg_pre_spawn_fix : config := {| keep_guard := true; jit_box_safepoint := true; spawn_locked := false |}.
Definition cfg_fixed : config := {| keep_guard := true; jit_box_safepoint := true; spawn_locked := true |}.

(* what a script thread does next (one entry per bytecode instruction / built-in call) *)
Inductive act :=
| ACompute                       (* an instruction that calls nothing *)
| APrim                          (* a non-blocking built-in, called through enter_safepoint (vm.rs 4832) *)
| AJoin (j : tid)                (* thread-join! *)
| ASend (c v : nat)              (* channel/send (unbounded channel: never blocks) *)
| ARecv (c : nat)                (* channel/recv (blocks while the channel is empty) *)
| AAlloc (collect : bool)        (* interpreter allocation; collect = the allocation triggers a collection *)
| AAllocJit (collect : bool)     (* allocation through the native helper box_handler_c *)
| AUpdate                        (* define / set! of a global *)
| ASpawn (j : tid).              (* spawn-native-thread starting thread j *)

(* the stopper's program counter inside a stop-the-world section *)
Inductive spc :=
| SOwnFlag                       (* self.state.pause_for_safepoint()              vm.rs 720 *)
| SStopLock                      (* threads.lock() in stop_threads                vm.rs 723 *)
| SSetFlag (k : nat)             (* pause_for_safepoint on the k-th thread         vm.rs 724-728 *)
| SWaitLock (p : nat)            (* threads.lock() in enumerate_stacks/call_per_ctx (pass p = 1, 2) *)
| SWait (p k : nat)              (* loop { if let Some(ctx) = ctx.load() ...        vm.rs 596-629, 639-713 *)
| SAccess (p k : nat)            (* reading the stack / replacing the env of thread k *)
| SThunk                         (* the update itself, between the two passes      vm.rs 825 *)
| SOwnResume                     (* self.state.resume()                           vm.rs 733 *)
| SResumeLock                    (* threads.lock() in resume_threads              vm.rs 736 *)
| SResume (k : nat).             (* resume + unpark the k-th thread                vm.rs 737-742 *)

Inductive tpc :=
| NotStarted                     (* not spawned yet *)
| Run                            (* head of the dispatch loop: about to poll       vm.rs 2535 *)
| PollSeenPaused                 (* paused = true was loaded                       vm.rs 1794-1811 *)
| PollParked                     (* ctx published; park_thread_while_paused        vm.rs 1812-1813 *)
| PollExitChecked                (* paused = false was loaded, ctx not yet retracted   (before 1814) *)
| Exec                           (* executing the instruction *)
| LockUnpub                      (* blocked on heap.lock() without a safepoint     jit.rs 642 *)
| SpPub                          (* inside enter_safepoint: ctx published, closure running / blocked *)
| SpJoin                         (* inside thread-join!: handle taken, waiting for the thread *)
| SpReg                          (* spawn, second enter_safepoint (heap guard held): lock `threads`; push; unlock *)
| SpParked                       (* closure done: while paused { park }            vm.rs 868-882 *)
| SpExitChecked                  (* paused = false was loaded, ctx not yet retracted   (before 884) *)
| Held                           (* enter_safepoint returned the heap guard *)
| Stw (s : spc)
| Rel                            (* end of the instruction: the heap guard (if still held) is dropped *)
| Done.

Record thd := {
  pc : tpc;
  paused : bool;                 (* ThreadStateController.paused of this thread *)
  reg : bool;                    (* present in Synchronizer.threads *)
  prog : list act;               (* remaining script *)
  seen : nat                     (* generation of the global table this thread's env holds *)
}.

(* script-level shared objects: channels, join handles, and logs used to state C16's data theorems *)
Record shared := {
  chans : nat -> list (tid * nat);       (* per channel: queue of (sender, value), oldest first *)
  sent : list (nat * tid * nat);         (* log: (channel, sender, value), newest first *)
  recvd : list (nat * tid * nat * tid);  (* log: (channel, sender, value, receiver), newest first *)
  taken : list tid;                      (* join handles already taken *)
  deliv : list (tid * tid)               (* log: (joiner, joined thread), newest first *)
}.

Record world := {
  ths : list thd;
  heap : option tid;             (* owner of the heap mutex *)
  tmx : option tid;              (* owner of the `threads` mutex *)
  env_gen : nat;                 (* number of completed global updates *)
  sh : shared
}.

Definition dflt : thd := {| pc := Done; paused := false; reg := false; prog := []; seen := 0 |}.
Definition th (w : world) (t : tid) : thd := nth t (ths w) dflt.
Definition nthreads (w : world) : nat := length (ths w).

Fixpoint upd {A} (i : nat) (x : A) (l : list A) : list A :=
  match l, i with
  | [], _ => []
  | _ :: r, 0 => x :: r
  | y :: r, S i' => y :: upd i' x r
  end.

Definition set_th (t : tid) (x : thd) (w : world) : world :=
  {| ths := upd t x (ths w); heap := heap w; tmx := tmx w; env_gen := env_gen w; sh := sh w |}.
Definition set_heap (h : option tid) (w : world) : world :=
  {| ths := ths w; heap := h; tmx := tmx w; env_gen := env_gen w; sh := sh w |}.
Definition set_tmx (h : option tid) (w : world) : world :=
  {| ths := ths w; heap := heap w; tmx := h; env_gen := env_gen w; sh := sh w |}.
Definition set_gen (g : nat) (w : world) : world :=
  {| ths := ths w; heap := heap w; tmx := tmx w; env_gen := g; sh := sh w |}.
Definition set_sh (s : shared) (w : world) : world :=
  {| ths := ths w; heap := heap w; tmx := tmx w; env_gen := env_gen w; sh := s |}.

Definition with_pc (p : tpc) (x : thd) : thd :=
  {| pc := p; paused := paused x; reg := reg x; prog := prog x; seen := seen x |}.
Definition with_paused (b : bool) (x : thd) : thd :=
  {| pc := pc x; paused := b; reg := reg x; prog := prog x; seen := seen x |}.
Definition with_reg (b : bool) (x : thd) : thd :=
  {| pc := pc x; paused := paused x; reg := b; prog := prog x; seen := seen x |}.
Definition with_seen (g : nat) (x : thd) : thd :=
  {| pc := pc x; paused := paused x; reg := reg x; prog := prog x; seen := g |}.
Definition pop (x : thd) : thd :=
  {| pc := Run; paused := paused x; reg := reg x; prog := tl (prog x); seen := seen x |}.

Definition goto (t : tid) (p : tpc) (w : world) : world := set_th t (with_pc p (th w t)) w.
Definition set_paused (k : tid) (b : bool) (w : world) : world := set_th k (with_paused b (th w k)) w.

(* ctx = Some(ptr) exactly between the two stores *)
Definition published (p : tpc) : bool :=
  match p with PollParked | PollExitChecked | SpPub | SpJoin | SpReg | SpParked | SpExitChecked => true | _ => false end.

Definition is_done (p : tpc) : bool := match p with Done => true | _ => false end.
Definition is_notstarted (p : tpc) : bool := match p with NotStarted => true | _ => false end.

Definition head (x : thd) : act := hd ACompute (prog x).

(* actions whose safepoint closure is heap.lock_arc() *)
Definition lock_act (a : act) : bool :=
  match a with AAlloc _ | AAllocJit _ | AUpdate => true | _ => false end.
(* does the action go on to stop the world once it holds the guard? *)
Definition stw_act (a : act) : bool :=
  match a with AAlloc c | AAllocJit c => c | AUpdate => true | _ => false end.
Definition is_update (a : act) : bool := match a with AUpdate => true | _ => false end.

Definition chan_upd (c : nat) (q : list (tid * nat)) (f : nat -> list (tid * nat)) :=
  fun c' => if Nat.eqb c' c then q else f c'.

Definition mem (j : tid) (l : list tid) : bool := existsb (Nat.eqb j) l.

(* the closure run inside enter_safepoint, by action (None = blocked) *)
Definition sp_closure (cfg : config) (t : tid) (w : world) : option world :=
  let x := th w t in
  let s := sh w in
  match head x with
  | ASend c v =>
      Some (goto t SpParked (set_sh {| chans := chan_upd c (chans s c ++ [(t, v)]) (chans s);
                                       sent := (c, t, v) :: sent s; recvd := recvd s;
                                       taken := taken s; deliv := deliv s |} w))
  | ARecv c =>
      match chans s c with
      | [] => None                                   (* recv() blocks: script logic *)
      | (from, v) :: q =>
          Some (goto t SpParked (set_sh {| chans := chan_upd c q (chans s); sent := sent s;
                                           recvd := (c, from, v, t) :: recvd s;
                                           taken := taken s; deliv := deliv s |} w))
      end
  | AJoin j =>
      if mem j (taken s) then Some (goto t SpParked w)   (* "thread handle has already been joined!" *)
      else Some (goto t SpJoin (set_sh {| chans := chans s; sent := sent s; recvd := recvd s;
                                          taken := j :: taken s; deliv := deliv s |} w))
  | AAlloc _ | AAllocJit _ | AUpdate =>
      match heap w with
      | None => Some (goto t SpParked (set_heap (Some t) w))
      | Some _ => None                               (* heap.lock_arc() blocks — published *)
      end
  | ASpawn j =>
      if spawn_locked cfg then                       (* first safepoint: heap.lock_arc() *)
        match heap w with
        | None => Some (goto t SpParked (set_heap (Some t) w))
        | Some _ => None
        end
      else
      match tmx w with
      | None =>                                      (* lock; push; unlock — one step *)
          let w1 := if is_notstarted (pc (th w j)) then w else set_th j (with_reg true (th w j)) w in
          Some (goto t SpParked w1)
      | Some _ => None
      end
  | APrim | ACompute => Some (goto t SpParked w)
  end.

(* the stop-the-world section of thread t, in state s *)
Definition stw_step (t : tid) (s : spc) (w : world) : option world :=
  let n := nthreads w in
  let a := head (th w t) in
  match s with
  | SOwnFlag => Some (goto t (Stw SStopLock) (set_paused t true w))
  | SStopLock =>
      match tmx w with None => Some (goto t (Stw (SSetFlag 0)) (set_tmx (Some t) w)) | Some _ => None end
  | SSetFlag k =>
      if k <? n then
        Some (goto t (Stw (SSetFlag (S k))) (if reg (th w k) then set_paused k true w else w))
      else Some (goto t (Stw (SWaitLock 1)) (set_tmx None w))
  | SWaitLock p =>
      match tmx w with None => Some (goto t (Stw (SWait p 0)) (set_tmx (Some t) w)) | Some _ => None end
  | SWait p k =>
      if k <? n then
        if negb (reg (th w k)) || Nat.eqb k t || is_done (pc (th w k)) then Some (goto t (Stw (SWait p (S k))) w)
        else if published (pc (th w k)) then Some (goto t (Stw (SAccess p k)) w)
        else None                                    (* spin until the thread publishes itself *)
      else
        let w1 := set_tmx None w in
        if is_update a then
          if p =? 1 then Some (goto t (Stw SThunk) w1)
          else Some (goto t (Stw SOwnResume) (set_th t (with_seen (env_gen w) (th w t)) w1))
        else Some (goto t (Stw SOwnResume) w1)
  | SAccess p k =>
      let w1 := if is_update a && (p =? 2) then set_th k (with_seen (env_gen w) (th w k)) w else w in
      Some (goto t (Stw (SWait p (S k))) w1)
  | SThunk => Some (goto t (Stw (SWaitLock 2)) (set_gen (S (env_gen w)) w))
  | SOwnResume => Some (goto t (Stw SResumeLock) (set_paused t false w))
  | SResumeLock =>
      match tmx w with None => Some (goto t (Stw (SResume 0)) (set_tmx (Some t) w)) | Some _ => None end
  | SResume k =>
      if k <? n then
        Some (goto t (Stw (SResume (S k))) (if reg (th w k) then set_paused k false w else w))
      else Some (goto t Rel (set_tmx None w))
  end.

Definition owns (o : option tid) (t : tid) : bool := match o with Some h => Nat.eqb h t | None => false end.

Definition wstep (cfg : config) (t : tid) (w : world) : option world :=
  if t <? nthreads w then
    let x := th w t in
    match pc x with
    | NotStarted | Done => None
    | Run =>
        match prog x with
        | [] => Some (goto t Done w)                 (* the thread's function returned *)
        | _ => if paused x then Some (goto t PollSeenPaused w) else Some (goto t Exec w)
        end
    | PollSeenPaused => Some (goto t PollParked w)
    | PollParked => if paused x then None else Some (goto t PollExitChecked w)
    | PollExitChecked => Some (goto t Exec w)
    | Exec =>
        match head x with
        | ACompute => Some (set_th t (pop x) w)
        | AAllocJit _ => if jit_box_safepoint cfg then Some (goto t SpPub w) else Some (goto t LockUnpub w)
        | ASpawn j =>
            if spawn_locked cfg then Some (goto t SpPub w)      (* nothing is started before the guard is held *)
            else
            let w1 := if is_notstarted (pc (th w j)) then goto j Run w else w in
            Some (goto t SpPub w1)
        | _ => Some (goto t SpPub w)
        end
    | LockUnpub =>
        match heap w with None => Some (goto t Held (set_heap (Some t) w)) | Some _ => None end
    | SpPub => sp_closure cfg t w
    | SpJoin =>
        match head x with
        | AJoin j =>
            if is_done (pc (th w j)) then
              let s := sh w in
              Some (goto t SpParked (set_sh {| chans := chans s; sent := sent s; recvd := recvd s;
                                               taken := taken s; deliv := (t, j) :: deliv s |} w))
            else None                                (* JoinHandle::join blocks: script logic *)
        | _ => Some (set_th t (pop x) w)             (* unreachable: SpJoin is entered from AJoin only *)
        end
    | SpReg =>
        match head x with
        | ASpawn j =>
            match tmx w with
            | None =>                                (* lock; push; unlock — one step *)
                let w1 := if is_notstarted (pc (th w j)) then w else set_th j (with_reg true (th w j)) w in
                Some (goto t SpParked w1)
            | Some _ => None
            end
        | _ => Some (goto t Rel w)                   (* unreachable: SpReg is entered from ASpawn only *)
        end
    | SpParked => if paused x then None else Some (goto t SpExitChecked w)
    | SpExitChecked =>
        match head x with
        | ASpawn j =>
            if spawn_locked cfg then
              (* first safepoint left (thread j not started yet): go on holding the guard;
                 second safepoint left (j started and registered), or j was started before: drop the guard *)
              if is_notstarted (pc (th w j)) then Some (goto t Held w) else Some (goto t Rel w)
            else Some (set_th t (pop x) w)
        | a => if lock_act a then Some (goto t Held w) else Some (set_th t (pop x) w)
        end
    | Held =>
        match head x with
        | ASpawn j =>                                (* state copied, std::thread::spawn: j runs, unregistered *)
            Some (goto t SpReg (if is_notstarted (pc (th w j))
                                then set_th j (with_seen (seen x) (with_pc Run (th w j))) w   (* j gets a copy of t's table *)
                                else w))
        | _ =>
        if stw_act (head x) then
          if is_update (head x) && negb (keep_guard cfg)
          then Some (goto t (Stw SOwnFlag) (set_heap None w))     (* `let _ = ...`: guard dropped *)
          else Some (goto t (Stw SOwnFlag) w)
        else Some (goto t Rel w)
        end
    | Stw s => stw_step t s w
    | Rel =>
        let w1 := if owns (heap w) t then set_heap None w else w in
        Some (set_th t (pop (th w1 t)) w1)
    end
  else None.

(* ------------------------------------------------------------------ initial worlds, running *)
Definition mk_thd (started : bool) (p : list act) : thd :=
  {| pc := if started then Run else NotStarted; paused := false; reg := started; prog := p; seen := 0 |}.

Definition sh0 : shared :=
  {| chans := fun _ => []; sent := []; recvd := []; taken := []; deliv := [] |}.

(* thread 0 is the main thread (registered by SteelThread::new, vm.rs 764); the others wait to be spawned *)
Definition init (progs : list (list act)) : world :=
  {| ths := match progs with [] => [] | p :: r => mk_thd true p :: map (mk_thd false) r end;
     heap := None; tmx := None; env_gen := 0; sh := sh0 |}.

(* all threads already running and registered (used by the handshake theorems) *)
Definition init_all (progs : list (list act)) : world :=
  {| ths := map (mk_thd true) progs; heap := None; tmx := None; env_gen := 0; sh := sh0 |}.

(* schedules: the generic interleaving semantics of Conc.v instantiated with wstep *)
Definition run (cfg : config) (sched : list tid) (w : world) : world := Conc.run world (wstep cfg) sched w.
Definition run_stream (cfg : config) (f : nat -> tid) (n : nat) (w : world) : world :=
  Conc.run_stream world (wstep cfg) f n w.

(* ------------------------------------------------------------------ property vocabulary *)
Definition live (x : thd) : bool := negb (is_done (pc x)) && negb (is_notstarted (pc x)).

(* blocked by the script's own logic: recv on an empty channel, join of an unfinished thread *)
Definition script_blocked (w : world) (t : tid) : bool :=
  let x := th w t in
  match pc x, head x with
  | SpPub, ARecv c => match chans (sh w) c with [] => true | _ => false end
  | SpJoin, AJoin j => negb (is_done (pc (th w j)))
  | _, _ => false
  end.

Definition stuck (cfg : config) (w : world) : Prop := forall t, wstep cfg t w = None.

(* C15: while a stopper reads / replaces thread k's state, k is parked or inside a primitive and
   cannot leave before the stopper's resume (its pause flag is set) *)
Definition safe_to_access (x : thd) : bool :=
  match pc x with PollParked | SpPub | SpJoin | SpReg | SpParked => paused x | _ => false end.

Definition Excl15 (w : world) : Prop :=
  forall s p k, pc (th w s) = Stw (SAccess p k) -> safe_to_access (th w k) = true.

(* one-line rendering of a world for the correspondence *)
Definition stoppers (w : world) : nat :=
  length (filter (fun x => match pc x with Stw _ => true | _ => false end) (ths w)).
Definition all_done (w : world) : bool := forallb (fun x => is_done (pc x) || is_notstarted (pc x)) (ths w).

(* ------------------------------------------------------------------ the two known windows (C15) *)
(* (1) a thread between its paused-load (which returned false) and ctx.store(None) whose flag has since been set;
   (2) a thread that is running but not yet registered while some stop-the-world section is in progress *)
Definition is_exit_checked (p : tpc) : bool := match p with SpExitChecked | PollExitChecked => true | _ => false end.
Definition is_stw_pc (p : tpc) : bool := match p with Stw _ => true | _ => false end.
Definition stw_any (w : world) : bool := existsb (fun x => is_stw_pc (pc x)) (ths w).
Definition in_known_window (w : world) (x : thd) : bool :=
  (is_exit_checked (pc x) && paused x) || (stw_any w && live x && negb (reg x)).
Definition known_window (w : world) : bool := existsb (in_known_window w) (ths w).
(* no world along the run (including the first and the last) is in a known window *)
Fixpoint window_free (cfg : config) (sched : list tid) (w : world) : bool :=
  negb (known_window w) &&
  match sched with [] => true | t :: r => window_free cfg r (Conc.exec1 world (wstep cfg) t w) end.

(* threads the stopper has already found stopped in its first pass and has not resumed yet *)
Definition covered (s : spc) (t : tid) : bool :=
  match s with
  | SWait p k => if p =? 1 then t <? k else true
  | SAccess p k => if p =? 1 then t <=? k else true
  | SWaitLock p => negb (p =? 1)
  | SThunk | SOwnResume | SResumeLock => true
  | SResume k => k <=? t
  | _ => false
  end.


(* a window-free run with a spawn, a global update and the stopper's accesses (non-vacuity of the C15 theorems) *)
Definition wf_progs : list (list act) := [[ASpawn 1; AUpdate; AAlloc true]; [ACompute; APrim; ACompute; ACompute]].
Definition wf_sched : list tid := repeat 0 10 ++ repeat 0 12 ++ [1;1;1] ++ repeat 0 12.
