(* The lock / pause-flag invariant of the repaired handshake (cfg_fixed) and its preservation by every step. *)
From Coq Require Import List Arith Lia Bool.
Import ListNotations.
From SV Require Import c15.Conc c15.Model_C15 c15.Proofs_C15_Base.

(* actions whose first safepoint closure is heap.lock_arc(): allocation, global update and (since 56291059) spawn *)
Definition heap_act (a : act) : bool :=
  match a with AAlloc _ | AAllocJit _ | AUpdate | ASpawn _ => true | _ => false end.
Definition holds_heap (x : thd) : bool :=
  match pc x with Held | Stw _ | Rel | SpReg => true | SpParked | SpExitChecked => heap_act (head x) | _ => false end.
Definition holds_tmx (x : thd) : bool :=
  match pc x with Stw (SSetFlag _) | Stw (SWait _ _) | Stw (SAccess _ _) | Stw (SResume _) => true | _ => false end.
Definition flag_ok (s : spc) (t h : tid) (r : bool) : Prop :=
  match s with SResumeLock => r = true | SResume k => r = true /\ k <= t | _ => r = true \/ t = h end.

Definition stopper_ok (w : world) (u : tid) : Prop :=
  match heap w with
  | Some h => match pc (th w h) with Stw s => flag_ok s u h (reg (th w u)) | _ => False end
  | None => False
  end.

Record Inv (w : world) : Prop := {
  I_heap : forall u, holds_heap (th w u) = true <-> heap w = Some u;
  I_tmx : forall u, tmx w = Some u -> holds_tmx (th w u) = true;
  I_paused : forall u, paused (th w u) = true -> stopper_ok w u;
  I_nolock : forall u, pc (th w u) <> LockUnpub;
  I_reg : forall u, reg (th w u) = true -> pc (th w u) <> NotStarted
}.

Ltac use_ltb := repeat match goal with H : (_ <? _) = true |- _ => rewrite ?H; clear H end.
Ltac simp_goal :=
  autorewrite with world;
  repeat match goal with H : (?a <? ?b) = true |- context [?a <? ?b] => rewrite H end;
  rewrite ?andb_true_r, ?andb_false_r.
Ltac split_ifs :=
  repeat match goal with
         | |- context [if ?b then _ else _] => destruct b eqn:?
         end.
Ltac eqb_facts :=
  repeat match goal with
         | H : _ && _ = true |- _ => apply andb_true_iff in H; destruct H
         | H : (_ =? _) = true |- _ => apply Nat.eqb_eq in H; subst
         | H : (_ =? _) = false |- _ => apply Nat.eqb_neq in H
         end.

Ltac step_cases_fixed H :=
  unfold wstep in H; cbv zeta in H;
  simpl keep_guard in H; simpl jit_box_safepoint in H; simpl spawn_locked in H; simpl negb in H; rewrite ?andb_false_r in H;
  destr_match H;
  try (unfold sp_closure in H; cbv zeta in H; simpl spawn_locked in H; destr_match H);
  try (unfold stw_step in H; cbv zeta in H; destr_match H);
  try discriminate H;
  inversion H; subst; clear H.

Lemma owns_true : forall o t, owns o t = true -> o = Some t.
Proof. intros [h|] t H; simpl in H; [apply Nat.eqb_eq in H; now subst|discriminate]. Qed.
Lemma owns_false : forall o t, owns o t = false -> o <> Some t.
Proof. intros [h|] t H E; [inversion E; subst; simpl in H; now rewrite Nat.eqb_refl in H|discriminate]. Qed.

Lemma pres_heap : forall t w w', Inv w -> wstep cfg_fixed t w = Some w' ->
  forall u, holds_heap (th w' u) = true <-> heap w' = Some u.
Proof.
  intros t w w' HI H u.
  pose proof (I_heap w HI u) as Hu. pose proof (I_heap w HI t) as Ht.
  step_cases_fixed H.
  all: simp_goal.
  all: unfold holds_heap in *.
  all: split_ifs; eqb_facts; simp_goal.
  all: repeat match goal with H : owns _ _ = true |- _ => apply owns_true in H | H : owns _ _ = false |- _ => apply owns_false in H end.
  all: repeat match goal with H : pc (th _ _) = _ |- _ => rewrite H in * end.
  all: repeat match goal with H : head (th _ _) = _ |- _ => rewrite H in * end.
  all: repeat match goal with H : is_notstarted (pc ?x) = true |- _ => destruct (pc x) eqn:?; try discriminate H end.
  all: simpl in *.
  all: try solve [intuition (try congruence; try discriminate)].
Qed.


Ltac prep :=
  simp_goal; split_ifs; eqb_facts; simp_goal;
  repeat match goal with H : owns _ _ = true |- _ => apply owns_true in H | H : owns _ _ = false |- _ => apply owns_false in H end;
  repeat match goal with H : is_notstarted (pc ?x) = true |- _ => destruct (pc x) eqn:?; try discriminate H end;
  repeat match goal with H : pc (th _ _) = _ |- _ => rewrite H in * end;
  repeat match goal with H : head (th _ _) = _ |- _ => rewrite H in * end;
  simpl in *.

Lemma pres_tmx : forall t w w', Inv w -> wstep cfg_fixed t w = Some w' ->
  forall u, tmx w' = Some u -> holds_tmx (th w' u) = true.
Proof.
  intros t w w' HI H u.
  pose proof (I_tmx w HI u) as Hu. pose proof (I_tmx w HI t) as Ht.
  step_cases_fixed H.
  all: unfold holds_tmx in *; prep.
  all: try solve [intuition (try congruence; try discriminate)].
Qed.

Lemma pres_nolock : forall t w w', Inv w -> wstep cfg_fixed t w = Some w' ->
  forall u, pc (th w' u) <> LockUnpub.
Proof.
  intros t w w' HI H u.
  pose proof (I_nolock w HI u) as Hu. pose proof (I_nolock w HI t) as Ht.
  step_cases_fixed H.
  all: prep.
  all: try solve [intuition (try congruence; try discriminate)].
Qed.

Lemma pres_reg : forall t w w', Inv w -> wstep cfg_fixed t w = Some w' ->
  forall u, reg (th w' u) = true -> pc (th w' u) <> NotStarted.
Proof.
  intros t w w' HI H u.
  pose proof (I_reg w HI u) as Hu. pose proof (I_reg w HI t) as Ht.
  step_cases_fixed H.
  all: prep.
  all: try solve [intuition (try congruence; try discriminate)].
  all: try (intros _ E; match goal with H : is_notstarted _ = false |- _ => rewrite E in H; discriminate H end).
Qed.

Lemma paused_in_range : forall w u, paused (th w u) = true -> u < nthreads w.
Proof.
  intros w u H. destruct (lt_dec u (nthreads w)) as [L|L]; auto.
  rewrite th_out_of_range in H by lia. discriminate.
Qed.

Lemma flag_ok_mono : forall s u h r, flag_ok s u h r -> flag_ok s u h true.
Proof. intros s u h r. destruct s; simpl; intuition. Qed.

Ltac fin_paused :=
  let Hp := fresh "Hp" in
  intro Hp; pose proof (paused_in_range _ _ Hp);
  repeat match goal with H : paused _ = true -> _ |- _ => specialize (H Hp) end;
  repeat match goal with H : (_ <? _) = false |- _ => apply Nat.ltb_ge in H end;
  repeat match goal with H : Some ?a = Some ?b |- _ => assert (a = b) by congruence; subst; clear H end;
  repeat match goal with H : pc (th _ _) = _ |- _ => rewrite H in * end;
  try match goal with |- context [S ?k <= ?u] => destruct (Nat.eq_dec u k); [subst|] end;
  try match goal with
      | H : match pc ?x with _ => _ end |- _ => destruct (pc x); try contradiction;
          match goal with s : spc |- _ => destruct s; simpl in * end
      end;
  intuition (try lia; try congruence).

Lemma pres_paused : forall t w w', Inv w -> wstep cfg_fixed t w = Some w' ->
  forall u, paused (th w' u) = true -> stopper_ok w' u.
Proof.
  intros t w w' HI H u.
  pose proof (I_paused w HI u) as Hu. pose proof (I_paused w HI t) as Ht.
  pose proof (I_heap w HI t) as Hht.
  step_cases_fixed H.
  all: unfold stopper_ok, holds_heap in *; prep.
  all: try solve [intuition (try congruence; try discriminate)].
  all: destruct (heap w) as [h|] eqn:Hheap; prep.
  all: try solve [intuition (try congruence; try discriminate)].
  all: try solve [fin_paused].
Qed.

Lemma Inv_step : forall t w w', Inv w -> wstep cfg_fixed t w = Some w' -> Inv w'.
Proof.
  intros t w w' HI H. constructor.
  - eapply pres_heap; eauto.
  - eapply pres_tmx; eauto.
  - eapply pres_paused; eauto.
  - eapply pres_nolock; eauto.
  - eapply pres_reg; eauto.
Qed.


(* ------------------------------------------------------------------ initial worlds *)
Definition init_thd (x : thd) : Prop :=
  (pc x = Run \/ pc x = NotStarted \/ pc x = Done) /\ paused x = false /\ (reg x = true -> pc x = Run).

Lemma nth_Forall : forall A (P : A -> Prop) l d u, Forall P l -> P d -> P (nth u l d).
Proof.
  intros A P l d u Hl Hd. revert u. induction Hl; destruct u; simpl; auto.
Qed.

Lemma Inv_of_init_thds : forall w, Forall init_thd (ths w) -> heap w = None -> tmx w = None -> Inv w.
Proof.
  intros w Hf Hh Ht.
  assert (Hall : forall u, init_thd (th w u)).
  { intro u. unfold th. apply nth_Forall; auto. unfold init_thd, dflt; simpl. intuition discriminate. }
  constructor.
  - intro u. destruct (Hall u) as [Hpc _]. unfold holds_heap. rewrite Hh.
    destruct Hpc as [E|[E|E]]; rewrite E; split; discriminate.
  - intros u E. congruence.
  - intros u E. destruct (Hall u) as [_ [Hp _]]. congruence.
  - intros u. destruct (Hall u) as [Hpc _]. destruct Hpc as [E|[E|E]]; rewrite E; discriminate.
  - intros u E. destruct (Hall u) as [_ [_ Hr]]. rewrite (Hr E). discriminate.
Qed.

Lemma init_thd_mk : forall b p, init_thd (mk_thd b p).
Proof. intros [] p; unfold init_thd, mk_thd; simpl; intuition discriminate. Qed.

Lemma Inv_init : forall progs, Inv (init progs).
Proof.
  intros progs. apply Inv_of_init_thds; try reflexivity.
  destruct progs as [|p r]; simpl; constructor.
  - apply init_thd_mk.
  - apply Forall_forall. intros x Hx. apply in_map_iff in Hx. destruct Hx as [q [<- _]]. apply init_thd_mk.
Qed.

Lemma Inv_init_all : forall progs, Inv (init_all progs).
Proof.
  intros progs. apply Inv_of_init_thds; try reflexivity.
  simpl. apply Forall_forall. intros x Hx. apply in_map_iff in Hx. destruct Hx as [q [<- _]]. apply init_thd_mk.
Qed.

Lemma Inv_run : forall sched w, Inv w -> Inv (run cfg_fixed sched w).
Proof. intros. unfold run. apply invariant_run; auto. intros. eapply Inv_step; eauto. Qed.
