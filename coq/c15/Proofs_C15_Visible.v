(* C15: visibility of completed global updates.  seen x = generation of the global table thread x holds,
   env_gen w = number of completed updates.  Invariant Vis: outside the second pass of an update every started,
   unfinished thread holds the current table; during the second pass (position k) the threads below k hold the new
   table, the others (and the stopper) the previous one - and those are stopped (Proofs_C15_Excl.Stopped), so along
   exit-window-free runs a thread that executes an instruction always holds the current table. *)
From Coq Require Import List Arith Lia Bool.
Import ListNotations.
From SV Require Import c15.Conc c15.Model_C15 c15.Proofs_C15_Base c15.Proofs_C15_Inv c15.Proofs_C15 c15.Proofs_C15_Excl
  c15.Proofs_C15_Spawn.

(* position of the second pass of a global update (the pass that hands out the new table) *)
Definition upd_pos (s : spc) : option nat :=
  match s with
  | SWaitLock p => if p =? 2 then Some 0 else None
  | SWait p k | SAccess p k => if p =? 2 then Some k else None
  | _ => None
  end.

Definition vis_at (w : world) (h k : tid) : Prop :=
  is_update (head (th w h)) = true /\ S (seen (th w h)) = env_gen w /\
  forall t, t <> h -> live (th w t) = true ->
            (t < k -> seen (th w t) = env_gen w) /\ (k <= t -> S (seen (th w t)) = env_gen w).

Record Vis (w : world) : Prop := {
  V_upd : forall h s k, pc (th w h) = Stw s -> upd_pos s = Some k -> vis_at w h k;
  V_idle : (forall h s, pc (th w h) = Stw s -> upd_pos s = None) ->
           forall t, live (th w t) = true -> seen (th w t) = env_gen w;
  V_thunk : forall h, pc (th w h) = Stw SThunk -> is_update (head (th w h)) = true
}.

(* ------------------------------------------------------------------ frames *)
Lemma gen_nonstw : forall u w w', wstep cfg_fixed u w = Some w' -> (forall s, pc (th w u) <> Stw s) -> env_gen w' = env_gen w.
Proof.
  intros u w w' H Hnot.
  step_cases_fixed H.
  all: try solve [exfalso; eapply Hnot; eauto].
  all: prep; auto.
Qed.

Lemma seen_nonstw : forall u w w' t, wstep cfg_fixed u w = Some w' -> (forall s, pc (th w u) <> Stw s) ->
  seen (th w' t) = seen (th w t) \/
  (is_notstarted (pc (th w t)) = true /\ pc (th w u) = Held /\ seen (th w' t) = seen (th w u)).
Proof.
  intros u w w' t H Hnot.
  step_cases_fixed H.
  all: try solve [exfalso; eapply Hnot; eauto].
  all: prep; auto.
Qed.

Lemma live_nonstw : forall u w w' t, wstep cfg_fixed u w = Some w' -> (forall s, pc (th w u) <> Stw s) ->
  live (th w' t) = true -> live (th w t) = true \/ (is_notstarted (pc (th w t)) = true /\ pc (th w u) = Held).
Proof.
  intros u w w' t H Hnot.
  step_cases_fixed H.
  all: try solve [exfalso; eapply Hnot; eauto].
  all: unfold live; prep; auto.
Qed.

Lemma stw_back : forall u w w' h s, wstep cfg_fixed u w = Some w' -> (forall s, pc (th w u) <> Stw s) ->
  pc (th w' h) = Stw s -> (h <> u /\ pc (th w h) = Stw s /\ head (th w' h) = head (th w h)) \/ (h = u /\ s = SOwnFlag).
Proof.
  intros u w w' h s H Hnot Hpc.
  destruct (Nat.eq_dec h u) as [->|Hne].
  - right. split; auto. destruct (nonstw_own2 u w w' H Hnot) as (_ & _ & _ & _ & Hos). auto.
  - left. split; auto. destruct (nonstw_frame2 u w w' h H Hnot Hne) as (_ & Hprog & Hhpc & _).
    split; [destruct Hhpc as [E|[E1 E2]]; [congruence | rewrite E2 in Hpc; discriminate]|].
    unfold head. now rewrite Hprog.
Qed.

Lemma stw_forward : forall u w w' h s, wstep cfg_fixed u w = Some w' -> (forall s, pc (th w u) <> Stw s) ->
  pc (th w h) = Stw s -> pc (th w' h) = Stw s.
Proof.
  intros u w w' h s H Hnot Hpc.
  assert (Hne : h <> u) by (intro E; subst; eapply Hnot; eauto).
  destruct (nonstw_frame2 u w w' h H Hnot Hne) as (_ & _ & Hhpc & _).
  destruct Hhpc as [E|[E1 E2]]; congruence.
Qed.

(* a thread that is started by a step gets a copy of the spawner's table *)
Lemma start_seen : forall u w w' t, wstep cfg_fixed u w = Some w' ->
  is_notstarted (pc (th w t)) = true -> is_notstarted (pc (th w' t)) = false -> seen (th w' t) = seen (th w u).
Proof.
  intros u w w' t H Hn Hn'.
  step_cases_fixed H.
  all: revert Hn'; prep; rewrite ?Nat.eqb_refl; simpl; try congruence; try discriminate; auto.
Qed.

Lemma held_holds : forall w u, Inv w -> pc (th w u) = Held -> heap w = Some u.
Proof. intros w u HI H. apply (I_heap w HI u). unfold holds_heap. now rewrite H. Qed.

Lemma Vis_step_other : forall u w w', Inv w -> Vis w -> wstep cfg_fixed u w = Some w' ->
  (forall s, pc (th w u) <> Stw s) -> Vis w'.
Proof.
  intros u w w' HI HV H Hnot.
  pose proof (gen_nonstw u w w' H Hnot) as Hg.
  assert (Hself : live (th w u) = true).
  { destruct (nonstw_own2 u w w' H Hnot) as (_ & _ & Hd & Hn & _). unfold live. now rewrite Hd, Hn. }
  constructor.
  - intros h s k Hpc Hk.
    destruct (stw_back u w w' h s H Hnot Hpc) as [(Hne & Hpcw & Hhd) | (-> & ->)]; [|discriminate].
    destruct (V_upd w HV h s k Hpcw Hk) as (Hu & Hsh & Hall).
    assert (Hheap : heap w = Some h) by (eapply stw_holds_heap; eauto).
    split; [congruence|]. split.
    + destruct (seen_nonstw u w w' h H Hnot) as [E|(E1 & _)]; [congruence|].
      rewrite Hpcw in E1. discriminate.
    + intros t Hth Hl. rewrite Hg.
      destruct (live_nonstw u w w' t H Hnot Hl) as [Hlw | (Hns & Hheld)].
      * destruct (seen_nonstw u w w' t H Hnot) as [E|(E1 & _)].
        -- rewrite E. apply Hall; auto.
        -- exfalso. unfold live in Hlw. rewrite E1 in Hlw. rewrite andb_false_r in Hlw. discriminate.
      * exfalso. pose proof (held_holds w u HI Hheld). assert (u = h) by congruence. subst.
        rewrite Hpcw in Hheld. discriminate.
  - intros Hnone t Hl. rewrite Hg.
    assert (Hnonew : forall h s, pc (th w h) = Stw s -> upd_pos s = None).
    { intros h s Hpc. apply (Hnone h s). eapply stw_forward; eauto. }
    destruct (live_nonstw u w w' t H Hnot Hl) as [Hlw | (Hns & Hheld)].
    + destruct (seen_nonstw u w w' t H Hnot) as [E|(E1 & _)].
      * rewrite E. apply (V_idle w HV Hnonew); auto.
      * exfalso. unfold live in Hlw. rewrite E1 in Hlw. rewrite andb_false_r in Hlw. discriminate.
    + assert (Hn' : is_notstarted (pc (th w' t)) = false) by (apply live_cases in Hl; tauto).
      rewrite (start_seen u w w' t H Hns Hn'). apply (V_idle w HV Hnonew); auto.
  - intros h Hpc.
    destruct (stw_back u w w' h _ H Hnot Hpc) as [(Hne & Hpcw & Hhd) | (-> & E)]; [|discriminate].
    rewrite Hhd. apply (V_thunk w HV); auto.
Qed.

(* ------------------------------------------------------------------ the stopper's own steps *)
Lemma only_stopper : forall w t s0, Inv w -> pc (th w t) = Stw s0 ->
  forall h s, pc (th w h) = Stw s -> h = t /\ s = s0.
Proof.
  intros w t s0 HI Ept h s Hpc. assert (h = t) by (eapply stw_unique2; eauto). subst. split; congruence.
Qed.

(* a step of the stopper that changes no table generation, no liveness, no script and keeps the update position *)
Lemma Vis_transfer : forall w w' t s0, Inv w -> Vis w -> pc (th w t) = Stw s0 ->
  (forall u, seen (th w' u) = seen (th w u) /\ live (th w' u) = live (th w u) /\ head (th w' u) = head (th w u)) ->
  env_gen w' = env_gen w ->
  (forall u, u <> t -> pc (th w' u) = pc (th w u)) ->
  match pc (th w' t) with
  | Stw s => upd_pos s = upd_pos s0 /\ (s = SThunk -> is_update (head (th w t)) = true)
  | _ => upd_pos s0 = None
  end ->
  Vis w'.
Proof.
  intros w w' t s0 HI HV Ept Hsame Hg Hpcs Hown.
  assert (Hst : forall h s, pc (th w' h) = Stw s -> h = t).
  { intros h s Hpc. destruct (Nat.eq_dec h t); auto. rewrite (Hpcs h n) in Hpc.
    destruct (only_stopper w t s0 HI Ept h s Hpc); auto. }
  constructor.
  - intros h s k Hpc Hk. pose proof (Hst h s Hpc); subst h.
    rewrite Hpc in Hown. destruct Hown as [Hu _]. rewrite Hu in Hk.
    destruct (V_upd w HV t s0 k Ept Hk) as (A & B & C).
    destruct (Hsame t) as (S1 & _ & S3). split; [congruence|]. split; [congruence|].
    intros u Hut Hl. destruct (Hsame u) as (U1 & U2 & _). rewrite U1, Hg. apply C; auto. congruence.
  - intros Hnone u Hl. destruct (Hsame u) as (U1 & U2 & _). rewrite U1, Hg. apply (V_idle w HV); [|congruence].
    intros h s Hpc. destruct (only_stopper w t s0 HI Ept h s Hpc) as [-> ->].
    destruct (pc (th w' t)) eqn:E; auto.
    destruct Hown as [Hu _]. rewrite <- Hu. eapply Hnone; eauto.
  - intros h Hpc. pose proof (Hst h _ Hpc); subst h. rewrite Hpc in Hown. destruct Hown as [_ Hu].
    destruct (Hsame t) as (_ & _ & S3). rewrite S3. auto.
Qed.
