(* C15: thread creation under the heap guard (spawn_locked, repair 56291059).
   A thread that runs but is not registered exists only while its spawner holds the heap guard between the start of the
   thread and its registration (pc = SpReg); stop-the-world sections hold the same guard, so no section ever overlaps
   an unregistered running thread: the second known window of Model_C15.known_window is unreachable, and the
   theorems of Proofs_C15_Excl need the exit window to be avoided only. *)
From Coq Require Import List Arith Lia Bool.
Import ListNotations.
From SV Require Import c15.Conc c15.Model_C15 c15.Proofs_C15_Base c15.Proofs_C15_Inv c15.Proofs_C15 c15.Proofs_C15_Excl.

(* every running unregistered thread has a spawner between thread start and registration *)
Definition Unreg (w : world) : Prop :=
  forall j, live (th w j) = true -> reg (th w j) = false ->
            exists s, pc (th w s) = SpReg /\ head (th w s) = ASpawn j.

Lemma reg_kept : forall t w w' u, wstep cfg_fixed t w = Some w' -> reg (th w u) = true -> reg (th w' u) = true.
Proof.
  intros t w w' u H Hr.
  step_cases_fixed H.
  all: prep; auto; try congruence.
Qed.

Lemma done_kept : forall t w w' u, wstep cfg_fixed t w = Some w' -> is_done (pc (th w u)) = true -> is_done (pc (th w' u)) = true.
Proof.
  intros t w w' u H Hr.
  step_cases_fixed H.
  all: prep; auto; try congruence; try discriminate.
Qed.

(* the only step that starts a thread is the spawner's, and it leaves the spawner at SpReg *)
Lemma start_step : forall t w w' j, wstep cfg_fixed t w = Some w' ->
  is_notstarted (pc (th w j)) = true -> is_notstarted (pc (th w' j)) = false ->
  pc (th w' t) = SpReg /\ head (th w' t) = ASpawn j.
Proof.
  intros t w w' j H Hn Hn'.
  step_cases_fixed H.
  all: revert Hn'; prep; rewrite ?Nat.eqb_refl; simpl; try congruence; try discriminate; auto.
Qed.

(* steps of other threads do not move a started thread or change its script *)
Lemma other_frame : forall t w w' s, wstep cfg_fixed t w = Some w' -> s <> t ->
  is_notstarted (pc (th w s)) = false -> pc (th w' s) = pc (th w s) /\ head (th w' s) = head (th w s).
Proof.
  intros t w w' s H Hne Hn.
  step_cases_fixed H.
  all: revert Hn; prep; auto; try congruence; try discriminate.
Qed.

(* the spawner's step at SpReg registers the thread it started *)
Lemma reg_step : forall s w w' j, wstep cfg_fixed s w = Some w' -> pc (th w s) = SpReg -> head (th w s) = ASpawn j ->
  is_notstarted (pc (th w j)) = false -> j < nthreads w -> reg (th w' j) = true.
Proof.
  intros s w w' j H Hpc Hh Hn Hlt. apply Nat.ltb_lt in Hlt.
  step_cases_fixed H; try congruence.
  all: prep; auto; try congruence; try discriminate.
  all: repeat match goal with H : ASpawn _ = ASpawn _ |- _ => inversion H; subst; clear H end; try congruence.
  all: rewrite ?Nat.eqb_refl in *; simpl in *; try congruence.
Qed.

Lemma live_in_range : forall w j, live (th w j) = true -> j < nthreads w.
Proof.
  intros w j H. destruct (lt_dec j (nthreads w)); auto. rewrite th_out_of_range in H by lia. discriminate.
Qed.

Lemma live_cases : forall x, live x = true -> is_done (pc x) = false /\ is_notstarted (pc x) = false.
Proof. intros x H. unfold live in H. apply andb_true_iff in H. destruct H as [A B]. apply negb_true_iff in A, B. auto. Qed.

Lemma Unreg_step : forall t w w', Unreg w -> wstep cfg_fixed t w = Some w' -> Unreg w'.
Proof.
  intros t w w' HU H j Hl Hr.
  destruct (live_cases _ Hl) as [Hd' Hn'].
  assert (Hrw : reg (th w j) = false).
  { destruct (reg (th w j)) eqn:E; auto. rewrite (reg_kept t w w' j H E) in Hr. discriminate. }
  assert (Hdw : is_done (pc (th w j)) = false).
  { destruct (is_done (pc (th w j))) eqn:E; auto. rewrite (done_kept t w w' j H E) in Hd'. discriminate. }
  destruct (is_notstarted (pc (th w j))) eqn:Hnw.
  - (* j was started by this step *)
    exists t. eapply start_step; eauto.
  - (* j was already running unregistered: its spawner is still at SpReg unless this is the spawner's step *)
    assert (Hlw : live (th w j) = true) by (unfold live; rewrite Hdw, Hnw; reflexivity).
    destruct (HU j Hlw Hrw) as (s & Hs & Hh).
    destruct (Nat.eq_dec s t) as [->|Hne].
    + exfalso. pose proof (reg_step t w w' j H Hs Hh Hnw (live_in_range w j Hlw)) as E. congruence.
    + exists s. destruct (other_frame t w w' s H Hne) as [A B]; [rewrite Hs; reflexivity|]. split; congruence.
Qed.

Lemma reg_init_cases : forall progs t, live (th (init progs) t) = true -> reg (th (init progs) t) = true.
Proof.
  intros progs t. unfold th, init. cbn [ths].
  assert (A : forall l u, live (nth u (map (mk_thd false) l) dflt) = false).
  { induction l as [|p r IH]; intros [|u]; simpl; auto. }
  destruct progs as [|p r]; [destruct t; simpl; discriminate|].
  destruct t as [|t]; simpl; auto. rewrite A. discriminate.
Qed.

Lemma Unreg_init : forall progs, Unreg (init progs).
Proof. intros progs j Hl Hr. rewrite (reg_init_cases progs j Hl) in Hr. discriminate. Qed.

Lemma Unreg_run : forall sched w, Unreg w -> Unreg (run cfg_fixed sched w).
Proof. intros. unfold run. apply invariant_run; auto. intros. eapply Unreg_step; eauto. Qed.

(* no stop-the-world section overlaps a running unregistered thread *)
Lemma no_unregistered_runner_inv : forall w h s t, Inv w -> Unreg w ->
  pc (th w h) = Stw s -> live (th w t) = true -> reg (th w t) = true.
Proof.
  intros w h s t HI HU Hs Hl.
  destruct (reg (th w t)) eqn:Er; auto. exfalso.
  destruct (HU t Hl Er) as (sp & Hp & _).
  assert (heap w = Some sp) by (apply (I_heap w HI sp); unfold holds_heap; now rewrite Hp).
  assert (heap w = Some h) by (eapply stw_holds_heap; eauto).
  assert (sp = h) by congruence. subst. rewrite Hs in Hp. discriminate.
Qed.

Lemma no_unregistered_runner_run : forall progs sched h s t,
  let w := run cfg_fixed sched (init progs) in
  pc (th w h) = Stw s -> live (th w t) = true -> reg (th w t) = true.
Proof.
  intros progs sched h s t w. apply no_unregistered_runner_inv.
  - apply Inv_run. apply Inv_init.
  - apply Unreg_run. apply Unreg_init.
Qed.

(* ------------------------------------------------------------------ only the exit window is left *)
Definition in_exit_window (x : thd) : bool := is_exit_checked (pc x) && paused x.
Definition exit_window (w : world) : bool := existsb in_exit_window (ths w).
Fixpoint exit_window_free (cfg : config) (sched : list tid) (w : world) : bool :=
  negb (exit_window w) &&
  match sched with [] => true | t :: r => exit_window_free cfg r (Conc.exec1 world (wstep cfg) t w) end.

Lemma stw_any_witness : forall w, stw_any w = true -> exists h s, pc (th w h) = Stw s.
Proof.
  intros w H. unfold stw_any in H. apply existsb_exists in H. destruct H as (x & Hin & Hx).
  destruct (In_nth _ _ dflt Hin) as (h & Hlt & E). exists h.
  unfold th. rewrite E. destruct (pc x); try discriminate. eauto.
Qed.

Lemma known_is_exit : forall w, Inv w -> Unreg w -> known_window w = exit_window w.
Proof.
  intros w HI HU. unfold known_window, exit_window.
  destruct (existsb in_exit_window (ths w)) eqn:E.
  - apply existsb_exists in E. destruct E as (x & Hin & Hx). apply existsb_exists. exists x. split; auto.
    unfold in_known_window. unfold in_exit_window in Hx. rewrite Hx. reflexivity.
  - destruct (existsb (in_known_window w) (ths w)) eqn:E2; auto. exfalso.
    apply existsb_exists in E2. destruct E2 as (x & Hin & Hx).
    assert (Hne : in_exit_window x = false).
    { destruct (in_exit_window x) eqn:E3; auto.
      assert (existsb in_exit_window (ths w) = true) by (apply existsb_exists; eauto). congruence. }
    unfold in_known_window in Hx. unfold in_exit_window in Hne. rewrite Hne in Hx. simpl in Hx.
    apply andb_true_iff in Hx. destruct Hx as [Hx Hr]. apply andb_true_iff in Hx. destruct Hx as [Hs Hl].
    destruct (stw_any_witness w Hs) as (h & s & Hh).
    destruct (In_nth _ _ dflt Hin) as (t & Hlt & Et).
    assert (reg (th w t) = true).
    { eapply no_unregistered_runner_inv; eauto. unfold th. rewrite Et. exact Hl. }
    unfold th in H. rewrite Et in H. rewrite H in Hr. discriminate.
Qed.

Lemma exit_free_is_window_free : forall sched w, Inv w -> Unreg w ->
  exit_window_free cfg_fixed sched w = true -> window_free cfg_fixed sched w = true.
Proof.
  induction sched as [|t r IH]; intros w HI HU H; simpl in *.
  - rewrite (known_is_exit w HI HU). exact H.
  - apply andb_true_iff in H. destruct H as [A B]. rewrite (known_is_exit w HI HU), A. simpl.
    apply IH; auto; unfold Conc.exec1; destruct (wstep cfg_fixed t w) eqn:E; auto.
    + eapply Inv_step; eauto.
    + eapply Unreg_step; eauto.
Qed.

Lemma mutual_exclusion_outside_exit_window_lemma : forall progs sched,
  exit_window_free cfg_fixed sched (init progs) = true -> Excl15 (run cfg_fixed sched (init progs)).
Proof.
  intros. apply mutual_exclusion_outside_known_lemma. apply exit_free_is_window_free; auto.
  - apply Inv_init.
  - apply Unreg_init.
Qed.

Lemma all_stopped_outside_exit_window_lemma : forall progs sched h s t,
  exit_window_free cfg_fixed sched (init progs) = true ->
  let w := run cfg_fixed sched (init progs) in
  pc (th w h) = Stw s -> covered s t = true -> t <> h -> live (th w t) = true ->
  safe_to_access (th w t) = true.
Proof.
  intros progs sched h s t Hwf w Hpc Hc Hth Hl.
  destruct (live_cases _ Hl) as [Hd _].
  apply (all_stopped_after_first_pass_lemma progs sched h s t); auto.
  - apply exit_free_is_window_free; auto; [apply Inv_init | apply Unreg_init].
  - eapply no_unregistered_runner_run; eauto.
Qed.

(* non-vacuity: the run of Model_C15.wf_progs (a spawn, a global update, a collection) avoids the exit window, a
   thread is started and registered under the guard, and the stopper reaches both passes *)
Lemma exit_window_free_example :
  exit_window_free cfg_fixed wf_sched (init wf_progs) = true /\
  (let w := run cfg_fixed (firstn 6 wf_sched) (init wf_progs) in
   pc (th w 0) = SpReg /\ pc (th w 1) = Run /\ reg (th w 1) = false /\ heap w = Some 0) /\
  (let w := run cfg_fixed (firstn 10 wf_sched) (init wf_progs) in reg (th w 1) = true /\ heap w = None) /\
  pc (th (run cfg_fixed (firstn 27 wf_sched) (init wf_progs)) 0) = Stw (SAccess 1 1).
Proof. vm_compute. auto 10. Qed.

(* the window the repair closed: with spawn_locked = false a section overlaps a running unregistered thread *)
Definition spawn_overlap_sched : list tid := [0;0;0;0;0; 0;0] ++ repeat 2 12.
Lemma unregistered_runner_before_fix :
  let w := run cfg_pre_spawn_fix spawn_overlap_sched (init spawn_progs) in
  exists s, pc (th w 2) = Stw s /\ live (th w 1) = true /\ reg (th w 1) = false.
Proof. vm_compute. eauto. Qed.
