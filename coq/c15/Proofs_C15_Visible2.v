From Coq Require Import List Arith Lia Bool.
Import ListNotations.
From SV Require Import c15.Conc c15.Model_C15 c15.Proofs_C15_Base c15.Proofs_C15_Inv c15.Proofs_C15 c15.Proofs_C15_Excl
  c15.Proofs_C15_Spawn c15.Proofs_C15_Visible.

(* the stopper never reads its own state through the handshake *)
Definition AccSelf (w : world) : Prop := forall h p k, pc (th w h) = Stw (SAccess p k) -> k <> h.

Lemma AccSelf_step : forall t w w', AccSelf w -> wstep cfg_fixed t w = Some w' -> AccSelf w'.
Proof.
  intros t w w' HA H h p k. pose proof (HA h p k) as Hh. pose proof (HA t p k) as Ht.
  step_cases_fixed H.
  all: prep; try discriminate; auto.
  all: try (intro E; inversion E; subst; eqb_facts; arith_bools; eqb_facts; congruence).
Qed.

Lemma Vis_intro : forall w' t, (forall h s, pc (th w' h) = Stw s -> h = t) ->
  match pc (th w' t) with
  | Stw s => match upd_pos s with
             | Some k => vis_at w' t k
             | None => (forall u, live (th w' u) = true -> seen (th w' u) = env_gen w') /\
                       (s = SThunk -> is_update (head (th w' t)) = true)
             end
  | _ => forall u, live (th w' u) = true -> seen (th w' u) = env_gen w'
  end -> Vis w'.
Proof.
  intros w' t Hst Hm. constructor.
  - intros h s k Hpc Hk. pose proof (Hst h s Hpc); subst h. rewrite Hpc, Hk in Hm. exact Hm.
  - intros Hnone u Hl. destruct (pc (th w' t)) eqn:E; auto.
    rewrite (Hnone t s E) in Hm. destruct Hm as [A _]. auto.
  - intros h Hpc. pose proof (Hst h _ Hpc); subst h. rewrite Hpc in Hm. simpl in Hm. destruct Hm as [_ B]. auto.
Qed.

Lemma idle_of : forall w t s0, Inv w -> Vis w -> pc (th w t) = Stw s0 -> upd_pos s0 = None ->
  forall u, live (th w u) = true -> seen (th w u) = env_gen w.
Proof.
  intros w t s0 HI HV Ept Hn. apply (V_idle w HV).
  intros h s Hpc. destruct (only_stopper w t s0 HI Ept h s Hpc) as [-> ->]. exact Hn.
Qed.

Lemma live_range : forall w u, live (th w u) = true -> u < nthreads w.
Proof. intros. apply live_in_range; auto. Qed.

Ltac rw Hlt := autorewrite with world; rewrite ?Nat.eqb_refl, ?Hlt; simpl.
Ltac ne Hlt u t Hut := autorewrite with world; rewrite ?Nat.eqb_refl, ?Hlt, ?(proj2 (Nat.eqb_neq u t) Hut); simpl.

Lemma Vis_step_stw : forall t w w' s0, Inv w -> Unreg w -> AccSelf w -> Vis w ->
  pc (th w t) = Stw s0 -> wstep cfg_fixed t w = Some w' -> Vis w'.
Proof.
  intros t w w' s0 HI HU HA HV Ept H.
  assert (Htl : live (th w t) = true) by (unfold live; rewrite Ept; reflexivity).
  assert (Huniq : forall w1, (forall u, u <> t -> pc (th w1 u) = pc (th w u)) ->
                             forall h s, pc (th w1 h) = Stw s -> h = t).
  { intros w1 Hsame h s Hpc. destruct (Nat.eq_dec h t); auto. rewrite (Hsame h n) in Hpc.
    destruct (only_stopper w t s0 HI Ept h s Hpc); auto. }
  unfold wstep in H. destruct (t <? nthreads w) eqn:Hlt; [|discriminate]. cbv zeta in H. rewrite Ept in H.
  unfold stw_step in H. cbv zeta in H.
  destruct s0; destr_match H; inversion H; subst; clear H.
  all: try solve [ apply (Vis_transfer w _ t _ HI HV Ept);
                   [ intros u; unfold live; prep; auto
                   | prep; auto
                   | intros u Hu; prep; auto; congruence
                   | prep; rewrite ?Nat.eqb_refl; simpl; auto; try (split; [reflexivity | intro E; discriminate E]) ] ].
  - (* SWait p k: thread k is skipped *)
    destruct (p =? 2) eqn:Ep2.
    + destruct (V_upd w HV t _ k Ept) as (A & B & C); [simpl; now rewrite Ep2|].
      apply (Vis_intro _ t); [apply Huniq; intros u Hu; prep; auto; congruence|].
      rw Hlt. rewrite Ep2. unfold vis_at. rw Hlt.
      split; [exact A|]. split; [exact B|].
      intros u Hut. ne Hlt u t Hut. intros Hl.
      destruct (C u Hut Hl) as [C1 C2]. split; [|intro; apply C2; lia].
      intro Hlt2. destruct (Nat.eq_dec u k) as [->|Hne]; [|apply C1; lia].
      exfalso. destruct (live_cases _ Hl) as [Hd _].
      pose proof (no_unregistered_runner_inv w t _ k HI HU Ept Hl) as Hr.
      rewrite Hr, Hd in Heqb0. simpl in Heqb0. rewrite orb_false_r in Heqb0. apply Nat.eqb_eq in Heqb0. congruence.
    + apply (Vis_transfer w _ t _ HI HV Ept);
        [ intros u; unfold live; prep; auto | prep; auto | intros u Hu; prep; auto; congruence
        | rw Hlt; rewrite Ep2; split; [reflexivity | intro E; discriminate E] ].
  - (* end of the second pass of an update: the stopper takes the new table itself *)
    apply (Vis_intro _ t); [apply Huniq; intros u Hu; prep; auto; congruence|].
    rw Hlt. split; [|intro E; discriminate E].
    intros u. destruct (Nat.eq_dec u t) as [->|Hut]; [rw Hlt; auto|]. ne Hlt u t Hut. intros Hl.
    destruct (p =? 2) eqn:Ep2.
    + destruct (V_upd w HV t _ k Ept) as (A & B & C); [simpl; now rewrite Ep2|].
      apply (C u Hut Hl). pose proof (live_range w u Hl). apply Nat.ltb_ge in Heqb. lia.
    + apply (idle_of w t _ HI HV Ept); [simpl; now rewrite Ep2 | exact Hl].
  - (* end of a pass of a section that is not an update *)
    apply (Vis_intro _ t); [apply Huniq; intros u Hu; prep; auto; congruence|].
    rw Hlt. split; [|intro E; discriminate E].
    assert (Hall : forall u, live (th w u) = true -> seen (th w u) = env_gen w).
    { destruct (p =? 2) eqn:Ep2.
      + destruct (V_upd w HV t _ k Ept) as (A & _); [simpl; now rewrite Ep2|]. congruence.
      + apply (idle_of w t _ HI HV Ept). simpl. now rewrite Ep2. }
    intros u. destruct (Nat.eq_dec u t) as [->|Hut]; [rw Hlt; intros _; apply Hall; exact Htl|].
    ne Hlt u t Hut. apply Hall.
  - (* second pass: thread k is handed the new table *)
    apply andb_true_iff in Heqb. destruct Heqb as [Hup Ep2].
    destruct (V_upd w HV t _ k Ept) as (A & B & C); [simpl; now rewrite Ep2|].
    pose proof (HA t p k Ept) as Hkt.
    apply (Vis_intro _ t); [apply Huniq; intros u Hu; prep; auto; congruence|].
    rw Hlt. ne Hlt t k (not_eq_sym Hkt). rw Hlt. rewrite Ep2. unfold vis_at. rw Hlt. ne Hlt t k (not_eq_sym Hkt). rw Hlt.
    split; [exact A|]. split; [exact B|].
    intros u Hut. ne Hlt u t Hut.
    destruct (Nat.eq_dec u k) as [->|Hne].
    * rw Hlt. destruct (k <? nthreads w) eqn:Hk; simpl.
      -- intros _. split; [reflexivity | intro; lia].
      -- intros Hl. exfalso. apply live_range in Hl. apply Nat.ltb_ge in Hk. lia.
    * ne Hlt u k Hne. intros Hl. destruct (C u Hut Hl) as [C1 C2]. split; intro; [apply C1 | apply C2]; lia.
  - (* first pass, or a section that is not an update: nothing is handed out *)
    destruct (p =? 2) eqn:Ep2.
    + destruct (V_upd w HV t _ k Ept) as (A & _); [simpl; now rewrite Ep2|].
      rewrite A in Heqb. simpl in Heqb. discriminate.
    + apply (Vis_transfer w _ t _ HI HV Ept);
        [ intros u; unfold live; prep; auto | prep; auto | intros u Hu; prep; auto; congruence
        | rw Hlt; rewrite Ep2; split; [reflexivity | intro E; discriminate E] ].
  - (* the update itself: the generation advances, every thread now holds the previous table *)
    pose proof (idle_of w t _ HI HV Ept eq_refl) as Hidle.
    apply (Vis_intro _ t); [apply Huniq; intros u Hu; prep; auto; congruence|].
    rw Hlt. unfold vis_at. rw Hlt.
    split; [apply (V_thunk w HV t Ept)|]. split; [f_equal; apply Hidle; exact Htl|].
    intros u Hut. ne Hlt u t Hut. intros Hl.
    split; [intro; lia | intros _; f_equal; apply Hidle; exact Hl].
Qed.

(* ------------------------------------------------------------------ every step, every run *)
Record VInv (w : world) : Prop := { VI_inv : Inv w; VI_unreg : Unreg w; VI_acc : AccSelf w; VI_vis : Vis w }.

Lemma VInv_step : forall t w w', VInv w -> wstep cfg_fixed t w = Some w' -> VInv w'.
Proof.
  intros t w w' [HI HU HA HV] H. constructor.
  - eapply Inv_step; eauto.
  - eapply Unreg_step; eauto.
  - eapply AccSelf_step; eauto.
  - destruct (pc (th w t)) eqn:Ept.
    all: try (eapply Vis_step_other; eauto; intros x E; rewrite Ept in E; discriminate).
    eapply Vis_step_stw; eauto.
Qed.

Lemma seen_init : forall progs t, seen (th (init progs) t) = 0.
Proof.
  intros progs t. unfold th, init. cbn [ths].
  assert (A : forall l b u, seen (nth u (map (mk_thd b) l) dflt) = 0).
  { induction l as [|p r IH]; intros b [|u]; simpl; auto. }
  destruct progs as [|p r]; [destruct t; reflexivity|].
  destruct t as [|t]; simpl; auto.
Qed.

Lemma VInv_init : forall progs, VInv (init progs).
Proof.
  intros progs.
  assert (Hn : forall t s, pc (th (init progs) t) <> Stw s).
  { intros t s E. destruct (pc_init_cases progs t) as [A|[A|A]]; rewrite A in E; discriminate. }
  constructor.
  - apply Inv_init.
  - apply Unreg_init.
  - intros h p k E. exfalso. eapply Hn; eauto.
  - constructor.
    + intros h s k E. exfalso. eapply Hn; eauto.
    + intros _ t _. rewrite seen_init. reflexivity.
    + intros h E. exfalso. eapply Hn; eauto.
Qed.

Lemma VInv_run : forall sched w, VInv w -> VInv (run cfg_fixed sched w).
Proof. intros. unfold run. apply invariant_run; auto. intros. eapply VInv_step; eauto. Qed.

(* the table generations along EVERY run: outside the second pass of an update all started, unfinished threads hold
   the current table; inside it the threads below the pass position do and the others hold the previous one *)
Lemma generations_run : forall progs sched, Vis (run cfg_fixed sched (init progs)).
Proof. intros. apply VI_vis. apply VInv_run. apply VInv_init. Qed.

Lemma covered_second_pass : forall s k t, upd_pos s = Some k -> covered s t = true.
Proof.
  intros s k t H. destruct s; simpl in *; try discriminate.
  all: destruct (p =? 2) eqn:E; try discriminate; apply Nat.eqb_eq in E; subst; reflexivity.
Qed.

(* a thread that executes an instruction holds the current global table (exit-window-free runs) *)
Lemma global_visible_lemma : forall progs sched t,
  exit_window_free cfg_fixed sched (init progs) = true ->
  let w := run cfg_fixed sched (init progs) in
  pc (th w t) = Exec -> seen (th w t) = env_gen w.
Proof.
  intros progs sched t Hwf w Hpc.
  assert (HVI : VInv w) by (apply VInv_run; apply VInv_init).
  destruct HVI as [HI HU HA HV].
  assert (Hl : live (th w t) = true) by (unfold live; rewrite Hpc; reflexivity).
  destruct (stw_any w) eqn:Hany.
  - destruct (stw_any_witness w Hany) as (h & s & Hh).
    destruct (upd_pos s) as [k|] eqn:Hk.
    + exfalso.
      assert (Hth : t <> h) by (intro E; subst; rewrite Hh in Hpc; discriminate).
      pose proof (all_stopped_outside_exit_window_lemma progs sched h s t Hwf Hh (covered_second_pass s k t Hk) Hth Hl) as Hs.
      unfold safe_to_access in Hs. fold w in Hs. rewrite Hpc in Hs. discriminate.
    + apply (V_idle w HV); auto.
      intros h' s' Hpc'. destruct (only_stopper w h s HI Hh h' s' Hpc') as [-> ->]. exact Hk.
  - apply (V_idle w HV); auto.
    intros h s Hh. exfalso.
    assert (Hlt : h < nthreads w).
    { destruct (lt_dec h (nthreads w)); auto. rewrite th_out_of_range in Hh by lia. discriminate. }
    assert (stw_any w = true); [|congruence].
    unfold stw_any. apply existsb_exists. exists (th w h). split; [apply th_in; auto|]. now rewrite Hh.
Qed.

Definition vis_sched : list tid := wf_sched ++ [0;0;0;0] ++ [1;1].
Lemma global_visible_example :
  exit_window_free cfg_fixed vis_sched (init wf_progs) = true /\
  (let w := run cfg_fixed vis_sched (init wf_progs) in
   pc (th w 1) = Exec /\ env_gen w = 1 /\ seen (th w 1) = 1 /\ seen (th w 0) = 1).
Proof. vm_compute. auto 10. Qed.
