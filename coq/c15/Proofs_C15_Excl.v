(* C15: exclusive access OUTSIDE the two known windows.  Invariants of the repaired handshake that hold along every
   run none of whose worlds is in a known window (Model_C15.known_window): the converse flag invariant (a registered,
   unfinished thread the stopper has flagged stays flagged until it is resumed), and "every thread the stopper's first
   pass has passed is parked or inside a primitive". *)
From Coq Require Import List Arith Lia Bool.
Import ListNotations.
From SV Require Import c15.Conc c15.Model_C15 c15.Proofs_C15_Base c15.Proofs_C15_Inv.


Lemma th_in : forall w t, t < nthreads w -> In (th w t) (ths w).
Proof. intros. unfold th. apply nth_In. exact H. Qed.

Lemma kw_exit : forall w t, known_window w = false -> is_exit_checked (pc (th w t)) = true -> paused (th w t) = false.
Proof.
  intros w t Hk He. destruct (lt_dec t (nthreads w)) as [L|L].
  - destruct (paused (th w t)) eqn:Ep; auto.
    assert (known_window w = true); [|congruence].
    unfold known_window. apply existsb_exists. exists (th w t). split; [apply th_in; auto|].
    unfold in_known_window. rewrite He, Ep. reflexivity.
  - rewrite th_out_of_range by lia. reflexivity.
Qed.

Lemma kw_unreg : forall w h s t, known_window w = false -> pc (th w h) = Stw s ->
  live (th w t) = true -> reg (th w t) = true.
Proof.
  intros w h s t Hk Hs Hl.
  assert (Hh : h < nthreads w).
  { destruct (lt_dec h (nthreads w)); auto. rewrite th_out_of_range in Hs by lia. discriminate. }
  assert (Ht : t < nthreads w).
  { destruct (lt_dec t (nthreads w)); auto. rewrite th_out_of_range in Hl by lia. discriminate. }
  destruct (reg (th w t)) eqn:Er; auto.
  assert (known_window w = true); [|congruence].
  unfold known_window. apply existsb_exists. exists (th w t). split; [apply th_in; auto|].
  unfold in_known_window. rewrite Hl, Er.
  assert (stw_any w = true).
  { unfold stw_any. apply existsb_exists. exists (th w h). split; [apply th_in; auto|]. now rewrite Hs. }
  rewrite H. simpl. apply orb_true_r.
Qed.

(* the converse flag invariant, with registrations and spawns allowed outside stop-the-world sections *)
Definition flagged2_ok (w : world) (h : tid) (s : spc) : Prop :=
  match s with
  | SOwnFlag | SStopLock => True
  | SSetFlag k => forall t, t < k -> t <> h -> reg (th w t) = true -> is_done (pc (th w t)) = false -> paused (th w t) = true
  | SResume k => forall t, k <= t -> t <> h -> reg (th w t) = true -> is_done (pc (th w t)) = false -> paused (th w t) = true
  | _ => forall t, t <> h -> reg (th w t) = true -> is_done (pc (th w t)) = false -> paused (th w t) = true
  end.
Definition Flagged2 (w : world) : Prop := forall h s, pc (th w h) = Stw s -> flagged2_ok w h s.

Lemma stw_unique2 : forall w a b x y, Inv w -> pc (th w a) = Stw x -> pc (th w b) = Stw y -> a = b.
Proof.
  intros w a b x y HI Ha Hb.
  assert (heap w = Some a) by (apply (I_heap w HI a); unfold holds_heap; now rewrite Ha).
  assert (heap w = Some b) by (apply (I_heap w HI b); unfold holds_heap; now rewrite Hb).
  congruence.
Qed.

(* what a step of a thread outside a section can do to another thread *)
Lemma nonstw_frame2 : forall u w w' t, wstep cfg_fixed u w = Some w' -> (forall s, pc (th w u) <> Stw s) -> t <> u ->
  paused (th w' t) = paused (th w t) /\ prog (th w' t) = prog (th w t) /\
  (pc (th w' t) = pc (th w t) \/ (pc (th w t) = NotStarted /\ pc (th w' t) = Run)) /\
  (reg (th w' t) = reg (th w t) \/ (reg (th w t) = false /\ is_notstarted (pc (th w t)) = false /\ pc (th w' t) = pc (th w t))).
Proof.
  intros u w w' t H Hnot Hne.
  step_cases_fixed H.
  all: try solve [exfalso; eapply Hnot; eauto].
  all: prep; try congruence; auto 6.
  all: repeat split; auto.
  all: try solve [right; repeat split; auto; destruct (reg (th w t)); auto].
  destruct (reg (th w j)); auto.
Qed.


Lemma reg_in_range2 : forall w t, reg (th w t) = true -> t < nthreads w.
Proof.
  intros w t H. destruct (lt_dec t (nthreads w)); auto. rewrite th_out_of_range in H by lia. discriminate.
Qed.

Lemma stw_frame2 : forall t w w' s0 u, pc (th w t) = Stw s0 -> wstep cfg_fixed t w = Some w' ->
  u <> t -> pc (th w' u) = pc (th w u) /\ reg (th w' u) = reg (th w u) /\ prog (th w' u) = prog (th w u).
Proof.
  intros t w w' s0 u Ept H Hne.
  unfold wstep in H. destruct (t <? nthreads w) eqn:Hlt; [|discriminate]. cbv zeta in H. rewrite Ept in H.
  unfold stw_step in H. cbv zeta in H. destr_match H; inversion H; subst; clear H.
  all: prep; auto; try congruence.
Qed.

(* a thread's own step outside a section: flag unchanged, registration only gained *)
Lemma nonstw_own2 : forall u w w', wstep cfg_fixed u w = Some w' -> (forall s, pc (th w u) <> Stw s) ->
  paused (th w' u) = paused (th w u) /\ (reg (th w u) = true -> reg (th w' u) = true) /\
  is_done (pc (th w u)) = false /\ is_notstarted (pc (th w u)) = false /\
  (forall s, pc (th w' u) = Stw s -> s = SOwnFlag).
Proof.
  intros u w w' H Hnot.
  step_cases_fixed H.
  all: try solve [exfalso; eapply Hnot; eauto].
  all: prep; rewrite ?Nat.eqb_refl; simpl; repeat split; auto; try congruence; try discriminate.
  all: try (intros s0 E; inversion E; reflexivity).
Qed.

Lemma Flagged2_step : forall t w w', Inv w -> Flagged2 w -> known_window w = false ->
  wstep cfg_fixed t w = Some w' -> Flagged2 w'.
Proof.
  intros t w w' HI HF Hkw H h s Hpc.
  destruct (pc (th w t)) eqn:Ept.
  all: try (
    assert (Hnot : forall x, pc (th w t) <> Stw x) by (intros x E; rewrite Ept in E; discriminate);
    destruct (nonstw_own2 t w w' H Hnot) as (Hop & Hor & Hod & Hon & Hos);
    destruct (Nat.eq_dec h t) as [->|Hne];
    [ rewrite (Hos s Hpc); exact I
    | destruct (nonstw_frame2 t w w' h H Hnot Hne) as (_ & _ & Hhpc & _);
      assert (Hpcw : pc (th w h) = Stw s) by (destruct Hhpc as [E|[E1 E2]]; [congruence | rewrite E2 in Hpc; discriminate]);
      pose proof (HF h s Hpcw) as Hold;
      assert (Hcarry : forall u, u <> h -> reg (th w' u) = true -> is_done (pc (th w' u)) = false ->
                 paused (th w' u) = paused (th w u) /\ reg (th w u) = true /\ is_done (pc (th w u)) = false);
      [ intros u Huh Hr Hd; destruct (Nat.eq_dec u t) as [->|Hut];
        [ split; [exact Hop|]; split; [|exact Hod];
          apply (kw_unreg w h s t Hkw Hpcw); unfold live; rewrite Hod, Hon; reflexivity
        | destruct (nonstw_frame2 t w w' u H Hnot Hut) as (Ep & _ & Epc & Er);
          split; [exact Ep|];
          assert (Hdw : is_done (pc (th w u)) = false)
            by (destruct Epc as [E|[E1 E2]]; [rewrite <- E; exact Hd | rewrite E1; reflexivity]);
          split; [|exact Hdw];
          destruct Er as [E|(E1 & E2 & E3)]; [congruence|];
          apply (kw_unreg w h s u Hkw Hpcw); unfold live; rewrite Hdw, E2; reflexivity ]
      | destruct s; simpl in *; auto; intros u; intros;
        match goal with Hr : reg (th _ ?v) = true, Hd : is_done (pc (th _ ?v)) = false, Hn : ?v <> _ |- _ =>
          destruct (Hcarry v Hn Hr Hd) as (Ea & Eb & Ec); rewrite Ea; apply Hold; auto end ] ]).
  (* t is the stopper *)
  assert (h = t).
  { destruct (Nat.eq_dec h t) as [|Hne]; auto.
    destruct (stw_frame2 t w w' s0 h Ept H Hne) as [Hp _]. rewrite Hp in Hpc.
    exact (stw_unique2 w h t s s0 HI Hpc Ept). }
  subst h. pose proof (HF t s0 Ept) as Hold.
  unfold wstep in H. destruct (t <? nthreads w) eqn:Hlt; [|discriminate]. cbv zeta in H. rewrite Ept in H.
  unfold stw_step in H. cbv zeta in H. revert Hpc. destr_match H; inversion H; subst; clear H.
  all: prep; rewrite ?Nat.eqb_refl; simpl; intro Hpc; try discriminate; inversion Hpc; subst; simpl in *; auto.
  all: intros u; prep; rewrite ?Nat.eqb_refl in *; simpl in *; intros; try congruence.
  all: repeat match goal with H : (_ <? _) = false |- _ => apply Nat.ltb_ge in H end.
  all: repeat match goal with H : reg (th _ _) = true |- _ => pose proof (reg_in_range2 _ _ H); revert H end; intros.
  all: try solve [apply Hold; auto; lia].
  all: try solve [destruct (Nat.eq_dec u k); [subst; congruence | apply Hold; auto; lia]].
  all: try lia.
Qed.


(* SpJoin is entered from AJoin only, SpReg from ASpawn only *)
Definition JoinHead (w : world) : Prop := forall u,
  match pc (th w u) with
  | SpJoin => exists j, head (th w u) = AJoin j
  | SpReg => exists j, head (th w u) = ASpawn j
  | _ => True
  end.

Lemma JoinHead_step : forall t w w', JoinHead w -> wstep cfg_fixed t w = Some w' -> JoinHead w'.
Proof.
  intros t w w' HJ H u. pose proof (HJ u) as Hu. pose proof (HJ t) as Ht.
  step_cases_fixed H.
  all: prep; try discriminate; auto; eauto.
Qed.

(* a flagged thread that is parked / inside a primitive stays so under its own steps *)
Lemma safe_own_step : forall u w w', JoinHead w -> safe_to_access (th w u) = true ->
  wstep cfg_fixed u w = Some w' -> safe_to_access (th w' u) = true.
Proof.
  intros u w w' HJ Hs H. pose proof (HJ u) as Hu. unfold safe_to_access in *.
  step_cases_fixed H.
  all: prep; rewrite ?Nat.eqb_refl; simpl; try discriminate; auto; try congruence.
  all: try (destruct Hu as [j0 Ej]; congruence).
Qed.

Definition Stopped (w : world) : Prop := forall h s t, pc (th w h) = Stw s -> covered s t = true ->
  t <> h -> reg (th w t) = true -> is_done (pc (th w t)) = false -> safe_to_access (th w t) = true.
Definition AccPre (w : world) : Prop := forall h p k, pc (th w h) = Stw (SAccess p k) ->
  k <> h /\ reg (th w k) = true /\ is_done (pc (th w k)) = false.

Lemma safe_not_done : forall x, safe_to_access x = true -> is_done (pc x) = false /\ is_notstarted (pc x) = false /\ paused x = true.
Proof. intros x. unfold safe_to_access. destruct (pc x); try discriminate; auto. Qed.

Lemma safe_frame : forall x y, pc y = pc x -> paused y = paused x -> safe_to_access y = safe_to_access x.
Proof. intros x y E1 E2. unfold safe_to_access. now rewrite E1, E2. Qed.

Lemma Stopped_step_other : forall u w w', Inv w -> JoinHead w -> Stopped w -> AccPre w -> known_window w = false ->
  wstep cfg_fixed u w = Some w' -> (forall x, pc (th w u) <> Stw x) -> Stopped w' /\ AccPre w'.
Proof.
  intros u w w' HI HJ HS HA Hkw H Hnot.
  destruct (nonstw_own2 u w w' H Hnot) as (Hop & Hor & Hod & Hon & Hos).
  assert (Hback : forall h s, h <> u -> pc (th w' h) = Stw s -> pc (th w h) = Stw s).
  { intros h s Hne Hpc. destruct (nonstw_frame2 u w w' h H Hnot Hne) as (_ & _ & Hhpc & _).
    destruct Hhpc as [E|[E1 E2]]; [congruence | rewrite E2 in Hpc; discriminate]. }
  assert (Hcarry : forall h s t, pc (th w h) = Stw s -> t <> u -> reg (th w' t) = true -> is_done (pc (th w' t)) = false ->
             reg (th w t) = true /\ is_done (pc (th w t)) = false /\
             (is_notstarted (pc (th w t)) = false -> pc (th w' t) = pc (th w t)) /\ paused (th w' t) = paused (th w t)).
  { intros h s t Hpcw Htu Hr Hd.
    destruct (nonstw_frame2 u w w' t H Hnot Htu) as (Ep & _ & Epc & Er).
    assert (Hdw : is_done (pc (th w t)) = false)
      by (destruct Epc as [E|[E1 E2]]; [rewrite <- E; exact Hd | rewrite E1; reflexivity]).
    split; [|split; [exact Hdw|split; [|exact Ep]]].
    - destruct Er as [E|(E1 & E2 & E3)]; [congruence|].
      apply (kw_unreg w h s t Hkw Hpcw). unfold live. rewrite Hdw, E2. reflexivity.
    - intros Hn. destruct Epc as [E|[E1 E2]]; [exact E | rewrite E1 in Hn; discriminate]. }
  split.
  - intros h s t Hpc Hc Hth Hr Hd.
    destruct (Nat.eq_dec h u) as [->|Hne]; [rewrite (Hos s Hpc) in Hc; discriminate|].
    pose proof (Hback h s Hne Hpc) as Hpcw.
    destruct (Nat.eq_dec t u) as [->|Htu].
    + assert (Hru : reg (th w u) = true).
      { apply (kw_unreg w h s u Hkw Hpcw). unfold live. rewrite Hod, Hon. reflexivity. }
      pose proof (HS h s u Hpcw Hc Hth Hru Hod) as Hsafe.
      eapply safe_own_step; eauto.
    + destruct (Hcarry h s t Hpcw Htu Hr Hd) as (Hrw & Hdw & Hpcs & Hpa).
      pose proof (HS h s t Hpcw Hc Hth Hrw Hdw) as Hsafe.
      destruct (safe_not_done _ Hsafe) as (_ & Hns & _).
      rewrite (safe_frame (th w t) (th w' t)); auto.
  - intros h p k Hpc.
    destruct (Nat.eq_dec h u) as [->|Hne]; [pose proof (Hos _ Hpc); discriminate|].
    pose proof (Hback h _ Hne Hpc) as Hpcw.
    destruct (HA h p k Hpcw) as (Hkh & Hrk & Hdk). split; [exact Hkh|].
    assert (Hcov : covered (SAccess p k) k = true).
    { simpl. destruct (p =? 1); auto. apply Nat.leb_refl. }
    pose proof (HS h _ k Hpcw Hcov Hkh Hrk Hdk) as Hsafe.
    destruct (Nat.eq_dec k u) as [->|Hku].
    + split; [apply Hor; exact Hrk|].
      assert (Hs' : safe_to_access (th w' u) = true) by (eapply safe_own_step; eauto).
      apply safe_not_done in Hs'. tauto.
    + destruct (nonstw_frame2 u w w' k H Hnot Hku) as (Ep & _ & Epc & Er).
      destruct (safe_not_done _ Hsafe) as (_ & Hns & _).
      assert (Epc' : pc (th w' k) = pc (th w k)) by (destruct Epc as [E|[E1 _]]; [exact E | rewrite E1 in Hns; discriminate]).
      split; [destruct Er as [E|(E1 & _)]; congruence | rewrite Epc'; exact Hdk].
Qed.


Lemma published_flagged_safe : forall w k, known_window w = false -> published (pc (th w k)) = true ->
  paused (th w k) = true -> safe_to_access (th w k) = true.
Proof.
  intros w k Hkw Hp Hf. pose proof (kw_exit w k Hkw) as He. unfold safe_to_access.
  destruct (pc (th w k)); simpl in *; try discriminate; auto.
  all: specialize (He eq_refl); congruence.
Qed.

Ltac arith_bools :=
  repeat match goal with
         | H : (_ <? _) = true |- _ => apply Nat.ltb_lt in H
         | H : (_ <? _) = false |- _ => apply Nat.ltb_ge in H
         | H : (_ <=? _) = true |- _ => apply Nat.leb_le in H
         | H : (_ <=? _) = false |- _ => apply Nat.leb_gt in H
         | H : negb _ = true |- _ => apply negb_true_iff in H
         | H : negb _ = false |- _ => apply negb_false_iff in H
         | H : _ || _ = false |- _ => apply orb_false_iff in H; destruct H
         end.

Lemma stw_flag_effect : forall t w w' s0 u, pc (th w t) = Stw s0 -> wstep cfg_fixed t w = Some w' -> u <> t ->
  paused (th w' u) = paused (th w u) \/ paused (th w' u) = true \/ (exists k, s0 = SResume k /\ u = k).
Proof.
  intros t w w' s0 u Ept H Hne.
  unfold wstep in H. destruct (t <? nthreads w) eqn:Hlt; [|discriminate]. cbv zeta in H. rewrite Ept in H.
  unfold stw_step in H. cbv zeta in H. destr_match H; inversion H; subst; clear H.
  all: prep; auto; try congruence.
  all: try solve [right; right; eexists; split; reflexivity].
Qed.

Lemma covered_step : forall t w w' s0 s u, pc (th w t) = Stw s0 -> wstep cfg_fixed t w = Some w' ->
  pc (th w' t) = Stw s -> covered s u = true ->
  (covered s0 u = true /\ (forall k, s0 = SResume k -> u <> k)) \/
  nthreads w <= u \/
  (exists k, s0 = SWait 1 k /\ u = k /\
     ((negb (reg (th w k)) || Nat.eqb k t || is_done (pc (th w k))) = true \/ published (pc (th w k)) = true)).
Proof.
  intros t w w' s0 s u Ept H Hpc Hc.
  unfold wstep in H. destruct (t <? nthreads w) eqn:Hlt; [|discriminate]. cbv zeta in H. rewrite Ept in H.
  unfold stw_step in H. cbv zeta in H. revert Hpc. destr_match H; inversion H; subst; clear H.
  all: prep; rewrite ?Nat.eqb_refl; simpl; intros Hpc; try discriminate; inversion Hpc; subst; simpl in Hc; try discriminate.
  all: simpl covered.
  all: repeat match goal with |- context [if ?b then _ else _] => destruct b eqn:? end.
  all: repeat match goal with H : context [if ?b then _ else _] |- _ => destruct b eqn:? end.
  all: arith_bools; eqb_facts; try discriminate.
  all: try solve [left; split; [reflexivity || (apply Nat.ltb_lt; lia) || (apply Nat.leb_le; lia) | intros; try discriminate; try (injection H as <-; lia)]].
  all: try solve [right; left; lia].
  all: try solve [destruct (Nat.eq_dec u k) as [->|];
                  [ right; right; exists k; split; [reflexivity|split; [reflexivity|auto]]
                  | left; split; [apply Nat.ltb_lt; lia | intros; discriminate] ]].
  all: try solve [left; split; [apply Nat.leb_le; lia | intros k0 E; inversion E; subst; lia]].
  all: try solve [destruct (lt_dec u k); [left; split; [apply Nat.ltb_lt; lia | intros; discriminate] | right; left; lia]].
  all: try solve [destruct u as [|u]; [discriminate Hc|]; apply Nat.leb_le in Hc; left; split;
                  [apply Nat.leb_le; lia | intros k0 E; inversion E; subst; lia]].
Qed.

Lemma Stopped_step_stw : forall t w w' s0, Inv w -> Flagged2 w -> Stopped w -> AccPre w -> known_window w = false ->
  pc (th w t) = Stw s0 -> wstep cfg_fixed t w = Some w' -> Stopped w' /\ AccPre w'.
Proof.
  intros t w w' s0 HI HF HS HA Hkw Ept H.
  assert (Huniq : forall h s, pc (th w' h) = Stw s -> h = t).
  { intros h s Hpc. destruct (Nat.eq_dec h t) as [|Hne]; auto.
    destruct (stw_frame2 t w w' s0 h Ept H Hne) as [Hp _]. rewrite Hp in Hpc.
    exact (stw_unique2 w h t s s0 HI Hpc Ept). }
  assert (Hfr : forall u, u <> t -> pc (th w' u) = pc (th w u) /\ reg (th w' u) = reg (th w u))
    by (intros u Hu; destruct (stw_frame2 t w w' s0 u Ept H Hu) as (A & B & _); auto).
  assert (Hsafe' : forall s u, pc (th w' t) = Stw s -> covered s u = true -> u <> t ->
             reg (th w u) = true -> is_done (pc (th w u)) = false -> safe_to_access (th w' u) = true).
  { intros s u Hpc Hc Hut Hr Hd.
    destruct (Hfr u Hut) as [Epc _].
    destruct (covered_step t w w' s0 s u Ept H Hpc Hc) as [[Hc0 Hnr] | [Hge | (k & -> & -> & Hk)]].
    - pose proof (HS t s0 u Ept Hc0 Hut Hr Hd) as Hs.
      destruct (safe_not_done _ Hs) as (_ & _ & Hp).
      destruct (stw_flag_effect t w w' s0 u Ept H Hut) as [E | [E | (k & -> & ->)]].
      + rewrite (safe_frame (th w u) (th w' u)); auto.
      + revert Hs. unfold safe_to_access. rewrite Epc, E, Hp. auto.
      + exfalso. apply (Hnr k); reflexivity.
    - exfalso. rewrite th_out_of_range in Hr by lia. discriminate.
    - destruct Hk as [Hskip | Hpub].
      + exfalso. rewrite Hr, Hd in Hskip. simpl in Hskip. rewrite orb_false_r in Hskip. apply Nat.eqb_eq in Hskip. congruence.
      + assert (Hp : paused (th w k) = true) by (exact (HF t _ Ept k Hut Hr Hd)).
        pose proof (published_flagged_safe w k Hkw Hpub Hp) as Hs.
        destruct (stw_flag_effect t w w' _ k Ept H Hut) as [E | [E | (k0 & E0 & _)]]; [| |discriminate].
        * rewrite (safe_frame (th w k) (th w' k)); auto.
        * revert Hs. unfold safe_to_access. rewrite Epc, E, Hp. auto. }
  split.
  - intros h s u Hpc Hc Huh Hr Hd. pose proof (Huniq h s Hpc). subst h.
    destruct (Hfr u Huh) as [Epc Er]. rewrite Epc in Hd. rewrite Er in Hr. eapply Hsafe'; eauto.
  - intros h p k Hpc. pose proof (Huniq h _ Hpc). subst h.
    (* either h was already accessing k, or it has just found k published *)
    assert (Hkt : k <> t /\ reg (th w k) = true /\ is_done (pc (th w k)) = false).
    { revert Hpc. unfold wstep in H. destruct (t <? nthreads w) eqn:Hlt; [|discriminate]. cbv zeta in H. rewrite Ept in H.
      unfold stw_step in H. cbv zeta in H. destr_match H; inversion H; subst; clear H.
      all: prep; rewrite ?Nat.eqb_refl; simpl; intros Hpc; try discriminate; inversion Hpc; subst.
      all: arith_bools; eqb_facts; repeat split; auto.
      all: try solve [exfalso; match goal with Hx : ?a <> ?a |- _ => now apply Hx end]. }
    destruct Hkt as (Hkt & Hrk & Hdk). destruct (Hfr k Hkt) as [Epc Er].
    split; [exact Hkt|]. split; [congruence|]. rewrite Epc. exact Hdk.
Qed.


Definition Big (w : world) : Prop := Inv w /\ Flagged2 w /\ JoinHead w /\ Stopped w /\ AccPre w.

Lemma Big_step : forall t w w', Big w -> known_window w = false -> wstep cfg_fixed t w = Some w' -> Big w'.
Proof.
  intros t w w' (HI & HF & HJ & HS & HA) Hkw H.
  assert (HSA : Stopped w' /\ AccPre w').
  { destruct (pc (th w t)) eqn:Ept.
    all: try (eapply Stopped_step_other; eauto; intros x E; rewrite Ept in E; discriminate).
    eapply Stopped_step_stw; eauto. }
  destruct HSA as [HS' HA'].
  split; [eapply Inv_step; eauto|]. split; [eapply Flagged2_step; eauto|].
  split; [eapply JoinHead_step; eauto|]. split; assumption.
Qed.

Lemma pc_init_cases : forall progs t, pc (th (init progs) t) = Run \/ pc (th (init progs) t) = NotStarted \/ pc (th (init progs) t) = Done.
Proof.
  intros progs t. unfold th, init. cbn [ths].
  assert (A : forall l b u, pc (nth u (map (mk_thd b) l) dflt) = Run \/ pc (nth u (map (mk_thd b) l) dflt) = NotStarted \/ pc (nth u (map (mk_thd b) l) dflt) = Done).
  { induction l as [|p r IH]; intros b [|u]; simpl; auto. destruct b; auto. }
  destruct progs as [|p r]; [destruct t; simpl; auto|].
  destruct t as [|t]; simpl; auto.
Qed.

Lemma Big_init : forall progs, Big (init progs).
Proof.
  intros progs.
  assert (Hn : forall t s, pc (th (init progs) t) <> Stw s).
  { intros t s E. destruct (pc_init_cases progs t) as [A|[A|A]]; rewrite A in E; discriminate. }
  split; [apply Inv_init|]. split; [intros h s E; exfalso; eapply Hn; eauto|].
  split; [intros u; destruct (pc_init_cases progs u) as [A|[A|A]]; rewrite A; exact I|].
  split; [intros h s t E; exfalso; eapply Hn; eauto | intros h p k E; exfalso; eapply Hn; eauto].
Qed.

Lemma Big_run : forall sched w, Big w -> window_free cfg_fixed sched w = true -> Big (run cfg_fixed sched w).
Proof.
  induction sched as [|t r IH]; intros w HB Hwf; [exact HB|].
  simpl in Hwf. apply andb_true_iff in Hwf. destruct Hwf as [Hk Hr]. apply negb_true_iff in Hk.
  unfold run. simpl. fold (run cfg_fixed r (Conc.exec1 world (wstep cfg_fixed) t w)).
  apply IH; auto. unfold Conc.exec1. destruct (wstep cfg_fixed t w) eqn:E; auto. eapply Big_step; eauto.
Qed.

Lemma excl_of_big : forall w, Big w -> Excl15 w.
Proof.
  intros w (_ & _ & _ & HS & HA) s p k Hpc.
  destruct (HA s p k Hpc) as (Hk & Hr & Hd).
  apply (HS s _ k Hpc); auto. simpl. destruct (p =? 1); auto. apply Nat.leb_refl.
Qed.

Lemma mutual_exclusion_outside_known_lemma : forall progs sched,
  window_free cfg_fixed sched (init progs) = true -> Excl15 (run cfg_fixed sched (init progs)).
Proof. intros. apply excl_of_big. apply Big_run; auto. apply Big_init. Qed.

(* once the stopper's first pass is complete, every registered unfinished thread other than the stopper is parked
   or inside a primitive with its flag set — and stays so until the stopper resumes it *)
Lemma all_stopped_after_first_pass_lemma : forall progs sched h s t,
  window_free cfg_fixed sched (init progs) = true ->
  let w := run cfg_fixed sched (init progs) in
  pc (th w h) = Stw s -> covered s t = true -> t <> h -> reg (th w t) = true -> is_done (pc (th w t)) = false ->
  safe_to_access (th w t) = true.
Proof.
  intros progs sched h s t Hwf w Hpc Hc Hth Hr Hd.
  assert (HB : Big w) by (apply Big_run; auto; apply Big_init).
  destruct HB as (_ & _ & _ & HS & _). eapply HS; eauto.
Qed.

Lemma window_free_example :
  window_free cfg_fixed wf_sched (init wf_progs) = true /\
  pc (th (run cfg_fixed (firstn 27 wf_sched) (init wf_progs)) 0) = Stw (SAccess 1 1) /\
  pc (th (run cfg_fixed (firstn 33 wf_sched) (init wf_progs)) 0) = Stw (SAccess 2 1) /\
  window_free cfg_fixed (firstn 33 wf_sched) (init wf_progs) = true /\
  env_gen (run cfg_fixed wf_sched (init wf_progs)) = 1.
Proof. vm_compute. auto. Qed.
