(* Conc.v — a small generic interleaving library (DESIGN.md 2.2): a system is a partial step function
   per thread id; a schedule is a list of thread ids (a thread that is named while it has no enabled
   step is skipped, exactly like the baton scheduler contract of DESIGN.md section 3); invariants are
   lifted to every schedule; fair infinite schedules + a variant lemma give termination. *)
From Coq Require Import List Arith Lia.
Import ListNotations.

Section Conc.
  Variable state : Type.
  Variable step : nat -> state -> option state.

  Definition exec1 (t : nat) (s : state) : state :=
    match step t s with Some s' => s' | None => s end.

  Fixpoint run (sched : list nat) (s : state) : state :=
    match sched with [] => s | t :: r => run r (exec1 t s) end.

  Definition reachable (init s : state) : Prop := exists sched, run sched init = s.

  Lemma run_app : forall a b s, run (a ++ b) s = run b (run a s).
  Proof. induction a; simpl; auto. Qed.

  Lemma reachable_refl : forall s, reachable s s.
  Proof. intro s; exists []; reflexivity. Qed.

  Lemma reachable_step : forall i s t s', reachable i s -> step t s = Some s' -> reachable i s'.
  Proof.
    intros i s t s' [sc H] Hs. exists (sc ++ [t]). rewrite run_app, H. simpl. unfold exec1. now rewrite Hs.
  Qed.

  (* invariant lifting *)
  Lemma invariant_run : forall (Inv : state -> Prop),
      (forall t s s', Inv s -> step t s = Some s' -> Inv s') ->
      forall sched s, Inv s -> Inv (run sched s).
  Proof.
    intros Inv Hp. induction sched as [|t r IH]; simpl; intros s Hs; auto.
    apply IH. unfold exec1. destruct (step t s) eqn:E; eauto.
  Qed.

  Lemma invariant_reachable : forall (Inv : state -> Prop) init,
      Inv init -> (forall t s s', Inv s -> step t s = Some s' -> Inv s') ->
      forall s, reachable init s -> Inv s.
  Proof. intros Inv init Hi Hp s [sc <-]. now apply invariant_run. Qed.

  (* number of effective (non-skipped) steps of a schedule *)
  Fixpoint effective (sched : list nat) (s : state) : nat :=
    match sched with
    | [] => 0
    | t :: r => (match step t s with Some _ => 1 | None => 0 end) + effective r (exec1 t s)
    end.

  (* ---------------------------------------------------------------- infinite schedules, fairness *)
  Definition stream := nat -> nat.

  Fixpoint run_stream (f : stream) (n : nat) (s : state) : state :=
    match n with 0 => s | S k => exec1 (f k) (run_stream f k s) end.

  Definition shift (k : nat) (f : stream) : stream := fun i => f (k + i).

  (* every thread id below [n] is scheduled infinitely often; a scheduled thread without an enabled
     step is skipped, so this is weak fairness of the underlying system *)
  Definition fair (n : nat) (f : stream) : Prop := forall t k, t < n -> exists m, k <= m /\ f m = t.

  Lemma fair_shift : forall n k f, fair n f -> fair n (shift k f).
  Proof.
    intros n k f Hf t j Ht. destruct (Hf t (k + j) Ht) as [m [Hm E]].
    exists (m - k). split; [lia|]. unfold shift. replace (k + (m - k)) with m by lia. exact E.
  Qed.

  Lemma run_stream_shift : forall f a b s,
      run_stream f (a + b) s = run_stream (shift a f) b (run_stream f a s).
  Proof.
    intros f a b s. induction b as [|b IH].
    - now rewrite Nat.add_0_r.
    - replace (a + S b) with (S (a + b)) by lia. simpl. rewrite IH. reflexivity.
  Qed.

  Lemma run_stream_1 : forall f s, run_stream f 1 s = exec1 (f 0) s.
  Proof. reflexivity. Qed.

  Lemma invariant_stream : forall (Inv : state -> Prop),
      (forall t s s', Inv s -> step t s = Some s' -> Inv s') ->
      forall f n s, Inv s -> Inv (run_stream f n s).
  Proof.
    intros Inv Hp f. induction n; simpl; intros s Hs; auto.
    unfold exec1. destruct (step (f n) (run_stream f n s)) eqn:E; eauto.
  Qed.

  (* Variant lemma.  [Active] is the condition that must eventually end; [M] never increases while
     it holds; in every active state some thread below [n] is "helpful": it has an enabled step,
     each of its steps decreases [M] (or ends the activity), and it stays helpful as long as the
     other threads' steps leave [M] unchanged. *)
  Section Variant.
    Variable Inv Active : state -> Prop.
    Variable M : state -> nat.
    Variable n : nat.
    Variable helpful : nat -> state -> Prop.

    Hypothesis active_dec : forall s, Active s \/ ~ Active s.
    Hypothesis inv_step : forall t s s', Inv s -> step t s = Some s' -> Inv s'.
    Hypothesis non_increase : forall t s s', Inv s -> Active s -> step t s = Some s' -> Active s' -> M s' <= M s.
    Hypothesis some_helpful : forall s, Inv s -> Active s -> exists t, t < n /\ helpful t s.
    Hypothesis helpful_step : forall t s, Inv s -> Active s -> helpful t s ->
        exists s', step t s = Some s' /\ (Active s' -> M s' < M s).
    Hypothesis helpful_stable : forall t u s s', Inv s -> Active s -> helpful t s ->
        step u s = Some s' -> Active s' -> M s' = M s -> helpful t s'.

    Lemma until_scheduled : forall t m f s, Inv s -> Active s -> helpful t s -> f m = t ->
        exists k, k <= S m /\ (~ Active (run_stream f k s) \/ M (run_stream f k s) < M s).
    Proof.
      intros t m. induction m as [|m IH]; intros f s Hi Ha Hh Hf.
      - exists 1. split; [lia|]. simpl. unfold exec1. rewrite Hf.
        destruct (helpful_step t s Hi Ha Hh) as [s' [E Hd]]. rewrite E.
        destruct (active_dec s') as [A|A]; [right; auto|left; auto].
      - (* first step is by f 0 *)
        destruct (step (f 0) s) as [s1|] eqn:E1.
        + destruct (active_dec s1) as [A1|A1].
          * pose proof (non_increase _ _ _ Hi Ha E1 A1) as Hle.
            destruct (Nat.eq_dec (M s1) (M s)) as [Heq|Hne].
            -- assert (Hh1 : helpful t s1) by (eapply helpful_stable; eauto).
               assert (Hi1 : Inv s1) by eauto.
               destruct (IH (shift 1 f) s1 Hi1 A1 Hh1) as [k [Hk Hres]].
               { unfold shift. exact Hf. }
               exists (1 + k). split; [lia|].
               assert (R : run_stream f 1 s = s1) by (rewrite run_stream_1; unfold exec1; now rewrite E1).
               rewrite run_stream_shift, R. rewrite <- Heq. exact Hres.
            -- exists 1. split; [lia|]. simpl. unfold exec1. rewrite E1. right. lia.
          * exists 1. split; [lia|]. simpl. unfold exec1. rewrite E1. left. exact A1.
        + destruct (IH (shift 1 f) s Hi Ha Hh) as [k [Hk Hres]].
          { unfold shift. exact Hf. }
          exists (1 + k). split; [lia|].
          assert (R : run_stream f 1 s = s) by (rewrite run_stream_1; unfold exec1; now rewrite E1).
          rewrite run_stream_shift, R. exact Hres.
    Qed.

    Theorem variant_terminates : forall b f s, M s <= b -> fair n f -> Inv s ->
        exists k, ~ Active (run_stream f k s).
    Proof.
      induction b as [|b IH]; intros f s Hb Hf Hi.
      - destruct (active_dec s) as [Ha|Ha]; [|exists 0; exact Ha].
        destruct (some_helpful s Hi Ha) as [t [Ht Hh]].
        destruct (Hf t 0 Ht) as [m [_ Hm]].
        destruct (until_scheduled t m f s Hi Ha Hh Hm) as [k [_ [Hk|Hk]]]; [exists k; exact Hk|lia].
      - destruct (active_dec s) as [Ha|Ha]; [|exists 0; exact Ha].
        destruct (some_helpful s Hi Ha) as [t [Ht Hh]].
        destruct (Hf t 0 Ht) as [m [_ Hm]].
        destruct (until_scheduled t m f s Hi Ha Hh Hm) as [k [_ [Hk|Hk]]]; [exists k; exact Hk|].
        destruct (IH (shift k f) (run_stream f k s)) as [k1 Hk1].
        + lia.
        + now apply fair_shift.
        + now apply invariant_stream.
        + exists (k + k1). rewrite run_stream_shift. exact Hk1.
    Qed.
  End Variant.
End Conc.
