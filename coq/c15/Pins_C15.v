From Coq Require Import List Arith Lia Bool.
Import ListNotations.
From SV Require Import c15.Conc c15.Model_C15 c15.Proofs_C15 c15.Proofs_C15_Excl c15.Proofs_C15_Spawn c15.Proofs_C15_Visible c15.Proofs_C15_Visible2 c15.Proofs_C15_Flags c15.Properties_C15.

Check (C15_single_stopper : forall progs sched s1 s2 x1 x2,
  let w := run cfg_fixed sched (init progs) in
  pc (th w s1) = Stw x1 -> pc (th w s2) = Stw x2 -> s1 = s2 /\ heap w = Some s1).
Check (C15_flags_cleared : forall progs sched t,
  let w := run cfg_fixed sched (init progs) in
  (forall s x, pc (th w s) <> Stw x) -> paused (th w t) = false).
Check (C15_parked_released : forall progs sched t,
  let w := run cfg_fixed sched (init progs) in
  (forall s x, pc (th w s) <> Stw x) ->
  pc (th w t) = PollParked \/ pc (th w t) = SpParked ->
  exists w', wstep cfg_fixed t w = Some w').
Check (C15_stw_refuted : ~ Excl15 (run cfg_fixed f10_sched (init_all f10_progs))).
Check (C15_stw_refuted_thread_runs :
  let w := run cfg_fixed f10_sched (init_all f10_progs) in
  pc (th w 0) = Stw (SAccess 1 1) /\
  exists w', wstep cfg_fixed 1 w = Some w' /\ pc (th w' 0) = Stw (SAccess 1 1) /\ pc (th w' 1) = Run /\
             prog (th w' 1) = [ACompute]).
Check (C15_global_visible_refuted_spawn_window :
  let w := run cfg_pre_spawn_fix spawn_sched (init spawn_progs) in
  (forall s x, pc (th w s) <> Stw x) /\ pc (th w 2) = Done /\ env_gen w = 1 /\
  pc (th w 1) = Exec /\ seen (th w 1) = 0).
Check (eq_refl : Excl15 = fun w => forall s p k, pc (th w s) = Stw (SAccess p k) -> safe_to_access (th w k) = true).
Check (eq_refl : safe_to_access = fun x =>
  match pc x with PollParked | SpPub | SpJoin | SpReg | SpParked => paused x | _ => false end).
Check (eq_refl : f10_progs = [[AAlloc true]; [APrim; ACompute]]).
Check (C15_mutual_exclusion_outside_known : forall progs sched,
  window_free cfg_fixed sched (init progs) = true -> Excl15 (run cfg_fixed sched (init progs))).
Check (C15_all_stopped_after_first_pass : forall progs sched h s t,
  window_free cfg_fixed sched (init progs) = true ->
  let w := run cfg_fixed sched (init progs) in
  pc (th w h) = Stw s -> covered s t = true -> t <> h -> reg (th w t) = true -> is_done (pc (th w t)) = false ->
  safe_to_access (th w t) = true).
Check (C15_window_free_nonvacuous :
  window_free cfg_fixed wf_sched (init wf_progs) = true /\
  pc (th (run cfg_fixed (firstn 27 wf_sched) (init wf_progs)) 0) = Stw (SAccess 1 1) /\
  pc (th (run cfg_fixed (firstn 33 wf_sched) (init wf_progs)) 0) = Stw (SAccess 2 1) /\
  window_free cfg_fixed (firstn 33 wf_sched) (init wf_progs) = true /\
  env_gen (run cfg_fixed wf_sched (init wf_progs)) = 1).
Check (eq_refl : in_known_window = fun w x =>
  (is_exit_checked (pc x) && paused x) || (stw_any w && live x && negb (reg x))).
Check (eq_refl : known_window = fun w => existsb (in_known_window w) (ths w)).
Check (eq_refl : is_exit_checked = fun p => match p with SpExitChecked | PollExitChecked => true | _ => false end).
Check (C15_unregistered_runner_before_fix :
  let w := run cfg_pre_spawn_fix spawn_overlap_sched (init spawn_progs) in
  exists s, pc (th w 2) = Stw s /\ live (th w 1) = true /\ reg (th w 1) = false).
Check (C15_no_unregistered_runner_during_section : forall progs sched h s t,
  let w := run cfg_fixed sched (init progs) in
  pc (th w h) = Stw s -> live (th w t) = true -> reg (th w t) = true).
Check (C15_mutual_exclusion_outside_exit_window : forall progs sched,
  exit_window_free cfg_fixed sched (init progs) = true -> Excl15 (run cfg_fixed sched (init progs))).
Check (C15_all_stopped_outside_exit_window : forall progs sched h s t,
  exit_window_free cfg_fixed sched (init progs) = true ->
  let w := run cfg_fixed sched (init progs) in
  pc (th w h) = Stw s -> covered s t = true -> t <> h -> live (th w t) = true ->
  safe_to_access (th w t) = true).
Check (C15_exit_window_free_nonvacuous :
  exit_window_free cfg_fixed wf_sched (init wf_progs) = true /\
  (let w := run cfg_fixed (firstn 6 wf_sched) (init wf_progs) in
   pc (th w 0) = SpReg /\ pc (th w 1) = Run /\ reg (th w 1) = false /\ heap w = Some 0) /\
  (let w := run cfg_fixed (firstn 10 wf_sched) (init wf_progs) in reg (th w 1) = true /\ heap w = None) /\
  pc (th (run cfg_fixed (firstn 27 wf_sched) (init wf_progs)) 0) = Stw (SAccess 1 1)).
Check (eq_refl : cfg_fixed = {| keep_guard := true; jit_box_safepoint := true; spawn_locked := true |}).
Check (eq_refl : cfg_pre_spawn_fix = {| keep_guard := true; jit_box_safepoint := true; spawn_locked := false |}).
Check (eq_refl : live = fun x => negb (is_done (pc x)) && negb (is_notstarted (pc x))).
Check (eq_refl : in_exit_window = fun x => is_exit_checked (pc x) && paused x).
Check (eq_refl : exit_window = fun w => existsb in_exit_window (ths w)).
Check (C15_table_generations : forall progs sched,
  let w := run cfg_fixed sched (init progs) in
  (forall h s k, pc (th w h) = Stw s -> upd_pos s = Some k -> vis_at w h k) /\
  ((forall h s, pc (th w h) = Stw s -> upd_pos s = None) ->
   forall t, live (th w t) = true -> seen (th w t) = env_gen w)).
Check (C15_global_visible : forall progs sched t,
  exit_window_free cfg_fixed sched (init progs) = true ->
  let w := run cfg_fixed sched (init progs) in
  pc (th w t) = Exec -> seen (th w t) = env_gen w).
Check (C15_global_visible_nonvacuous :
  exit_window_free cfg_fixed vis_sched (init wf_progs) = true /\
  (let w := run cfg_fixed vis_sched (init wf_progs) in
   pc (th w 1) = Exec /\ env_gen w = 1 /\ seen (th w 1) = 1 /\ seen (th w 0) = 1)).
Check (eq_refl : upd_pos = fun s => match s with
  | SWaitLock p => if p =? 2 then Some 0 else None
  | SWait p k | SAccess p k => if p =? 2 then Some k else None
  | _ => None end).
Check (eq_refl : vis_at = fun w h k =>
  is_update (head (th w h)) = true /\ S (seen (th w h)) = env_gen w /\
  forall t, t <> h -> live (th w t) = true ->
            (t < k -> seen (th w t) = env_gen w) /\ (k <= t -> S (seen (th w t)) = env_gen w)).
Check (C15_flagged_until_resumed : forall progs sched h s,
  let w := run cfg_fixed sched (init progs) in
  pc (th w h) = Stw s -> flagged2_ok w h s).
Check (eq_refl : flagged2_ok = fun w h s =>
  match s with
  | SOwnFlag | SStopLock => True
  | SSetFlag k => forall t, t < k -> t <> h -> reg (th w t) = true -> is_done (pc (th w t)) = false -> paused (th w t) = true
  | SResume k => forall t, k <= t -> t <> h -> reg (th w t) = true -> is_done (pc (th w t)) = false -> paused (th w t) = true
  | _ => forall t, t <> h -> reg (th w t) = true -> is_done (pc (th w t)) = false -> paused (th w t) = true
  end).
Print Assumptions C15_single_stopper.
Print Assumptions C15_flags_cleared.
Print Assumptions C15_parked_released.
Print Assumptions C15_stw_refuted.
Print Assumptions C15_stw_refuted_thread_runs.
Print Assumptions C15_global_visible_refuted_spawn_window.
Print Assumptions C15_mutual_exclusion_outside_known.
Print Assumptions C15_all_stopped_after_first_pass.
Print Assumptions C15_window_free_nonvacuous.
Print Assumptions C15_unregistered_runner_before_fix.
Print Assumptions C15_no_unregistered_runner_during_section.
Print Assumptions C15_mutual_exclusion_outside_exit_window.
Print Assumptions C15_all_stopped_outside_exit_window.
Print Assumptions C15_exit_window_free_nonvacuous.
Print Assumptions C15_table_generations.
Print Assumptions C15_global_visible.
Print Assumptions C15_global_visible_nonvacuous.
Print Assumptions C15_flagged_until_resumed.
