From Coq Require Import List Arith Lia Bool.
Import ListNotations.
From SV Require Import c15.Conc c15.Model_C15 c15.Proofs_C15 c15.Properties_C15.

Check (C15_single_stopper : forall progs sched s1 s2 x1 x2,
  let w := run cfg_fixed sched (init progs) in
  pc (th w s1) = Stw x1 -> pc (th w s2) = Stw x2 -> s1 = s2 /\ heap w = Some s1).
Check (C15_flags_cleared : forall progs sched t,
  let w := run cfg_fixed sched (init progs) in
  (forall s x, pc (th w s) <> Stw x) -> paused (th w t) = false).
Check (C15_parked_released : forall progs sched t,
  let w := run cfg_fixed sched (init progs) in
  (forall s x, pc (th w s) <> Stw x) ->
  pc (th w t) = PollParked \/ pc (th w t) = SpParked ->
  exists w', wstep cfg_fixed t w = Some w').
Check (C15_stw_refuted : ~ Excl15 (run cfg_fixed f10_sched (init_all f10_progs))).
Check (C15_stw_refuted_thread_runs :
  let w := run cfg_fixed f10_sched (init_all f10_progs) in
  pc (th w 0) = Stw (SAccess 1 1) /\
  exists w', wstep cfg_fixed 1 w = Some w' /\ pc (th w' 0) = Stw (SAccess 1 1) /\ pc (th w' 1) = Run /\
             prog (th w' 1) = [ACompute]).
Check (C15_global_visible_refuted_spawn_window :
  let w := run cfg_fixed spawn_sched (init spawn_progs) in
  (forall s x, pc (th w s) <> Stw x) /\ pc (th w 2) = Done /\ env_gen w = 1 /\
  pc (th w 1) = Exec /\ seen (th w 1) = 0).
Check (eq_refl : Excl15 = fun w => forall s p k, pc (th w s) = Stw (SAccess p k) -> safe_to_access (th w k) = true).
Check (eq_refl : safe_to_access = fun x =>
  match pc x with PollParked | SpPub | SpJoin | SpParked => paused x | _ => false end).
Check (eq_refl : f10_progs = [[AAlloc true]; [APrim; ACompute]]).
Print Assumptions C15_single_stopper.
Print Assumptions C15_flags_cleared.
Print Assumptions C15_parked_released.
Print Assumptions C15_stw_refuted.
Print Assumptions C15_stw_refuted_thread_runs.
Print Assumptions C15_global_visible_refuted_spawn_window.
