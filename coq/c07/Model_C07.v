(* C07 — model of the error-recovery state machine of the VM, of the symbol-map roll-back of a unit that
   fails to build, and of the index / range checks of the indexed primitives.  Definitions only.

   Sources mirrored (steel-core, paths relative to crates/steel-core/src):
   * steel_vm/vm.rs  SteelThread::execute                      (the `'outer` loop and its unwinding `while let`)
   * steel_vm/vm.rs  VmCore::call_with_instructions_and_reset_state   (nested run on behalf of a built-in)
   * steel_vm/vm.rs  VmCore::call_with_args                    (frame pushed at prev_length, stack truncated after)
   * steel_vm/vm.rs  VmCore::handle_pop_pure                   (pop_count -= 1; frames.pop(); roll the stack back)
   * steel_vm/vm.rs  call_with_exception_handler               (frame .with_handler(handler), pop_count += 1)
   * steel_vm/engine.rs Engine::raw_program_to_executable      (symbol_map snapshot restored when build fails)
   * compiler/map.rs SymbolMap::add / roll_back
   * primitives/strings.rs bounds, primitives/bytevectors.rs bytes_to_string, primitives/lists.rs list-ref,
     primitives/vectors.rs vector-ref

   What persists between two evaluations is the thread: operand stack, frame stack, globals.  `pop_count`,
   `ip`, `sp`, `instructions` live in a VmCore created by every `execute`.  Continuation marks attached to
   frames (call/cc) are not modelled here (C08). *)
From Coq Require Import List Arith Lia Bool ZArith.
Import ListNotations.

Definition val := nat.

(* StackFrame: sp, attachments.handler; `f_dummy` marks the frame `execute` pushes below a handler frame that
   was the bottom frame ("Push on a dummy stack frame if we're at the top"): it is pushed without incrementing
   pop_count and is consumed by the final POP of the top-level code. *)
Record frame := mkFrame { f_sp : nat; f_handler : option nat; f_dummy : bool }.

(* the locals of one activation of call_with_args + call_with_instructions_and_reset_state *)
Record ctx := mkCtx { c_saved_pc : nat; c_prev_len : nat }.

Record thread := mkThread { t_stack : list val; t_frames : list frame; t_globals : list (nat * val) }.

(* frames: head = top of the frame stack; stack: head = bottom (index 0), so truncate n = firstn n *)
Record st := mkSt { stack : list val; frames : list frame; pc : nat; ctxs : list ctx; globals : list (nat * val) }.

(* The dynamic trace of stack-discipline events of a run (any control flow yields some trace):
   OPush v      a value is pushed (arguments, temporaries)
   ODefine k v  BIND: global slot k := v
   OCall args h push the arguments, then call a closure (frame sp = stack length below the arguments);
                h = Some _ for call-with-exception-handler (no arguments, frame .with_handler)
   ONested      a built-in calls a closure: call_with_args pushes a frame at prev_length = stack.len(), then
                call_with_instructions_and_reset_state saves pop_count and sets it to 1
   ORet v       PUSH v; POP  (handle_pop_pure)
   ORaise e     an instruction returns Err(e) *)
Inductive op := OPush (v : val) | ODefine (k : nat) (v : val) | OCall (args : list val) (h : option nat) | ONested
              | ORet (v : val) | ORaise (e : val).

Inductive outcome :=
| Running (s : st)                 (* the trace ended before the run did *)
| Done (v : val) (t : thread)      (* execute returned Ok(v), leaving thread t *)
| Failed (e : val) (t : thread)    (* execute returned Err(e), leaving thread t *)
| Panic.                           (* Rust panic: `pop_count -= 1` on 0, `last.unwrap()` on None, drain(range) *)

(* ---- unwinding loop of SteelThread::execute ------------------------------------------------------------
     while let Some(mut last) = frames.pop() {
         if pop_count == 0 { return Err(e) }              // NB: `last` is already popped, stack not cleared
         pop_count -= 1;
         if let Some(handler) = last.attachments.handler.take() {
             stack.truncate(last.sp); stack.push(e);
             if frames.is_empty() { frames.push(dummy(last.sp)) }
             last.handler = None; frames.push(last); pop_count += 1; continue 'outer }
     }
     self.stack.clear(); return Err(e)                                                                    *)
Inductive ures :=
| UHandler (stk : list val) (fs : list frame) (pc : nat)
| UNone
| UEarly (stk : list val) (fs : list frame).

Definition resume_frames (last : frame) (rest : list frame) : list frame :=
  let last' := mkFrame (f_sp last) None (f_dummy last) in
  match rest with
  | [] => [last'; mkFrame (f_sp last) None true]
  | _ => last' :: rest
  end.

Fixpoint unwind_top (e : val) (fs : list frame) (stk : list val) (pc : nat) : ures :=
  match fs with
  | [] => UNone
  | last :: rest =>
      if pc =? 0 then UEarly stk rest
      else match f_handler last with
           | Some _ => UHandler (firstn (f_sp last) stk ++ [e]) (resume_frames last rest) (pc - 1 + 1)
           | None => unwind_top e rest stk (pc - 1)
           end
  end.

(* ---- unwinding loop of call_with_instructions_and_reset_state (as FIXED by commit 6614f321):
     while pop_count != 0 { let Some(mut last) = frames.pop() else { break }; pop_count -= 1; ...same... }
     res = Err(e); ip, instructions, pop_count restored                                                    *)
Inductive nres :=
| NHandler (stk : list val) (fs : list frame) (pc : nat)
| NNone (fs : list frame).     (* error leaves the nested run; fs = frames left for the caller *)

Fixpoint unwind_nested (e : val) (fs : list frame) (stk : list val) (pc : nat) : nres :=
  match fs with
  | [] => NNone []
  | last :: rest =>
      if pc =? 0 then NNone fs
      else match f_handler last with
           | Some _ => NHandler (firstn (f_sp last) stk ++ [e]) (resume_frames last rest) (pc - 1 + 1)
           | None => unwind_nested e rest stk (pc - 1)
           end
  end.

(* the loop as it was before the fix: `while let Some(last) = frames.pop() { if pop_count == 0 { return Err(e) } ...`
   — the early return leaves pop_count at 0 (not restored) and has already popped a frame of the caller *)
Inductive nres_old :=
| OHandler (stk : list val) (fs : list frame) (pc : nat)
| ONone                                  (* frames exhausted; pop_count restored *)
| OEarly (fs : list frame).              (* returned with pop_count = 0, one caller frame discarded *)

Fixpoint unwind_nested_old (e : val) (fs : list frame) (stk : list val) (pc : nat) : nres_old :=
  match fs with
  | [] => ONone
  | last :: rest =>
      if pc =? 0 then OEarly rest
      else match f_handler last with
           | Some _ => OHandler (firstn (f_sp last) stk ++ [e]) (resume_frames last rest) (pc - 1 + 1)
           | None => unwind_nested_old e rest stk (pc - 1)
           end
  end.

Inductive rres := Resumed (s : st) | Escaped (t : thread).

(* An error raised with nested runs cs (innermost first) active.  When it leaves a nested run,
   call_with_args truncates the stack to prev_length and the built-in returns Err to the enclosing dispatch
   loop, whose own unwinding loop takes over. *)
Fixpoint raise (e : val) (cs : list ctx) (fs : list frame) (stk : list val) (pc : nat) (g : list (nat * val)) : rres :=
  match cs with
  | [] => match unwind_top e fs stk pc with
          | UHandler stk' fs' pc' => Resumed (mkSt stk' fs' pc' [] g)
          | UNone => Escaped (mkThread [] [] g)
          | UEarly stk' fs' => Escaped (mkThread stk' fs' g)
          end
  | c :: cs' => match unwind_nested e fs stk pc with
                | NHandler stk' fs' pc' => Resumed (mkSt stk' fs' pc' cs g)
                | NNone fs' => raise e cs' fs' (firstn (c_prev_len c) stk) (c_saved_pc c) g
                end
  end.

Fixpoint raise_old (e : val) (cs : list ctx) (fs : list frame) (stk : list val) (pc : nat) (g : list (nat * val)) : rres :=
  match cs with
  | [] => match unwind_top e fs stk pc with
          | UHandler stk' fs' pc' => Resumed (mkSt stk' fs' pc' [] g)
          | UNone => Escaped (mkThread [] [] g)
          | UEarly stk' fs' => Escaped (mkThread stk' fs' g)
          end
  | c :: cs' => match unwind_nested_old e fs stk pc with
                | OHandler stk' fs' pc' => Resumed (mkSt stk' fs' pc' cs g)
                | ONone => raise_old e cs' [] (firstn (c_prev_len c) stk) (c_saved_pc c) g
                | OEarly fs' => raise_old e cs' fs' (firstn (c_prev_len c) stk) 0 g
                end
  end.

Definition set_global (k : nat) (v : val) (g : list (nat * val)) : list (nat * val) :=
  (k, v) :: filter (fun p => negb (fst p =? k)) g.

(* the dispatch loop on a trace *)
Fixpoint run (ops : list op) (s : st) : outcome :=
  match ops with
  | [] => Running s
  | o :: rest =>
    match o with
    | OPush v => run rest (mkSt (stack s ++ [v]) (frames s) (pc s) (ctxs s) (globals s))
    | ODefine k v => run rest (mkSt (stack s) (frames s) (pc s) (ctxs s) (set_global k v (globals s)))
    | OCall args h =>
        run rest (mkSt (stack s ++ args) (mkFrame (length (stack s)) h false :: frames s) (S (pc s)) (ctxs s) (globals s))
    | ONested =>
        run rest (mkSt (stack s) (mkFrame (length (stack s)) None false :: frames s) 1
                       (mkCtx (pc s) (length (stack s)) :: ctxs s) (globals s))
    | ORet v =>
        match pc s with
        | 0 => Panic                                         (* pop_count -= 1 *)
        | S pc1 =>
            let stk := stack s ++ [v] in
            match frames s, pc1 with
            | [], S _ => Panic                               (* last.unwrap() *)
            | last :: fr', S _ =>
                if f_sp last <=? length stk - 1              (* drain(rollback_index .. len - 1) *)
                then run rest (mkSt (firstn (f_sp last) stk ++ [v]) fr' pc1 (ctxs s) (globals s))
                else Panic
            | fs, 0 =>                                       (* this dispatch loop returns Some(Ok v) *)
                let fr' := tl fs in
                let stk' := firstn (match fs with [] => 0 | last :: _ => f_sp last end) (stack s) in
                match ctxs s with
                | [] => Done v (mkThread [] fr' (globals s))              (* execute: self.stack.clear() *)
                | c :: cs => run rest (mkSt (firstn (c_prev_len c) stk' ++ [v]) fr' (c_saved_pc c) cs (globals s))
                end
            end
        end
    | ORaise e =>
        match raise e (ctxs s) (frames s) (stack s) (pc s) (globals s) with
        | Resumed s' => run rest s'
        | Escaped t => Failed e t
        end
    end
  end.

(* SteelThread::execute: a new VmCore (pop_count = 1) over the thread *)
Definition execute (ops : list op) (t : thread) : outcome :=
  run ops (mkSt (t_stack t) (t_frames t) 1 [] (t_globals t)).

Definition fresh (g : list (nat * val)) : thread := mkThread [] [] g.

Definition thread_after (o : outcome) (t : thread) : thread :=
  match o with
  | Done _ t' => t'
  | Failed _ t' => t'
  | Running s => mkThread [] [] (globals s)     (* not a completed evaluation; excluded by the theorems *)
  | Panic => t
  end.

Fixpoint history (units : list (list op)) (t : thread) : thread :=
  match units with
  | [] => t
  | u :: rest => history rest (thread_after (execute u t) t)
  end.

Definition completed (o : outcome) : Prop := match o with Done _ _ | Failed _ _ => True | _ => False end.

(* ---- invariant --------------------------------------------------------------------------------------- *)
Fixpoint weight (fs : list frame) : nat :=
  match fs with [] => 0 | f :: r => (if f_dummy f then 0 else 1) + weight r end.

(* every frame's sp is within the stack as truncated by the frame above it (monotone, bounded) *)
Fixpoint sps_ok (n : nat) (fs : list frame) : Prop :=
  match fs with [] => True | f :: r => f_sp f <= n /\ sps_ok (f_sp f) r end.

Definition no_dummy (fs : list frame) : Prop := Forall (fun f => f_dummy f = false) fs.

(* a dummy frame only ever sits at the bottom, carries no handler *)
Fixpoint dummies_ok (fs : list frame) : Prop :=
  match fs with
  | [] => True
  | [f] => f_dummy f = true -> f_handler f = None
  | f :: r => f_dummy f = false /\ dummies_ok r
  end.

Fixpoint inv_ctx (cs : list ctx) (fs : list frame) (pc : nat) : Prop :=
  match cs with
  | [] => pc = S (weight fs) /\ dummies_ok fs
  | c :: cs' => exists own base rest, fs = own ++ base :: rest /\ pc = S (length own) /\ no_dummy own /\
                  f_handler base = None /\ f_dummy base = false /\ f_sp base = c_prev_len c /\
                  inv_ctx cs' rest (c_saved_pc c)
  end.

Definition Inv (s : st) : Prop := inv_ctx (ctxs s) (frames s) (pc s) /\ sps_ok (length (stack s)) (frames s).

(* ---- symbol map and the roll-back of a unit that fails to build ---------------------------------------
   compiler/map.rs SymbolMap { values, map, free_list }; add: take a recycled slot or values.len(), map.insert,
   the previous index of a redefined name goes to free_list.shadowed.
   engine.rs raw_program_to_executable (as fixed by fdfd1615): snapshot = symbol_map.clone();
   program.build(..) interns every define, then resolves references; on Err: symbol_map = snapshot.        *)
Record symmap := mkSym { sm_values : list nat; sm_map : list (nat * nat); sm_free : list nat; sm_shadowed : list nat }.

Fixpoint lookup (k : nat) (m : list (nat * nat)) : option nat :=
  match m with [] => None | (k', i) :: r => if k =? k' then Some i else lookup k r end.

Fixpoint set_nth {A} (n : nat) (x : A) (l : list A) : list A :=
  match n, l with 0, _ :: r => x :: r | S n', y :: r => y :: set_nth n' x r | _, [] => [] end.

Definition sm_add (name : nat) (m : symmap) : symmap :=
  let (idx, free') := match sm_free m with i :: r => (i, r) | [] => (length (sm_values m), []) end in
  let shadowed' := match lookup name (sm_map m) with Some prev => prev :: sm_shadowed m | None => sm_shadowed m end in
  let values' := if idx =? length (sm_values m) then sm_values m ++ [name] else set_nth idx name (sm_values m) in
  mkSym values' ((name, idx) :: sm_map m) free' shadowed'.

(* a unit: the names it defines (interned first) and the names it references *)
Record unit_ := mkUnit { u_defines : list nat; u_refs : list nat }.

Definition intern_all (u : unit_) (m : symmap) : symmap := fold_left (fun m n => sm_add n m) (u_defines u) m.

Definition resolves (u : unit_) (m : symmap) : bool :=
  forallb (fun r => match lookup r (sm_map m) with Some _ => true | None => false end) (u_refs u).

(* Ok m' = executable built, symbol map m'; Err m' = FreeIdentifier, symbol map left as m' *)
Definition build (u : unit_) (m : symmap) : bool * symmap :=
  let snapshot := m in
  let m1 := intern_all u m in
  if resolves u m1 then (true, m1) else (false, snapshot).

(* the drain-based SymbolMap::roll_back(index) that raw_program_to_executable used before fdfd1615 *)
Definition roll_back_old (index : nat) (m : symmap) : symmap :=
  let dropped := skipn index (sm_values m) in
  mkSym (firstn index (sm_values m))
        (filter (fun p => negb (existsb (Nat.eqb (fst p)) dropped)) (sm_map m)) (sm_free m) (sm_shadowed m).

Definition build_old (u : unit_) (m : symmap) : bool * symmap :=
  let offset := length (sm_values m) in
  let m1 := intern_all u m in
  if resolves u m1 then (true, m1) else (false, roll_back_old offset m1).

(* engine state relevant to C07: symbol map + thread *)
Record engine := mkEngine { e_sym : symmap; e_thread : thread }.

(* compile_and_run_raw_program: build, then run (the trace is whatever the executable does) *)
Definition eval_unit (u : unit_) (trace : list op) (en : engine) : bool * engine :=
  match build u (e_sym en) with
  | (false, m') => (false, mkEngine m' (e_thread en))
  | (true, m') => let o := execute trace (e_thread en) in
                  (match o with Done _ _ => true | _ => false end, mkEngine m' (thread_after o (e_thread en)))
  end.

(* ---- index and range checks (Ok | Err, and Panic where the Rust code would panic) ---------------------- *)
Open Scope Z_scope.
Inductive chk (A : Type) := COk (a : A) | CErr | CPanic.
Arguments COk {A} a. Arguments CErr {A}. Arguments CPanic {A}.

Definition isize_max : Z := 9223372036854775807.

(* slice indexing `&v[a..b]` panics unless a <= b <= len *)
Definition slice (len a b : Z) : chk (Z * Z) := if (a <=? b) && (b <=? len) then COk (a, b) else CPanic.

(* primitives/bytevectors.rs bytes_to_string (after c5c94416): start/end default 0/len; negative -> Err;
   end < start -> Err; end > len -> Err; then &bytes[start..end] *)
Definition bytes_to_string_range (len : Z) (start end_ : option Z) : chk (Z * Z) :=
  let s := match start with Some s => s | None => 0 end in
  let e := match end_ with Some e => e | None => len end in
  if s <? 0 then CErr else if e <? 0 then CErr else if e <? s then CErr else if e >? len then CErr
  else slice len s e.

(* the same function before the fix: no `end > len` test *)
Definition bytes_to_string_range_old (len : Z) (start end_ : option Z) : chk (Z * Z) :=
  let s := match start with Some s => s | None => 0 end in
  let e := match end_ with Some e => e | None => len end in
  if s <? 0 then CErr else if e <? 0 then CErr else if e <? s then CErr else slice len s e.

(* primitives/strings.rs bounds (substring / string->list / ...): i, j in characters; nchars = number of chars *)
Definition string_bounds (nchars : Z) (i : option Z) (j : option Z) : chk (Z * Z) :=
  let i := match i with Some i => i | None => 0 end in
  if i <? 0 then CErr else if i >? nchars then CErr else
  match j with
  | Some j => if j <? 0 then CErr else if i >? j then CErr else if j >? nchars then CErr else slice nchars i j
  | None => slice nchars i nchars
  end.

(* list-ref / vector-ref / bytes-ref: index converted to usize (negative -> Err), then `get(i)` -> Err on None *)
Definition ref_index (len : Z) (i : Z) : chk Z :=
  if i <? 0 then CErr else if i >=? len then CErr else COk i.
Close Scope Z_scope.
