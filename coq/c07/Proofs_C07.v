(* C07 — lemmas about the error-recovery state machine, the symbol-map roll-back and the range checks. *)
From Coq Require Import List Arith Lia Bool ZArith.
From SV Require Import c07.Model_C07.
Import ListNotations.

(* ---------------------------------------------------------------------------------------------------- *)
Lemma sps_ok_mono : forall fs n m, sps_ok n fs -> n <= m -> sps_ok m fs.
Proof. destruct fs as [|f r]; cbn; intros; auto. destruct H; split; auto; lia. Qed.

Lemma sps_ok_split : forall above fk below n,
  sps_ok n (above ++ fk :: below) -> f_sp fk <= n /\ sps_ok (f_sp fk) below.
Proof.
  induction above as [|a r IH]; cbn; intros fk below n H.
  - exact H.
  - destruct H as [Ha H]. apply IH in H. destruct H. split; auto. lia.
Qed.

Lemma sps_ok_app_r : forall above rest n, sps_ok n (above ++ rest) -> sps_ok n rest.
Proof.
  induction above as [|a r IH]; cbn; intros; auto.
  destruct H. apply IH in H0. eapply sps_ok_mono; eauto.
Qed.

Definition nohandler (f : frame) : Prop := f_handler f = None.

Lemma handler_split : forall l : list frame,
  Forall nohandler l \/ exists a fk b h, l = a ++ fk :: b /\ Forall nohandler a /\ f_handler fk = Some h.
Proof.
  induction l as [|f r IH].
  - left; constructor.
  - destruct (f_handler f) as [h|] eqn:E.
    + right. exists [], f, r, h. repeat split; auto.
    + destruct IH as [IH | (a & fk & b & h & -> & Ha & Hk)].
      * left; constructor; auto.
      * right. exists (f :: a), fk, b, h. split; [reflexivity|]. split; auto.
Qed.

Lemma weight_app : forall a b, weight (a ++ b) = weight a + weight b.
Proof. induction a; cbn; intros; auto. rewrite IHa. lia. Qed.

Lemma weight_no_dummy : forall l, no_dummy l -> weight l = length l.
Proof. induction 1; cbn; auto. rewrite H. lia. Qed.

Lemma dummies_ok_tail : forall f r, dummies_ok (f :: r) -> dummies_ok r.
Proof. intros f [|g r] H; cbn in *; auto. destruct H; auto. Qed.

Lemma dummies_ok_head : forall f g r, dummies_ok (f :: g :: r) -> f_dummy f = false.
Proof. intros. cbn in H. tauto. Qed.

Lemma dummies_ok_app : forall a f r, dummies_ok (a ++ f :: r) -> no_dummy a /\ dummies_ok (f :: r).
Proof.
  induction a as [|x a IH]; intros f r H.
  - split; [constructor | exact H].
  - change ((x :: a) ++ f :: r) with (x :: (a ++ f :: r)) in H.
    destruct (a ++ f :: r) as [|y t] eqn:E. { destruct a; discriminate. }
    pose proof (dummies_ok_head _ _ _ H) as Hx. apply dummies_ok_tail in H. rewrite <- E in H.
    apply IH in H. destruct H. split; auto. constructor; auto.
Qed.

Lemma dummies_ok_handler : forall f r h, dummies_ok (f :: r) -> f_handler f = Some h -> f_dummy f = false.
Proof.
  intros f [|g r] h H E; cbn in H.
  - destruct (f_dummy f); auto. rewrite H in E; auto; discriminate.
  - tauto.
Qed.

Lemma dummies_ok_resume : forall fk below, dummies_ok (fk :: below) -> f_dummy fk = false ->
  dummies_ok (resume_frames fk below).
Proof.
  intros fk [|g r] H E; unfold resume_frames; cbn.
  - split; auto.
  - cbn in H. destruct H. split; auto.
Qed.

Lemma weight_resume : forall fk below, f_dummy fk = false -> weight (resume_frames fk below) = S (weight below).
Proof. intros fk [|g r] E; unfold resume_frames; cbn; rewrite E; cbn; lia. Qed.

Lemma sps_ok_resume : forall fk below n, f_sp fk <= n -> sps_ok (f_sp fk) below -> sps_ok n (resume_frames fk below).
Proof. intros fk [|g r] n H1 H2; unfold resume_frames; cbn in *; intuition. Qed.

(* ---- the unwinding loop of execute --------------------------------------------------------------- *)
Lemma unwind_top_none : forall e fs stk pc,
  Forall nohandler fs -> dummies_ok fs -> pc = S (weight fs) -> unwind_top e fs stk pc = UNone.
Proof.
  induction fs as [|f r IH]; intros stk pc Hn Hd Hpc; [reflexivity|].
  inversion Hn as [|? ? Hf Hr]; subst. unfold nohandler in Hf. cbn [unwind_top Nat.eqb]. rewrite Hf.
  replace (S (weight (f :: r)) - 1) with (weight (f :: r)) by lia.
  destruct r as [|g r'].
  - reflexivity.
  - apply IH; auto. { eapply dummies_ok_tail; eauto. }
    cbn [weight]. rewrite (dummies_ok_head _ _ _ Hd). lia.
Qed.

Lemma unwind_top_handler : forall e above fk below h stk pc,
  Forall nohandler above -> f_handler fk = Some h -> dummies_ok (above ++ fk :: below) ->
  pc = S (weight (above ++ fk :: below)) ->
  unwind_top e (above ++ fk :: below) stk pc =
    UHandler (firstn (f_sp fk) stk ++ [e]) (resume_frames fk below) (S (S (weight below))).
Proof.
  induction above as [|a r IH]; intros fk below h stk pc Hn Hk Hd Hpc.
  - cbn [app] in *. cbn [unwind_top]. pose proof (dummies_ok_handler _ _ _ Hd Hk) as Hf.
    cbn [weight] in Hpc. rewrite Hf in Hpc. subst pc. cbn [Nat.eqb]. rewrite Hk. f_equal. lia.
  - inversion Hn as [|? ? Ha' Hr]; subst. unfold nohandler in Ha'.
    assert (Ha : f_dummy a = false).
    { cbn [app] in Hd. destruct (r ++ fk :: below) eqn:E; [destruct r; discriminate|].
      eapply dummies_ok_head; eauto. }
    assert (Hd' : dummies_ok (r ++ fk :: below)). { cbn [app] in Hd. eapply dummies_ok_tail; eauto. }
    cbn [app unwind_top weight]. rewrite Ha. cbn [Nat.eqb]. rewrite Ha'.
    replace (S (1 + weight (r ++ fk :: below)) - 1) with (S (weight (r ++ fk :: below))) by lia.
    apply IH with (h := h); auto.
Qed.

(* ---- the unwinding loop of a nested run ------------------------------------------------------------ *)
Lemma unwind_nested_none : forall e own base rest stk,
  Forall nohandler own -> f_handler base = None ->
  unwind_nested e (own ++ base :: rest) stk (S (length own)) = NNone rest.
Proof.
  induction own as [|a r IH]; intros base rest stk Hn Hb.
  - cbn. rewrite Hb. destruct rest; cbn; auto.
  - inversion Hn; subst. cbn [app length unwind_nested Nat.eqb]. rewrite H1.
    replace (S (S (length r)) - 1) with (S (length r)) by lia. apply IH; auto.
Qed.

Lemma unwind_nested_handler : forall e above fk bo base rest h stk,
  Forall nohandler above -> f_handler fk = Some h ->
  unwind_nested e ((above ++ fk :: bo) ++ base :: rest) stk (S (length (above ++ fk :: bo))) =
    NHandler (firstn (f_sp fk) stk ++ [e]) (mkFrame (f_sp fk) None (f_dummy fk) :: bo ++ base :: rest) (S (S (length bo))).
Proof.
  induction above as [|a r IH]; intros fk bo base rest h stk Hn Hk.
  - cbn [app length unwind_nested Nat.eqb]. rewrite Hk. unfold resume_frames.
    destruct (bo ++ base :: rest) eqn:E. { destruct bo; discriminate. }
    f_equal. lia.
  - inversion Hn; subst. cbn [app length unwind_nested Nat.eqb]. rewrite H1.
    replace (S (S (length (r ++ fk :: bo))) - 1) with (S (length (r ++ fk :: bo))) by lia.
    apply IH with (h := h); auto.
Qed.

(* ---- raise preserves the invariant or leaves a clean thread ----------------------------------------- *)
Lemma raise_ok : forall e cs fs stk pc g,
  inv_ctx cs fs pc -> sps_ok (length stk) fs ->
  match raise e cs fs stk pc g with
  | Resumed s' => Inv s' /\ globals s' = g
  | Escaped t => t = fresh g
  end.
Proof.
  induction cs as [|c cs IH]; intros fs stk pc g Hi Hs.
  - cbn [raise]. cbn in Hi. destruct Hi as [Hpc Hd].
    destruct (handler_split fs) as [Hn | (a & fk & b & h & -> & Ha & Hk)].
    + rewrite unwind_top_none; auto.
    + rewrite unwind_top_handler with (h := h); auto.
      apply dummies_ok_app in Hd. destruct Hd as [Hna Hd].
      pose proof (dummies_ok_handler _ _ _ Hd Hk) as Hf.
      apply sps_ok_split in Hs. destruct Hs as [Hs1 Hs2].
      split; auto. split; cbn.
      * split. { rewrite weight_resume; auto. } apply dummies_ok_resume; auto.
      * apply sps_ok_resume; auto. rewrite app_length, firstn_length. cbn. lia.
  - cbn [raise]. cbn in Hi. destruct Hi as (own & base & rest & -> & Hpc & Hnd & Hb & Hbd & Hsp & Hi).
    subst pc.
    destruct (handler_split own) as [Hn | (a & fk & b & h & -> & Ha & Hk)].
    + rewrite unwind_nested_none; auto.
      apply sps_ok_split in Hs. destruct Hs as [Hs1 Hs2].
      apply IH; auto. rewrite firstn_length. rewrite <- Hsp. rewrite Nat.min_l; auto.
    + rewrite unwind_nested_handler with (h := h); auto.
      split; auto. split; cbn.
      * exists (mkFrame (f_sp fk) None (f_dummy fk) :: b), base, rest. cbn. repeat split; auto.
        apply Forall_app in Hnd. destruct Hnd as [_ Hnd]. inversion Hnd; subst. constructor; auto.
      * rewrite <- app_assoc in Hs. cbn in Hs. apply sps_ok_split in Hs. destruct Hs as [Hs1 Hs2].
        split; auto. rewrite app_length, firstn_length. cbn. lia.
Qed.

(* ---- the dispatch loop ------------------------------------------------------------------------------ *)
Definition good (o : outcome) : Prop :=
  match o with
  | Running s => Inv s
  | Done _ t => t = fresh (t_globals t)
  | Failed _ t => t = fresh (t_globals t)
  | Panic => False
  end.

Lemma weight_zero : forall fs, dummies_ok fs -> weight fs = 0 -> tl fs = [].
Proof.
  intros [|f [|g r]] Hd Hw; cbn in *; auto.
  destruct Hd as [Hf _]. rewrite Hf in Hw. discriminate.
Qed.

Lemma run_good : forall ops s, Inv s -> good (run ops s).
Proof.
  induction ops as [|o rest IH]; intros s HI. { exact HI. }
  destruct s as [stk fs pc cs g]. destruct HI as [Hi Hs]. cbn in Hi, Hs.
  destruct o as [v | k v | args h | | v | e]; cbn [run stack frames Model_C07.pc ctxs globals].
  - (* OPush *) apply IH. split; cbn; auto. eapply sps_ok_mono; eauto. rewrite app_length; cbn; lia.
  - (* ODefine *) apply IH. split; cbn; auto.
  - (* OCall *) apply IH. split; cbn.
    + destruct cs as [|c cs'].
      * cbn in Hi |- *. destruct Hi as [Hpc Hd]. split; [lia|]. destruct fs; cbn; auto. discriminate.
      * cbn in Hi |- *. destruct Hi as (own & base & rest0 & -> & Hpc & Hnd & Hb & Hbd & Hsp & Hi).
        exists (mkFrame (length stk) h false :: own), base, rest0. cbn. repeat split; auto. constructor; auto.
    + split. { rewrite app_length; lia. } auto.
  - (* ONested *) apply IH. split; cbn.
    + exists [], (mkFrame (length stk) None false), fs. cbn. repeat split; auto. constructor.
    + split; auto.
  - (* ORet *)
    destruct pc as [|pc1].
    { exfalso. destruct cs; cbn in Hi. { destruct Hi; lia. } destruct Hi as (?&?&?&?&?&?); lia. }
    destruct cs as [|c cs'].
    + cbn in Hi. destruct Hi as [Hpc Hd].
      destruct fs as [|last fr']; destruct pc1 as [|pc2]; cbn [tl].
      * cbn. reflexivity.
      * cbn in Hpc. lia.
      * cbn. apply weight_zero in Hd; [|lia]. cbn in Hd. subst. reflexivity.
      * cbn in Hs. destruct Hs as [Hs1 Hs2].
        rewrite app_length. cbn [length]. replace (length stk + 1 - 1) with (length stk) by lia.
        destruct (Nat.leb_spec (f_sp last) (length stk)); [|lia].
        apply IH. split; cbn.
        -- assert (Hl : f_dummy last = false).
           { destruct fr'. - cbn in Hpc. destruct (f_dummy last); auto; cbn in Hpc; lia.
             - eapply dummies_ok_head; eauto. }
           cbn in Hpc. rewrite Hl in Hpc. split; [lia|]. eapply dummies_ok_tail; eauto.
        -- eapply sps_ok_mono; eauto. repeat rewrite ?app_length, ?firstn_length. cbn [length]. lia.
    + cbn in Hi. destruct Hi as (own & base & rest0 & -> & Hpc & Hnd & Hb & Hbd & Hsp & Hi).
      destruct own as [|last own']; cbn [app length] in *.
      * assert (pc1 = 0) by lia. subst pc1. cbn [tl].
        cbn in Hs. destruct Hs as [Hs1 Hs2].
        apply IH. split; cbn; auto.
        eapply sps_ok_mono; eauto. repeat rewrite ?app_length, ?firstn_length. cbn [length]. lia.
      * destruct pc1 as [|pc2]; [lia|].
        cbn in Hs. destruct Hs as [Hs1 Hs2].
        rewrite app_length. cbn [length]. replace (length stk + 1 - 1) with (length stk) by lia.
        destruct (Nat.leb_spec (f_sp last) (length stk)); [|lia].
        apply IH. split; cbn.
        -- exists own', base, rest0. inversion Hnd; subst. repeat split; auto.
        -- eapply sps_ok_mono; eauto. repeat rewrite ?app_length, ?firstn_length. cbn [length]. lia.
  - (* ORaise *)
    pose proof (raise_ok e cs fs stk pc g Hi Hs) as H.
    destruct (raise e cs fs stk pc g) as [s' | t].
    + apply IH. tauto.
    + cbn. subst t. reflexivity.
Qed.

Lemma Inv_start : forall g, Inv (mkSt [] [] 1 [] g).
Proof. intro g. split; cbn; auto. Qed.

Lemma execute_good : forall ops g, good (execute ops (fresh g)).
Proof. intros. unfold execute. cbn. apply run_good. apply Inv_start. Qed.

(* unwind_clean *)
Lemma unwind_clean_l : forall ops g e t,
  execute ops (fresh g) = Failed e t ->
  t_stack t = [] /\ t_frames t = [] /\ forall q, execute q t = execute q (fresh (t_globals t)).
Proof.
  intros ops g e t H. pose proof (execute_good ops g) as G. rewrite H in G. cbn in G.
  rewrite G. cbn. auto.
Qed.

Lemma done_clean_l : forall ops g v t,
  execute ops (fresh g) = Done v t ->
  t_stack t = [] /\ t_frames t = [] /\ forall q, execute q t = execute q (fresh (t_globals t)).
Proof.
  intros ops g v t H. pose proof (execute_good ops g) as G. rewrite H in G. cbn in G.
  rewrite G. cbn. auto.
Qed.

Lemma no_panic_run_l : forall ops g, execute ops (fresh g) <> Panic.
Proof. intros ops g H. pose proof (execute_good ops g) as G. rewrite H in G. exact G. Qed.

(* any history of completed evaluations (failing and succeeding interleaved) leaves a clean thread *)
Lemma history_clean_l : forall units g,
  Forall (fun u => forall g', completed (execute u (fresh g'))) units ->
  exists g', history units (fresh g) = fresh g'.
Proof.
  induction units as [|u rest IH]; intros g H.
  - exists g; reflexivity.
  - inversion H; subst. cbn [history].
    pose proof (execute_good u g) as G. pose proof (H2 g) as C.
    destruct (execute u (fresh g)) as [s | v t | e t |] eqn:E; cbn in C; try contradiction; cbn [thread_after].
    + cbn in G. rewrite G. apply IH; auto.
    + cbn in G. rewrite G. apply IH; auto.
Qed.

(* handler_unwinds: top-level context *)
Lemma handler_unwinds_top_l : forall e above fk below h stk g,
  Forall nohandler above -> f_handler fk = Some h ->
  Inv (mkSt stk (above ++ fk :: below) (S (weight (above ++ fk :: below))) [] g) ->
  exists s', raise e [] (above ++ fk :: below) stk (S (weight (above ++ fk :: below))) g = Resumed s' /\
    stack s' = firstn (f_sp fk) stk ++ [e] /\
    frames s' = resume_frames fk below /\ ctxs s' = [] /\ globals s' = g /\ Inv s'.
Proof.
  intros e above fk below h stk g Hn Hk [Hi Hs]. cbn in Hi, Hs.
  pose proof (raise_ok e [] _ stk _ g Hi Hs) as R.
  cbn [raise] in *. destruct Hi as [_ Hd].
  rewrite unwind_top_handler with (h := h) in *; auto.
  eexists. split; [reflexivity|]. cbn. tauto.
Qed.

(* handler_unwinds: the handler frame belongs to the innermost nested run *)
Lemma handler_unwinds_nested_l : forall e above fk bo base rest h stk c cs g,
  Forall nohandler above -> f_handler fk = Some h ->
  Inv (mkSt stk ((above ++ fk :: bo) ++ base :: rest) (S (length (above ++ fk :: bo))) (c :: cs) g) ->
  exists s', raise e (c :: cs) ((above ++ fk :: bo) ++ base :: rest) stk (S (length (above ++ fk :: bo))) g = Resumed s' /\
    stack s' = firstn (f_sp fk) stk ++ [e] /\
    frames s' = mkFrame (f_sp fk) None (f_dummy fk) :: bo ++ base :: rest /\ ctxs s' = c :: cs /\ Inv s'.
Proof.
  intros e above fk bo base rest h stk c cs g Hn Hk [Hi Hs]. cbn in Hi, Hs.
  pose proof (raise_ok e (c :: cs) _ stk _ g Hi Hs) as R.
  cbn [raise] in *.
  rewrite unwind_nested_handler with (h := h) in *; auto.
  eexists. split; [reflexivity|]. cbn. tauto.
Qed.

(* an error that leaves a nested run pops exactly the frames of that run: the caller's frames, with their
   handlers, are what the caller's own unwinding sees *)
Lemma nested_escape_l : forall e own base rest stk c cs g,
  Forall nohandler own -> f_handler base = None ->
  raise e (c :: cs) (own ++ base :: rest) stk (S (length own)) g =
  raise e cs rest (firstn (c_prev_len c) stk) (c_saved_pc c) g.
Proof. intros. cbn [raise]. rewrite unwind_nested_none; auto. Qed.

(* the loop as it was before 6614f321 discards a caller frame and skips the caller's handler:
   frames (top first): F (the nested run's frame), G (plain caller frame), H (caller frame with a handler),
   in a top-level run (pop_count 3 saved, nested pop_count 1) *)
Definition old_witness_frames : list frame :=
  [mkFrame 2 None false; mkFrame 1 None false; mkFrame 0 (Some 7) false].

Lemma old_nested_unwind_refuted_l :
  Inv (mkSt [10; 11] old_witness_frames 1 [mkCtx 3 2] []) /\
  raise_old 99 [mkCtx 3 2] old_witness_frames [10; 11] 1 [] = Escaped (mkThread [10; 11] [] []) /\
  (exists s', raise 99 [mkCtx 3 2] old_witness_frames [10; 11] 1 [] = Resumed s' /\ stack s' = [99] /\
              frames s' = [mkFrame 0 None false; mkFrame 0 None true]).
Proof.
  split; [|split].
  - split; cbn.
    + exists [], (mkFrame 2 None false), [mkFrame 1 None false; mkFrame 0 (Some 7) false].
      cbn. repeat split; auto; try constructor; try discriminate.
    + lia.
  - reflexivity.
  - eexists. split; [reflexivity|]. cbn. auto.
Qed.

(* ---- symbol map ------------------------------------------------------------------------------------ *)
Lemma build_fail_restores : forall u m m', build u m = (false, m') -> m' = m.
Proof. unfold build. intros u m m'. destruct (resolves u (intern_all u m)); intro H; inversion H; auto. Qed.

Lemma failed_unit_no_effect_l : forall u trace en en',
  fst (build u (e_sym en)) = false -> eval_unit u trace en = (false, en') -> en' = en.
Proof.
  intros u trace en en' Hb He. unfold eval_unit in He.
  destruct (build u (e_sym en)) as [b m'] eqn:E. cbn in Hb. subst b.
  apply build_fail_restores in E. subst m'. inversion He. destruct en; reflexivity.
Qed.

(* the drain-based roll-back lost an earlier definition: name 5 defined (slot 0), then a unit that
   redefines 5 and references the unknown name 9 *)
Lemma roll_back_old_refuted_l :
  let m0 := sm_add 5 (mkSym [] [] [] []) in
  let u := mkUnit [5] [9] in
  lookup 5 (sm_map m0) = Some 0 /\
  fst (build_old u m0) = false /\ lookup 5 (sm_map (snd (build_old u m0))) = None /\
  snd (build u m0) = m0.
Proof. cbn. repeat split; reflexivity. Qed.

(* ---- range checks ---------------------------------------------------------------------------------- *)
Open Scope Z_scope.
Lemma no_panic_bytes_to_string_l : forall len s e, 0 <= len -> bytes_to_string_range len s e <> CPanic.
Proof.
  intros len s e Hl. unfold bytes_to_string_range, slice.
  destruct s as [s|]; destruct e as [e|];
  repeat match goal with |- context [if ?b then _ else _] => destruct b eqn:? end; try discriminate;
  exfalso; rewrite ?Bool.andb_false_iff in *;
  repeat match goal with
  | H : (_ <? _) = _ |- _ => apply Z.ltb_ge in H || apply Z.ltb_lt in H
  | H : (_ >? _) = false |- _ => rewrite Z.gtb_ltb in H; apply Z.ltb_ge in H
  | H : _ \/ _ |- _ => destruct H
  | H : (_ <=? _) = false |- _ => apply Z.leb_gt in H
  end; lia.
Qed.

Lemma bytes_to_string_old_refuted_l : bytes_to_string_range_old 0 (Some 2) (Some 9223372036854775807) = CPanic.
Proof. reflexivity. Qed.

Lemma no_panic_string_bounds_l : forall n i j, 0 <= n -> string_bounds n i j <> CPanic.
Proof.
  intros n i j Hn. unfold string_bounds, slice.
  destruct i as [i|]; destruct j as [j|];
  repeat match goal with |- context [if ?b then _ else _] => destruct b eqn:? end; try discriminate;
  exfalso; rewrite ?Bool.andb_false_iff in *;
  repeat match goal with
  | H : (_ <? _) = _ |- _ => apply Z.ltb_ge in H || apply Z.ltb_lt in H
  | H : (_ >? _) = false |- _ => rewrite Z.gtb_ltb in H; apply Z.ltb_ge in H
  | H : _ \/ _ |- _ => destruct H
  | H : (_ <=? _) = false |- _ => apply Z.leb_gt in H
  end; lia.
Qed.

Lemma ref_index_sound_l : forall len i, ref_index len i <> CPanic /\ (forall k, ref_index len i = COk k -> k = i /\ 0 <= i < len).
Proof.
  intros len i. unfold ref_index.
  destruct (i <? 0) eqn:A; [split; [discriminate | intros k H; discriminate]|].
  destruct (i >=? len) eqn:B; [split; [discriminate | intros k H; discriminate]|].
  split; [discriminate|]. intros k H. inversion H; subst. apply Z.ltb_ge in A.
  rewrite Z.geb_leb in B. apply Z.leb_gt in B. lia.
Qed.

Lemma string_bounds_sound_l : forall n i j a b, string_bounds n i j = COk (a, b) -> 0 <= a <= b /\ b <= n.
Proof.
  intros n i j a b. unfold string_bounds, slice.
  destruct i as [i|]; destruct j as [j|];
  repeat match goal with |- context [if ?b then _ else _] => destruct b eqn:? end; try discriminate;
  intro H; inversion H; subst;
  rewrite ?Bool.andb_true_iff in *;
  repeat match goal with
  | H : _ /\ _ |- _ => destruct H
  | H : (_ <? _) = _ |- _ => apply Z.ltb_ge in H || apply Z.ltb_lt in H
  | H : (_ >? _) = false |- _ => rewrite Z.gtb_ltb in H; apply Z.ltb_ge in H
  | H : (_ <=? _) = true |- _ => apply Z.leb_le in H
  end; lia.
Qed.
Close Scope Z_scope.
