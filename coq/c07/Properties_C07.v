(* C07 — property theorems only; each closed by [exact lemma]; statements pinned in Pins_C07.v. *)
From Coq Require Import List Arith ZArith.
From SV Require Import c07.Model_C07 c07.Proofs_C07.
Import ListNotations.

Theorem C07_unwind_clean : forall ops g e t,
  execute ops (fresh g) = Failed e t ->
  t_stack t = [] /\ t_frames t = [] /\ forall q, execute q t = execute q (fresh (t_globals t)).
Proof. exact unwind_clean_l. Qed.

Theorem C07_done_clean : forall ops g v t,
  execute ops (fresh g) = Done v t ->
  t_stack t = [] /\ t_frames t = [] /\ forall q, execute q t = execute q (fresh (t_globals t)).
Proof. exact done_clean_l. Qed.

Theorem C07_no_panic_run : forall ops g, execute ops (fresh g) <> Panic.
Proof. exact no_panic_run_l. Qed.

Theorem C07_history_clean : forall units g,
  Forall (fun u => forall g', completed (execute u (fresh g'))) units ->
  exists g', history units (fresh g) = fresh g'.
Proof. exact history_clean_l. Qed.

Theorem C07_handler_unwinds : forall e above fk below h stk g,
  Forall nohandler above -> f_handler fk = Some h ->
  Inv (mkSt stk (above ++ fk :: below) (S (weight (above ++ fk :: below))) [] g) ->
  exists s', raise e [] (above ++ fk :: below) stk (S (weight (above ++ fk :: below))) g = Resumed s' /\
    stack s' = firstn (f_sp fk) stk ++ [e] /\
    frames s' = resume_frames fk below /\ ctxs s' = [] /\ globals s' = g /\ Inv s'.
Proof. exact handler_unwinds_top_l. Qed.

Theorem C07_handler_unwinds_nested : forall e above fk bo base rest h stk c cs g,
  Forall nohandler above -> f_handler fk = Some h ->
  Inv (mkSt stk ((above ++ fk :: bo) ++ base :: rest) (S (length (above ++ fk :: bo))) (c :: cs) g) ->
  exists s', raise e (c :: cs) ((above ++ fk :: bo) ++ base :: rest) stk (S (length (above ++ fk :: bo))) g = Resumed s' /\
    stack s' = firstn (f_sp fk) stk ++ [e] /\
    frames s' = mkFrame (f_sp fk) None (f_dummy fk) :: bo ++ base :: rest /\ ctxs s' = c :: cs /\ Inv s'.
Proof. exact handler_unwinds_nested_l. Qed.

Theorem C07_nested_escape_keeps_callers : forall e own base rest stk c cs g,
  Forall nohandler own -> f_handler base = None ->
  raise e (c :: cs) (own ++ base :: rest) stk (S (length own)) g =
  raise e cs rest (firstn (c_prev_len c) stk) (c_saved_pc c) g.
Proof. exact nested_escape_l. Qed.

Theorem C07_old_nested_unwind_refuted : Inv (mkSt [10; 11] old_witness_frames 1 [mkCtx 3 2] []) /\
  raise_old 99 [mkCtx 3 2] old_witness_frames [10; 11] 1 [] = Escaped (mkThread [10; 11] [] []) /\
  (exists s', raise 99 [mkCtx 3 2] old_witness_frames [10; 11] 1 [] = Resumed s' /\ stack s' = [99] /\
              frames s' = [mkFrame 0 None false; mkFrame 0 None true]).
Proof. exact old_nested_unwind_refuted_l. Qed.

Theorem C07_failed_unit_no_effect : forall u trace en en',
  fst (build u (e_sym en)) = false -> eval_unit u trace en = (false, en') -> en' = en.
Proof. exact failed_unit_no_effect_l. Qed.

Theorem C07_roll_back_old_refuted : let m0 := sm_add 5 (mkSym [] [] [] []) in
  let u := mkUnit [5] [9] in
  lookup 5 (sm_map m0) = Some 0 /\
  fst (build_old u m0) = false /\ lookup 5 (sm_map (snd (build_old u m0))) = None /\
  snd (build u m0) = m0.
Proof. exact roll_back_old_refuted_l. Qed.

Theorem C07_no_panic_bytes_to_string : forall len s e, (0 <= len)%Z -> bytes_to_string_range len s e <> CPanic.
Proof. exact no_panic_bytes_to_string_l. Qed.

Theorem C07_bytes_to_string_old_refuted : bytes_to_string_range_old 0%Z (Some 2%Z) (Some 9223372036854775807%Z) = CPanic.
Proof. exact bytes_to_string_old_refuted_l. Qed.

Theorem C07_no_panic_string_bounds : forall n i j, (0 <= n)%Z -> string_bounds n i j <> CPanic.
Proof. exact no_panic_string_bounds_l. Qed.

Theorem C07_string_bounds_sound : forall n i j a b, string_bounds n i j = COk (a, b) -> (0 <= a <= b /\ b <= n)%Z.
Proof. exact string_bounds_sound_l. Qed.

Theorem C07_ref_index_sound : forall len i, ref_index len i <> CPanic /\ (forall k, ref_index len i = COk k -> k = i /\ (0 <= i < len)%Z).
Proof. exact ref_index_sound_l. Qed.

Example C07_nonvacuous :
  (* an error in a nested run (callback of a built-in) two calls below a handler is caught by that handler,
     the run completes and leaves a clean thread; the same error without a handler fails and leaves a clean thread *)
  execute [OCall [] (Some 7); OCall [1] None; ONested; OPush 5; OCall [6] None; ORaise 42; ORet 8; ORet 9]
          (fresh [(0, 3)]) = Done 9 (fresh [(0, 3)]) /\
  execute [ODefine 1 4; OCall [1] None; ONested; OPush 5; OCall [6] None; ORaise 42; ORet 8]
          (fresh []) = Failed 42 (fresh [(1, 4)]).
Proof. split; reflexivity. Qed.
