(* C20 — vocabulary of the generated conversion tables (coq/gen/Gen_C20.v is written in these terms by
   the translator in checks/c20.py; the model proper is Model_C20.v).  Definitions only. *)
From Coq Require Import ZArith List String.
Import ListNotations.

(* host -> script, integer types (crates/steel-core/src/primitives.rs) *)
Inductive into_mode :=
| IntoAs        (* SteelVal::IntV(val as isize)                         — wraps *)
| IntoPromote.  (* isize::try_from(val) / `> isize::MAX` test, else BigNum — exact *)

(* script -> host *)
Inductive from_mode :=
| FromAs          (* SteelVal::IntV(x) => Ok(x as T); anything else (also BigNum) is an error — truncates *)
| FromChecked     (* SteelVal::IntV(x) => T::try_from(x); BigNum is an error *)
| FromCheckedBig. (* IntV and BigNum arms, both through try_from / try_into *)

Record ity := mk_ity {
  ty_name : string;
  ty_signed : bool;
  ty_bits : Z;
  ty_into : option into_mode;   (* None: no IntoSteelVal/From impl found *)
  ty_from : option from_mode    (* None: no FromSteelVal impl found *)
}.

(* one `impl_register_fn!(k => A:i0, B:i1, ...)` invocation: declared arity and, per parameter in
   declaration order, the index of the argument slot the generated wrapper reads *)
Definition wrapper_row := (nat * list nat)%type.
