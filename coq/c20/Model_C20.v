(* C20 — the host boundary: executable model of the *mechanism* in
     crates/steel-core/src/primitives.rs   (from_for_isize!, try_from_impl!/try_from_int_impl!, hand-written
                                            impls for i64/u8/i8/usize/u128, Option<T>)
     crates/steel-core/src/steel_vm/register_fn.rs (impl_register_fn!/impl_register_fn_self! wrappers)
     crates/steel-core/src/gc.rs unsafe_erased_pointers + steel_vm/engine.rs LifetimeGuard (lending)
   driven by the tables of coq/gen/Gen_C20.v, which the translator rewrites from /repo on every run.
   Definitions only: proofs are in Proofs_C20.v so the model still runs when a proof breaks.

   Machine integers are Z plus explicit range tests; a Rust `as` cast is an explicit wrap
   (reduction modulo 2^w followed by sign reinterpretation), never totalised away. *)
From Coq Require Import ZArith List Bool String.
From SV Require Import c20.Types_C20 gen.Gen_C20.
Import ListNotations.
Open Scope Z_scope.

(* ------------------------------------------------------------------ (i) integer conversions *)
Definition isize_min : Z := -9223372036854775808.
Definition isize_max : Z := 9223372036854775807.
Definition fits_isize (z : Z) : bool := (isize_min <=? z) && (z <=? isize_max).

Definition lo (t : ity) : Z := if ty_signed t then - 2 ^ (ty_bits t - 1) else 0.
Definition hi (t : ity) : Z := if ty_signed t then 2 ^ (ty_bits t - 1) - 1 else 2 ^ (ty_bits t) - 1.
Definition in_range (t : ity) (z : Z) : bool := (lo t <=? z) && (z <=? hi t).

(* `z as T` for an integer type of the given signedness and width (two's complement) *)
Definition wrap (signed : bool) (bits z : Z) : Z :=
  let m := z mod 2 ^ bits in
  if signed && (2 ^ (bits - 1) <=? m) then m - 2 ^ bits else m.

(* the two exact-integer representations of SteelVal *)
Inductive sint :=
| SInt (z : Z)     (* SteelVal::IntV(isize)  *)
| SBig (z : Z).    (* SteelVal::BigNum(Gc<BigInt>) *)

Definition sint_val (s : sint) : Z := match s with SInt z => z | SBig z => z end.
(* representation invariant of script integers: fixnum iff it fits (numbers.rs IntoSteelVal for BigInt,
   reader, arithmetic — property C10) *)
Definition wf_sint (s : sint) : Prop :=
  match s with SInt z => fits_isize z = true | SBig z => fits_isize z = false end.

(* host -> script; x is a value of the host type (within its range) *)
Definition into_script (m : into_mode) (x : Z) : sint :=
  match m with
  | IntoAs => SInt (wrap true 64 x)
  | IntoPromote => if fits_isize x then SInt x else SBig x
  end.

Inductive cres := COk (z : Z) | CErr.

(* script -> host *)
Definition from_script (t : ity) (m : from_mode) (v : sint) : cres :=
  match m, v with
  | FromAs, SInt z => COk (wrap (ty_signed t) (ty_bits t) z)
  | FromAs, SBig _ => CErr
  | FromChecked, SInt z => if in_range t z then COk z else CErr
  | FromChecked, SBig _ => CErr
  | FromCheckedBig, SInt z => if in_range t z then COk z else CErr
  | FromCheckedBig, SBig z => if in_range t z then COk z else CErr
  end.

(* decidable sufficient conditions under which a mode is exact for a type *)
Definition into_ok (t : ity) (m : into_mode) : bool :=
  match m with
  | IntoPromote => true
  | IntoAs => (isize_min <=? lo t) && (hi t <=? isize_max)
  end.
Definition from_ok (t : ity) (m : from_mode) : bool :=
  match m with
  | FromCheckedBig => true
  | FromChecked => (isize_min <=? lo t) && (hi t <=? isize_max)
  | FromAs => ty_signed t && (ty_bits t =? 64)
  end.
Definition row_ok (t : ity) : bool :=
  (0 <? ty_bits t) &&
  match ty_into t with Some m => into_ok t m | None => true end &&
  match ty_from t with Some m => from_ok t m | None => true end.

(* the table of the tree as it was before the repair of finding F12 (literal copy of what the
   translator produced from commit 9fe8d8a6), for the refutation witnesses *)
Definition old_conv_table : list ity := [
  mk_ity "i8" true 8 (Some IntoAs) (Some FromCheckedBig);
  mk_ity "i16" true 16 (Some IntoAs) (Some FromAs);
  mk_ity "i32" true 32 (Some IntoAs) (Some FromAs);
  mk_ity "i64" true 64 (Some IntoPromote) (Some FromCheckedBig);
  mk_ity "isize" true 64 (Some IntoAs) (Some FromAs);
  mk_ity "u8" false 8 (Some IntoAs) (Some FromCheckedBig);
  mk_ity "u16" false 16 (Some IntoAs) (Some FromAs);
  mk_ity "u32" false 32 (Some IntoAs) (Some FromAs);
  mk_ity "u64" false 64 (Some IntoAs) (Some FromAs);
  mk_ity "usize" false 64 (Some IntoPromote) (Some FromAs);
  mk_ity "u128" false 128 (Some IntoPromote) None
].

Definition find_ty (tbl : list ity) (name : string) : option ity :=
  find (fun t => String.eqb (ty_name t) name) tbl.

(* ------------------------------------------------------------------ Option<T> *)
(* the fragment of script values the Option encoding cares about *)
Inductive sval :=
| VInt (s : sint)
| VBool (b : bool)
| VOther (tag : nat).

Definition truthy (v : sval) : bool := match v with VBool false => false | _ => true end.
(* IntoSteelVal for Option<T> / From<Option<T>>: None => BoolV(none_enc), Some(x) => x's encoding *)
Definition into_opt (none_enc : bool) (o : option sval) : sval :=
  match o with Some v => v | None => VBool none_enc end.
(* FromSteelVal for Option<T>: if val.is_truthy() { Some(T::from(val)?) } else { None }; the inner
   conversion is the identity on this fragment (its failure is modelled by the integer part) *)
Definition from_opt (v : sval) : option sval := if truthy v then Some v else None.

(* ------------------------------------------------------------------ (ii) generated wrappers *)
Section Wrapper.
  Variable A : Type.   (* script values *)
  Variable H : Type.   (* host values *)

  Inductive wres :=
  | Call (args : list H)      (* the host function body runs with these arguments *)
  | ErrArity                  (* stop!(ArityMismatch ..) *)
  | ErrConv                   (* a from_steelval returned Err: `?` leaves before the body runs *)
  | PanicIndex.               (* &args[$idx] out of bounds *)

  (* the macro's call of func: every parameter, in declaration order, is <P>::from_steelval(&args[idx])?
     with idx the slot the macro invocation names for it *)
  Fixpoint read_params (sig : list (A -> option H)) (idx : list nat) (args : list A) : wres :=
    match sig, idx with
    | [], _ => Call []
    | _ :: _, [] => PanicIndex
    | p :: sig', i :: idx' =>
      match nth_error args i with
      | None => PanicIndex
      | Some a =>
        match p a with
        | None => ErrConv
        | Some h =>
          match read_params sig' idx' args with
          | Call hs => Call (h :: hs)
          | e => e
          end
        end
      end
    end.

  (* plain functions: impl_register_fn!(arity => P:i ...) *)
  Definition wrapper (row : wrapper_row) (sig : list (A -> option H)) (args : list A) : wres :=
    if Nat.eqb (List.length args) (fst row) then read_params sig (snd row) args else ErrArity.

  (* receiver functions: impl_register_fn_self!(arity => P:i ...): args[0] is converted by `recv`
     (as_ref / as_mut_ref / as_mut_ref_from_ref), the other parameters as above *)
  Definition self_wrapper (row : wrapper_row) (recv : A -> option H) (sig : list (A -> option H))
             (args : list A) : wres :=
    if Nat.eqb (List.length args) (fst row) then
      match nth_error args 0 with
      | None => PanicIndex
      | Some a0 =>
        match recv a0 with
        | None => ErrConv
        | Some h0 =>
          match read_params sig (snd row) args with
          | Call hs => Call (h0 :: hs)
          | e => e
          end
        end
      end
    else ErrArity.
End Wrapper.
Arguments Call {H}. Arguments ErrArity {H}. Arguments ErrConv {H}. Arguments PanicIndex {H}.
Arguments read_params {A H}. Arguments wrapper {A H}. Arguments self_wrapper {A H}.

Fixpoint nat_list_eqb (a b : list nat) : bool :=
  match a, b with
  | [], [] => true
  | x :: a', y :: b' => Nat.eqb x y && nat_list_eqb a' b'
  | _, _ => false
  end.
(* a row is well formed when parameter j of k reads slot j (plain) / slot j+1 of k (receiver) *)
Definition wrow_ok (r : wrapper_row) : bool := nat_list_eqb (snd r) (seq 0 (fst r)).
Definition self_wrow_ok (r : wrapper_row) : bool :=
  match fst r with O => false | S k => nat_list_eqb (snd r) (seq 1 k) end.
(* every closure the macro generates performs the arity test and reads through from_steelval *)
Definition wrapper_shapes_ok : bool :=
  Nat.eqb wrapper_table_arity_checks wrapper_table_closures &&
  Nat.eqb wrapper_table_reads wrapper_table_closures &&
  Nat.eqb self_wrapper_table_arity_checks self_wrapper_table_closures &&
  Nat.eqb self_wrapper_table_reads self_wrapper_table_closures &&
  negb (Nat.eqb wrapper_table_closures 0) && negb (Nat.eqb self_wrapper_table_closures 0).

(* an integer parameter of a declared type, as a parameter converter *)
Definition int_param (t : ity) (m : from_mode) (v : sval) : option Z :=
  match v with
  | VInt s => match from_script t m s with COk z => Some z | CErr => None end
  | _ => None   (* `_ => Err(ConversionError "Expected number")` *)
  end.

(* ------------------------------------------------------------------ (iii) lending protocol *)
(* A lent reference is a weak pointer to a strong owner cell kept in the nursery's `memory`
   (allocate_rw_object: `wrapped` pushed to memory, `BorrowedObject{ptr: downgrade(&wrapped)}` handed to
   the script as SteelVal::Reference).  Every place a script can keep the reference in — a global, a
   closure's captured slot, an element of a list / vector / hash map / box, a frame of a captured
   continuation — holds a clone of the same Gc<OpaqueReference>, i.e. the same weak pointer: all of them
   are "slots" here.  Slot 0 is the global the lending call binds ( *ext* ). *)
Definition ident := nat.

Inductive op :=
| Stash (dst : nat)            (* copy what slot 0 holds into slot dst *)
| Copy (src dst : nat)         (* copy between slots (incl. capturing, consing, call/cc frames) *)
| Forget (s : nat)             (* overwrite a slot with a non-reference *)
| Use (s : nat).               (* call a host method on what slot s holds: upgrade or error *)

Inductive event :=
| ELend (script : list op)     (* Engine::run_with_reference(obj, "*ext*", script) *)
| EScript (script : list op).  (* any later evaluation without lending *)

Record lstate := mk_lstate {
  memory : list ident;               (* nursery `memory`: live strong owners (a stack) *)
  next : ident;                      (* allocation counter: a dropped Arc's weak never upgrades again *)
  slots : list (nat * ident);        (* script-visible places holding a weak handle *)
  current : option ident;            (* the lending call in progress, for the log only *)
  log : list (option ident * option ident * bool)
                                     (* per Use: lending in progress, handle used, did it succeed *)
}.

Definition lookup (s : nat) (sl : list (nat * ident)) : option ident :=
  match find (fun p => Nat.eqb (fst p) s) sl with Some p => Some (snd p) | None => None end.
Definition bind_slot (s : nat) (h : option ident) (sl : list (nat * ident)) : list (nat * ident) :=
  let rest := filter (fun p => negb (Nat.eqb (fst p) s)) sl in
  match h with Some i => (s, i) :: rest | None => rest end.

(* Weak::upgrade succeeds iff the strong owner is still in `memory`; without the upgrade test
   (use_upgrades = false) the raw pointer would be used unconditionally *)
Definition upgrade_ok (st : lstate) (h : ident) : bool :=
  if use_upgrades then existsb (Nat.eqb h) (memory st) else true.

Definition step (st : lstate) (o : op) : lstate :=
  match o with
  | Stash d => mk_lstate (memory st) (next st) (bind_slot d (lookup 0 (slots st)) (slots st)) (current st) (log st)
  | Copy s d => mk_lstate (memory st) (next st) (bind_slot d (lookup s (slots st)) (slots st)) (current st) (log st)
  | Forget s => mk_lstate (memory st) (next st) (bind_slot s None (slots st)) (current st) (log st)
  | Use s =>
    let h := lookup s (slots st) in
    let ok := match h with Some i => upgrade_ok st i | None => false end in
    mk_lstate (memory st) (next st) (slots st) (current st) ((current st, h, ok) :: log st)
  end.

Definition run_ops (st : lstate) (ops : list op) : lstate := fold_left step ops st.

Definition lend_frees : bool := guard_drop_frees && consume_by_value && free_n_pops_memory && run_uses_guard.

Definition run_event (st : lstate) (e : event) : lstate :=
  match e with
  | EScript ops => run_ops st ops
  | ELend ops =>
    let id := next st in
    (* with_mut_reference: allocate_rw_object pushes the strong owner; consume drains the weak
       value; update_value(bind_to, reference) *)
    let st1 := mk_lstate (id :: memory st) (S id) (bind_slot 0 (Some id) (slots st)) (Some id) (log st) in
    let st2 := run_ops st1 ops in
    (* update_value(bind_to, Void); LifetimeGuard::drop => free_n(1) pops the strong owner *)
    mk_lstate (if lend_frees then tl (memory st2) else memory st2) (next st2)
              (bind_slot 0 None (slots st2)) None (log st2)
  end.

Definition init : lstate := mk_lstate [] 0%nat [] None [].
Definition run_history (h : list event) : lstate := fold_left run_event h init.

(* ------------------------------------------------------------------ rendering for the correspondence *)
Open Scope string_scope.
Fixpoint pos_digits (fuel : nat) (p : Z) (acc : string) : string :=
  match fuel with
  | O => acc
  | S f =>
    let d := p mod 10 in
    let c := String (Ascii.ascii_of_nat (48 + Z.to_nat d)) EmptyString in
    let q := p / 10 in
    if (q =? 0)%Z then c ++ acc else pos_digits f q (c ++ acc)
  end.
Definition z_to_string (z : Z) : string :=
  if (z <? 0)%Z then "-" ++ pos_digits 400 (- z) "" else pos_digits 400 z "".

Definition render_sint (s : sint) : string :=
  match s with SInt z => "I" ++ z_to_string z | SBig z => "B" ++ z_to_string z end.
Definition render_cres (r : cres) : string :=
  match r with COk z => "ok:" ++ z_to_string z | CErr => "err" end.

(* script value z (mathematical integer, canonical representation) -> sint *)
Definition script_int (z : Z) : sint := if fits_isize z then SInt z else SBig z.

Definition model_from (name : string) (z : Z) : string :=
  match find_ty conv_table name with
  | Some t => match ty_from t with Some m => render_cres (from_script t m (script_int z)) | None => "noimpl" end
  | None => "notype"
  end.
Definition model_into (name : string) (x : Z) : string :=
  match find_ty conv_table name with
  | Some t => match ty_into t with Some m => render_sint (into_script m x) | None => "noimpl" end
  | None => "notype"
  end.

Definition render_wres (r : wres Z) : string :=
  match r with
  | Call hs => "call:" ++ String.concat "," (map z_to_string hs)
  | ErrArity => "arity"
  | ErrConv => "conv"
  | PanicIndex => "panic"
  end.
Definition i64_param : sval -> option Z :=
  int_param (mk_ity "i64" true 64 None None) FromCheckedBig.
Definition model_arity (k : nat) (args : list Z) : string :=
  match find (fun r => Nat.eqb (fst r) k) wrapper_table with
  | Some row => render_wres (wrapper row (repeat i64_param k) (map (fun z => VInt (script_int z)) args))
  | None => "norow"
  end.
Definition model_self_arity (k : nat) (args : list Z) : string :=
  match find (fun r => Nat.eqb (fst r) k) self_wrapper_table with
  | Some row => render_wres (self_wrapper row (fun _ => Some 0) (repeat i64_param (pred k))
                                          (VOther 0 :: map (fun z => VInt (script_int z)) args))
  | None => "norow"
  end.

Definition render_log (l : list (option ident * option ident * bool)) : string :=
  String.concat "" (map (fun e : option ident * option ident * bool => if snd e then "1" else "0") (rev l)).
Definition model_lend (h : list event) : string := render_log (log (run_history h)).
