(* C20 — property theorems only.  Each is closed by [exact lemma]; statements are pinned in
   Pins_C20.v (compiled on every run together with Print Assumptions). *)
From Coq Require Import ZArith List Bool String.
From SV Require Import c20.Types_C20 gen.Gen_C20 c20.Model_C20 c20.Proofs_C20.
Import ListNotations.
Open Scope Z_scope.

(* script -> host, every integer type of the generated table, every script integer: Ok iff the value is
   in the type's range, and then the same mathematical integer (never a truncation) *)
Theorem C20_conv_range : forall t m, In t conv_table -> ty_from t = Some m ->
  forall v, wf_sint v ->
    (in_range t (sint_val v) = true -> from_script t m v = COk (sint_val v)) /\
    (forall z, from_script t m v = COk z -> z = sint_val v /\ in_range t z = true).
Proof. exact conv_range. Qed.

(* host -> script: every value of every host integer type arrives as the same mathematical integer in
   canonical representation (fixnum, or bignum above isize::MAX) *)
Theorem C20_conv_into_exact : forall t mi, In t conv_table -> ty_into t = Some mi ->
  forall x, in_range t x = true ->
    wf_sint (into_script mi x) /\ sint_val (into_script mi x) = x.
Proof. exact conv_into_exact. Qed.

(* from (into x) = Ok x for every x in range, every width *)
Theorem C20_conv_roundtrip : forall t mi mf, In t conv_table -> ty_into t = Some mi -> ty_from t = Some mf ->
  forall x, in_range t x = true -> from_script t mf (into_script mi x) = COk x.
Proof. exact conv_roundtrip. Qed.

(* non-vacuity: the generated table has both directions for each of these types *)
Theorem C20_table_covers : forall n, In n ["i8"; "i16"; "i32"; "i64"; "isize"; "u8"; "u16"; "u32"; "u64"; "usize"]%string ->
  exists t, find_ty conv_table n = Some t /\ In t conv_table /\ ty_name t = n /\
            ty_into t <> None /\ ty_from t <> None.
Proof. exact table_covers. Qed.

(* the table of the tree before the repair violates conv_range (finding F12): 2^32 -> i32 gives 0 *)
Theorem C20_conv_refuted_truncates : exists t m v z,
  In t old_conv_table /\ ty_from t = Some m /\ wf_sint v /\
  from_script t m v = COk z /\ z <> sint_val v.
Proof. exact conv_refuted_truncates. Qed.

(* -1 -> u64 gives u64::MAX *)
Theorem C20_conv_refuted_sign : exists t m v z,
  In t old_conv_table /\ ty_from t = Some m /\ wf_sint v /\
  from_script t m v = COk z /\ in_range t (sint_val v) = false /\ z = 18446744073709551615.
Proof. exact conv_refuted_sign. Qed.

(* 2^63 (a bignum, within u64) was rejected *)
Theorem C20_conv_refuted_bignum : exists t m v,
  In t old_conv_table /\ ty_from t = Some m /\ wf_sint v /\
  in_range t (sint_val v) = true /\ from_script t m v = CErr.
Proof. exact conv_refuted_bignum. Qed.

(* host u64::MAX reached the script as -1 *)
Theorem C20_into_refuted : exists t m x,
  In t old_conv_table /\ ty_into t = Some m /\ in_range t x = true /\
  into_script m x = SInt (-1) /\ x = 18446744073709551615.
Proof. exact into_refuted. Qed.

(* both host -> script encodings of None are #f (generated fact) *)
Theorem C20_option_none_false : option_none_into = false /\ option_none_from = false.
Proof. exact option_none_false. Qed.

(* Option<T> round-trips whenever the payload's encoding is not #f *)
Theorem C20_opt_roundtrip : forall enc, enc = false ->
  from_opt (into_opt enc None) = None /\
  forall v, v <> VBool false -> from_opt (into_opt enc (Some v)) = Some v.
Proof. exact opt_roundtrip. Qed.

(* ... and does not otherwise: Some(false) / Some(None) come back as None (known finding C20-OPT-FALSY) *)
Theorem C20_opt_refuted_falsy_payload : forall enc, from_opt (into_opt enc (Some (VBool false))) = None.
Proof. exact opt_refuted_falsy_payload. Qed.

(* with the old From<Option<T>> encoding None came back as Some(#t) *)
Theorem C20_opt_refuted_none_true : from_opt (into_opt true None) = Some (VBool true).
Proof. exact opt_refuted_none_true. Qed.

(* a registered function's body runs only with exactly its declared number of arguments, the j-th
   host argument being the conversion of the j-th script argument at the j-th declared type *)
Theorem C20_wrapper_sound : forall (A H : Type) row (sig : list (A -> option H)) args hs,
  In row wrapper_table -> List.length sig = fst row -> wrapper row sig args = Call hs ->
  List.length args = fst row /\ conv_at A H sig 0 args hs.
Proof. exact wrapper_sound. Qed.

(* wrong arity is an error *)
Theorem C20_wrapper_arity : forall (A H : Type) row (sig : list (A -> option H)) args,
  List.length args <> fst row -> wrapper row sig args = ErrArity.
Proof. exact wrapper_arity. Qed.

(* the same for &T / &mut T receiver functions *)
Theorem C20_self_wrapper_sound : forall (A H : Type) row recv (sig : list (A -> option H)) args hs,
  In row self_wrapper_table -> S (List.length sig) = fst row -> self_wrapper row recv sig args = Call hs ->
  List.length args = fst row /\
  exists a0 h0 hs', nth_error args 0 = Some a0 /\ recv a0 = Some h0 /\ hs = h0 :: hs' /\
                    conv_at A H sig 1 args hs'.
Proof. exact self_wrapper_sound. Qed.

(* generated facts the two theorems above rest on *)
Theorem C20_wrapper_tables_ok : forallb wrow_ok wrapper_table = true /\ forallb self_wrow_ok self_wrapper_table = true /\
  wrapper_shapes_ok = true.
Proof. exact wrapper_tables_ok. Qed.

(* the 16-ary row of the tree before the repair handed parameter 13 the value of slot 14 *)
Theorem C20_wrapper_refuted : wrapper (16%nat, [0;1;2;3;4;5;6;7;8;9;10;11;12;14;14;15]%nat) (repeat (fun z : Z => Some z) 16)
          [0;1;2;3;4;5;6;7;8;9;10;11;12;13;14;15] = Call [0;1;2;3;4;5;6;7;8;9;10;11;12;14;14;15].
Proof. exact wrapper_refuted. Qed.

(* integer parameters: the host sees the script's integer, within the declared type's range; non-integers are errors *)
Theorem C20_int_param_sound : forall t m v z, In t conv_table -> ty_from t = Some m ->
  int_param t m v = Some z ->
  exists s, v = VInt s /\ (wf_sint s -> z = sint_val s /\ in_range t z = true).
Proof. exact int_param_sound. Qed.

(* for every history of lending calls and later evaluations, every script (operation sequence) and every
   slot a handle was copied to: a use succeeds only during a lending call and only through the handle that
   very call created *)
Theorem C20_lend_scoped : forall h e, In e (log (run_history h)) -> snd e = true ->
  exists id, fst (fst e) = Some id /\ snd (fst e) = Some id.
Proof. exact lend_scoped. Qed.

(* in particular every use after the lending call returned is an error *)
Theorem C20_lend_scoped_outside : forall h cur hd ok, In (cur, hd, ok) (log (run_history h)) ->
  cur = None -> ok = false.
Proof. exact lend_scoped_outside. Qed.

(* non-vacuity *)
Example C20_lend_nonvacuous : log (run_history [ELend [Use 0; Stash 5; Use 5]; EScript [Use 5; Copy 5 6; Use 6];
                    ELend [Use 5; Use 0]]) =
  [(Some 1%nat, Some 1%nat, true); (Some 1%nat, Some 0%nat, false);
   (None, Some 0%nat, false); (None, Some 0%nat, false);
   (Some 0%nat, Some 0%nat, true); (Some 0%nat, Some 0%nat, true)].
Proof. exact lend_nonvacuous. Qed.
