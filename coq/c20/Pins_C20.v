(* Compiled on every run of the C20 check: pins each statement and prints its assumptions. *)
From Coq Require Import ZArith List Bool String.
From SV Require Import c20.Types_C20 gen.Gen_C20 c20.Model_C20 c20.Proofs_C20 c20.Properties_C20.
Import ListNotations.
Open Scope Z_scope.

Check (C20_conv_range : forall t m, In t conv_table -> ty_from t = Some m ->
  forall v, wf_sint v ->
    (in_range t (sint_val v) = true -> from_script t m v = COk (sint_val v)) /\
    (forall z, from_script t m v = COk z -> z = sint_val v /\ in_range t z = true)).
Check (C20_conv_into_exact : forall t mi, In t conv_table -> ty_into t = Some mi ->
  forall x, in_range t x = true ->
    wf_sint (into_script mi x) /\ sint_val (into_script mi x) = x).
Check (C20_conv_roundtrip : forall t mi mf, In t conv_table -> ty_into t = Some mi -> ty_from t = Some mf ->
  forall x, in_range t x = true -> from_script t mf (into_script mi x) = COk x).
Check (C20_table_covers : forall n, In n ["i8"; "i16"; "i32"; "i64"; "isize"; "u8"; "u16"; "u32"; "u64"; "usize"]%string ->
  exists t, find_ty conv_table n = Some t /\ In t conv_table /\ ty_name t = n /\
            ty_into t <> None /\ ty_from t <> None).
Check (C20_conv_refuted_truncates : exists t m v z,
  In t old_conv_table /\ ty_from t = Some m /\ wf_sint v /\
  from_script t m v = COk z /\ z <> sint_val v).
Check (C20_conv_refuted_sign : exists t m v z,
  In t old_conv_table /\ ty_from t = Some m /\ wf_sint v /\
  from_script t m v = COk z /\ in_range t (sint_val v) = false /\ z = 18446744073709551615).
Check (C20_conv_refuted_bignum : exists t m v,
  In t old_conv_table /\ ty_from t = Some m /\ wf_sint v /\
  in_range t (sint_val v) = true /\ from_script t m v = CErr).
Check (C20_into_refuted : exists t m x,
  In t old_conv_table /\ ty_into t = Some m /\ in_range t x = true /\
  into_script m x = SInt (-1) /\ x = 18446744073709551615).
Check (C20_option_none_false : option_none_into = false /\ option_none_from = false).
Check (C20_opt_roundtrip : forall enc, enc = false ->
  from_opt (into_opt enc None) = None /\
  forall v, v <> VBool false -> from_opt (into_opt enc (Some v)) = Some v).
Check (C20_opt_refuted_falsy_payload : forall enc, from_opt (into_opt enc (Some (VBool false))) = None).
Check (C20_opt_refuted_none_true : from_opt (into_opt true None) = Some (VBool true)).
Check (C20_wrapper_sound : forall (A H : Type) row (sig : list (A -> option H)) args hs,
  In row wrapper_table -> List.length sig = fst row -> wrapper row sig args = Call hs ->
  List.length args = fst row /\ conv_at A H sig 0 args hs).
Check (C20_wrapper_arity : forall (A H : Type) row (sig : list (A -> option H)) args,
  List.length args <> fst row -> wrapper row sig args = ErrArity).
Check (C20_self_wrapper_sound : forall (A H : Type) row recv (sig : list (A -> option H)) args hs,
  In row self_wrapper_table -> S (List.length sig) = fst row -> self_wrapper row recv sig args = Call hs ->
  List.length args = fst row /\
  exists a0 h0 hs', nth_error args 0 = Some a0 /\ recv a0 = Some h0 /\ hs = h0 :: hs' /\
                    conv_at A H sig 1 args hs').
Check (C20_wrapper_tables_ok : forallb wrow_ok wrapper_table = true /\ forallb self_wrow_ok self_wrapper_table = true /\
  wrapper_shapes_ok = true).
Check (C20_wrapper_refuted : wrapper (16%nat, [0;1;2;3;4;5;6;7;8;9;10;11;12;14;14;15]%nat) (repeat (fun z : Z => Some z) 16)
          [0;1;2;3;4;5;6;7;8;9;10;11;12;13;14;15] = Call [0;1;2;3;4;5;6;7;8;9;10;11;12;14;14;15]).
Check (C20_int_param_sound : forall t m v z, In t conv_table -> ty_from t = Some m ->
  int_param t m v = Some z ->
  exists s, v = VInt s /\ (wf_sint s -> z = sint_val s /\ in_range t z = true)).
Check (C20_lend_scoped : forall h e, In e (log (run_history h)) -> snd e = true ->
  exists id, fst (fst e) = Some id /\ snd (fst e) = Some id).
Check (C20_lend_scoped_outside : forall h cur hd ok, In (cur, hd, ok) (log (run_history h)) ->
  cur = None -> ok = false).
Check (C20_lend_nonvacuous : log (run_history [ELend [Use 0; Stash 5; Use 5]; EScript [Use 5; Copy 5 6; Use 6];
                    ELend [Use 5; Use 0]]) =
  [(Some 1%nat, Some 1%nat, true); (Some 1%nat, Some 0%nat, false);
   (None, Some 0%nat, false); (None, Some 0%nat, false);
   (Some 0%nat, Some 0%nat, true); (Some 0%nat, Some 0%nat, true)]).

(* the definitions the statements rest on, pinned too *)
Check (eq_refl : wrap = fun (signed : bool) (bits z : Z) =>
  let m := z mod 2 ^ bits in if signed && (2 ^ (bits - 1) <=? m) then m - 2 ^ bits else m).
Check (eq_refl : in_range = fun t z => (lo t <=? z) && (z <=? hi t)).
Check (eq_refl : lo = fun t => if ty_signed t then - 2 ^ (ty_bits t - 1) else 0).
Check (eq_refl : hi = fun t => if ty_signed t then 2 ^ (ty_bits t - 1) - 1 else 2 ^ (ty_bits t) - 1).
Check (eq_refl : wf_sint = fun s => match s with SInt z => fits_isize z = true | SBig z => fits_isize z = false end).
Check (eq_refl : conv_at = fun (A H : Type) (sig : list (A -> option H)) (off : nat) (args : list A) (hs : list H) =>
  List.length hs = List.length sig /\
  forall j p, nth_error sig j = Some p ->
    exists a h, nth_error args (off + j) = Some a /\ nth_error hs j = Some h /\ p a = Some h).

Print Assumptions C20_conv_range.
Print Assumptions C20_conv_into_exact.
Print Assumptions C20_conv_roundtrip.
Print Assumptions C20_table_covers.
Print Assumptions C20_conv_refuted_truncates.
Print Assumptions C20_conv_refuted_sign.
Print Assumptions C20_conv_refuted_bignum.
Print Assumptions C20_into_refuted.
Print Assumptions C20_option_none_false.
Print Assumptions C20_opt_roundtrip.
Print Assumptions C20_opt_refuted_falsy_payload.
Print Assumptions C20_opt_refuted_none_true.
Print Assumptions C20_wrapper_sound.
Print Assumptions C20_wrapper_arity.
Print Assumptions C20_self_wrapper_sound.
Print Assumptions C20_wrapper_tables_ok.
Print Assumptions C20_wrapper_refuted.
Print Assumptions C20_int_param_sound.
Print Assumptions C20_lend_scoped.
Print Assumptions C20_lend_scoped_outside.
Print Assumptions C20_lend_nonvacuous.
