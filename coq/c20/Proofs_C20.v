(* C20 — lemmas.  Property theorems (Properties_C20.v) are closed by [exact] from these. *)
From Coq Require Import ZArith List Bool String Lia.
From SV Require Import c20.Types_C20 gen.Gen_C20 c20.Model_C20.
Import ListNotations.
Open Scope Z_scope.

(* ------------------------------------------------------------------ wrap *)
Lemma wrap64_id : forall z, isize_min <= z <= isize_max -> wrap true 64 z = z.
Proof.
  intros z H. unfold isize_min, isize_max in H. unfold wrap.
  change (2 ^ 64) with 18446744073709551616. change (2 ^ (64 - 1)) with 9223372036854775808.
  destruct (Z_lt_dec z 0) as [Hn | Hn].
  - assert (E : z mod 18446744073709551616 = z + 18446744073709551616).
    { symmetry. apply Z.mod_unique with (q := -1); lia. }
    rewrite E. cbn [andb].
    destruct (Z.leb_spec 9223372036854775808 (z + 18446744073709551616)); lia.
  - rewrite Z.mod_small by lia. cbn [andb].
    destruct (Z.leb_spec 9223372036854775808 z); lia.
Qed.

Lemma fits_isize_iff : forall z, fits_isize z = true <-> isize_min <= z <= isize_max.
Proof.
  intros z. unfold fits_isize. rewrite andb_true_iff, !Z.leb_le. tauto.
Qed.

Lemma in_range_iff : forall t z, in_range t z = true <-> lo t <= z <= hi t.
Proof.
  intros t z. unfold in_range. rewrite andb_true_iff, !Z.leb_le. tauto.
Qed.

(* ------------------------------------------------------------------ host -> script *)
Lemma into_exact : forall t m x, into_ok t m = true -> in_range t x = true ->
  wf_sint (into_script m x) /\ sint_val (into_script m x) = x.
Proof.
  intros t m x Hok Hr. destruct m; cbn [into_script].
  - (* IntoAs *)
    cbn [into_ok] in Hok. apply andb_true_iff in Hok. destruct Hok as [H1 H2].
    apply Z.leb_le in H1. apply Z.leb_le in H2. apply in_range_iff in Hr.
    assert (Hx : isize_min <= x <= isize_max) by lia.
    rewrite (wrap64_id x Hx). cbn [wf_sint sint_val]. split; [apply fits_isize_iff; exact Hx | reflexivity].
  - (* IntoPromote *)
    destruct (fits_isize x) eqn:E; cbn [wf_sint sint_val]; auto.
Qed.

(* ------------------------------------------------------------------ script -> host *)
Lemma from_range : forall t m v, from_ok t m = true -> wf_sint v ->
  (in_range t (sint_val v) = true -> from_script t m v = COk (sint_val v)) /\
  (forall z, from_script t m v = COk z -> z = sint_val v /\ in_range t z = true).
Proof.
  intros t m v Hok Hwf. destruct m.
  - (* FromAs: only the type that is exactly the fixnum type *)
    cbn [from_ok] in Hok. apply andb_true_iff in Hok. destruct Hok as [Hs Hb]. apply Z.eqb_eq in Hb.
    assert (Hlo : lo t = isize_min) by (unfold lo; rewrite Hs, Hb; reflexivity).
    assert (Hhi : hi t = isize_max) by (unfold hi; rewrite Hs, Hb; reflexivity).
    destruct v as [z | z]; cbn [from_script sint_val wf_sint] in *.
    + apply fits_isize_iff in Hwf. rewrite Hs, Hb, (wrap64_id z Hwf). split.
      * reflexivity.
      * intros z' E. inversion E; subst z'. split; [reflexivity |]. apply in_range_iff. lia.
    + split.
      * intros Hr. apply in_range_iff in Hr. rewrite Hlo, Hhi in Hr.
        apply fits_isize_iff in Hr. congruence.
      * intros z' E. discriminate E.
  - (* FromChecked: fixnum arm only; exact iff the type's range lies inside the fixnum range *)
    cbn [from_ok] in Hok. apply andb_true_iff in Hok. destruct Hok as [H1 H2].
    apply Z.leb_le in H1. apply Z.leb_le in H2.
    destruct v as [z | z]; cbn [from_script sint_val wf_sint] in *.
    + destruct (in_range t z) eqn:E;
        (split; [ first [ intros _; reflexivity | intros Hc; discriminate Hc ]
                | intros z' E'; first [ discriminate E' | inversion E'; subst z'; auto ] ]).
    + split.
      * intros Hr. apply in_range_iff in Hr.
        assert (Hf : fits_isize z = true) by (apply fits_isize_iff; lia). congruence.
      * intros z' E'. discriminate E'.
  - (* FromCheckedBig *)
    destruct v as [z | z]; cbn [from_script sint_val] in *;
      (destruct (in_range t z) eqn:E;
       (split; [ first [ intros _; reflexivity | intros Hc; discriminate Hc ]
               | intros z' E'; first [ discriminate E' | inversion E'; subst z'; auto ] ])).
Qed.

(* ------------------------------------------------------------------ the generated table *)
Lemma table_ok : forallb row_ok conv_table = true.
Proof. vm_compute. reflexivity. Qed.

Lemma row_of_table : forall t, In t conv_table -> row_ok t = true.
Proof. intros t H. exact (proj1 (forallb_forall row_ok conv_table) table_ok t H). Qed.

Lemma row_from_ok : forall t m, row_ok t = true -> ty_from t = Some m -> from_ok t m = true.
Proof.
  intros t m H E. unfold row_ok in H. rewrite E in H.
  apply andb_true_iff in H. destruct H as [_ H]. exact H.
Qed.

Lemma row_into_ok : forall t m, row_ok t = true -> ty_into t = Some m -> into_ok t m = true.
Proof.
  intros t m H E. unfold row_ok in H. rewrite E in H.
  apply andb_true_iff in H. destruct H as [H _]. apply andb_true_iff in H. destruct H as [_ H]. exact H.
Qed.

Lemma conv_range : forall t m, In t conv_table -> ty_from t = Some m ->
  forall v, wf_sint v ->
    (in_range t (sint_val v) = true -> from_script t m v = COk (sint_val v)) /\
    (forall z, from_script t m v = COk z -> z = sint_val v /\ in_range t z = true).
Proof.
  intros t m Hin Hm v Hwf. apply from_range; [| exact Hwf].
  apply row_from_ok; [apply row_of_table; exact Hin | exact Hm].
Qed.

Lemma conv_into_exact : forall t mi, In t conv_table -> ty_into t = Some mi ->
  forall x, in_range t x = true ->
    wf_sint (into_script mi x) /\ sint_val (into_script mi x) = x.
Proof.
  intros t mi Hin Hm x Hr. apply (into_exact t); [| exact Hr].
  apply row_into_ok; [apply row_of_table; exact Hin | exact Hm].
Qed.

Lemma conv_roundtrip : forall t mi mf, In t conv_table -> ty_into t = Some mi -> ty_from t = Some mf ->
  forall x, in_range t x = true -> from_script t mf (into_script mi x) = COk x.
Proof.
  intros t mi mf Hin Hi Hf x Hr.
  destruct (conv_into_exact t mi Hin Hi x Hr) as [Hwf Hv].
  destruct (conv_range t mf Hin Hf (into_script mi x) Hwf) as [H _].
  rewrite Hv in H. exact (H Hr).
Qed.

Definition covered_names : list string :=
  ["i8"; "i16"; "i32"; "i64"; "isize"; "u8"; "u16"; "u32"; "u64"; "usize"]%string.

Lemma table_covers : forall n, In n covered_names ->
  exists t, find_ty conv_table n = Some t /\ In t conv_table /\ ty_name t = n /\
            ty_into t <> None /\ ty_from t <> None.
Proof.
  intros n H. unfold covered_names in H. cbn [In] in H.
  repeat (destruct H as [H | H];
          [ subst n; eexists; split; [vm_compute; reflexivity |];
            split; [vm_compute; tauto |]; split; [reflexivity |]; split; discriminate | ]).
  contradiction.
Qed.

(* ------------------------------------------------------------------ refutations on the old table *)
Lemma conv_refuted_truncates : exists t m v z,
  In t old_conv_table /\ ty_from t = Some m /\ wf_sint v /\
  from_script t m v = COk z /\ z <> sint_val v.
Proof.
  exists (mk_ity "i32" true 32 (Some IntoAs) (Some FromAs)), FromAs, (SInt 4294967296), 0.
  repeat split; try (vm_compute; tauto); try reflexivity. vm_compute. discriminate.
Qed.

Lemma conv_refuted_sign : exists t m v z,
  In t old_conv_table /\ ty_from t = Some m /\ wf_sint v /\
  from_script t m v = COk z /\ in_range t (sint_val v) = false /\ z = 18446744073709551615.
Proof.
  exists (mk_ity "u64" false 64 (Some IntoAs) (Some FromAs)), FromAs, (SInt (-1)), 18446744073709551615.
  repeat split; try (vm_compute; tauto); reflexivity.
Qed.

Lemma conv_refuted_bignum : exists t m v,
  In t old_conv_table /\ ty_from t = Some m /\ wf_sint v /\
  in_range t (sint_val v) = true /\ from_script t m v = CErr.
Proof.
  exists (mk_ity "u64" false 64 (Some IntoAs) (Some FromAs)), FromAs, (SBig 9223372036854775808).
  repeat split; try (vm_compute; tauto); reflexivity.
Qed.

Lemma into_refuted : exists t m x,
  In t old_conv_table /\ ty_into t = Some m /\ in_range t x = true /\
  into_script m x = SInt (-1) /\ x = 18446744073709551615.
Proof.
  exists (mk_ity "u64" false 64 (Some IntoAs) (Some FromAs)), IntoAs, 18446744073709551615.
  repeat split; try (vm_compute; tauto); reflexivity.
Qed.

(* ------------------------------------------------------------------ Option *)
Lemma option_none_false : option_none_into = false /\ option_none_from = false.
Proof. split; reflexivity. Qed.

Lemma opt_roundtrip : forall enc, enc = false ->
  from_opt (into_opt enc None) = None /\
  forall v, v <> VBool false -> from_opt (into_opt enc (Some v)) = Some v.
Proof.
  intros enc ->. split; [reflexivity |].
  intros v Hv. cbn [into_opt]. unfold from_opt.
  destruct v as [s | [|] | n]; cbn [truthy]; try reflexivity. congruence.
Qed.

Lemma opt_refuted_falsy_payload : forall enc,
  from_opt (into_opt enc (Some (VBool false))) = None.
Proof. intros enc. reflexivity. Qed.

Lemma opt_refuted_none_true : from_opt (into_opt true None) = Some (VBool true).
Proof. reflexivity. Qed.

(* ------------------------------------------------------------------ wrappers *)
Section WrapperProofs.
  Variable A H : Type.

  (* parameter j (declaration order) was obtained by converting argument slot off+j with the j-th
     declared parameter type *)
  Definition conv_at (sig : list (A -> option H)) (off : nat) (args : list A) (hs : list H) : Prop :=
    List.length hs = List.length sig /\
    forall j p, nth_error sig j = Some p ->
      exists a h, nth_error args (off + j) = Some a /\ nth_error hs j = Some h /\ p a = Some h.

  Lemma read_params_seq : forall sig off args hs,
    read_params sig (seq off (List.length sig)) args = Call hs -> conv_at sig off args hs.
  Proof.
    induction sig as [| p sig IH]; intros off args hs E.
    - cbn in E. inversion E; subst hs. split; [reflexivity |].
      intros j p Hj. destruct j; discriminate Hj.
    - cbn [List.length seq read_params] in E.
      destruct (nth_error args off) as [a |] eqn:Ea; [| discriminate E].
      destruct (p a) as [h |] eqn:Ep; [| discriminate E].
      destruct (read_params sig (seq (S off) (List.length sig)) args) as [hs' | | |] eqn:Er;
        try discriminate E.
      inversion E; subst hs. destruct (IH (S off) args hs' Er) as [Hl Hc].
      split; [cbn [List.length]; congruence |].
      intros j q Hj. destruct j as [| j].
      + cbn in Hj. inversion Hj; subst q. exists a, h.
        rewrite Nat.add_0_r. cbn [nth_error]. auto.
      + cbn [nth_error] in Hj. destruct (Hc j q Hj) as [a' [h' [H1 [H2 H3]]]].
        exists a', h'. rewrite Nat.add_succ_r. cbn [nth_error]. cbn [Nat.add] in H1. auto.
  Qed.

  Lemma nat_list_eqb_eq : forall a b, nat_list_eqb a b = true -> a = b.
  Proof.
    induction a as [| x a IH]; destruct b as [| y b]; cbn; intros E; try discriminate; auto.
    apply andb_true_iff in E. destruct E as [E1 E2]. apply Nat.eqb_eq in E1. f_equal; auto.
  Qed.

  Lemma wrapper_sound_row : forall row sig args hs, wrow_ok row = true ->
    List.length sig = fst row -> wrapper row sig args = Call hs ->
    List.length args = fst row /\ conv_at sig 0 args hs.
  Proof.
    intros [k idx] sig args hs Hrow Hsig E. unfold wrow_ok in Hrow. cbn [fst snd] in *.
    apply nat_list_eqb_eq in Hrow. subst idx. unfold wrapper in E. cbn [fst snd] in E.
    destruct (Nat.eqb (List.length args) k) eqn:Ek; [| discriminate E].
    apply Nat.eqb_eq in Ek. split; [exact Ek |].
    rewrite <- Hsig in E. apply read_params_seq. exact E.
  Qed.

  Lemma wrapper_arity_row : forall row (sig : list (A -> option H)) (args : list A),
    List.length args <> fst row -> wrapper row sig args = ErrArity.
  Proof.
    intros row sig args Hne. unfold wrapper.
    destruct (Nat.eqb (List.length args) (fst row)) eqn:E; [| reflexivity].
    apply Nat.eqb_eq in E. contradiction.
  Qed.

  Lemma self_wrapper_sound_row : forall row recv sig args hs, self_wrow_ok row = true ->
    S (List.length sig) = fst row -> self_wrapper row recv sig args = Call hs ->
    List.length args = fst row /\
    exists a0 h0 hs', nth_error args 0 = Some a0 /\ recv a0 = Some h0 /\ hs = h0 :: hs' /\
                      conv_at sig 1 args hs'.
  Proof.
    intros [k idx] recv sig args hs Hrow Hsig E. unfold self_wrow_ok in Hrow. cbn [fst snd] in *.
    subst k. apply nat_list_eqb_eq in Hrow. subst idx. unfold self_wrapper in E. cbn [fst snd] in E.
    destruct (Nat.eqb (List.length args) (S (List.length sig))) eqn:Ek; [| discriminate E].
    apply Nat.eqb_eq in Ek. split; [exact Ek |].
    destruct (nth_error args 0) as [a0 |] eqn:Ea; [| discriminate E].
    destruct (recv a0) as [h0 |] eqn:Eh; [| discriminate E].
    destruct (read_params sig (seq 1 (List.length sig)) args) as [hs' | | |] eqn:Er; try discriminate E.
    inversion E; subst hs. exists a0, h0, hs'. repeat split; auto.
    - apply (proj1 (read_params_seq sig 1 args hs' Er)).
    - apply (proj2 (read_params_seq sig 1 args hs' Er)).
  Qed.
End WrapperProofs.

Lemma wrapper_tables_ok :
  forallb wrow_ok wrapper_table = true /\ forallb self_wrow_ok self_wrapper_table = true /\
  wrapper_shapes_ok = true.
Proof. repeat split; vm_compute; reflexivity. Qed.

Lemma wrapper_sound : forall (A H : Type) row (sig : list (A -> option H)) args hs,
  In row wrapper_table -> List.length sig = fst row -> wrapper row sig args = Call hs ->
  List.length args = fst row /\ conv_at A H sig 0 args hs.
Proof.
  intros A H row sig args hs Hin. apply wrapper_sound_row.
  exact (proj1 (forallb_forall wrow_ok wrapper_table) (proj1 wrapper_tables_ok) row Hin).
Qed.

Lemma wrapper_arity : forall (A H : Type) row (sig : list (A -> option H)) args,
  List.length args <> fst row -> wrapper row sig args = ErrArity.
Proof. intros A H. apply wrapper_arity_row. Qed.

Lemma self_wrapper_sound : forall (A H : Type) row recv (sig : list (A -> option H)) args hs,
  In row self_wrapper_table -> S (List.length sig) = fst row -> self_wrapper row recv sig args = Call hs ->
  List.length args = fst row /\
  exists a0 h0 hs', nth_error args 0 = Some a0 /\ recv a0 = Some h0 /\ hs = h0 :: hs' /\
                    conv_at A H sig 1 args hs'.
Proof.
  intros A H row recv sig args hs Hin. apply self_wrapper_sound_row.
  exact (proj1 (forallb_forall self_wrow_ok self_wrapper_table) (proj1 (proj2 wrapper_tables_ok)) row Hin).
Qed.

(* the old 16-ary row hands parameter 13 the value of slot 14 *)
Lemma wrapper_refuted :
  wrapper (16%nat, [0;1;2;3;4;5;6;7;8;9;10;11;12;14;14;15]%nat) (repeat (fun z : Z => Some z) 16)
          [0;1;2;3;4;5;6;7;8;9;10;11;12;13;14;15] = Call [0;1;2;3;4;5;6;7;8;9;10;11;12;14;14;15].
Proof. vm_compute. reflexivity. Qed.

(* an integer parameter of a declared type receives the script's mathematical integer, in range *)
Lemma int_param_sound : forall t m v z, In t conv_table -> ty_from t = Some m ->
  int_param t m v = Some z ->
  exists s, v = VInt s /\ (wf_sint s -> z = sint_val s /\ in_range t z = true).
Proof.
  intros t m v z Hin Hm E. destruct v as [s | b | n]; cbn [int_param] in E; try discriminate E.
  exists s. split; [reflexivity |]. intros Hwf.
  destruct (from_script t m s) as [z' |] eqn:Ef; [| discriminate E]. inversion E; subst z'.
  exact (proj2 (conv_range t m Hin Hm s Hwf) z Ef).
Qed.

(* ------------------------------------------------------------------ lending *)
Definition entry_ok (e : option ident * option ident * bool) : Prop :=
  snd e = true -> exists id, fst (fst e) = Some id /\ snd (fst e) = Some id.

(* between the operations of one evaluation *)
Definition inv_op (st : lstate) : Prop :=
  match current st with None => memory st = [] | Some id => memory st = [id] end /\
  Forall entry_ok (log st).

Lemma step_inv : forall st o, inv_op st -> inv_op (step st o) /\ current (step st o) = current st.
Proof.
  intros st o [Hm Hl]. destruct o; cbn [step current memory log]; try (split; [split; assumption | reflexivity]).
  split; [| reflexivity]. split; [exact Hm |].
  constructor; [| exact Hl].
  unfold entry_ok. cbn [fst snd]. intros Hok.
  destruct (lookup s (slots st)) as [i |] eqn:El; [| discriminate Hok].
  unfold upgrade_ok, use_upgrades in Hok.
  destruct (current st) as [id |].
  - rewrite Hm in Hok. cbn [existsb] in Hok. rewrite orb_false_r in Hok.
    apply Nat.eqb_eq in Hok. subst i. exists id. auto.
  - rewrite Hm in Hok. cbn [existsb] in Hok. discriminate Hok.
Qed.

Lemma run_ops_inv : forall ops st, inv_op st ->
  inv_op (run_ops st ops) /\ current (run_ops st ops) = current st.
Proof.
  induction ops as [| o ops IH]; intros st Hi.
  - split; [exact Hi | reflexivity].
  - unfold run_ops. cbn [fold_left]. destruct (step_inv st o Hi) as [Hi' Hc].
    destruct (IH (step st o) Hi') as [H1 H2]. unfold run_ops in H1, H2. split; [exact H1 | congruence].
Qed.

(* between evaluations: no lending in progress and no strong owner left *)
Definition inv_out (st : lstate) : Prop :=
  current st = None /\ memory st = [] /\ Forall entry_ok (log st).

Lemma run_event_inv : forall st e, inv_out st -> inv_out (run_event st e).
Proof.
  intros st e [Hc [Hm Hl]]. destruct e as [ops | ops]; cbn [run_event].
  - remember (mk_lstate (next st :: memory st) (S (next st))
                        (bind_slot 0 (Some (next st)) (slots st)) (Some (next st)) (log st)) as st1 eqn:E1.
    assert (Hi : inv_op st1).
    { subst st1. unfold inv_op. cbn [current memory log]. rewrite Hm. split; [reflexivity | exact Hl]. }
    assert (Hcur : current st1 = Some (next st)) by (subst st1; reflexivity).
    destruct (run_ops_inv ops st1 Hi) as [[Hm2 Hl2] Hc2].
    rewrite Hc2, Hcur in Hm2.
    unfold inv_out. cbn [current memory log]. split; [reflexivity |]. split; [| exact Hl2].
    unfold lend_frees, guard_drop_frees, consume_by_value, free_n_pops_memory, run_uses_guard.
    cbn [andb]. rewrite Hm2. reflexivity.
  - assert (Hi : inv_op st).
    { unfold inv_op. rewrite Hc. split; assumption. }
    destruct (run_ops_inv ops st Hi) as [[Hm2 Hl2] Hc2].
    unfold inv_out. rewrite Hc2, Hc. rewrite Hc2, Hc in Hm2. auto.
Qed.

Lemma run_history_inv : forall h st, inv_out st -> inv_out (fold_left run_event h st).
Proof.
  induction h as [| e h IH]; intros st Hi; cbn [fold_left]; [exact Hi |].
  apply IH. apply run_event_inv. exact Hi.
Qed.

Lemma lend_scoped : forall h e, In e (log (run_history h)) -> snd e = true ->
  exists id, fst (fst e) = Some id /\ snd (fst e) = Some id.
Proof.
  intros h e Hin. unfold run_history.
  assert (Hi : inv_out init) by (unfold inv_out, init; cbn; auto).
  destruct (run_history_inv h init Hi) as [_ [_ Hl]].
  exact (proj1 (Forall_forall entry_ok _) Hl e Hin).
Qed.

(* the same statement read as the property: a use outside every lending call fails, and a use inside
   a lending call succeeds only through the handle that call created *)
Lemma lend_scoped_outside : forall h cur hd ok, In (cur, hd, ok) (log (run_history h)) ->
  cur = None -> ok = false.
Proof.
  intros h cur hd ok Hin Hc. destruct ok; [| reflexivity].
  destruct (lend_scoped h (cur, hd, true) Hin eq_refl) as [id [H1 _]]. cbn in H1. congruence.
Qed.

(* non-vacuity: uses do succeed during the call, and the very same handle fails afterwards *)
Lemma lend_nonvacuous :
  log (run_history [ELend [Use 0; Stash 5; Use 5]; EScript [Use 5; Copy 5 6; Use 6];
                    ELend [Use 5; Use 0]]) =
  [(Some 1%nat, Some 1%nat, true); (Some 1%nat, Some 0%nat, false);
   (None, Some 0%nat, false); (None, Some 0%nat, false);
   (Some 0%nat, Some 0%nat, true); (Some 0%nat, Some 0%nat, true)].
Proof. vm_compute. reflexivity. Qed.
