(* CoreS — the assignment layer of the core fragment (C01_simulation_set).

   Three things live here:
   1. [sexpr] + [seval]: the REFERENCE reading of the core language with assignment: every variable
      denotes a location of a store, [set!] (on locals and globals) writes the location and returns the
      OLD value (Steel, DESIGN.md Appendix E), closures capture the environment of locations.
   2. [bexpr] + [beval]: the language after assignment conversion, the way the engine does it
      (the expanded AST printed by astdump): a local that is assigned is rebound to a box
      `(%plain-let ((x (#%box x))) ...)`, reads become `(#%unbox x)`, assignments `(#%set-box! x e)`;
      #%box / #%unbox / #%set-box! are ordinary primitive procedures bound as globals.  After the
      conversion local variables are immutable (closures may copy them: flat closures), the only mutable
      things are boxes (a store) and globals.  [set!] on a global stays ([BSetG]).
   3. [assign_convert : sexpr -> bexpr] (the boxing pass; it boxes EVERY assigned local — the engine leaves
      some assigned-but-never-captured locals on the stack and uses SETLOCAL for them, a refinement that is
      not modelled here).
   The simulation theorem of coq/c01/Proofs_C01_set.v is between [beval] and the VM of lib/BytecodeS.v;
   the agreement of [seval] with [beval o assign_convert] is NOT proved (tied by the differential check). *)
From Coq Require Import ZArith List Bool String Lia.
From SV Require Import lib.Lang lib.Core.
Import ListNotations.
Open Scope list_scope.

(* ================================================================== 1. reference semantics *)
Inductive sexpr :=
| SConst (c : cconst)
| SVar (x : ident)
| SLam (ps : list ident) (rest : option ident) (body : sexpr)
| SApp (f : sexpr) (args : list sexpr)
| SIf (c t e : sexpr)
| SLet (bs : list (ident * sexpr)) (body : sexpr)
| SSeq (e1 e2 : sexpr)
| SSet (x : ident) (e : sexpr).

Inductive sval :=
| SVInt (z : Z) | SVBool (b : bool) | SVVoid
| SVPrim (p : cprim)
| SVClo (ps : list ident) (rest : option ident) (body : sexpr) (env : list (ident * nat))
| SVList (l : list sval).

Definition senv := list (ident * nat).
Record sstate := mkS { s_store : list sval; s_glob : list (ident * sval) }.

Inductive sresult := SVal (v : sval) (st : sstate) | SErr (k : errk).

Definition sval_atom (v : sval) : atom :=
  match v with SVInt z => AInt z | SVBool b => ABool b | _ => AOther end.
Definition atom_sval (a : atom) : sval :=
  match a with AInt z => SVInt z | ABool b => SVBool b | AOther => SVVoid end.
Definition sconst (c : cconst) : sval :=
  match c with KInt z => SVInt z | KBool b => SVBool b | KVoid => SVVoid end.

(* allocate the values one after the other; returns the extended environment and store *)
Fixpoint salloc (xs : list ident) (vs : list sval) (r : senv) (st : list sval) : senv * list sval :=
  match xs, vs with
  | x :: xs', v :: vs' => salloc xs' vs' ((x, List.length st) :: r) (st ++ [v])
  | _, _ => (r, st)
  end.

Fixpoint supdate (n : nat) (v : sval) (l : list sval) : list sval :=
  match l, n with
  | [], _ => []
  | _ :: r, O => v :: r
  | x :: r, S n' => x :: supdate n' v r
  end.

Definition scall_args (ps : list ident) (rest : option ident) (vs : list sval) : option (list ident * list sval) :=
  match rest with
  | None => if Nat.eqb (List.length ps) (List.length vs) then Some (ps, vs) else None
  | Some r => if Nat.leb (List.length ps) (List.length vs)
              then Some (ps ++ [r], firstn (List.length ps) vs ++ [SVList (skipn (List.length ps) vs)])
              else None
  end.

Fixpoint sevals (ev : sexpr -> sstate -> option sresult) (es : list sexpr) (st : sstate)
  : option (list sval * sstate + errk) :=
  match es with
  | [] => Some (inl ([], st))
  | e :: r =>
    match ev e st with
    | None => None
    | Some (SErr k) => Some (inr k)
    | Some (SVal v st1) =>
      match sevals ev r st1 with
      | None => None
      | Some (inr k) => Some (inr k)
      | Some (inl (vs, st2)) => Some (inl (v :: vs, st2))
      end
    end
  end.

Fixpoint seval (n : nat) (r : senv) (e : sexpr) (st : sstate) {struct n} : option sresult :=
  match n with
  | O => None
  | S n =>
    match e with
    | SConst c => Some (SVal (sconst c) st)
    | SVar x =>
        match Core.lookup x r with
        | Some l => match nth_error (s_store st) l with
                    | Some v => Some (SVal v st)
                    | None => Some (SErr EFree)
                    end
        | None => match Core.lookup x (s_glob st) with
                  | Some v => Some (SVal v st)
                  | None => Some (SErr EFree)
                  end
        end
    | SLam ps rest body => Some (SVal (SVClo ps rest body r) st)
    | SApp f args =>
        match sevals (seval n r) args st with
        | None => None
        | Some (inr k) => Some (SErr k)
        | Some (inl (vs, st1)) =>
          match seval n r f st1 with
          | None => None
          | Some (SErr k) => Some (SErr k)
          | Some (SVal fv st2) =>
            match fv with
            | SVClo ps rest body r' =>
                match scall_args ps rest vs with
                | Some (xs, ws) =>
                    let '(r'', store') := salloc xs ws r' (s_store st2) in
                    seval n r'' body (mkS store' (s_glob st2))
                | None => Some (SErr EArity)
                end
            | SVPrim p => match prim_sem p (map sval_atom vs) with
                          | inl a => Some (SVal (atom_sval a) st2)
                          | inr k => Some (SErr k)
                          end
            | _ => Some (SErr ENotProc)
            end
          end
        end
    | SIf c t e' =>
        match seval n r c st with
        | None => None
        | Some (SErr k) => Some (SErr k)
        | Some (SVal v st1) => if atom_truthy (sval_atom v) then seval n r t st1 else seval n r e' st1
        end
    | SLet bs body =>
        match sevals (seval n r) (map snd bs) st with
        | None => None
        | Some (inr k) => Some (SErr k)
        | Some (inl (vs, st1)) =>
            let '(r', store') := salloc (map fst bs) vs r (s_store st1) in
            seval n r' body (mkS store' (s_glob st1))
        end
    | SSeq e1 e2 =>
        match seval n r e1 st with
        | None => None
        | Some (SErr k) => Some (SErr k)
        | Some (SVal _ st1) => seval n r e2 st1
        end
    | SSet x e' =>
        match seval n r e' st with
        | None => None
        | Some (SErr k) => Some (SErr k)
        | Some (SVal v st1) =>
          match Core.lookup x r with
          | Some l => match nth_error (s_store st1) l with
                      | Some old => Some (SVal old (mkS (supdate l v (s_store st1)) (s_glob st1)))
                      | None => Some (SErr EFree)
                      end
          | None => match Core.lookup x (s_glob st1) with
                    | Some old => Some (SVal old (mkS (s_store st1) ((x, v) :: s_glob st1)))
                    | None => Some (SErr EFree)
                    end
          end
        end
    end
  end.

Definition sprim_globals : list (ident * sval) := map (fun p => (fst p, SVPrim (snd p))) prim_table.

Fixpoint srun_defs (n : nat) (st : sstate) (ds : list (ident * sexpr)) : option (sstate + errk) :=
  match ds with
  | [] => Some (inl st)
  | (x, e) :: r =>
    match seval n [] e st with
    | None => None
    | Some (SErr k) => Some (inr k)
    | Some (SVal v st1) => srun_defs n (mkS (s_store st1) ((x, v) :: s_glob st1)) r
    end
  end.

Definition srun_program (n : nat) (ds : list (ident * sexpr)) (main : sexpr) : option sresult :=
  match srun_defs n (mkS [] sprim_globals) ds with
  | None => None
  | Some (inr k) => Some (SErr k)
  | Some (inl st) => seval n [] main st
  end.

Open Scope string_scope.
Fixpoint canon_sval (v : sval) : string :=
  match v with
  | SVVoid => "#<void>"
  | SVList l => "(" ++ Lang.join " " (map canon_sval l) ++ ")"
  | SVPrim _ | SVClo _ _ _ _ => "#<procedure>"
  | _ => canon_atom (sval_atom v) "?"
  end.

Definition render_sresult (r : option sresult) : string :=
  match r with
  | None => "FUEL"
  | Some (SVal v _) => "OK " ++ canon_sval v
  | Some (SErr k) => "ERR " ++ errk_name k
  end.
Close Scope string_scope.

(* ================================================================== 2. after assignment conversion *)
Inductive bprim := BP (p : cprim) | BBoxNew | BUnbox | BSetBox.

Inductive bexpr :=
| BConst (c : cconst)
| BVar (x : ident)
| BLam (ps : list ident) (rest : option ident) (body : bexpr)
| BApp (f : bexpr) (args : list bexpr)
| BIf (c t e : bexpr)
| BLet (bs : list (ident * bexpr)) (body : bexpr)
| BSeq (e1 e2 : bexpr)
| BSetG (g : ident) (e : bexpr).                       (* set! on a GLOBAL *)

Inductive bval :=
| BVInt (z : Z) | BVBool (b : bool) | BVVoid
| BVPrim (p : bprim)
| BVClo (ps : list ident) (rest : option ident) (body : bexpr) (env : list (ident * bval))
| BVList (l : list bval)
| BVBox (a : nat).

Definition benv := list (ident * bval).
Record bstate := mkB { b_store : list bval; b_glob : list (ident * bval) }.
Inductive bresult := BVal (v : bval) (st : bstate) | BErr (k : errk).

Definition bval_atom (v : bval) : atom :=
  match v with BVInt z => AInt z | BVBool b => ABool b | _ => AOther end.
Definition atom_bval (a : atom) : bval :=
  match a with AInt z => BVInt z | ABool b => BVBool b | AOther => BVVoid end.
Definition bconst (c : cconst) : bval :=
  match c with KInt z => BVInt z | KBool b => BVBool b | KVoid => BVVoid end.

Fixpoint bupdate (n : nat) (v : bval) (l : list bval) : list bval :=
  match l, n with
  | [], _ => []
  | _ :: r, O => v :: r
  | x :: r, S n' => x :: bupdate n' v r
  end.

Definition bcall_args (ps : list ident) (rest : option ident) (vs : list bval) : option (list ident * list bval) :=
  match rest with
  | None => if Nat.eqb (List.length ps) (List.length vs) then Some (ps, vs) else None
  | Some r => if Nat.leb (List.length ps) (List.length vs)
              then Some (ps ++ [r], firstn (List.length ps) vs ++ [BVList (skipn (List.length ps) vs)])
              else None
  end.

(* primitives: the pure ones through atoms; the box primitives on the store (set-box! returns the OLD
   content, as set! does) *)
Definition bprim_apply (p : bprim) (vs : list bval) (st : bstate) : bresult :=
  match p with
  | BP q => match prim_sem q (map bval_atom vs) with
            | inl a => BVal (atom_bval a) st
            | inr k => BErr k
            end
  | BBoxNew => match vs with
               | [v] => BVal (BVBox (List.length (b_store st))) (mkB (b_store st ++ [v]) (b_glob st))
               | _ => BErr EArity
               end
  | BUnbox => match vs with
              | [BVBox a] => match nth_error (b_store st) a with
                             | Some v => BVal v st
                             | None => BErr EType
                             end
              | [_] => BErr EType
              | _ => BErr EArity
              end
  | BSetBox => match vs with
               | [BVBox a; v] => match nth_error (b_store st) a with
                                 | Some old => BVal old (mkB (bupdate a v (b_store st)) (b_glob st))
                                 | None => BErr EType
                                 end
               | [_; _] => BErr EType
               | _ => BErr EArity
               end
  end.

Fixpoint bevals (ev : bexpr -> bstate -> option bresult) (es : list bexpr) (st : bstate)
  : option (list bval * bstate + errk) :=
  match es with
  | [] => Some (inl ([], st))
  | e :: r =>
    match ev e st with
    | None => None
    | Some (BErr k) => Some (inr k)
    | Some (BVal v st1) =>
      match bevals ev r st1 with
      | None => None
      | Some (inr k) => Some (inr k)
      | Some (inl (vs, st2)) => Some (inl (v :: vs, st2))
      end
    end
  end.

Fixpoint beval (n : nat) (r : benv) (e : bexpr) (st : bstate) {struct n} : option bresult :=
  match n with
  | O => None
  | S n =>
    match e with
    | BConst c => Some (BVal (bconst c) st)
    | BVar x =>
        match Core.lookup x r with
        | Some v => Some (BVal v st)
        | None => match Core.lookup x (b_glob st) with
                  | Some v => Some (BVal v st)
                  | None => Some (BErr EFree)
                  end
        end
    | BLam ps rest body => Some (BVal (BVClo ps rest body r) st)
    | BApp f args =>
        match bevals (beval n r) args st with
        | None => None
        | Some (inr k) => Some (BErr k)
        | Some (inl (vs, st1)) =>
          match beval n r f st1 with
          | None => None
          | Some (BErr k) => Some (BErr k)
          | Some (BVal fv st2) =>
            match fv with
            | BVClo ps rest body r' =>
                match bcall_args ps rest vs with
                | Some (xs, ws) => beval n (bind xs ws r') body st2
                | None => Some (BErr EArity)
                end
            | BVPrim p => Some (bprim_apply p vs st2)
            | _ => Some (BErr ENotProc)
            end
          end
        end
    | BIf c t e' =>
        match beval n r c st with
        | None => None
        | Some (BErr k) => Some (BErr k)
        | Some (BVal v st1) => if atom_truthy (bval_atom v) then beval n r t st1 else beval n r e' st1
        end
    | BLet bs body =>
        match bevals (beval n r) (map snd bs) st with
        | None => None
        | Some (inr k) => Some (BErr k)
        | Some (inl (vs, st1)) => beval n (bind (map fst bs) vs r) body st1
        end
    | BSeq e1 e2 =>
        match beval n r e1 st with
        | None => None
        | Some (BErr k) => Some (BErr k)
        | Some (BVal _ st1) => beval n r e2 st1
        end
    | BSetG g e' =>
        match beval n r e' st with
        | None => None
        | Some (BErr k) => Some (BErr k)
        | Some (BVal v st1) =>
          match Core.lookup g (b_glob st1) with
          | Some old => Some (BVal old (mkB (b_store st1) ((g, v) :: b_glob st1)))
          | None => Some (BErr EFree)
          end
        end
    end
  end.

Definition box_name : ident := "#%box"%string.
Definition unbox_name : ident := "#%unbox"%string.
Definition setbox_name : ident := "#%set-box!"%string.

Definition bprim_table : list (ident * bprim) :=
  map (fun p => (fst p, BP (snd p))) prim_table
  ++ [(box_name, BBoxNew); (unbox_name, BUnbox); (setbox_name, BSetBox)].

Definition bprim_globals : list (ident * bval) := map (fun p => (fst p, BVPrim (snd p))) bprim_table.

Fixpoint brun_defs (n : nat) (st : bstate) (ds : list (ident * bexpr)) : option (bstate + errk) :=
  match ds with
  | [] => Some (inl st)
  | (x, e) :: r =>
    match beval n [] e st with
    | None => None
    | Some (BErr k) => Some (inr k)
    | Some (BVal v st1) => brun_defs n (mkB (b_store st1) ((x, v) :: b_glob st1)) r
    end
  end.

Definition brun_program (n : nat) (ds : list (ident * bexpr)) (main : bexpr) : option bresult :=
  match brun_defs n (mkB [] bprim_globals) ds with
  | None => None
  | Some (inr k) => Some (BErr k)
  | Some (inl st) => beval n [] main st
  end.

Open Scope string_scope.
Fixpoint canon_bval (v : bval) : string :=
  match v with
  | BVVoid => "#<void>"
  | BVList l => "(" ++ Lang.join " " (map canon_bval l) ++ ")"
  | BVPrim _ | BVClo _ _ _ _ => "#<procedure>"
  | BVBox _ => "#<box>"
  | _ => canon_atom (bval_atom v) "?"
  end.

Definition render_bresult (r : option bresult) : string :=
  match r with
  | None => "FUEL"
  | Some (BVal v _) => "OK " ++ canon_bval v
  | Some (BErr k) => "ERR " ++ errk_name k
  end.
Close Scope string_scope.

(* ================================================================== 3. assignment conversion *)
(* x is the target of a set! somewhere in e (shadowing ignored: an over-approximation boxes more) *)
Fixpoint assigned (x : ident) (e : sexpr) : bool :=
  match e with
  | SConst _ | SVar _ => false
  | SLam _ _ body => assigned x body
  | SApp f args => (fix go (es : list sexpr) : bool :=
                      match es with [] => false | a :: r => assigned x a || go r end) args || assigned x f
  | SIf c t e' => assigned x c || assigned x t || assigned x e'
  | SLet bs body => (fix go (bs : list (ident * sexpr)) : bool :=
                       match bs with [] => false | (_, a) :: r => assigned x a || go r end) bs || assigned x body
  | SSeq e1 e2 => assigned x e1 || assigned x e2
  | SSet y e' => String.eqb x y || assigned x e'
  end.

Fixpoint memb_s (x : ident) (l : list ident) : bool :=
  match l with [] => false | y :: r => String.eqb x y || memb_s x r end.

Definition minus (l xs : list ident) : list ident := filter (fun y => negb (memb_s y xs)) l.

Definition box_of (e : bexpr) : bexpr := BApp (BVar box_name) [e].

(* rebinding of the assigned locals [mx] of a scope to boxes: (let ((x (#%box x)) ...) body) *)
Definition wrap_boxes (mx : list ident) (body : bexpr) : bexpr :=
  match mx with
  | [] => body
  | _ => BLet (map (fun x => (x, box_of (BVar x))) mx) body
  end.

(* [bx] = the boxed locals in scope.  Both binding forms evaluate their operands / bindings first and
   then rebind the assigned ones to boxes in an inner let (the engine boxes a let binding in place,
   `(%plain-let ((x (#%box e))) ..)`: same meaning, one scope less). *)
Fixpoint aconv (bx : list ident) (e : sexpr) : bexpr :=
  match e with
  | SConst c => BConst c
  | SVar x => if memb_s x bx then BApp (BVar unbox_name) [BVar x] else BVar x
  | SLam ps rest body =>
      let xs := params ps rest in
      let mx := filter (fun x => assigned x body) xs in
      BLam ps rest (wrap_boxes mx (aconv (mx ++ minus bx xs) body))
  | SApp f args => BApp (aconv bx f) ((fix go (es : list sexpr) : list bexpr :=
                                         match es with [] => [] | a :: r => aconv bx a :: go r end) args)
  | SIf c t e' => BIf (aconv bx c) (aconv bx t) (aconv bx e')
  | SLet bs body =>
      let xs := map fst bs in
      let mx := filter (fun x => assigned x body) xs in
      BLet ((fix go (bs : list (ident * sexpr)) : list (ident * bexpr) :=
               match bs with
               | [] => []
               | (x, a) :: r => (x, aconv bx a) :: go r
               end) bs)
           (wrap_boxes mx (aconv (mx ++ minus bx xs) body))
  | SSeq e1 e2 => BSeq (aconv bx e1) (aconv bx e2)
  | SSet x e' => if memb_s x bx then BApp (BVar setbox_name) [BVar x; aconv bx e'] else BSetG x (aconv bx e')
  end.

Definition assign_convert (e : sexpr) : bexpr := aconv [] e.

(* ================================================================== translation from the Lang.v syntax *)
(* accepted: everything Core.of_lang accepts, plus set!, letrec, named let and internal defines at the
   head of lambda / let bodies (letrec* meaning), all through let + set! the way the engine expands them *)
Definition s_void : sexpr := SConst KVoid.

Fixpoint sseq_of (es : list sexpr) : sexpr :=
  match es with
  | [] => s_void
  | [e] => e
  | e :: r => SSeq e (sseq_of r)
  end.

Fixpoint sand_of (es : list sexpr) : sexpr :=
  match es with
  | [] => SConst (KBool true)
  | [e] => e
  | e :: r => SIf e (sand_of r) (SConst (KBool false))
  end.

Fixpoint sor_of (es : list sexpr) : sexpr :=
  match es with
  | [] => SConst (KBool false)
  | [e] => e
  | e :: r => SLet [(or_tmp, e)] (SIf (SVar or_tmp) (SVar or_tmp) (sor_of r))
  end.

Fixpoint sletstar_of (bs : list (ident * sexpr)) (body : sexpr) : sexpr :=
  match bs with
  | [] => SLet [] body
  | b :: r => SLet [b] (sletstar_of r body)
  end.

Fixpoint scond_of (cls : list (sexpr * list sexpr)) (els : sexpr) : sexpr :=
  match cls with
  | [] => els
  | (c, []) :: r => SLet [(or_tmp, c)] (SIf (SVar or_tmp) (SVar or_tmp) (scond_of r els))
  | (c, b) :: r => SIf c (sseq_of b) (scond_of r els)
  end.

(* (letrec ((x e) ...) body) = (let ((x void) ...) (set! x e) ... body) *)
Definition sletrec_of (bs : list (ident * sexpr)) (body : sexpr) : sexpr :=
  SLet (map (fun b => (fst b, s_void)) bs)
       (fold_right (fun b acc => SSeq (SSet (fst b) (snd b)) acc) body bs).

(* a body whose forms may be (define x e): the defined names are bound first (letrec* ), each define
   assigns; the value of a define form is void *)
Inductive bform := FDef (x : ident) (e : sexpr) | FExp (e : sexpr).

Definition sbody_of (fs : list bform) : sexpr :=
  let defs := flat_map (fun f => match f with FDef x _ => [x] | FExp _ => [] end) fs in
  let es := map (fun f => match f with FDef x e => SSeq (SSet x e) s_void | FExp e => e end) fs in
  match defs with
  | [] => sseq_of es
  | _ => SLet (map (fun x => (x, s_void)) defs) (sseq_of es)
  end.

Fixpoint sof_lang (e : Lang.expr) : option sexpr :=
  let fix go_list (es : list Lang.expr) : option (list sexpr) :=
    match es with
    | [] => Some []
    | e :: r => match sof_lang e, go_list r with Some a, Some b => Some (a :: b) | _, _ => None end
    end in
  let fix go_body (es : list Lang.expr) : option (list bform) :=
    match es with
    | [] => Some []
    | Lang.Define x e :: r => match sof_lang e, go_body r with Some a, Some b => Some (FDef x a :: b) | _, _ => None end
    | e :: r => match sof_lang e, go_body r with Some a, Some b => Some (FExp a :: b) | _, _ => None end
    end in
  let fix go_binds (bs : list (Lang.ident * Lang.expr)) : option (list (ident * sexpr)) :=
    match bs with
    | [] => Some []
    | (x, e) :: r => match sof_lang e, go_binds r with Some a, Some b => Some ((x, a) :: b) | _, _ => None end
    end in
  let fix go_clauses (cls : list (Lang.expr * list Lang.expr)) : option (list (sexpr * list sexpr)) :=
    match cls with
    | [] => Some []
    | (c, b) :: r => match sof_lang c, go_list b, go_clauses r with
                     | Some c', Some b', Some r' => Some ((c', b') :: r') | _, _, _ => None end
    end in
  match e with
  | Lang.Const c => match of_const c with Some k => Some (SConst k) | None => None end
  | Lang.Var x => Some (SVar x)
  | Lang.Lam ps rest body => match go_body body with Some b => Some (SLam ps rest (sbody_of b)) | None => None end
  | Lang.App f args => match sof_lang f, go_list args with Some f', Some a => Some (SApp f' a) | _, _ => None end
  | Lang.If c t e' => match sof_lang c, sof_lang t, sof_lang e' with
                      | Some a, Some b, Some d => Some (SIf a b d) | _, _, _ => None end
  | Lang.SetBang x e' => match sof_lang e' with Some a => Some (SSet x a) | None => None end
  | Lang.Begin es => match go_list es with Some b => Some (sseq_of b) | None => None end
  | Lang.Let bs body => match go_binds bs, go_body body with
                        | Some b, Some d => Some (SLet b (sbody_of d)) | _, _ => None end
  | Lang.LetStar bs body => match go_binds bs, go_body body with
                            | Some b, Some d => Some (sletstar_of b (sbody_of d)) | _, _ => None end
  | Lang.Letrec bs body => match go_binds bs, go_body body with
                           | Some b, Some d => Some (sletrec_of b (sbody_of d)) | _, _ => None end
  | Lang.NamedLet f bs body =>
      (* (let f ((x e) ...) body) = ((letrec ((f (lambda (x ...) body))) f) e ...) *)
      match go_binds bs, go_body body with
      | Some b, Some d =>
          Some (SApp (sletrec_of [(f, SLam (map fst b) None (sbody_of d))] (SVar f)) (map snd b))
      | _, _ => None
      end
  | Lang.And es => match go_list es with Some b => Some (sand_of b) | None => None end
  | Lang.Or es => match go_list es with Some b => Some (sor_of b) | None => None end
  | Lang.When c es => match sof_lang c, go_list es with
                      | Some c', Some b => Some (SIf c' (sseq_of b) s_void) | _, _ => None end
  | Lang.Unless c es => match sof_lang c, go_list es with
                        | Some c', Some b => Some (SIf c' s_void (sseq_of b)) | _, _ => None end
  | Lang.Cond cls els =>
      match go_clauses cls, (match els with Some b => go_list b | None => Some [] end) with
      | Some cls', Some b => Some (scond_of cls' (match els with Some _ => sseq_of b | None => s_void end))
      | _, _ => None
      end
  | _ => None
  end.

(* an evaluation unit: top-level (define x e) forms first, then expressions *)
Fixpoint ssplit_unit (forms : list Lang.expr) : option (list (ident * sexpr) * list sexpr) :=
  match forms with
  | [] => Some ([], [])
  | Lang.Define x e :: r =>
      match sof_lang e, ssplit_unit r with
      | Some e', Some (ds, m) => Some ((x, e') :: ds, m)
      | _, _ => None
      end
  | e :: r =>
      match sof_lang e, ssplit_unit r with
      | Some e', Some ([], m) => Some ([], e' :: m)
      | _, _ => None
      end
  end.
