(* Core — the core fragment of MiniSteel as a big-step, fuel-indexed, environment-passing evaluator.

   This is the SOURCE side of the C01 simulation theorem (coq/c01/Proofs_C01*.v); the TARGET side is
   the bytecode compiler + stack VM of lib/Bytecode.v.  The CEK machine of lib/Lang.v stays the oracle
   of the differential check; [of_lang] translates the Lang.v syntax of the fragment into [expr], so the
   three (Lang.run, ceval, vm_run o compile) can be run on the same generated programs.

   Steel facts encoded (DESIGN.md Appendix E): operands are evaluated left to right and the operator
   LAST; only #f is false; an application of a non-procedure is an error; a closure called with the
   wrong number of operands is an arity error; a free identifier is an error when it is reached. *)
From Coq Require Import ZArith List Bool String Lia.
From SV Require Import lib.Lang.
Import ListNotations.
Open Scope string_scope.

Definition ident := string.

Inductive cconst := KInt (z : Z) | KBool (b : bool) | KVoid.

(* primitives on integers / booleans (bound as globals, exactly like the engine's FuncV values) *)
Inductive cprim := QAdd | QSub | QMul | QLt | QLe | QGt | QGe | QNumEq | QNot | QZeroP.

Inductive expr :=
| EConst (c : cconst)
| EVar (x : ident)                                  (* innermost local binding, else global *)
| ELam (ps : list ident) (rest : option ident) (body : expr)   (* fixed parameters + optional rest parameter *)
| EApp (f : expr) (args : list expr)                (* operands left to right, operator LAST *)
| EIf (c t e : expr)
| ELet (bs : list (ident * expr)) (body : expr)     (* parallel let *)
| ESeq (e1 e2 : expr).                              (* (begin e1 e2) *)

Inductive errk := EArity | EType | ENotProc | EFree | EOverflow.

Inductive val :=
| VInt (z : Z) | VBool (b : bool) | VVoid
| VPrim (p : cprim)
| VClo (ps : list ident) (rest : option ident) (body : expr) (env : list (ident * val))
| VList (l : list val).                            (* the list a rest parameter is bound to *)

Definition env := list (ident * val).

Inductive result := Val (v : val) | Err (k : errk).

Fixpoint lookup {A} (x : ident) (l : list (ident * A)) : option A :=
  match l with
  | [] => None
  | (y, a) :: r => if String.eqb x y then Some a else lookup x r
  end.

(* bind xs to vs one after the other; later binders shadow earlier ones *)
Fixpoint bind {A} (xs : list ident) (vs : list A) (r : list (ident * A)) : list (ident * A) :=
  match xs, vs with
  | x :: xs', v :: vs' => bind xs' vs' ((x, v) :: r)
  | _, _ => r
  end.

Definition const_val (c : cconst) : val :=
  match c with KInt z => VInt z | KBool b => VBool b | KVoid => VVoid end.

(* ------------------------------------------------------------------ primitives, over "atoms" so that
   the source values and the VM values share one definition *)
Inductive atom := AInt (z : Z) | ABool (b : bool) | AOther.

Definition atom_truthy (a : atom) : bool := match a with ABool false => false | _ => true end.

Fixpoint atoms_ints (l : list atom) : option (list Z) :=
  match l with
  | [] => Some []
  | AInt z :: r => match atoms_ints r with Some zs => Some (z :: zs) | None => None end
  | _ => None
  end.

Fixpoint chainb (f : Z -> Z -> bool) (l : list Z) : bool :=
  match l with
  | a :: ((b :: _) as r) => f a b && chainb f r
  | _ => true
  end.

Definition cmp_prim (f : Z -> Z -> bool) (args : list atom) : atom + errk :=
  match atoms_ints args with
  | Some [] => inr EArity
  | Some zs => inl (ABool (chainb f zs))
  | None => inr EType
  end.

Definition prim_sem (p : cprim) (args : list atom) : atom + errk :=
  match p with
  | QAdd => match atoms_ints args with Some zs => inl (AInt (fold_left Z.add zs 0%Z)) | None => inr EType end
  | QMul => match atoms_ints args with Some zs => inl (AInt (fold_left Z.mul zs 1%Z)) | None => inr EType end
  | QSub => match atoms_ints args with
            | Some [] => inr EArity
            | Some [a] => inl (AInt (- a))
            | Some (a :: r) => inl (AInt (a - fold_left Z.add r 0))%Z
            | None => inr EType
            end
  | QLt => cmp_prim Z.ltb args
  | QLe => cmp_prim Z.leb args
  | QGt => cmp_prim Z.gtb args
  | QGe => cmp_prim Z.geb args
  | QNumEq => cmp_prim Z.eqb args
  | QNot => match args with [a] => inl (ABool (negb (atom_truthy a))) | _ => inr EArity end
  | QZeroP => match args with [AInt z] => inl (ABool (z =? 0)%Z) | [_] => inr EType | _ => inr EArity end
  end.

Definition val_atom (v : val) : atom :=
  match v with VInt z => AInt z | VBool b => ABool b | _ => AOther end.
Definition atom_val (a : atom) : val :=
  match a with AInt z => VInt z | ABool b => VBool b | AOther => VVoid end.
Definition truthy (v : val) : bool := atom_truthy (val_atom v).

Definition prim_apply (p : cprim) (vs : list val) : result :=
  match prim_sem p (map val_atom vs) with
  | inl a => Val (atom_val a)
  | inr k => Err k
  end.

(* ------------------------------------------------------------------ the evaluator *)
(* evaluate a list left to right with the evaluator [ev]; the first error / out-of-fuel wins *)
Fixpoint evals (ev : expr -> option result) (es : list expr) : option (list val + errk) :=
  match es with
  | [] => Some (inl [])
  | e :: r =>
    match ev e with
    | None => None
    | Some (Err k) => Some (inr k)
    | Some (Val v) =>
      match evals ev r with
      | None => None
      | Some (inr k) => Some (inr k)
      | Some (inl vs) => Some (inl (v :: vs))
      end
    end
  end.

(* parameter list of a closure, and the values they are bound to at a call with operands vs:
   fixed arity: exactly the operands; with a rest parameter: the first |ps| operands, then the list of
   the surplus operands (at least |ps| operands are required) *)
Definition params (ps : list ident) (rest : option ident) : list ident :=
  match rest with Some r => (ps ++ [r])%list | None => ps end.

Definition call_args (ps : list ident) (rest : option ident) (vs : list val) : option (list ident * list val) :=
  match rest with
  | None => if Nat.eqb (List.length ps) (List.length vs) then Some (ps, vs) else None
  | Some r => if Nat.leb (List.length ps) (List.length vs)
              then Some ((ps ++ [r])%list, (firstn (List.length ps) vs ++ [VList (skipn (List.length ps) vs)])%list)
              else None
  end.

Section Eval.
  Variable G : env.                       (* global bindings (primitives and top-level definitions) *)

  Fixpoint ceval (n : nat) (r : env) (e : expr) {struct n} : option result :=
    match n with
    | O => None
    | S n =>
      match e with
      | EConst c => Some (Val (const_val c))
      | EVar x =>
          match lookup x r with
          | Some v => Some (Val v)
          | None => match lookup x G with
                    | Some v => Some (Val v)
                    | None => Some (Err EFree)
                    end
          end
      | ELam ps rest body => Some (Val (VClo ps rest body r))
      | EApp f args =>
          match evals (ceval n r) args with
          | None => None
          | Some (inr k) => Some (Err k)
          | Some (inl vs) =>
            match ceval n r f with
            | None => None
            | Some (Err k) => Some (Err k)
            | Some (Val fv) =>
              match fv with
              | VClo ps rest body r' =>
                  match call_args ps rest vs with
                  | Some (xs, ws) => ceval n (bind xs ws r') body
                  | None => Some (Err EArity)
                  end
              | VPrim p => Some (prim_apply p vs)
              | _ => Some (Err ENotProc)
              end
            end
          end
      | EIf c t e' =>
          match ceval n r c with
          | None => None
          | Some (Err k) => Some (Err k)
          | Some (Val v) => if truthy v then ceval n r t else ceval n r e'
          end
      | ELet bs body =>
          match evals (ceval n r) (map snd bs) with
          | None => None
          | Some (inr k) => Some (Err k)
          | Some (inl vs) => ceval n (bind (map fst bs) vs r) body
          end
      | ESeq e1 e2 =>
          match ceval n r e1 with
          | None => None
          | Some (Err k) => Some (Err k)
          | Some (Val _) => ceval n r e2
          end
      end
    end.
End Eval.

(* ------------------------------------------------------------------ the initial global environment *)
Definition prim_table : list (ident * cprim) :=
  [("+", QAdd); ("-", QSub); ("*", QMul); ("<", QLt); ("<=", QLe); (">", QGt); (">=", QGe);
   ("=", QNumEq); ("not", QNot); ("zero?", QZeroP)].

Definition prim_env : env := map (fun p => (fst p, VPrim (snd p))) prim_table.

(* a program: global definitions (name, expression) evaluated in order, then a main expression.
   Each right-hand side is evaluated against the globals defined before it; a closure looks its global
   variables up when it is CALLED, in the global environment of the evaluation that calls it (so
   recursive and mutually recursive top-level functions work without a letrec). *)
Fixpoint run_defs (n : nat) (G : env) (ds : list (ident * expr)) : option (env + errk) :=
  match ds with
  | [] => Some (inl G)
  | (x, e) :: r =>
    match ceval G n [] e with
    | None => None
    | Some (Err k) => Some (inr k)
    | Some (Val v) => run_defs n ((x, v) :: G) r
    end
  end.

Definition run_program (n : nat) (ds : list (ident * expr)) (main : expr) : option result :=
  match run_defs n prim_env ds with
  | None => None
  | Some (inr k) => Some (Err k)
  | Some (inl G) => ceval G n [] main
  end.

(* ------------------------------------------------------------------ rendering (harness `canon`, Lang.canon) *)
Definition errk_name (k : errk) : string :=
  match k with
  | EArity => "ArityMismatch" | EType => "TypeMismatch" | ENotProc => "BadSyntax"
  | EFree => "Generic" | EOverflow => "Generic"
  end.

Definition canon_atom (a : atom) (other : string) : string :=
  match a with
  | AInt z => (if ((-9223372036854775808 <=? z) && (z <=? 9223372036854775807))%Z then "I" else "B")
              ++ Lang.z_to_string z
  | ABool true => "#t"
  | ABool false => "#f"
  | AOther => other
  end.

Fixpoint canon_val (v : val) : string :=
  match v with
  | VVoid => "#<void>"
  | VList l => "(" ++ Lang.join " " (map canon_val l) ++ ")"
  | VPrim _ | VClo _ _ _ _ => "#<procedure>"
  | _ => canon_atom (val_atom v) "?"
  end.

Definition render_result (r : option result) : string :=
  match r with
  | None => "FUEL"
  | Some (Val v) => "OK " ++ canon_val v
  | Some (Err k) => "ERR " ++ errk_name k
  end.

(* ------------------------------------------------------------------ translation from the Lang.v syntax *)
Definition of_const (c : Lang.const) : option cconst :=
  match c with
  | Lang.CInt z => Some (KInt z) | Lang.CBool b => Some (KBool b) | Lang.CVoid => Some KVoid
  | _ => None
  end.

Fixpoint opt_all {A} (l : list (option A)) : option (list A) :=
  match l with
  | [] => Some []
  | Some a :: r => match opt_all r with Some r' => Some (a :: r') | None => None end
  | None :: _ => None
  end.

Fixpoint seq_of (es : list expr) : expr :=
  match es with
  | [] => EConst KVoid
  | [e] => e
  | e :: r => ESeq e (seq_of r)
  end.

(* derived forms are translated to the core forms the way the engine's macro expander reads them:
   (when c e...) = (if c (begin e...) void), (and a b ...) = (if a (and b ...) #f),
   (or a b ...) = (let ((t a)) (if t t (or b ...))) with a reserved temporary, cond = nested if,
   let* = nested let.  Named let / letrec / set! / define inside expressions / quote / strings ... are
   outside the fragment (None). *)
Definition or_tmp : ident := "%or-tmp".

Fixpoint and_of (es : list expr) : expr :=
  match es with
  | [] => EConst (KBool true)
  | [e] => e
  | e :: r => EIf e (and_of r) (EConst (KBool false))
  end.

Fixpoint or_of (es : list expr) : expr :=
  match es with
  | [] => EConst (KBool false)
  | [e] => e
  | e :: r => ELet [(or_tmp, e)] (EIf (EVar or_tmp) (EVar or_tmp) (or_of r))
  end.

Fixpoint letstar_of (bs : list (ident * expr)) (body : expr) : expr :=
  match bs with
  | [] => ELet [] body
  | b :: r => ELet [b] (letstar_of r body)
  end.

Fixpoint cond_of (cls : list (expr * list expr)) (els : expr) : expr :=
  match cls with
  | [] => els
  | (c, []) :: r => ELet [(or_tmp, c)] (EIf (EVar or_tmp) (EVar or_tmp) (cond_of r els))
  | (c, b) :: r => EIf c (seq_of b) (cond_of r els)
  end.

Fixpoint of_lang (e : Lang.expr) : option expr :=
  let fix go_list (es : list Lang.expr) : option (list expr) :=
    match es with
    | [] => Some []
    | e :: r => match of_lang e, go_list r with Some a, Some b => Some (a :: b) | _, _ => None end
    end in
  let fix go_binds (bs : list (Lang.ident * Lang.expr)) : option (list (ident * expr)) :=
    match bs with
    | [] => Some []
    | (x, e) :: r => match of_lang e, go_binds r with Some a, Some b => Some ((x, a) :: b) | _, _ => None end
    end in
  let fix go_clauses (cls : list (Lang.expr * list Lang.expr)) : option (list (expr * list expr)) :=
    match cls with
    | [] => Some []
    | (c, b) :: r => match of_lang c, go_list b, go_clauses r with
                     | Some c', Some b', Some r' => Some ((c', b') :: r') | _, _, _ => None end
    end in
  match e with
  | Lang.Const c => match of_const c with Some k => Some (EConst k) | None => None end
  | Lang.Var x => Some (EVar x)
  | Lang.Lam ps rest body => match go_list body with Some b => Some (ELam ps rest (seq_of b)) | None => None end
  | Lang.App f args => match of_lang f, go_list args with Some f', Some a => Some (EApp f' a) | _, _ => None end
  | Lang.If c t e' => match of_lang c, of_lang t, of_lang e' with
                      | Some a, Some b, Some d => Some (EIf a b d) | _, _, _ => None end
  | Lang.Begin es => match go_list es with Some b => Some (seq_of b) | None => None end
  | Lang.Let bs body => match go_binds bs, go_list body with
                        | Some b, Some d => Some (ELet b (seq_of d)) | _, _ => None end
  | Lang.LetStar bs body => match go_binds bs, go_list body with
                            | Some b, Some d => Some (letstar_of b (seq_of d)) | _, _ => None end
  | Lang.And es => match go_list es with Some b => Some (and_of b) | None => None end
  | Lang.Or es => match go_list es with Some b => Some (or_of b) | None => None end
  | Lang.When c es => match of_lang c, go_list es with
                      | Some c', Some b => Some (EIf c' (seq_of b) (EConst KVoid)) | _, _ => None end
  | Lang.Unless c es => match of_lang c, go_list es with
                        | Some c', Some b => Some (EIf c' (EConst KVoid) (seq_of b)) | _, _ => None end
  | Lang.Cond cls els =>
      match go_clauses cls, (match els with Some b => go_list b | None => Some [] end) with
      | Some cls', Some b => Some (cond_of cls' (match els with Some _ => seq_of b | None => EConst KVoid end))
      | _, _ => None
      end
  | _ => None
  end.

(* a Lang.v evaluation unit of the fragment: (define f e) ... then expressions; the value of the unit is
   the value of its last expression form *)
Fixpoint split_unit (forms : list Lang.expr) : option (list (ident * expr) * list expr) :=
  match forms with
  | [] => Some ([], [])
  | Lang.Define x e :: r =>
      match of_lang e, split_unit r with
      | Some e', Some (ds, m) => Some ((x, e') :: ds, m)
      | _, _ => None
      end
  | e :: r =>
      match of_lang e, split_unit r with
      | Some e', Some ([], m) => Some ([], e' :: m)   (* defines after expressions: outside the fragment *)
      | _, _ => None
      end
  end.
